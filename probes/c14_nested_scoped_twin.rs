//@ property: C14
//@ expect: accept
#![allow(unused, dead_code)]
use happylock::*;
use happylock::collection::*;
use happylock::lockable::*;

fn f(m: &Mutex<i32>, n: &Mutex<i32>, mut k: ThreadKey) { m.scoped_lock(&mut k, |a| { *a = 1; }); n.scoped_lock(&mut k, |b| { *b = 1; }); }
