//@ property: C14
//@ expect: accept
#![allow(unused, dead_code)]
use happylock::*;
use happylock::collection::*;
use happylock::lockable::*;

fn f() { let k = ThreadKey::get(); }
