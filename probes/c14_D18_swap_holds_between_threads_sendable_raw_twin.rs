//@ property: C14
//@ expect: accept
#![allow(unused, dead_code)]
use happylock::*;
use happylock::collection::*;
use happylock::lockable::*;

// a correct spinning raw mutex whose guards may be sent (GuardSend), as e.g. `spin` provides
pub struct SpinRaw(std::sync::atomic::AtomicBool);
unsafe impl lock_api::RawMutex for SpinRaw {
    const INIT: Self = SpinRaw(std::sync::atomic::AtomicBool::new(false));
    type GuardMarker = lock_api::GuardSend;
    fn lock(&self) { while !self.try_lock() {} }
    fn try_lock(&self) -> bool { !self.0.swap(true, std::sync::atomic::Ordering::Acquire) }
    unsafe fn unlock(&self) { self.0.store(false, std::sync::atomic::Ordering::Release) }
}
type SMutex<T> = happylock::mutex::Mutex<T, SpinRaw>;

// the same program without lending the hold to the other thread
fn f(ca: &LockCollection<SMutex<i32>>, cb: &LockCollection<SMutex<i32>>, k: ThreadKey) {
    let mut ga = ca.lock(k);
    let lent: &mut happylock::mutex::MutexRef<'_, i32, SpinRaw> = &mut *ga;
    **lent += 1;
    std::thread::scope(|s| {
        s.spawn(move || {
            let kb = ThreadKey::get().unwrap();
            let mut gb = cb.lock(kb);
            **gb += 1;
            let _kb = LockCollection::<SMutex<i32>>::unlock(gb);
        });
    });
}
