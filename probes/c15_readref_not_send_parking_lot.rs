//@ property: C15
//@ expect: reject E0277
#![allow(unused, dead_code)]
use happylock::*;

fn need_send<T: Send>() {}
fn f() { need_send::<happylock::rwlock::RwLockReadRef<'static, i32, parking_lot::RawRwLock>>(); }
