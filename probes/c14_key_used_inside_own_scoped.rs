//@ property: C14
//@ expect: reject E0505
#![allow(unused, dead_code)]
use happylock::*;
use happylock::collection::*;
use happylock::lockable::*;

fn f(m: &Mutex<i32>, n: &Mutex<i32>, k: ThreadKey) { let mut k = k; m.scoped_lock(&mut k, |a| { let g = n.lock(k); }); }
