//@ property: C14
//@ expect: reject E0277
#![allow(unused, dead_code)]
use happylock::*;
use happylock::collection::*;
use happylock::lockable::*;

fn f(k: ThreadKey) { std::thread::spawn(move || { drop(k); }); }
