//@ property: C14
//@ expect: reject E0616
#![allow(unused, dead_code)]
use happylock::*;
use happylock::collection::*;
use happylock::lockable::*;

fn f(m: &Mutex<i32>, k: ThreadKey) -> ThreadKey { let g = m.lock(k); g.thread_key }
