//@ property: C15
//@ expect: accept
#![allow(unused, dead_code)]
use happylock::*;
use happylock::collection::*;
use happylock::lockable::*;

fn is_sync<T: Sync>() {} fn f() { is_sync::<happylock::mutex::MutexRef<'static, i32, parking_lot::RawMutex>>(); }
