//@ property: C15
//@ expect: reject E0277|E0599
#![allow(unused, dead_code)]
use happylock::*;
use happylock::collection::*;
use happylock::lockable::*;

fn f<'a>(a: &'a Mutex<i32>, b: &'a Mutex<i32>) {
    let mut c = RetryingLockCollection::try_new(vec![a, b]).unwrap();
    for slot in c.iter_mut() { *slot = a; }
}
