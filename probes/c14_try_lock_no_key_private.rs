//@ property: C14
//@ expect: reject E0624
#![allow(unused, dead_code)]
use happylock::*;
use happylock::collection::*;
use happylock::lockable::*;

fn f(m: &Mutex<i32>) { let g = unsafe { m.try_lock_no_key() }; }
