//@ property: C15
//@ expect: reject E0277
#![allow(unused, dead_code)]
use happylock::*;
use happylock::collection::*;
use happylock::lockable::*;

fn f(m: &Mutex<i32>) { let a = LockCollection::try_new(m).unwrap(); let b = LockCollection::try_new(m).unwrap(); let both = LockCollection::new((a, b)); }
