//@ property: C15
//@ expect: accept
#![allow(unused, dead_code)]
use happylock::*;
use happylock::collection::*;
use happylock::lockable::*;

fn f(m: Mutex<i32>, n: Mutex<i32>) { let a = LockCollection::new(m); let b = LockCollection::new(n); let both = LockCollection::new((a, b)); }
