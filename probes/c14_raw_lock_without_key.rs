//@ property: C14
//@ expect: reject E0133
#![allow(unused, dead_code)]
use happylock::*;
use happylock::collection::*;
use happylock::lockable::*;

fn f(m: &Mutex<i32>) { use lock_api::RawMutex; m.raw().lock(); }
