//@ property: C15
//@ expect: reject E0277
#![allow(unused, dead_code)]
use happylock::*;

fn need_send<T: Send>() {}
// the key-less write hold of a default (parking_lot) RwLock must stay on its thread
fn f() { need_send::<happylock::rwlock::RwLockWriteRef<'static, i32, parking_lot::RawRwLock>>(); }
