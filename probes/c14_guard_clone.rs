//@ property: C14
//@ expect: reject E0277
#![allow(unused, dead_code)]
use happylock::*;
use happylock::collection::*;
use happylock::lockable::*;

fn f(m: &Mutex<i32>, k: ThreadKey) { let g = m.lock(k); fn need_clone<T: Clone>(_: &T) {} need_clone(&g); }
