//@ property: C14
//@ expect: accept
//@ finding: D6
#![allow(unused, dead_code)]
use happylock::*;
use happylock::collection::*;
use happylock::lockable::*;

fn f(p: &Poisonable<LockCollection<Vec<Mutex<i32>>>>, k: ThreadKey) -> ThreadKey { let mut g = p.lock(k).unwrap(); let stolen = std::mem::take(g.as_mut()); let k = Poisonable::<LockCollection<Vec<Mutex<i32>>>>::unlock(g); std::mem::forget(stolen); k }
