//@ property: C15
//@ expect: reject E0277
#![allow(unused, dead_code)]
use happylock::*;
use happylock::collection::*;
use happylock::lockable::*;

fn f(o: &OwnedLockCollection<Vec<Mutex<i32>>>) { for m in o { } }
