//@ property: C15
//@ expect: accept
#![allow(unused, dead_code)]
use happylock::*;
use happylock::collection::*;
use happylock::lockable::*;

fn f(o: &mut OwnedLockCollection<(Mutex<i32>, Mutex<i32>)>) { let c = o.get_mut(); }
