//@ property: C15
//@ expect: accept
#![allow(unused, dead_code)]
use happylock::*;
use happylock::collection::*;
use happylock::lockable::*;

fn f(a: Mutex<i32>, b: Mutex<i32>) { let t = (a, b); let c = LockCollection::new_ref(&t); }
