//@ property: C14
//@ expect: accept
#![allow(unused, dead_code)]
use happylock::*;
use happylock::collection::*;
use happylock::lockable::*;

struct MyKey;
