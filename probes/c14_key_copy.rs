//@ property: C14
//@ expect: reject E0382
#![allow(unused, dead_code)]
use happylock::*;
use happylock::collection::*;
use happylock::lockable::*;

fn f(k: ThreadKey) { let a = k; let b = k; }
