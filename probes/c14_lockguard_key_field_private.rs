//@ property: C14
//@ expect: reject E0616
#![allow(unused, dead_code)]
use happylock::*;
use happylock::collection::*;
use happylock::lockable::*;

fn f(c: &LockCollection<(Mutex<i32>,)>, k: ThreadKey) -> ThreadKey { let g = c.lock(k); g.key }
