//@ property: C15
//@ expect: reject E0597
#![allow(unused, dead_code)]
use happylock::*;
use happylock::collection::*;
use happylock::lockable::*;

fn f(k: ThreadKey) -> i32 { let g; { let m: Mutex<i32> = Mutex::new(0); g = m.lock(k); } *g }
