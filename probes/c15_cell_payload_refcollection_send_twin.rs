//@ property: C15
//@ expect: accept
#![allow(unused, dead_code)]
use happylock::*;
use happylock::collection::*;
use happylock::lockable::*;

fn f(c: RefLockCollection<'static, RwLock<i32>>) { std::thread::spawn(move || { drop(c); }); }
