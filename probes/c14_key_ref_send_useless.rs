//@ property: C14
//@ expect: accept
#![allow(unused, dead_code)]
use happylock::*;
use happylock::collection::*;
use happylock::lockable::*;

fn f(k: &'static ThreadKey) { std::thread::spawn(move || { drop(k); }); } // &ThreadKey is Sync but useless: no API takes &ThreadKey
