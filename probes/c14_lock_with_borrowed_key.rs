//@ property: C14
//@ expect: reject E0308
#![allow(unused, dead_code)]
use happylock::*;
use happylock::collection::*;
use happylock::lockable::*;

fn f(m: &Mutex<i32>, mut k: ThreadKey) { let g = m.lock(&mut k); }
