//@ property: C14
//@ expect: reject E0277
#![allow(unused, dead_code)]
use happylock::*;
use happylock::collection::*;
use happylock::lockable::*;

struct MyKey; unsafe impl Keyable for MyKey {}
