//@ property: C14
//@ expect: reject E0277
#![allow(unused, dead_code)]
use happylock::*;
use happylock::collection::*;
use happylock::lockable::*;

// a correct spinning raw mutex whose guards may be sent (GuardSend), as e.g. `spin` provides
pub struct SpinRaw(std::sync::atomic::AtomicBool);
unsafe impl lock_api::RawMutex for SpinRaw {
    const INIT: Self = SpinRaw(std::sync::atomic::AtomicBool::new(false));
    type GuardMarker = lock_api::GuardSend;
    fn lock(&self) { while !self.try_lock() {} }
    fn try_lock(&self) -> bool { !self.0.swap(true, std::sync::atomic::Ordering::Acquire) }
    unsafe fn unlock(&self) { self.0.store(false, std::sync::atomic::Ordering::Release) }
}
type SMutex<T> = happylock::mutex::Mutex<T, SpinRaw>;

// thread A lends the key-less hold inside its guard to thread B, which swaps it with the hold inside
// its own guard: B's unlock then releases A's lock and returns B's key while B's lock stays held
fn f(ca: &LockCollection<SMutex<i32>>, cb: &LockCollection<SMutex<i32>>, k: ThreadKey) {
    let mut ga = ca.lock(k);
    let lent: &mut happylock::mutex::MutexRef<'_, i32, SpinRaw> = &mut *ga;
    std::thread::scope(|s| {
        s.spawn(move || {
            let kb = ThreadKey::get().unwrap();
            let mut gb = cb.lock(kb);
            std::mem::swap(lent, &mut *gb);
            let _kb = LockCollection::<SMutex<i32>>::unlock(gb);
        });
    });
}
