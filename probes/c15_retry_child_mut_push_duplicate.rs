//@ property: C15
//@ expect: reject E0277
#![allow(unused, dead_code)]
use happylock::*;
use happylock::collection::*;
use happylock::lockable::*;

// after try_new has tested for duplicates, a lock that is already inside must not be addable
fn f<'a>(a: &'a Mutex<i32>, b: &'a Mutex<i32>) {
    let mut c = RetryingLockCollection::try_new(vec![a, b]).unwrap();
    c.child_mut().push(a);
}
