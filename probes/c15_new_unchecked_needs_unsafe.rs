//@ property: C15
//@ expect: reject E0133
#![allow(unused, dead_code)]
use happylock::*;
use happylock::collection::*;
use happylock::lockable::*;

fn f(a: &Mutex<i32>) { let c = LockCollection::new_unchecked((a, a)); }
