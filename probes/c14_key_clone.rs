//@ property: C14
//@ expect: reject E0599
#![allow(unused, dead_code)]
use happylock::*;
use happylock::collection::*;
use happylock::lockable::*;

fn f(k: ThreadKey) { let k2 = k.clone(); }
