//@ property: C14
//@ expect: accept
#![allow(unused, dead_code)]
use happylock::*;
use happylock::collection::*;
use happylock::lockable::*;

fn f(m: &'static Mutex<i32>, k: ThreadKey) { let g = m.lock(k); drop(g); std::thread::spawn(move || { drop(m); }); }
