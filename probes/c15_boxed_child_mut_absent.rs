//@ property: C15
//@ expect: reject E0599
#![allow(unused, dead_code)]
use happylock::*;
use happylock::collection::*;
use happylock::lockable::*;

fn f(c: &mut LockCollection<Vec<Mutex<i32>>>) { let v = c.child_mut(); }
