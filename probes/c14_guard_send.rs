//@ property: C14
//@ expect: reject E0277
#![allow(unused, dead_code)]
use happylock::*;
use happylock::collection::*;
use happylock::lockable::*;

fn f(m: &'static Mutex<i32>, k: ThreadKey) { let g = m.lock(k); std::thread::spawn(move || { drop(g); }); }
