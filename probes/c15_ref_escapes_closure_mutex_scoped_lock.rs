//@ property: C15
//@ expect: reject lifetime
#![allow(unused, dead_code)]
use happylock::*;
use happylock::collection::*;
use happylock::lockable::*;

fn f(m: &Mutex<i32>, k: &mut ThreadKey) { let r = m.scoped_lock(k, |d| d); }
