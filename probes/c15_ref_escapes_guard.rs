//@ property: C15
//@ expect: reject E0597
#![allow(unused, dead_code)]
use happylock::*;
use happylock::collection::*;
use happylock::lockable::*;

fn f(m: &Mutex<i32>, k: ThreadKey) -> i32 { let r: &i32; { let g = m.lock(k); r = &*g; } *r }
