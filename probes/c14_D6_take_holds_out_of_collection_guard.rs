//@ property: C14
//@ expect: accept
//@ finding: D6
#![allow(unused, dead_code)]
use happylock::*;
use happylock::collection::*;
use happylock::lockable::*;

fn f(a: &Mutex<i32>, b: &Mutex<i32>, k: ThreadKey) -> ThreadKey { let c = LockCollection::try_new(vec![a, b]).unwrap(); let mut g = c.lock(k); let stolen = std::mem::take(&mut *g); let k = LockCollection::<Vec<&Mutex<i32>>>::unlock(g); std::mem::forget(stolen); k }
