//@ property: C15
//@ expect: reject E0599
#![allow(unused, dead_code)]
use happylock::*;
use happylock::collection::*;
use happylock::lockable::*;

fn f(o: &OwnedLockCollection<(Mutex<i32>, Mutex<i32>)>) { let c = o.child(); }
