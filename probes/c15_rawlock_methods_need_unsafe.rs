//@ property: C15
//@ expect: reject E0133
#![allow(unused, dead_code)]
use happylock::*;
use happylock::collection::*;
use happylock::lockable::*;

fn f(m: &Mutex<i32>) { RawLock::raw_write(m); }
