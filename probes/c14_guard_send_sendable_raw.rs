//@ property: C14
//@ expect: reject E0277
#![allow(unused, dead_code)]
use happylock::*;
use happylock::collection::*;
use happylock::lockable::*;

// a correct spinning raw mutex/rwlock whose guards may be sent (GuardSend), as e.g. `spin` provides
pub struct SpinRaw(std::sync::atomic::AtomicBool);
unsafe impl lock_api::RawMutex for SpinRaw {
    const INIT: Self = SpinRaw(std::sync::atomic::AtomicBool::new(false));
    type GuardMarker = lock_api::GuardSend;
    fn lock(&self) { while !self.try_lock() {} }
    fn try_lock(&self) -> bool { !self.0.swap(true, std::sync::atomic::Ordering::Acquire) }
    unsafe fn unlock(&self) { self.0.store(false, std::sync::atomic::Ordering::Release) }
}
type SMutex<T> = happylock::mutex::Mutex<T, SpinRaw>;

fn f(m: &'static SMutex<i32>, k: ThreadKey) { let g = m.lock(k); std::thread::spawn(move || { drop(g); }); }
