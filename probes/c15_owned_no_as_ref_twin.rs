//@ property: C15
//@ expect: accept
#![allow(unused, dead_code)]
use happylock::*;
use happylock::collection::*;
use happylock::lockable::*;

fn f(o: &LockCollection<Vec<Mutex<i32>>>) { let c: &[Mutex<i32>] = o.as_ref(); }
