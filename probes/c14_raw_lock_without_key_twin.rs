//@ property: C14
//@ expect: accept
#![allow(unused, dead_code)]
use happylock::*;
use happylock::collection::*;
use happylock::lockable::*;

fn f(m: &Mutex<i32>) { use lock_api::RawMutex; unsafe { m.raw().lock(); } }
