//@ property: C15
//@ expect: accept
//@ finding: D8c
#![allow(unused, dead_code)]
use happylock::*;
use happylock::collection::*;
use happylock::lockable::*;

fn f(c: &LockCollection<(Mutex<i32>,)>, k: &mut ThreadKey) -> i32 { let r: &mut i32 = c.scoped_lock(&mut *k, |d| d.0); let s: &mut i32 = c.scoped_lock(&mut *k, |d| d.0); *r = 1; *s = 2; *r }
