//@ property: C15
//@ expect: reject E0599
#![allow(unused, dead_code)]
use happylock::*;
use happylock::collection::*;
use happylock::lockable::*;

fn f(o: &OwnedLockCollection<Vec<Mutex<i32>>>) { let c: &[Mutex<i32>] = o.as_ref(); }
