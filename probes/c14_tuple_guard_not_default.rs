//@ property: C14
//@ expect: reject E0277
#![allow(unused, dead_code)]
use happylock::*;
use happylock::collection::*;
use happylock::lockable::*;

fn f(a: &Mutex<i32>, b: &Mutex<i32>, k: ThreadKey) { let c = LockCollection::try_new((a, b)).unwrap(); let mut g = c.lock(k); let stolen = std::mem::take(&mut *g); }
