//@ property: C15
//@ expect: reject E0277
#![allow(unused, dead_code)]
use happylock::*;
use happylock::collection::*;
use happylock::lockable::*;

fn is_sync<T: Sync>() {} fn f() { is_sync::<happylock::mutex::MutexRef<'static, std::cell::Cell<i32>, parking_lot::RawMutex>>(); }
