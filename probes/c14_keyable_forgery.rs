//@ property: C14
//@ expect: reject E0603
#![allow(unused, dead_code)]
use happylock::*;
use happylock::collection::*;
use happylock::lockable::*;

struct MyKey; impl happylock::key::sealed::Sealed for MyKey {} unsafe impl Keyable for MyKey {}
