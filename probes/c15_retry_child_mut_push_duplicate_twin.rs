//@ property: C15
//@ expect: accept
#![allow(unused, dead_code)]
use happylock::*;
use happylock::collection::*;
use happylock::lockable::*;

// a collection that owns its locks may grow: nothing it can receive is already inside
fn f() {
    let mut c = RetryingLockCollection::new(vec![Mutex::new(1), Mutex::new(2)]);
    c.child_mut().push(Mutex::new(3));
}
