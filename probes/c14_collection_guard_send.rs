//@ property: C14
//@ expect: reject E0277
#![allow(unused, dead_code)]
use happylock::*;
use happylock::collection::*;
use happylock::lockable::*;

fn f(c: &'static LockCollection<(Mutex<i32>, Mutex<i32>)>, k: ThreadKey) { let g = c.lock(k); std::thread::spawn(move || { drop(g); }); }
