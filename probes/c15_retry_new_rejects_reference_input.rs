//@ property: C15
//@ expect: reject E0277
#![allow(unused, dead_code)]
use happylock::*;
use happylock::collection::*;
use happylock::lockable::*;

fn f(a: &Mutex<i32>) { let c = RetryingLockCollection::new([a, a]); }
