//@ property: C15
//@ expect: reject E0277
#![allow(unused, dead_code)]
use happylock::*;
use happylock::collection::*;
use happylock::lockable::*;

fn f(m: &'static RwLock<std::cell::Cell<i32>>) { std::thread::spawn(move || { drop(m); }); }
