//@ property: C14
//@ expect: accept
#![allow(unused, dead_code)]
use happylock::*;
use happylock::collection::*;
use happylock::lockable::*;

fn f(k: ThreadKey) { let v = 5u32; std::thread::spawn(move || { drop(v); }); drop(k); }
