//@ property: C15
//@ expect: accept
#![allow(unused, dead_code)]
use happylock::*;
use happylock::collection::*;
use happylock::lockable::*;

fn f(k: ThreadKey) -> i32 { let m: Mutex<i32> = Mutex::new(0); let g = m.lock(k); *g }
