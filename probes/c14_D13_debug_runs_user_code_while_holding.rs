//@ property: C14
//@ expect: accept
//@ finding: D13
#![allow(unused, dead_code)]
use happylock::*;
use std::fmt;

// Debug for Mutex try-locks WITHOUT a key and formats the payload while holding: the payload's
// own Debug impl still has the thread's key and can block on any lock (here: another mutex)
struct Payload(&'static Mutex<i32>);
impl fmt::Debug for Payload {
    fn fmt(&self, f: &mut fmt::Formatter<'_>) -> fmt::Result {
        let key = ThreadKey::get().unwrap();
        let g = self.0.lock(key);
        write!(f, "{}", *g)
    }
}
fn f(m: &Mutex<Payload>) -> String { format!("{:?}", m) }
