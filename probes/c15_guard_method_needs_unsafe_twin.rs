//@ property: C15
//@ expect: accept
#![allow(unused, dead_code)]
use happylock::*;
use happylock::collection::*;
use happylock::lockable::*;

fn f(m: &Mutex<i32>) { let g = unsafe { Lockable::guard(m) }; }
