//@ property: C15
//@ expect: accept
#![allow(unused, dead_code)]
use happylock::*;
use happylock::collection::*;
use happylock::lockable::*;

fn f(m: &Mutex<i32>, k: ThreadKey) -> i32 { let v: i32; { let g = m.lock(k); v = *g; } v }
