//@ property: C14
//@ expect: reject E0382
#![allow(unused, dead_code)]
use happylock::*;
use happylock::collection::*;
use happylock::lockable::*;

fn f(m: &Mutex<i32>, k: ThreadKey) { let g = m.lock(k); let k = Mutex::unlock(g); let v = *g; }
