//@ property: C15
//@ expect: accept
#![allow(unused, dead_code)]
use happylock::*;
use happylock::collection::*;
use happylock::lockable::*;

fn f(m: &Mutex<i32>) { unsafe { RawLock::raw_write(m); RawLock::raw_unlock_write(m); } }
