//@ property: C14
//@ expect: accept
//@ finding: D6
#![allow(unused, dead_code)]
use happylock::*;
use happylock::collection::*;
use happylock::lockable::*;

fn f(c: &LockCollection<(Poisonable<LockCollection<Vec<Mutex<i32>>>>, Mutex<i32>)>, k: ThreadKey) { let mut g = c.lock(k); let pref = g.0.as_mut().unwrap(); let stolen = std::mem::take(&mut **pref); drop(g); std::mem::forget(stolen); }
