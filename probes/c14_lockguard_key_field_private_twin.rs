//@ property: C14
//@ expect: accept
#![allow(unused, dead_code)]
use happylock::*;
use happylock::collection::*;
use happylock::lockable::*;

fn f(c: &LockCollection<(Mutex<i32>,)>, k: ThreadKey) -> ThreadKey { let g = c.lock(k); LockCollection::<(Mutex<i32>,)>::unlock(g) }
