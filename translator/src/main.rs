//! hlv-translator <repo-src-dir> <out.lean>
//! Regenerates HLV/Generated/Facts.lean from the Rust sources: structs, traits, impls (with
//! bounds), function signatures (visibility, unsafety, receiver, parameter and return types,
//! lifetimes), and the names each function body calls. Identifiers become `Nat` codes with a
//! symbol table (the kernel evaluates `Nat`, not strings).
use std::collections::BTreeMap;
use std::fmt::Write as _;

use proc_macro2::{Delimiter, TokenStream, TokenTree};
use quote::ToTokens;
use syn::visit::Visit;

#[derive(Default)]
struct Syms {
	map: BTreeMap<String, usize>,
	order: Vec<String>,
}
impl Syms {
	fn get(&mut self, s: &str) -> usize {
		if let Some(i) = self.map.get(s) {
			return *i;
		}
		let i = self.order.len() + 2; // 0 = elided lifetime / none, 1 = 'static
		self.map.insert(s.to_string(), i);
		self.order.push(s.to_string());
		i
	}
}

struct Ctx {
	/// the function being read belongs to an `impl RawLock for …` (its call record is always emitted)
	want_calls: bool,
	syms: Syms,
	structs: Vec<String>,
	traits: Vec<String>,
	impls: Vec<String>,
	fns: Vec<String>,
	errors: Vec<String>,
}

fn list(items: &[String]) -> String {
	format!("[{}]", items.join(", "))
}

impl Ctx {
	fn lt(&mut self, l: &syn::Lifetime) -> usize {
		let n = l.ident.to_string();
		if n == "_" {
			0
		} else if n == "static" {
			1
		} else {
			self.syms.get(&format!("'{n}"))
		}
	}

	fn path_args(&mut self, args: &syn::PathArguments) -> Vec<String> {
		let mut out = Vec::new();
		match args {
			syn::PathArguments::None => {}
			syn::PathArguments::AngleBracketed(a) => {
				for g in &a.args {
					match g {
						syn::GenericArgument::Lifetime(l) => {
							let n = self.lt(l);
							out.push(format!("Ty.lt {n}"))
						}
						syn::GenericArgument::Type(t) => out.push(self.ty(t)),
						syn::GenericArgument::AssocType(a) => {
							let n = self.syms.get(&a.ident.to_string());
							let t = self.ty(&a.ty);
							out.push(format!("Ty.assoc Ty.other {n} [{t}]"))
						}
						_ => out.push("Ty.other".into()),
					}
				}
			}
			syn::PathArguments::Parenthesized(_) => {}
		}
		out
	}

	fn bound(&mut self, b: &syn::TypeParamBound) -> String {
		match b {
			syn::TypeParamBound::Trait(t) => {
				let maybe = matches!(t.modifier, syn::TraitBoundModifier::Maybe(_));
				let p = self.path_ty(None, &t.path);
				if maybe {
					// ?Sized: recorded as a path type wrapped in a 1-tuple marker
					format!("Ty.tup [{p}, Ty.other]")
				} else {
					p
				}
			}
			syn::TypeParamBound::Lifetime(l) => {
				let n = self.lt(l);
				format!("Ty.lt {n}")
			}
			_ => "Ty.other".into(),
		}
	}

	fn path_ty(&mut self, qself: Option<&syn::QSelf>, p: &syn::Path) -> String {
		let segs: Vec<&syn::PathSegment> = p.segments.iter().collect();
		let last = segs.last().unwrap();
		// Fn-trait sugar
		if let syn::PathArguments::Parenthesized(pa) = &last.arguments {
			let kind = self.syms.get(&last.ident.to_string());
			let args: Vec<String> = pa.inputs.iter().map(|t| self.ty(t)).collect();
			let ret = match &pa.output {
				syn::ReturnType::Default => "Ty.tup []".to_string(),
				syn::ReturnType::Type(_, t) => self.ty(t),
			};
			return format!("Ty.fnTrait {kind} {} ({ret})", list(&args));
		}
		let name = self.syms.get(&last.ident.to_string());
		let args = self.path_args(&last.arguments);
		if let Some(q) = qself {
			// <T as Trait>::Name<args>
			let base = self.ty(&q.ty);
			return format!("Ty.assoc ({base}) {name} {}", list(&args));
		}
		if segs.len() >= 2 {
			let first = segs[0].ident.to_string();
			// `L::Guard<'g>`, `Self::Target`, `T::Inner<'a>`: associated type of a type parameter
			let is_param_like = first == "Self" || (first.len() <= 2 && first.chars().all(|c| c.is_ascii_uppercase() || c.is_ascii_digit()))
				|| first == "Key" || first == "Guard";
			if segs.len() == 2 && is_param_like {
				let b = self.syms.get(&first);
				return format!("Ty.assoc (Ty.path {b} []) {name} {}", list(&args));
			}
		}
		format!("Ty.path {name} {}", list(&args))
	}

	fn ty(&mut self, t: &syn::Type) -> String {
		match t {
			syn::Type::Path(p) => self.path_ty(p.qself.as_ref(), &p.path),
			syn::Type::Reference(r) => {
				let lt = r.lifetime.as_ref().map(|l| self.lt(l)).unwrap_or(0);
				let inner = self.ty(&r.elem);
				format!("Ty.ref {lt} {} ({inner})", r.mutability.is_some())
			}
			syn::Type::Ptr(p) => {
				let inner = self.ty(&p.elem);
				format!("Ty.ptr {} ({inner})", p.mutability.is_some())
			}
			syn::Type::Tuple(t) => {
				let v: Vec<String> = t.elems.iter().map(|e| self.ty(e)).collect();
				format!("Ty.tup {}", list(&v))
			}
			syn::Type::Slice(s) => format!("Ty.slice ({})", self.ty(&s.elem)),
			syn::Type::Array(a) => format!("Ty.arr ({})", self.ty(&a.elem)),
			syn::Type::Paren(p) => self.ty(&p.elem),
			syn::Type::Group(p) => self.ty(&p.elem),
			syn::Type::ImplTrait(i) => {
				let v: Vec<String> = i.bounds.iter().map(|b| self.bound(b)).collect();
				format!("Ty.impl {}", list(&v))
			}
			syn::Type::TraitObject(i) => {
				let v: Vec<String> = i.bounds.iter().map(|b| self.bound(b)).collect();
				format!("Ty.dyn {}", list(&v))
			}
			_ => "Ty.other".into(),
		}
	}

	fn generics(&mut self, g: &syn::Generics) -> (String, String) {
		let mut ps = Vec::new();
		for p in &g.params {
			match p {
				syn::GenericParam::Type(t) => {
					let n = self.syms.get(&t.ident.to_string());
					let b: Vec<String> = t.bounds.iter().map(|b| self.bound(b)).collect();
					ps.push(format!("{{ name := {n}, bounds := {}, isLifetime := false }}", list(&b)));
				}
				syn::GenericParam::Lifetime(l) => {
					let n = self.lt(&l.lifetime);
					let b: Vec<String> = l.bounds.iter().map(|x| format!("Ty.lt {}", self.lt(x))).collect();
					ps.push(format!("{{ name := {n}, bounds := {}, isLifetime := true }}", list(&b)));
				}
				syn::GenericParam::Const(c) => {
					let n = self.syms.get(&c.ident.to_string());
					ps.push(format!("{{ name := {n}, bounds := [], isLifetime := false, isConst := true }}"));
				}
			}
		}
		let mut ws = Vec::new();
		if let Some(w) = &g.where_clause {
			for pr in &w.predicates {
				if let syn::WherePredicate::Type(t) = pr {
					let lhs = self.ty(&t.bounded_ty);
					let b: Vec<String> = t.bounds.iter().map(|b| self.bound(b)).collect();
					ws.push(format!("({lhs}, {})", list(&b)));
				}
			}
		}
		(list(&ps), list(&ws))
	}

	fn vis(v: &syn::Visibility) -> usize {
		match v {
			syn::Visibility::Public(_) => 2,
			syn::Visibility::Restricted(_) => 1,
			syn::Visibility::Inherited => 0,
		}
	}

	fn fn_def(&mut self, vis: usize, sig: &syn::Signature, body: Option<&syn::Block>, test_only: bool) -> String {
		let name = self.syms.get(&sig.ident.to_string());
		let (gens, wheres) = self.generics(&sig.generics);
		let mut recv = "Recv.none".to_string();
		let mut params = Vec::new();
		for a in &sig.inputs {
			match a {
				syn::FnArg::Receiver(r) => {
					recv = if r.reference.is_some() {
						if r.mutability.is_some() {
							"Recv.refMut".into()
						} else {
							"Recv.ref".into()
						}
					} else {
						"Recv.value".into()
					};
				}
				syn::FnArg::Typed(t) => params.push(self.ty(&t.ty)),
			}
		}
		let ret = match &sig.output {
			syn::ReturnType::Default => "Ty.tup []".to_string(),
			syn::ReturnType::Type(_, t) => self.ty(t),
		};
		let mut callees: Vec<usize> = Vec::new();
		if let Some(b) = body {
			let mut v = Calls { names: Vec::new() };
			v.visit_block(b);
			for n in v.names {
				let i = self.syms.get(&n);
				if !callees.contains(&i) {
					callees.push(i);
				}
			}
		}
		// ownership events (C16): only for non-test functions that touch an ownership-sensitive primitive
		let mut own = String::new();
		if let (Some(b), false) = (body, test_only) {
			let mut v = OwnEvents { evs: Vec::new(), ren: Vec::new(), bound: 0 };
			v.visit_block(b);
			if v.evs.iter().any(|(n, _)| own_sensitive(n)) {
				let items: Vec<String> = v
					.evs
					.iter()
					.map(|(n, a)| {
						let i = self.syms.get(&format!("ev:{n}"));
						let j = if a.is_empty() { 0 } else { self.syms.get(&format!("op:{a}")) };
						format!("({i}, {j})")
					})
					.collect();
				own = format!(", own := {}", list(&items));
			}
		}
		// the kill-flag protocol (C12): the full call record of every function of an `impl RawLock`
		if let (Some(b), false, true) = (body, test_only, self.want_calls) {
			let mut v = OwnEvents { evs: Vec::new(), ren: Vec::new(), bound: 0 };
			v.visit_block(b);
			let items: Vec<String> = v
				.evs
				.iter()
				.map(|(n, a)| {
					let i = self.syms.get(&format!("ev:{n}"));
					let j = if a.is_empty() { 0 } else { self.syms.get(&format!("op:{a}")) };
					format!("({i}, {j})")
				})
				.collect();
			own.push_str(&format!(", calls := {}", list(&items)));
		}
		format!(
			"{{ name := {name}, vis := {vis}, isUnsafe := {}, isConst := {}, generics := {gens}, wheres := {wheres}, recv := {recv}, params := {}, ret := {ret}, callees := {:?}, testOnly := {test_only}{own} }}",
			sig.unsafety.is_some(),
			sig.constness.is_some(),
			list(&params),
			callees
		)
	}
}

struct Calls {
	names: Vec<String>,
}
fn scan_tokens(ts: TokenStream, out: &mut Vec<String>) {
	let toks: Vec<TokenTree> = ts.into_iter().collect();
	for (i, t) in toks.iter().enumerate() {
		match t {
			TokenTree::Ident(id) => {
				if let Some(TokenTree::Group(g)) = toks.get(i + 1) {
					if g.delimiter() == Delimiter::Parenthesis {
						out.push(id.to_string());
					}
				}
			}
			TokenTree::Group(g) => scan_tokens(g.stream(), out),
			_ => {}
		}
	}
}
impl<'ast> Visit<'ast> for Calls {
	fn visit_expr_method_call(&mut self, e: &'ast syn::ExprMethodCall) {
		self.names.push(e.method.to_string());
		syn::visit::visit_expr_method_call(self, e);
	}
	fn visit_expr_call(&mut self, e: &'ast syn::ExprCall) {
		if let syn::Expr::Path(p) = &*e.func {
			if let Some(s) = p.path.segments.last() {
				self.names.push(s.ident.to_string());
			}
		}
		syn::visit::visit_expr_call(self, e);
	}
	fn visit_macro(&mut self, m: &'ast syn::Macro) {
		if let Some(s) = m.path.segments.last() {
			self.names.push(format!("{}!", s.ident));
		}
		scan_tokens(m.tokens.clone(), &mut self.names);
	}
	fn visit_expr_struct(&mut self, e: &'ast syn::ExprStruct) {
		// constructing a value of a named type counts as a reference to it
		if let Some(s) = e.path.segments.last() {
			self.names.push(format!("{}{{}}", s.ident));
		}
		syn::visit::visit_expr_struct(self, e);
	}
}

/// ownership-sensitive primitives: anything that can make a value be dropped twice, never, or
/// be read without being initialised, in code that the borrow checker accepts
fn own_sensitive(name: &str) -> bool {
	let last = name.rsplit("::").next().unwrap_or(name);
	let qual = name.contains("::");
	matches!(
		last,
		"forget" | "from_raw" | "from_raw_parts" | "from_raw_parts_mut" | "into_raw" | "into_raw_parts" | "leak" | "drop_in_place"
			| "assume_init" | "assume_init_read" | "assume_init_drop" | "assume_init_mut" | "assume_init_ref" | "uninit" | "uninit_array"
			| "zeroed" | "transmute" | "transmute_copy" | "set_len" | "copy_nonoverlapping" | "read_unaligned" | "read_volatile"
			| "write_unaligned" | "write_volatile" | "write_bytes" | "ManuallyDrop" | "MaybeUninit"
	) || (qual && name.starts_with("ptr::") && matches!(last, "read" | "write" | "copy" | "replace" | "swap"))
		|| name.starts_with("ManuallyDrop::")
		|| name.starts_with("MaybeUninit::")
}

fn squash(ts: TokenStream) -> String {
	squash_ren(ts, &[])
}

/// token text without whitespace; identifiers bound by an enclosing `for` pattern are replaced by
/// their positional names (`$0`, `$1`, …), so that renaming a loop variable does not change a record
fn squash_ren(ts: TokenStream, ren: &[(String, String)]) -> String {
	fn flat(ts: TokenStream, ren: &[(String, String)], out: &mut String) {
		for t in ts {
			match t {
				TokenTree::Ident(i) => {
					let s = i.to_string();
					match ren.iter().rev().find(|(n, _)| *n == s) {
						Some((_, r)) => out.push_str(r),
						None => out.push_str(&s),
					}
				}
				TokenTree::Punct(p) => out.push(p.as_char()),
				TokenTree::Literal(l) => out.extend(l.to_string().chars().filter(|c| !c.is_whitespace())),
				TokenTree::Group(g) => {
					let (o, c) = match g.delimiter() {
						Delimiter::Parenthesis => ("(", ")"),
						Delimiter::Brace => ("{", "}"),
						Delimiter::Bracket => ("[", "]"),
						Delimiter::None => ("", ""),
					};
					out.push_str(o);
					flat(g.stream(), ren, out);
					out.push_str(c);
				}
			}
		}
	}
	let mut out = String::new();
	flat(ts, ren, &mut out);
	out
}

struct PatIdents(Vec<String>);
impl<'ast> Visit<'ast> for PatIdents {
	fn visit_pat_ident(&mut self, p: &'ast syn::PatIdent) {
		self.0.push(p.ident.to_string());
	}
}

/// the calls of a body in evaluation order (operands before the call), each with its receiver or
/// first argument as text; `for` loops are bracketed by ("for", "<pat>in<expr>") … ("endfor", "")
struct OwnEvents {
	evs: Vec<(String, String)>,
	/// loop variables in scope: (name, positional name)
	ren: Vec<(String, String)>,
	bound: usize,
}
impl<'ast> Visit<'ast> for OwnEvents {
	fn visit_expr_method_call(&mut self, e: &'ast syn::ExprMethodCall) {
		syn::visit::visit_expr_method_call(self, e);
		self.evs.push((e.method.to_string(), squash_ren(e.receiver.to_token_stream(), &self.ren)));
	}
	fn visit_expr_call(&mut self, e: &'ast syn::ExprCall) {
		syn::visit::visit_expr_call(self, e);
		if let syn::Expr::Path(p) = &*e.func {
			let segs: Vec<String> = p.path.segments.iter().map(|s| s.ident.to_string()).collect();
			let n = if segs.len() >= 2 { segs[segs.len() - 2..].join("::") } else { segs.join("::") };
			let a = e.args.first().map(|a| squash_ren(a.to_token_stream(), &self.ren)).unwrap_or_default();
			self.evs.push((n, a));
		}
	}
	fn visit_expr_for_loop(&mut self, e: &'ast syn::ExprForLoop) {
		self.visit_expr(&e.expr);
		let iter = squash_ren(e.expr.to_token_stream(), &self.ren);
		let mut pi = PatIdents(Vec::new());
		pi.visit_pat(&e.pat);
		let depth = self.ren.len();
		for n in pi.0 {
			self.ren.push((n, format!("${}", self.bound)));
			self.bound += 1;
		}
		self.evs.push(("for".into(), format!("{}in{}", squash_ren(e.pat.to_token_stream(), &self.ren), iter)));
		self.visit_block(&e.body);
		self.ren.truncate(depth);
		self.evs.push(("endfor".into(), String::new()));
	}
	fn visit_expr_if(&mut self, e: &'ast syn::ExprIf) {
		self.visit_expr(&e.cond);
		self.evs.push(("if".into(), squash_ren(e.cond.to_token_stream(), &self.ren)));
		self.visit_block(&e.then_branch);
		if let Some((_, els)) = &e.else_branch {
			self.evs.push(("else".into(), String::new()));
			self.visit_expr(els);
		}
		self.evs.push(("endif".into(), String::new()));
	}
	fn visit_expr_return(&mut self, e: &'ast syn::ExprReturn) {
		if let Some(x) = &e.expr {
			self.visit_expr(x);
		}
		self.evs.push(("return".into(), e.expr.as_ref().map(|x| squash_ren(x.to_token_stream(), &self.ren)).unwrap_or_default()));
	}
	fn visit_macro(&mut self, m: &'ast syn::Macro) {
		let mut names = Vec::new();
		scan_tokens(m.tokens.clone(), &mut names);
		for n in names {
			self.evs.push((n, "macro".into()));
		}
		if let Some(s) = m.path.segments.last() {
			self.evs.push((format!("{}!", s.ident), "macro".into()));
		}
	}
}

fn is_cfg_test(attrs: &[syn::Attribute]) -> bool {
	attrs.iter().any(|a| a.path().is_ident("cfg") && a.meta.to_token_stream().to_string().replace(' ', "") == "cfg(test)")
}

fn derives(attrs: &[syn::Attribute]) -> Vec<String> {
	let mut out = Vec::new();
	for a in attrs {
		if a.path().is_ident("derive") {
			let _ = a.parse_nested_meta(|m| {
				if let Some(s) = m.path.segments.last() {
					out.push(s.ident.to_string());
				}
				Ok(())
			});
		}
	}
	out
}

/// tailored expansion of one-rule `macro_rules!` with parallel repetitions `$( … )sep*`
fn expand(body: TokenStream, vars: &BTreeMap<String, Vec<TokenTree>>) -> Result<TokenStream, String> {
	fn subst(ts: TokenStream, vars: &BTreeMap<String, Vec<TokenTree>>, idx: Option<usize>) -> Result<TokenStream, String> {
		let toks: Vec<TokenTree> = ts.into_iter().collect();
		let mut out = Vec::new();
		let mut i = 0;
		while i < toks.len() {
			match &toks[i] {
				TokenTree::Punct(p) if p.as_char() == '$' => match toks.get(i + 1) {
					Some(TokenTree::Ident(id)) => {
						let v = vars.get(&id.to_string()).ok_or(format!("unknown macro var ${id}"))?;
						let k = idx.ok_or(format!("${id} outside a repetition"))?;
						out.push(v[k].clone());
						i += 2;
					}
					Some(TokenTree::Group(g)) if g.delimiter() == Delimiter::Parenthesis => {
						// find the repetition operator and optional separator
						let (sep, skip) = match (toks.get(i + 2), toks.get(i + 3)) {
							(Some(TokenTree::Punct(p)), _) if p.as_char() == '*' => (None, 3),
							(Some(s), Some(TokenTree::Punct(p))) if p.as_char() == '*' => (Some(s.clone()), 4),
							_ => return Err("unsupported repetition".into()),
						};
						let n = vars.values().map(|v| v.len()).max().unwrap_or(0);
						for k in 0..n {
							if k > 0 {
								if let Some(s) = &sep {
									out.push(s.clone());
								}
							}
							out.extend(subst(g.stream(), vars, Some(k))?);
						}
						i += skip;
					}
					_ => return Err("stray $".into()),
				},
				TokenTree::Group(g) => {
					let inner = subst(g.stream(), vars, idx)?;
					let mut ng = proc_macro2::Group::new(g.delimiter(), inner);
					ng.set_span(g.span());
					out.push(TokenTree::Group(ng));
					i += 1;
				}
				t => {
					out.push(t.clone());
					i += 1;
				}
			}
		}
		Ok(out.into_iter().collect())
	}
	subst(body, vars, None)
}

struct Walker<'c> {
	c: &'c mut Ctx,
	mod_pub: bool,
	macros: BTreeMap<String, (Vec<String>, TokenStream)>,
}

impl Walker<'_> {
	fn items(&mut self, items: &[syn::Item]) {
		for it in items {
			self.item(it);
		}
	}
	fn item(&mut self, it: &syn::Item) {
		match it {
			syn::Item::Struct(s) => {
				if is_cfg_test(&s.attrs) {
					return;
				}
				let name = self.c.syms.get(&s.ident.to_string());
				let (gens, _) = self.c.generics(&s.generics);
				let mut fields = Vec::new();
				for (i, f) in s.fields.iter().enumerate() {
					let fname = f.ident.as_ref().map(|x| x.to_string()).unwrap_or(format!("{i}"));
					let fnm = self.c.syms.get(&fname);
					let t = self.c.ty(&f.ty);
					fields.push(format!("{{ name := {fnm}, vis := {}, ty := {t} }}", Ctx::vis(&f.vis)));
				}
				let d: Vec<String> = derives(&s.attrs).iter().map(|x| self.c.syms.get(x).to_string()).collect();
				self.c.structs.push(format!(
					"{{ name := {name}, vis := {}, generics := {gens}, fields := {}, derives := [{}], modPub := {}, isEnum := false }}",
					Ctx::vis(&s.vis),
					list(&fields),
					d.join(", "),
					self.mod_pub
				));
			}
			syn::Item::Enum(e) => {
				if is_cfg_test(&e.attrs) {
					return;
				}
				// enums are recorded as structs whose fields are all variant payloads
				let name = self.c.syms.get(&e.ident.to_string());
				let (gens, _) = self.c.generics(&e.generics);
				let mut fields = Vec::new();
				for v in &e.variants {
					for f in &v.fields {
						let fnm = self.c.syms.get(&v.ident.to_string());
						let t = self.c.ty(&f.ty);
						fields.push(format!("{{ name := {fnm}, vis := 2, ty := {t} }}"));
					}
				}
				let d: Vec<String> = derives(&e.attrs).iter().map(|x| self.c.syms.get(x).to_string()).collect();
				self.c.structs.push(format!(
					"{{ name := {name}, vis := {}, generics := {gens}, fields := {}, derives := [{}], modPub := {}, isEnum := true }}",
					Ctx::vis(&e.vis),
					list(&fields),
					d.join(", "),
					self.mod_pub
				));
			}
			syn::Item::Trait(t) => {
				let name = self.c.syms.get(&t.ident.to_string());
				let supers: Vec<String> = t.supertraits.iter().map(|b| self.c.bound(b)).collect();
				let mut fns = Vec::new();
				for ti in &t.items {
					if let syn::TraitItem::Fn(f) = ti {
						fns.push(self.c.fn_def(2, &f.sig, f.default.as_ref(), false));
					}
				}
				self.c.traits.push(format!(
					"{{ name := {name}, vis := {}, isUnsafe := {}, supers := {}, modPub := {}, fns := {} }}",
					Ctx::vis(&t.vis),
					t.unsafety.is_some(),
					list(&supers),
					self.mod_pub,
					list(&fns)
				));
			}
			syn::Item::Impl(i) => {
				if is_cfg_test(&i.attrs) {
					return;
				}
				let tr = match &i.trait_ {
					Some((neg, p, _)) => {
						let t = self.c.path_ty(None, p);
						if neg.is_some() {
							format!("some (Ty.tup [{t}])") // negative impl marker
						} else {
							format!("some ({t})")
						}
					}
					None => "none".into(),
				};
				let self_ty = self.c.ty(&i.self_ty);
				let (gens, wheres) = self.c.generics(&i.generics);
				let mut fns = Vec::new();
				let mut assoc = Vec::new();
				self.c.want_calls = matches!(&i.trait_, Some((None, p, _)) if p.segments.last().map(|s| s.ident == "RawLock").unwrap_or(false));
				for ii in &i.items {
					match ii {
						syn::ImplItem::Fn(f) => {
							let vis = if i.trait_.is_some() { 2 } else { Ctx::vis(&f.vis) };
							fns.push(self.c.fn_def(vis, &f.sig, Some(&f.block), is_cfg_test(&f.attrs)));
						}
						syn::ImplItem::Type(t) => {
							let n = self.c.syms.get(&t.ident.to_string());
							let ty = self.c.ty(&t.ty);
							assoc.push(format!("({n}, {ty})"));
						}
						_ => {}
					}
				}
				self.c.want_calls = false;
				self.c.impls.push(format!(
					"{{ trait_ := {tr}, selfTy := {self_ty}, isUnsafe := {}, generics := {gens}, wheres := {wheres}, fns := {}, assocTys := {} }}",
					i.unsafety.is_some(),
					list(&fns),
					list(&assoc)
				));
			}
			syn::Item::Fn(f) => {
				if is_cfg_test(&f.attrs) {
					return;
				}
				let d = self.c.fn_def(Ctx::vis(&f.vis), &f.sig, Some(&f.block), false);
				self.c.fns.push(d);
			}
			syn::Item::Mod(m) => {
				if is_cfg_test(&m.attrs) {
					return;
				}
				if let Some((_, items)) = &m.content {
					let old = self.mod_pub;
					self.mod_pub = old && matches!(m.vis, syn::Visibility::Public(_));
					self.items(items);
					self.mod_pub = old;
				}
			}
			syn::Item::Macro(m) => {
				let name = m.mac.path.segments.last().map(|s| s.ident.to_string()).unwrap_or_default();
				if name == "macro_rules" {
					let mname = m.ident.as_ref().map(|i| i.to_string()).unwrap_or_default();
					// one rule: ( pattern ) => { body }
					let toks: Vec<TokenTree> = m.mac.tokens.clone().into_iter().collect();
					if let (Some(TokenTree::Group(pat)), Some(TokenTree::Group(body))) = (toks.first(), toks.get(3)) {
						// variable names in order of appearance in the pattern
						let mut vars = Vec::new();
						fn collect(ts: TokenStream, vars: &mut Vec<String>) {
							let t: Vec<TokenTree> = ts.into_iter().collect();
							for (i, x) in t.iter().enumerate() {
								match x {
									TokenTree::Punct(p) if p.as_char() == '$' => {
										if let Some(TokenTree::Ident(id)) = t.get(i + 1) {
											vars.push(id.to_string());
										}
									}
									TokenTree::Group(g) => collect(g.stream(), vars),
									_ => {}
								}
							}
						}
						collect(pat.stream(), &mut vars);
						self.macros.insert(mname, (vars, body.stream()));
					} else {
						self.c.errors.push(format!("macro_rules! {mname}: unsupported shape"));
					}
				} else if let Some((vars, body)) = self.macros.get(&name).cloned() {
					// arguments: comma-separated groups of token trees, one group per variable
					let mut groups: Vec<Vec<TokenTree>> = vec![Vec::new()];
					for t in m.mac.tokens.clone() {
						match &t {
							TokenTree::Punct(p) if p.as_char() == ',' => groups.push(Vec::new()),
							_ => groups.last_mut().unwrap().push(t),
						}
					}
					if groups.len() != vars.len() {
						self.c.errors.push(format!("{name}!: {} argument groups for {} variables", groups.len(), vars.len()));
						return;
					}
					let map: BTreeMap<String, Vec<TokenTree>> = vars.into_iter().zip(groups).collect();
					match expand(body, &map) {
						Ok(ts) => match syn::parse2::<syn::File>(ts) {
							Ok(f) => self.items(&f.items),
							Err(e) => self.c.errors.push(format!("{name}!: expansion does not parse: {e}")),
						},
						Err(e) => self.c.errors.push(format!("{name}!: {e}")),
					}
				} else if name != "thread_local" {
					self.c.errors.push(format!("unhandled item macro {name}!"));
				}
			}
			_ => {}
		}
	}
}

fn main() {
	let args: Vec<String> = std::env::args().collect();
	let src = &args[1];
	let out = &args[2];
	let mut c = Ctx { want_calls: false, syms: Syms::default(), structs: vec![], traits: vec![], impls: vec![], fns: vec![], errors: vec![] };
	// well-known names always get a code (the rules refer to them even if the sources do not)
	for n in [
		"Clone", "Copy", "Default", "Send", "Sync", "PhantomData", "Deref", "DerefMut", "AsRef", "AsMut", "Drop",
		"Debug", "Display", "IntoIterator", "Iterator", "Fn", "FnMut", "FnOnce", "Box", "Vec", "Option", "Result",
		"Self", "Target", "Sized", "UnsafeCell", "Cell", "Hash", "PartialEq", "Eq", "PartialOrd", "Ord", "From",
		"Into", "FromIterator", "Extend", "Borrow", "BorrowMut", "ToOwned", "lock", "lock_shared", "lock_exclusive",
		"try_lock", "unlock", "fmt", "new", "new_ref", "new_unchecked", "raw", "child", "child_mut", "iter",
		"iter_mut", "into_iter", "as_ref", "as_mut", "deref", "deref_mut", "get_mut", "into_inner", "into_child",
		"is_poisoned", "clear_poison", "get", "try_new", "default", "from", "clone", "drop", "take", "replace", "swap",
		// every name the rules (HLV/Static/Rules.lean) mention: a source that renames or drops one of
		// them must change what the rules *find*, not whether the rules compile
		"BoxedLockCollection", "Guard", "Keyable", "L", "Lockable", "Mutex", "MutexRef", "OwnedLockCollection",
		"OwnedLockable", "Poisonable", "R", "RawLock", "ReadGuard", "RefLockCollection", "RetryingLockCollection",
		"RwLock", "RwLockReadRef", "RwLockWriteRef", "Sealed", "Sharable", "T", "ThreadKey", "data_mut", "data_ref",
		"get_ptrs", "guard", "ordered_read", "ordered_try_read", "ordered_try_write", "ordered_write", "poison",
		"raw_read", "raw_try_read", "raw_try_write", "raw_unlock_read", "raw_unlock_write", "raw_write", "read_guard",
		"scoped_lock", "scoped_read", "scoped_try_lock", "scoped_try_read", "scoped_try_write", "scoped_write",
		"try_lock_no_key", "try_read", "try_read_no_key", "try_write", "try_write_no_key", "unlock_all_writes",
		"unlock_all_reads", "handle_unwind", "force_unlock", "LockGuard", "PoisonRef", "PoisonGuard", "MutexGuard",
		"RwLockReadGuard", "RwLockWriteGuard", "Key", "DataMut", "DataRef", "LockableIntoInner", "LockableGetMut",
		"extend", "from_iter", "lock_api", "RawMutex", "RawRwLock", "unlock_shared", "unlock_exclusive",
		"try_lock_shared", "try_lock_exclusive", "read", "write", "unlock_read", "unlock_write", "scoped", "then",
		"then_some", "set", "with",
	] {
		c.syms.get(n);
	}
	// the call and operand names HLV/Static/OwnRules.lean and KillRules.lean mention (C16 / C12 records)
	for n in [
		"ev:Box::from_raw", "ev:Box::into_raw", "ev:UnsafeCell::raw_get", "ev:Box::leak", "ev:Box::new", "ev:MaybeUninit::uninit", "ev:UnsafeCell::new", "ev:Vec::new", "ev:as_ref", "ev:assume_init", "ev:cast", "ev:cast_const", "ev:cast_mut", "ev:clear", "ev:data_mut", "ev:data_ref", "ev:drop", "ev:endfor", "ev:enumerate", "ev:for", "ev:get", "ev:get_mut", "ev:get_ptrs", "ev:guard", "ev:handle_unwind", "ev:into_inner", "ev:into_iter", "ev:is_poisoned", "ev:iter_mut", "ev:lock", "ev:lock_exclusive", "ev:lock_shared", "ev:map", "ev:mem::forget", "ev:mem::transmute", "ev:poison", "ev:ptr::drop_in_place", "ev:raw_try_write", "ev:raw_unlock_write", "ev:raw_write", "ev:read_guard", "ev:sort_by_key", "ev:try_lock", "ev:try_lock_exclusive", "ev:try_lock_shared", "ev:unlock", "ev:unlock_exclusive", "ev:unlock_shared", "ev:unwrap_unchecked", "ev:write", "op:&mutself.locks", "op:($0,$1)inself.into_iter().enumerate()", "op:($0,$1)inguards.iter_mut().zip(self.iter())", "op:($0,$1)inguards.iter_mut().zip(self.iter_mut())", "op:($0,$1)inguards.iter_mut().zip(self.into_iter())", "op:$0", "op:$1", "ev:zip", "ev:iter", "op:($0,$1)inself.iter_mut().enumerate()", "op:boxed", "op:e", "op:g", "op:guards", "op:guards[0]", "op:guards[$0]", "op:$0in0..N", "op:locks", "op:self", "op:self.data.cast_mut()", "op:self.locks", "op:self[0]", "op:self[$0]",
	] {
		c.syms.get(n);
	}
	// follow the module tree from lib.rs (files not declared with `mod` are not part of the crate)
	fn load(c: &mut Ctx, file: &std::path::Path, mod_dir: &std::path::Path, mod_pub: bool) {
		let text = match std::fs::read_to_string(file) {
			Ok(t) => t,
			Err(e) => {
				c.errors.push(format!("{}: {e}", file.display()));
				return;
			}
		};
		let ast = match syn::parse_file(&text) {
			Ok(a) => a,
			Err(e) => {
				c.errors.push(format!("{}: {e}", file.display()));
				return;
			}
		};
		{
			let mut w = Walker { c, mod_pub, macros: BTreeMap::new() };
			w.items(&ast.items);
		}
		for it in &ast.items {
			if let syn::Item::Mod(m) = it {
				if m.content.is_none() && !is_cfg_test(&m.attrs) {
					let name = m.ident.to_string();
					let name = name.trim_start_matches("r#").to_string();
					let sub_pub = mod_pub && matches!(m.vis, syn::Visibility::Public(_));
					let f1 = mod_dir.join(format!("{name}.rs"));
					let f2 = mod_dir.join(&name).join("mod.rs");
					if f1.exists() {
						load(c, &f1, &mod_dir.join(&name), sub_pub);
					} else if f2.exists() {
						load(c, &f2, &mod_dir.join(&name), sub_pub);
					} else {
						c.errors.push(format!("module {name} declared in {} not found", file.display()));
					}
				}
			}
		}
	}
	let root = std::path::Path::new(src);
	load(&mut c, &root.join("lib.rs"), root, true);
	let mut o = String::new();
	writeln!(o, "-- GENERATED by /verif/translator from {src} — do not edit; regenerated on every check").unwrap();
	writeln!(o, "import HLV.Static.Ast\nnamespace HLV.Gen\nopen HLV.Static\n").unwrap();
	writeln!(o, "namespace Sym").unwrap();
	for (i, n) in c.syms.order.iter().enumerate() {
		let id: String = n
			.chars()
			.map(|ch| if ch.is_ascii_alphanumeric() || ch == '_' { ch } else if ch == '\'' { 'L' } else if ch == '!' { 'M' } else { 'X' })
			.collect();
		if n.starts_with("ev:") || n.starts_with("op:") {
			writeln!(o, "def «{}» : Nat := {}", n.replace('»', ")"), i + 2).unwrap();
			continue;
		}
		let id = if n.starts_with('\'') { format!("lt_{}", &id[1..]) } else if n.ends_with('!') { format!("mac_{}", &id[..id.len() - 1]) } else if n.ends_with("{}") { format!("ctor_{}", &id[..id.len() - 2]) } else if n.chars().next().map(|c| c.is_ascii_digit()).unwrap_or(false) { format!("f{id}") } else { id };
		writeln!(o, "def «{id}» : Nat := {}", i + 2).unwrap();
	}
	writeln!(o, "end Sym\n").unwrap();
	let names: Vec<String> = c.syms.order.iter().enumerate().map(|(i, n)| format!("({}, \"{}\")", i + 2, n.replace('\\', "/").replace('"', "'"))).collect();
	writeln!(o, "def symNames : List (Nat × String) := {}\n", list(&names)).unwrap();
	let emit = |o: &mut String, name: &str, ty: &str, items: &[String]| {
		// one definition per item keeps elaboration fast; the table is their list
		for (i, it) in items.iter().enumerate() {
			writeln!(o, "def {name}_{i} : {ty} := {it}").unwrap();
		}
		let refs: Vec<String> = (0..items.len()).map(|i| format!("{name}_{i}")).collect();
		writeln!(o, "def {name} : List {ty} := {}\n", list(&refs)).unwrap();
	};
	emit(&mut o, "structs", "StructDef", &c.structs);
	emit(&mut o, "traits", "TraitDef", &c.traits);
	emit(&mut o, "impls", "ImplDef", &c.impls);
	emit(&mut o, "freeFns", "FnDef", &c.fns);
	let errs: Vec<String> = c.errors.iter().map(|e| format!("\"{}\"", e.replace('\\', "/").replace('"', "'"))).collect();
	writeln!(o, "def translatorErrors : List String := {}\n", list(&errs)).unwrap();
	writeln!(o, "end HLV.Gen").unwrap();
	std::fs::write(out, o).unwrap();
	eprintln!(
		"translator: {} structs, {} traits, {} impls, {} free fns, {} symbols, {} errors",
		c.structs.len(),
		c.traits.len(),
		c.impls.len(),
		c.fns.len(),
		c.syms.order.len(),
		c.errors.len()
	);
	for e in &c.errors {
		eprintln!("  error: {e}");
	}
}
