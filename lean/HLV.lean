import HLV.Model.Prog
import HLV.Model.Env
import HLV.Model.Algo
import HLV.Model.Shape
import HLV.Model.Api
import HLV.Model.Seq
import HLV.Model.Parse
