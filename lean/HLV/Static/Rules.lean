/-
  HLV.Static.Rules — executable predicates over the generated fact table: what the API surface
  must look like for the type system to enforce the key discipline (C14), to confine protected
  data to holds (C15), and for try / non-acquiring paths never to reach a blocking raw operation
  (static halves of C04, C17), plus the ownership condition of the unchecked constructors (C07).
  Every rule returns the list of offending items (empty = satisfied); the property theorems
  say these lists are contained in the recorded findings.
-/
import HLV.Generated.Facts
namespace HLV.Static
open HLV.Gen

/-! ### helpers -/

mutual
def Ty.mentions (n : Nat) : Ty → Bool
  | .path m args => m == n || Ty.mentionsL n args
  | .lt _ => false
  | .ref _ _ t => Ty.mentions n t
  | .ptr _ t => Ty.mentions n t
  | .tup ts => Ty.mentionsL n ts
  | .slice t => Ty.mentions n t
  | .arr t => Ty.mentions n t
  | .fnTrait _ args ret => Ty.mentionsL n args || Ty.mentions n ret
  | .impl bs => Ty.mentionsL n bs
  | .dyn bs => Ty.mentionsL n bs
  | .assoc b _ args => Ty.mentions n b || Ty.mentionsL n args
  | .other => false
def Ty.mentionsL (n : Nat) : List Ty → Bool
  | [] => false
  | t :: ts => Ty.mentions n t || Ty.mentionsL n ts
end

mutual
/-- does the type mention lifetime `l` (as an argument or on a reference)? -/
def Ty.usesLt (l : Nat) : Ty → Bool
  | .path _ args => Ty.usesLtL l args
  | .lt m => m == l
  | .ref m _ t => m == l || Ty.usesLt l t
  | .ptr _ t => Ty.usesLt l t
  | .tup ts => Ty.usesLtL l ts
  | .slice t => Ty.usesLt l t
  | .arr t => Ty.usesLt l t
  | .fnTrait _ args ret => Ty.usesLtL l args || Ty.usesLt l ret
  | .impl bs => Ty.usesLtL l bs
  | .dyn bs => Ty.usesLtL l bs
  | .assoc b _ args => Ty.usesLt l b || Ty.usesLtL l args
  | .other => false
def Ty.usesLtL (l : Nat) : List Ty → Bool
  | [] => false
  | t :: ts => Ty.usesLt l t || Ty.usesLtL l ts
end

mutual
/-- does the type contain `&n` / `&mut n` (a reference to the bare type named `n`)? -/
def Ty.refTo (n : Nat) : Ty → Bool
  | .path _ args => Ty.refToL n args
  | .lt _ => false
  | .ref _ _ (.path m []) => m == n
  | .ref _ _ t => Ty.refTo n t
  | .ptr _ t => Ty.refTo n t
  | .tup ts => Ty.refToL n ts
  | .slice t => Ty.refTo n t
  | .arr t => Ty.refTo n t
  | .fnTrait _ args ret => Ty.refToL n args || Ty.refTo n ret
  | .impl bs => Ty.refToL n bs
  | .dyn bs => Ty.refToL n bs
  | .assoc b _ args => Ty.refTo n b || Ty.refToL n args
  | .other => false
def Ty.refToL (n : Nat) : List Ty → Bool
  | [] => false
  | t :: ts => Ty.refTo n t || Ty.refToL n ts
end

/-- head symbol of a type (through references) -/
def Ty.head : Ty → Nat
  | .path n _ => n
  | .ref _ _ t => Ty.head t
  | _ => 0

def Ty.isRef : Ty → Bool
  | .ref _ _ _ => true
  | _ => false

def traitName (i : ImplDef) : Nat :=
  match i.trait_ with
  | some t => t.head
  | none => 0

def implsOfTrait (tr : Nat) : List ImplDef := impls.filter fun i => traitName i == tr
def inherentImpls : List ImplDef := impls.filter fun i => i.trait_.isNone

/-- does parameter `p` of the impl carry bound `b` (inline or in the where clause)? -/
def ImplDef.hasBound (i : ImplDef) (p b : Nat) : Bool :=
  (i.generics.any fun g => g.name == p && g.bounds.any fun t => t.head == b) ||
  (i.wheres.any fun (lhs, bs) => lhs.head == p && bs.any fun t => t.head == b)

def typeParams (i : ImplDef) : List Nat :=
  (i.generics.filter fun g => !g.isLifetime && !g.isConst).map (·.name)

/-- names reachable in the (name-based, over-approximating) call graph -/
def allFns : List FnDef := freeFns ++ impls.flatMap (·.fns) ++ traits.flatMap (·.fns)

def calleesOf (n : Nat) : List Nat := (allFns.filter fun f => f.name == n).flatMap (·.callees)

def reachStep (seen : List Nat) : List Nat :=
  seen.foldl (fun acc n => (calleesOf n).foldl (fun a c => if a.contains c then a else c :: a) acc) seen

def reach : Nat → List Nat → List Nat
  | 0, s => s
  | k + 1, s => let s' := reachStep s; if s'.length == s.length then s else reach k s'

def scopedNames : List Nat :=
  [Sym.scoped_lock, Sym.scoped_try_lock, Sym.scoped_read, Sym.scoped_try_read, Sym.scoped_write, Sym.scoped_try_write]

/-! ### C14 -/

/-- the structs that carry a `ThreadKey` (guards handed to the user) -/
def keyHolders : List StructDef :=
  structs.filter fun s => !s.isEnum && s.name != Sym.ThreadKey &&
    s.fields.any fun f => f.ty.head == Sym.ThreadKey && !f.ty.isRef

def forbiddenForKeys : List Nat := [Sym.Clone, Sym.Copy, Sym.Default, Sym.Send]

/-- (struct, trait) pairs: a key or key-holding guard implements Clone/Copy/Default/Send -/
def c14_keyLikeImpls : List (Nat × Nat) :=
  let names := Sym.ThreadKey :: keyHolders.map (·.name)
  (impls.filterMap fun i =>
    if names.contains i.selfTy.head && !i.selfTy.isRef && forbiddenForKeys.contains (traitName i)
    then some (i.selfTy.head, traitName i) else none) ++
  ((structs.filter fun s => names.contains s.name).flatMap fun s =>
    (s.derives.filter fun d => forbiddenForKeys.contains d).map fun d => (s.name, d))

/-- hold tokens: the structs whose `Drop` releases a raw lock (`MutexRef`, `RwLockReadRef`,
`RwLockWriteRef`) and the structs that contain one by value (`PoisonRef`-style wrappers hold a
generic guard, the key-holding guards hold a `*Ref`) -/
def releaseOps : List Nat := [Sym.raw_unlock_write, Sym.raw_unlock_read]
def holdTokens : List Nat :=
  let base := (implsOfTrait Sym.Drop).filterMap fun i =>
    if i.fns.any fun f => f.callees.any fun c => releaseOps.contains c then some i.selfTy.head else none
  base ++ (structs.filter fun s => !s.isEnum && s.fields.any fun f => base.contains f.ty.head && !f.ty.isRef).map (·.name)

mutual
/-- the type contains a raw pointer (which makes whatever holds it `!Send` and `!Sync`) -/
def Ty.hasRawPtr : Ty → Bool
  | .ptr _ _ => true
  | .path _ args => Ty.hasRawPtrL args
  | .ref _ _ t => Ty.hasRawPtr t
  | .tup ts => Ty.hasRawPtrL ts
  | .slice t => Ty.hasRawPtr t
  | .arr t => Ty.hasRawPtr t
  | _ => false
def Ty.hasRawPtrL : List Ty → Bool
  | [] => false
  | t :: ts => Ty.hasRawPtr t || Ty.hasRawPtrL ts
end

/-- the key-less hold tokens (the structs whose `Drop` releases a raw lock) must never be `Send`,
whatever the raw lock's `GuardMarker` says: each carries a `PhantomData` over a raw pointer. The
guards hand out `&mut` to them (`DerefMut` / `AsMut`), so a `Send` token could be lent to another
thread and swapped with the token inside that thread's guard — which then unlocks a lock its thread
never acquired and returns its key while its own lock stays held (D18, repaired). -/
def c15_holdTokenMarkers : List Nat :=
  let base := (implsOfTrait Sym.Drop).filterMap fun i =>
    if i.fns.any fun f => f.callees.any fun c => releaseOps.contains c then some i.selfTy.head else none
  (structs.filter fun s => base.contains s.name &&
    !(s.fields.any fun f => match f.ty with
      | .path n args => n == Sym.PhantomData && Ty.hasRawPtrL args
      | _ => false)).map (·.name)

/-- a hold must not be duplicable or conjurable: no `Clone`/`Copy`/`Default` for a hold token -/
def c14_holdTokenImpls : List (Nat × Nat) :=
  (impls.filterMap fun i =>
    if holdTokens.contains i.selfTy.head && !i.selfTy.isRef &&
       [Sym.Clone, Sym.Copy, Sym.Default].contains (traitName i)
    then some (i.selfTy.head, traitName i) else none) ++
  ((structs.filter fun s => holdTokens.contains s.name).flatMap fun s =>
    (s.derives.filter fun d => [Sym.Clone, Sym.Copy, Sym.Default].contains d).map fun d => (s.name, d))

/-- key fields that are not private, and a `ThreadKey` without the `*const ()` marker -/
def c14_keyFields : List (Nat × Nat) :=
  ((structs.filter fun s => s.name == Sym.ThreadKey || keyHolders.any (·.name == s.name)).flatMap fun s =>
    (s.fields.filter fun f => (s.name == Sym.ThreadKey || f.ty.head == Sym.ThreadKey) && f.vis != 0).map fun f => (s.name, f.name)) ++
  (if structs.any fun s => s.name == Sym.ThreadKey &&
      s.fields.any fun f => match f.ty with
        | .path n [.ptr _ _] => n == Sym.PhantomData
        | _ => false
   then [] else [(Sym.ThreadKey, 0)])

/-- `Keyable` must be sealed: an unsafe trait whose supertrait lives in a private module, and
the only implementors of both are `ThreadKey` and `&mut ThreadKey` -/
def c14_keyableSealing : List Nat :=
  let okSelf (t : Ty) : Bool := match t with
    | .path n [] => n == Sym.ThreadKey
    | .ref _ true (.path n []) => n == Sym.ThreadKey
    | _ => false
  (if traits.any fun t => t.name == Sym.Keyable && t.isUnsafe && t.supers.any fun s => s.head == Sym.Sealed then [] else [Sym.Keyable]) ++
  (if traits.any fun t => t.name == Sym.Sealed && !t.modPub then [] else [Sym.Sealed]) ++
  ((implsOfTrait Sym.Keyable ++ implsOfTrait Sym.Sealed).filterMap fun i =>
    if okSelf i.selfTy then none else some i.selfTy.head)

def acquireOps : List Nat := [Sym.raw_write, Sym.raw_read, Sym.raw_try_write, Sym.raw_try_read]

def hasKeyParam (f : FnDef) : Bool :=
  f.params.any fun t => match t with
    | .path n [] => n == Sym.ThreadKey ||
        (f.generics.any fun g => g.name == n && g.bounds.any fun b => b.head == Sym.Keyable)
    | .impl bs => bs.any fun b => b.head == Sym.Keyable
    | _ => false

/-- the names through which the crate's inherent APIs acquire: the `RawLock` acquire methods and
the crate-internal scoped helpers -/
def acquiringCallees : List Nat :=
  acquireOps ++ (freeFns.filter fun f => scopedNames.contains f.name).map (·.name)

/-- safe public inherent functions that call an acquiring operation (directly, or through the
scoped helpers) but take no key (by value, or as `impl Keyable`) -/
def c14_acquiringWithoutKey : List (Nat × Nat) :=
  (inherentImpls.flatMap fun i =>
    (i.fns.filter fun f =>
      f.vis == 2 && !f.isUnsafe && !f.testOnly && !hasKeyParam f &&
      f.callees.any fun c => acquiringCallees.contains c).map fun f => (i.selfTy.head, f.name)) ++
  -- … and safe trait methods (Clone, Default, From, Deref, …: callable by anybody who has the
  -- value, no key involved) that acquire: e.g. a `Clone` for a hold token that takes another lock
  (impls.filter fun i => i.trait_.isSome).flatMap fun i =>
    (i.fns.filter fun f =>
      !f.isUnsafe && !f.testOnly && !hasKeyParam f &&
      f.callees.any fun c => acquiringCallees.contains c).map fun f => (i.selfTy.head, f.name)

/-- `Debug::fmt` impls that take a lock without a key (through the crate's `try_*_no_key` helpers)
and then format the protected value — user code that runs during a hold the thread never paid a
key for -/
def c14_debugHoldsWithoutKey : List (Nat × Nat) :=
  (implsOfTrait Sym.Debug).flatMap fun i =>
    (i.fns.filter fun f => f.name == Sym.fmt &&
      f.callees.any fun c => c == Sym.try_lock_no_key || c == Sym.try_read_no_key || c == Sym.try_write_no_key ||
        acquireOps.contains c).map fun f => (i.selfTy.head, f.name)

/-- functions that hand out a reference to a key, or return a key by value without taking a key
or a key-holding guard by value -/
def c14_keyLeaks : List (Nat × Nat) :=
  let holderNames := keyHolders.map (·.name)
  impls.flatMap fun i =>
    (i.fns.filter fun f =>
      !f.testOnly &&
      ((match f.ret with
        | .ref _ _ t => t.head == Sym.ThreadKey
        | _ => false) ||
       (f.ret.mentions Sym.ThreadKey && f.vis == 2 && !(i.selfTy.head == Sym.ThreadKey) &&
        !(f.params.any fun p => p.head == Sym.ThreadKey && !p.isRef || holderNames.contains p.head && !p.isRef)))).map
      fun f => (i.selfTy.head, f.name)

/-- safe public functions that return a reference to the raw lock inside a `Mutex`/`RwLock` -/
def c14_rawAccessors : List (Nat × Nat) :=
  let rawHolders := structs.filter fun s => s.fields.any fun f => f.name == Sym.raw
  inherentImpls.flatMap fun i =>
    if rawHolders.any (·.name == i.selfTy.head) then
      (i.fns.filter fun f => f.vis == 2 && !f.isUnsafe && f.ret.refTo Sym.R).map fun f => (i.selfTy.head, f.name)
    else []

/-- `Lockable::Guard` / `Sharable::ReadGuard` types out of which holds can be moved through
`&mut` (they are `Default`): `Box<[G]>` (finding D6) -/
def c14_holdExtraction : List (Nat × Nat) :=
  (implsOfTrait Sym.Lockable ++ implsOfTrait Sym.Sharable).flatMap fun i =>
    (i.assocTys.filter fun (n, t) =>
      (n == Sym.Guard || n == Sym.ReadGuard) &&
      (match t with
        | .path b [.slice _] => b == Sym.Box
        | .path v _ => v == Sym.Vec || v == Sym.Option
        | _ => false)).map fun (n, _) => (i.selfTy.head, n)

/-! ### C15 -/

/-- the reference conditions: for each manual `Send`/`Sync` impl, the bounds it must carry
(at least the standard library's for the corresponding std type; `&L` needs `L: Sync`) -/
def sendSyncReference : List (Nat × Nat × List (Nat × Nat)) :=
  [ (Sym.Send, Sym.Mutex, [(Sym.T, Sym.Send), (Sym.R, Sym.Send)]),
    (Sym.Sync, Sym.Mutex, [(Sym.T, Sym.Send), (Sym.R, Sym.Sync)]),
    (Sym.Send, Sym.RwLock, [(Sym.T, Sym.Send), (Sym.R, Sym.Send)]),
    (Sym.Sync, Sym.RwLock, [(Sym.T, Sym.Send), (Sym.T, Sym.Sync), (Sym.R, Sym.Sync)]),
    (Sym.Sync, Sym.MutexRef, [(Sym.T, Sym.Sync), (Sym.R, Sym.Sync)]),
    (Sym.Sync, Sym.RwLockReadRef, [(Sym.T, Sym.Sync), (Sym.R, Sym.Sync)]),
    (Sym.Sync, Sym.RwLockWriteRef, [(Sym.T, Sym.Sync), (Sym.R, Sym.Sync)]),
    (Sym.Send, Sym.BoxedLockCollection, [(Sym.L, Sym.Send)]),
    (Sym.Sync, Sym.BoxedLockCollection, [(Sym.L, Sym.Sync)]),
    (Sym.Send, Sym.RefLockCollection, [(Sym.L, Sym.Sync)]),
    (Sym.Sync, Sym.RefLockCollection, [(Sym.L, Sym.Sync)]),
    (Sym.Sync, Sym.ThreadKey, []) ]

/-- manual `Send`/`Sync` impls that are not in the reference table or lack a required bound -/
def c15_sendSync : List (Nat × Nat) :=
  (impls.filter fun i => traitName i == Sym.Send || traitName i == Sym.Sync).filterMap fun i =>
    match sendSyncReference.find? fun (tr, ty, _) => tr == traitName i && ty == i.selfTy.head with
    | some (_, _, req) => if req.all fun (p, b) => i.hasBound p b then none else some (traitName i, i.selfTy.head)
    | none => some (traitName i, i.selfTy.head)

/-- scoped functions whose closure argument type mentions a *named lifetime of the function*
(the argument can then be returned and outlive the hold): finding D8 for collections and
`Poisonable`; repaired for `Mutex`/`RwLock` -/
def c15_closureLifetimes : List (Nat × Nat) :=
  let bad (f : FnDef) : Bool :=
    let lts := (f.generics.filter (·.isLifetime)).map (·.name)
    f.params.any fun p => match p with
      | .impl bs => bs.any fun b => match b with
          | .fnTrait _ args _ => lts.any fun l => Ty.usesLtL l args
          | _ => false
      | _ => false
  (impls.flatMap fun i => (i.fns.filter fun f => scopedNames.contains f.name && bad f).map fun f => (i.selfTy.head, f.name)) ++
  ((freeFns.filter fun f => scopedNames.contains f.name && bad f).map fun f => (0, f.name))

def leafLocks : List Nat := [Sym.Mutex, Sym.RwLock]

/-- `OwnedLockable` impls for shared references, or for containers/wrappers whose element
parameter is not itself required to be `OwnedLockable` -/
def c15_ownedLockable : List Nat :=
  (implsOfTrait Sym.OwnedLockable).filterMap fun i =>
    let sharedRef := match i.selfTy with
      | .ref _ false _ => true
      | _ => false
    if sharedRef then some i.selfTy.head
    else if leafLocks.contains i.selfTy.head then none
    else if (typeParams i).all fun p => i.hasBound p Sym.OwnedLockable then none
    else some i.selfTy.head

def collectionNames : List Nat :=
  [Sym.BoxedLockCollection, Sym.RefLockCollection, Sym.RetryingLockCollection, Sym.OwnedLockCollection]

/-- constructors that skip the duplicate check must require owned inputs or be `unsafe` -/
def c15_uncheckedConstructors : List (Nat × Nat) :=
  (inherentImpls.flatMap fun i =>
    if collectionNames.contains i.selfTy.head then
      (i.fns.filter fun f =>
        f.vis == 2 &&
        ((f.name == Sym.new || f.name == Sym.new_ref) && !((typeParams i).any fun p => i.hasBound p Sym.OwnedLockable) ||
         f.name == Sym.new_unchecked && !f.isUnsafe)).map fun f => (i.selfTy.head, f.name)
    else []) ++
  -- the trait impls that build or grow a collection without a duplicate test
  ((impls.filter fun i => collectionNames.contains i.selfTy.head && !i.selfTy.isRef &&
      [Sym.Default, Sym.From, Sym.FromIterator, Sym.Extend].contains (traitName i) &&
      !((typeParams i).any fun p => i.hasBound p Sym.OwnedLockable)).map fun i => (i.selfTy.head, traitName i)) ++
  -- … and their derived forms (`#[derive(Default)]` only asks for `L: Default`)
  ((structs.filter fun s => collectionNames.contains s.name).flatMap fun s =>
    (s.derives.filter fun d => d == Sym.Default).map fun d => (s.name, d))

/-- the collections that can be built over *borrowed* locks (their `try_new` tests for duplicates
once, at construction) -/
def checkedCollections : List Nat :=
  [Sym.BoxedLockCollection, Sym.RefLockCollection, Sym.RetryingLockCollection]

def mentionsOwned (ws : List (Ty × List Ty)) : Bool :=
  ws.any fun (_, bs) => bs.any fun b => b.head == Sym.OwnedLockable

/-- safe mutable access to the underlying container of a checked collection that is available
for non-owning element types: `c.child_mut().push(&a)` adds a lock that is already inside after
the duplicate test has run (then `lock()` waits for a lock the thread holds itself) -/
def c15_mutableAccessToChecked : List (Nat × Nat) :=
  (inherentImpls.flatMap fun i =>
    if checkedCollections.contains i.selfTy.head && !i.selfTy.isRef then
      (i.fns.filter fun f =>
        f.vis == 2 && !f.isUnsafe && !f.testOnly && f.recv == .refMut &&
        (f.name == Sym.iter_mut || (match f.ret with | .ref _ true _ => true | _ => false)) &&
        !((typeParams i).any fun p => i.hasBound p Sym.OwnedLockable) && !mentionsOwned f.wheres &&
        !(f.generics.any fun g => g.bounds.any fun b => b.head == Sym.OwnedLockable)).map fun f => (i.selfTy.head, f.name)
    else []) ++
  ((impls.filter fun i =>
      checkedCollections.contains i.selfTy.head &&
      ((!i.selfTy.isRef && [Sym.AsMut, Sym.DerefMut, Sym.BorrowMut].contains (traitName i)) ||
       (traitName i == Sym.IntoIterator && (match i.selfTy with | .ref _ true _ => true | _ => false))) &&
      !((typeParams i).any fun p => i.hasBound p Sym.OwnedLockable)).map fun i => (i.selfTy.head, traitName i))

/-- safe ways to get shared access into an owned collection -/
def c15_ownedSharedAccess : List (Nat × Nat) :=
  (impls.flatMap fun i =>
    if i.selfTy.head == Sym.OwnedLockCollection then
      (match i.trait_ with
       | none => (i.fns.filter fun f => f.vis == 2 && !f.isUnsafe && f.recv == .ref &&
            (match f.ret with
             | .ref _ false _ => true
             | _ => f.ret.isRef)).map fun f => (Sym.OwnedLockCollection, f.name)
       | some t =>
         if t.head == Sym.AsRef || (t.head == Sym.IntoIterator && i.selfTy.isRef && !(match i.selfTy with | .ref _ true _ => true | _ => false))
         then [(Sym.OwnedLockCollection, t.head)] else [])
    else [])

/-- raw entry points that must be `unsafe fn` / `unsafe trait` -/
def c15_unsafeEntryPoints : List Nat :=
  let needUnsafeTraits := [Sym.RawLock, Sym.Lockable, Sym.Sharable, Sym.OwnedLockable, Sym.Keyable]
  (needUnsafeTraits.filter fun n => !(traits.any fun t => t.name == n && t.isUnsafe)) ++
  ((traits.filter fun t => t.name == Sym.RawLock).flatMap fun t =>
    (t.fns.filter fun f => f.name != Sym.poison && !f.isUnsafe).map (·.name)) ++
  ((traits.filter fun t => t.name == Sym.Lockable || t.name == Sym.Sharable).flatMap fun t =>
    (t.fns.filter fun f => [Sym.guard, Sym.data_mut, Sym.read_guard, Sym.data_ref].contains f.name && !f.isUnsafe).map (·.name))

/-- `Deref`/`DerefMut` of guards must tie the reference to the borrow of the guard -/
def c15_derefLifetimes : List Nat :=
  (impls.filter fun i => traitName i == Sym.Deref || traitName i == Sym.DerefMut).filterMap fun i =>
    if i.fns.all fun f =>
      (f.name != Sym.deref && f.name != Sym.deref_mut) ||
      ((f.recv == .ref || f.recv == .refMut) &&
        (match f.ret with
         | .ref 0 _ _ => true
         | _ => false))
    then none else some i.selfTy.head

/-! ### static halves of C04 / C17 -/

/-- Names the call-graph traversal follows: the crate's own, unambiguous function names — the
`RawLock` methods, the crate-private helpers (`utils`, `*_no_key`) — not ubiquitous names such
as `new`, `get`, `lock`, `fmt`, which a name-based graph would merge across types. -/
def followNames : List Nat :=
  ((traits.filter fun t => t.name == Sym.RawLock).flatMap fun t => t.fns.map (·.name)) ++
  freeFns.map (·.name) ++
  (impls.flatMap fun i => (i.fns.filter fun f => f.vis == 1).map (·.name))

def reachStepF (seen : List Nat) : List Nat :=
  seen.foldl (fun acc n =>
    if followNames.contains n then
      (calleesOf n).foldl (fun a c => if a.contains c then a else c :: a) acc
    else acc) seen

def reachF : Nat → List Nat → List Nat
  | 0, s => s
  | k + 1, s => let s' := reachStepF s; if s'.length == s.length then s else reachF k s'

/-- blocking operations: the `RawLock` blocking methods, the blocking helpers, and `lock_api`'s -/
def blockingOps : List Nat :=
  [Sym.raw_write, Sym.raw_read, Sym.ordered_write, Sym.ordered_read, Sym.lock_shared, Sym.lock_exclusive, Sym.lock]

/-- all functions with a given name whose direct callees, or the callees reached through the
crate's own unambiguous names, include a blocking operation -/
def fnsReachingBlocking (pred : FnDef → Bool) : List Nat :=
  ((allFns.filter fun f => !f.testOnly && pred f).filter fun f =>
    (reachF 8 f.callees).any fun c => blockingOps.contains c).map (·.name)

def tryNames : List Nat :=
  [Sym.try_lock, Sym.try_read, Sym.try_write, Sym.scoped_try_lock, Sym.scoped_try_read, Sym.scoped_try_write,
   Sym.raw_try_write, Sym.raw_try_read, Sym.ordered_try_write, Sym.ordered_try_read, Sym.try_lock_no_key,
   Sym.try_read_no_key]

/-- try_* functions from which a blocking operation is reachable -/
def c04_tryReachesBlocking : List Nat := fnsReachingBlocking fun f => tryNames.contains f.name

def nonAcquiringNames : List Nat :=
  [Sym.fmt, Sym.is_poisoned, Sym.clear_poison, Sym.child, Sym.iter, Sym.as_ref, Sym.get_mut,
   Sym.into_inner, Sym.into_child, Sym.try_new, Sym.new, Sym.new_ref, Sym.new_unchecked, Sym.get_ptrs,
   Sym.poison]

def c17_nonAcqReachesBlocking : List Nat := fnsReachingBlocking fun f => nonAcquiringNames.contains f.name

end HLV.Static
