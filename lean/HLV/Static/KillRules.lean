/-
  HLV.Static.KillRules — C12 over the regenerated fact table: the kill-flag protocol of the leaf
  locks, read off the call records of `impl RawLock for Mutex / RwLock` (`FnDef.calls`).

  The rule is about the *order* of calls, not their exact text: in every acquiring function the
  kill flag is tested before the raw acquisition and again after it, with a raw release after
  the second test (the lock obtained on a killed lock is given back); and every raw operation is
  followed by the recovery closure that stores the flag (`handle_unwind(|| raw.op(), || self.poison())`).
  `Model/Kill.lean` is the protocol this describes; `Logic/Kill.lean` proves what it guarantees.
-/
import HLV.Static.Rules
namespace HLV.Static
open HLV.Gen

def rawAcquireEv : List Nat :=
  [Sym.«ev:lock», Sym.«ev:try_lock», Sym.«ev:lock_exclusive», Sym.«ev:try_lock_exclusive», Sym.«ev:lock_shared»,
   Sym.«ev:try_lock_shared»]
def rawReleaseEv : List Nat := [Sym.«ev:unlock», Sym.«ev:unlock_exclusive», Sym.«ev:unlock_shared»]

/-- the release that matches an acquisition -/
def releaseFor (acq : Nat) : Nat :=
  if acq = Sym.«ev:lock» || acq = Sym.«ev:try_lock» then Sym.«ev:unlock»
  else if acq = Sym.«ev:lock_exclusive» || acq = Sym.«ev:try_lock_exclusive» then Sym.«ev:unlock_exclusive»
  else Sym.«ev:unlock_shared»

/-- flag test … raw acquire … flag test … matching raw release -/
def killProtoOK (r : List (Nat × Nat)) : Bool :=
  match r.findIdx? (fun e => rawAcquireEv.contains e.1) with
  | none => false
  | some i =>
    let acq := (r.getD i (0, 0)).1
    (r.take i).any (fun e => e.1 == Sym.«ev:is_poisoned») &&
    (let rest := r.drop (i + 1)
     match rest.findIdx? (fun e => e.1 == Sym.«ev:is_poisoned») with
     | none => false
     | some j => (rest.drop (j + 1)).any fun e => e.1 == releaseFor acq)

/-- every raw operation of the given kind is followed by `poison` and then `handle_unwind` (the
recovery closure). In an acquiring function that is every raw acquisition (the give-back release
after the second test acts on a lock that is already killed); in a releasing function every raw release. -/
def recoveryOK (ops : List Nat) : List (Nat × Nat) → Bool
  | [] => true
  | e :: rest =>
    (if ops.contains e.1 then
      match rest.findIdx? (fun x => x.1 == Sym.«ev:poison») with
      | none => false
      | some j => (rest.drop (j + 1)).any fun x => x.1 == Sym.«ev:handle_unwind»
     else true) && recoveryOK ops rest

/-- `Mutex::raw_read` etc. hand over to the write functions of the same lock -/
def isDelegation (r : List (Nat × Nat)) : Bool :=
  match r with
  | [(c, a)] => [Sym.«ev:raw_write», Sym.«ev:raw_try_write», Sym.«ev:raw_unlock_write»].contains c && a == Sym.«op:self»
  | _ => false

def leafRawLockFns : List (Nat × FnDef) :=
  (impls.filter fun i => traitName i == Sym.RawLock && leafLocks.contains i.selfTy.head).flatMap fun i =>
    i.fns.map fun f => (i.selfTy.head, f)

def acquireFnNames : List Nat := [Sym.raw_write, Sym.raw_try_write, Sym.raw_read, Sym.raw_try_read]
def releaseFnNames : List Nat := [Sym.raw_unlock_write, Sym.raw_unlock_read]

/-- acquiring functions of a leaf lock that do not test the kill flag again after the raw acquisition -/
def c12_killFlagProtocol : List (Nat × Nat) :=
  leafRawLockFns.filterMap fun (ty, f) =>
    if acquireFnNames.contains f.name && !(killProtoOK f.calls || isDelegation f.calls) then some (ty, f.name) else none

/-- functions of a leaf lock with a raw operation that is not wrapped in the flag-storing recovery -/
def c12_recovery : List (Nat × Nat) :=
  leafRawLockFns.filterMap fun (ty, f) =>
    if acquireFnNames.contains f.name && !(isDelegation f.calls || recoveryOK rawAcquireEv f.calls) then some (ty, f.name)
    else if releaseFnNames.contains f.name && !(isDelegation f.calls || recoveryOK rawReleaseEv f.calls) then some (ty, f.name)
    else none

/-- how many acquiring / releasing functions carry the protocol themselves (not vacuous: 6 and 3 today) -/
def c12_protocolFnsSeen : Nat × Nat :=
  ((leafRawLockFns.filter fun (_, f) => acquireFnNames.contains f.name && killProtoOK f.calls).length,
   (leafRawLockFns.filter fun (_, f) => releaseFnNames.contains f.name && !isDelegation f.calls && recoveryOK rawReleaseEv f.calls
      && f.calls.any fun e => rawReleaseEv.contains e.1).length)

end HLV.Static
