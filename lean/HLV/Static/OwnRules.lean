/-
  HLV.Static.OwnRules — C16 over the regenerated fact table.

  Safe Rust drops every value exactly once and never reads an uninitialised one; the functions
  that can break this are the ones that touch an ownership-sensitive primitive (`mem::forget`,
  `Box::leak` / `from_raw`, `ptr::drop_in_place` / `read` / `write`, `MaybeUninit`, `ManuallyDrop`,
  `transmute`, `set_len`, …). The translator records, for every non-test function whose body
  contains one, all calls of the body in evaluation order (`FnDef.own`). The rules below
  (1) list the functions that have such a record — they must be exactly the audited ones;
  (2) read the records of `BoxedLockCollection::{new_unchecked, drop, into_child}` as operation
      sequences of the heap-cell model (`Model/Own.lean`);
  (3) read the records of the six array functions of `lockable.rs` as fill loops;
  (4) check that the only sensitive call of `unlock_all_*` forgets a surplus panic payload.
  Anything not recognised maps to `none`, so a change to these bodies fails a theorem.
-/
import HLV.Static.Rules
import HLV.Model.Own
namespace HLV.Static
open HLV.Gen HLV.Own

/-- owner code of an impl: the head of a path type, 1 for arrays `[T; N]` -/
def ownerCode : Ty → Nat
  | .arr _ => 1
  | t => t.head

/-- (owner or 0 for free functions, function, trait or 0) of every function with an ownership record -/
def ownSensitiveFns : List (Nat × Nat) :=
  ((freeFns ++ traits.flatMap (·.fns)).filter fun f => !f.own.isEmpty).map (fun f => (0, f.name)) ++
  impls.flatMap fun i => (i.fns.filter fun f => !f.own.isEmpty).map fun f => (ownerCode i.selfTy, f.name)

def arrayFns : List Nat := [Sym.guard, Sym.data_mut, Sym.read_guard, Sym.data_ref, Sym.get_mut, Sym.into_inner]

def auditedOwnFns : List (Nat × Nat) :=
  [(Sym.BoxedLockCollection, Sym.new_unchecked), (Sym.BoxedLockCollection, Sym.drop),
   (Sym.BoxedLockCollection, Sym.into_child), (0, Sym.unlock_all_writes), (0, Sym.unlock_all_reads)] ++
  arrayFns.map fun f => (1, f)

/-- functions touching an ownership-sensitive primitive that no model covers -/
def c16_unauditedSensitive : List (Nat × Nat) := ownSensitiveFns.filter fun x => !auditedOwnFns.contains x
/-- audited functions that no longer have a record (the model would be about nothing) -/
def c16_auditedMissing : List (Nat × Nat) := auditedOwnFns.filter fun x => !ownSensitiveFns.contains x

/-- the record of a function (the first one, `[]` if there is none) -/
def ownOf (owner fn : Nat) : List (Nat × Nat) :=
  let fs := if owner = 0 then freeFns else (impls.filter fun i => ownerCode i.selfTy == owner).flatMap (·.fns)
  ((fs.filter fun f => f.name == fn && !f.own.isEmpty).map (·.own)).headD []
/-- all records of a function name on an owner (arrays implement `guard` twice: Lockable, Sharable …) -/
def ownAllOf (owner fn : Nat) : List (List (Nat × Nat)) :=
  ((impls.filter fun i => ownerCode i.selfTy == owner).flatMap (·.fns)).filterMap fun f =>
    if f.name == fn && !f.own.isEmpty then some f.own else none

/-! ### (2) boxed.rs → heap-cell operations -/

/-- calls of `boxed.rs` that neither create, move nor destroy an owner -/
def boxedNeutral : List Nat :=
  [Sym.«ev:UnsafeCell::new», Sym.«ev:get», Sym.«ev:cast_const», Sym.«ev:cast_mut», Sym.«ev:as_ref»,
   Sym.«ev:unwrap_unchecked», Sym.«ev:get_ptrs», Sym.«ev:cast», Sym.«ev:sort_by_key», Sym.«ev:UnsafeCell::raw_get»]

def memOp? (e : Nat × Nat) : Option (List MemOp) :=
  if boxedNeutral.contains e.1 then some []
  else if e.1 = Sym.«ev:Box::new» then some [.boxNew]
  else if e.1 = Sym.«ev:Box::leak» || e.1 = Sym.«ev:Box::into_raw» then some [.boxLeak]   -- the Box value is given up either way
  else if e.1 = Sym.«ev:Vec::new» then some [.buildLocks]
  else if e.1 = Sym.«ev:mem::transmute» then some []                        -- moves its argument; lifetimes only
  else if e = (Sym.«ev:clear», Sym.«op:self.locks») then some [.clearLocks]
  else if e = (Sym.«ev:ptr::drop_in_place», Sym.«op:&mutself.locks») then some [.dropLocksInPlace]
  else if e = (Sym.«ev:Box::from_raw», Sym.«op:self.data.cast_mut()») then some [.fromRaw]
  else if e = (Sym.«ev:drop», Sym.«op:boxed») then some [.dropBox]
  else if e = (Sym.«ev:into_inner», Sym.«op:boxed») then some [.boxIntoInner]
  else if e = (Sym.«ev:mem::forget», Sym.«op:self») then some [.forgetSelf]
  else none

def memOps? : List (Nat × Nat) → Option (List MemOp)
  | [] => some []
  | e :: es => match memOp? e, memOps? es with
    | some a, some b => some (a ++ b)
    | _, _ => none

def boxedNewOps : Option (List MemOp) := memOps? (ownOf Sym.BoxedLockCollection Sym.new_unchecked)
def boxedDropOps : Option (List MemOp) := memOps? (ownOf Sym.BoxedLockCollection Sym.drop)
def boxedIntoChildOps : Option (List MemOp) := memOps? (ownOf Sym.BoxedLockCollection Sym.into_child)

/-- for the report: which of the three boxed functions has a record the reading does not recognise -/
def c16_boxedUnread : List Nat :=
  (if boxedNewOps.isNone then [Sym.new_unchecked] else []) ++
  (if boxedDropOps.isNone then [Sym.drop] else []) ++
  (if boxedIntoChildOps.isNone then [Sym.into_child] else [])
/-- for the report: recognised, but the life cycle is not clean on the heap-cell model -/
def c16_boxedLife : List Nat :=
  (match boxedNewOps, boxedDropOps, boxedIntoChildOps with
   | some n, some d, some c =>
     (if (lifeDrop n d).clean false then [] else [Sym.drop]) ++
     (if (lifeIntoChild n c d).clean true then [] else [Sym.into_child])
   | _, _, _ => [])

/-! ### (3) lockable.rs arrays → fill loops -/

/-- the loop headers under which iteration `i` (for `i` in `0..N`, once each) has element `i` in hand;
loop variables appear under their positional names `$0`, `$1` (the translator renames them).
`idx`: `$0` is the index `i`; `enum`: `$0` is the index, `$1` the element; `zip`: `$0` is slot `i` of
the uninitialised array, `$1` the element -/
inductive FillLoop | idx | enum | zip
  deriving DecidableEq, Repr

def fillLoop? (hdr : Nat) : Option FillLoop :=
  if hdr = Sym.«op:$0in0..N» then some .idx
  else if hdr = Sym.«op:($0,$1)inself.iter_mut().enumerate()» || hdr = Sym.«op:($0,$1)inself.into_iter().enumerate()» then some .enum
  else if hdr = Sym.«op:($0,$1)inguards.iter_mut().zip(self.iter())» || hdr = Sym.«op:($0,$1)inguards.iter_mut().zip(self.iter_mut())»
       || hdr = Sym.«op:($0,$1)inguards.iter_mut().zip(self.into_iter())» then some .zip
  else none
/-- calls that only set up the iterator -/
def fillSetup : List Nat := [Sym.«ev:iter_mut», Sym.«ev:into_iter», Sym.«ev:enumerate», Sym.«ev:zip», Sym.«ev:iter»]
/-- the element of iteration `i` -/
def fillSrc (k : FillLoop) (a : Nat) : Option Idx :=
  match k with
  | .idx => if a = Sym.«op:self[$0]» then some .loopVar else if a = Sym.«op:self[0]» then some (.const 0) else none
  | .enum | .zip => if a = Sym.«op:$1» then some .loopVar else if a = Sym.«op:self[0]» then some (.const 0) else none
/-- the slot written in iteration `i` -/
def fillDst (k : FillLoop) (a : Nat) : Option Idx :=
  match k with
  | .idx | .enum => if a = Sym.«op:guards[$0]» then some .loopVar else if a = Sym.«op:guards[0]» then some (.const 0) else none
  | .zip => if a = Sym.«op:$0» then some .loopVar else if a = Sym.«op:guards[0]» then some (.const 0) else none

/-- the event code of a call to the element function of the same name -/
def evOfFn (fn : Nat) : Nat :=
  if fn = Sym.guard then Sym.«ev:guard» else if fn = Sym.data_mut then Sym.«ev:data_mut»
  else if fn = Sym.read_guard then Sym.«ev:read_guard» else if fn = Sym.data_ref then Sym.«ev:data_ref»
  else if fn = Sym.get_mut then Sym.«ev:get_mut» else if fn = Sym.into_inner then Sym.«ev:into_inner» else 0

/-- `uninit().assume_init()` (an array of `MaybeUninit`s needs no initialisation); setup; `for` header;
one element call; one `write`; `endfor`; `guards.map(|g| g.assume_init())` -/
def arrFill? (fn : Nat) (evs : List (Nat × Nat)) : Option ArrFill :=
  match evs.filter fun e => !fillSetup.contains e.1 with
  | [(u, _), (a, _), (f, hdr), (call, src), (w, dst), (ef, _), (ai, g), (mp, gs)] =>
    if u = Sym.«ev:MaybeUninit::uninit» && a = Sym.«ev:assume_init» && f = Sym.«ev:for» && (fillLoop? hdr).isSome
       && call = evOfFn fn && w = Sym.«ev:write» && ef = Sym.«ev:endfor» && ai = Sym.«ev:assume_init»
       && g = Sym.«op:g» && mp = Sym.«ev:map» && gs = Sym.«op:guards» then
      match fillLoop? hdr with
      | none => none
      | some k =>
        match fillSrc k src, fillDst k dst with
        | some s, some d => some { dst := d, src := s }
        | _, _ => none
    else none
  | _ => none

/-- array functions whose record is not the fill loop "slot i := element i" -/
def c16_arrayFills : List Nat :=
  arrayFns.filter fun fn =>
    let rs := ownAllOf 1 fn
    rs.isEmpty || !rs.all fun r => arrFill? fn r == some { dst := .loopVar, src := .loopVar }
/-- … of these, the ones whose record is not recognised as a fill loop at all -/
def c16_arrayUnread : List Nat :=
  arrayFns.filter fun fn =>
    let rs := ownAllOf 1 fn
    rs.isEmpty || rs.any fun r => (arrFill? fn r).isNone
/-- … and the ones recognised as a fill loop that writes the wrong slot or reads the wrong element -/
def c16_arrayWrong : List Nat := c16_arrayFills.filter fun fn => !c16_arrayUnread.contains fn

/-! ### (4) utils.rs: surplus panic payloads -/

/-- the sensitive calls of a record -/
def sensitiveEv : List Nat :=
  [Sym.«ev:mem::forget», Sym.«ev:Box::from_raw», Sym.«ev:Box::leak», Sym.«ev:ptr::drop_in_place»,
   Sym.«ev:MaybeUninit::uninit», Sym.«ev:assume_init», Sym.«ev:mem::transmute»]
/-- `unlock_all_*`: the only sensitive call is `mem::forget(e)` on the payload `e` of a caught panic -/
def c16_payloadForget : List Nat :=
  [Sym.unlock_all_writes, Sym.unlock_all_reads].filter fun fn =>
    (ownOf 0 fn).filter (fun e => sensitiveEv.contains e.1) != [(Sym.«ev:mem::forget», Sym.«op:e»)]

end HLV.Static
