/-
  HLV.Static.Report — prints, for every static rule, the offending items by name (used by the
  check driver to turn a failed table theorem into a concrete replay: the function / impl /
  struct that breaks the rule now).
-/
import HLV.Static.Rules
import HLV.Static.OwnRules
import HLV.Static.KillRules
namespace HLV.Static
open HLV.Gen

def nm (n : Nat) : String := ((symNames.find? (·.1 == n)).map (·.2)).getD s!"#{n}"
def pr (l : List (Nat × Nat)) : List String := l.map fun (a, b) => s!"{nm a}::{nm b}"

def recordedHoldExtraction : List (Nat × Nat) :=
  [(Sym.Box, Sym.Guard), (Sym.Vec, Sym.Guard), (Sym.Box, Sym.ReadGuard), (Sym.Vec, Sym.ReadGuard)]
def recordedDebugHolds : List (Nat × Nat) := [(Sym.Mutex, Sym.fmt), (Sym.RwLock, Sym.fmt)]
def recordedClosures : List (Nat × Nat) :=
  [Sym.BoxedLockCollection, Sym.OwnedLockCollection, Sym.RefLockCollection, Sym.RetryingLockCollection,
   Sym.Poisonable].flatMap (fun t =>
    [Sym.scoped_lock, Sym.scoped_try_lock, Sym.scoped_read, Sym.scoped_try_read].map fun f => (t, f)) ++
  [Sym.scoped_write, Sym.scoped_try_write, Sym.scoped_read, Sym.scoped_try_read].map fun f => (0, f)

/-- (property, rule, offending items not covered by a recorded finding, recorded items present) -/
def report : List (String × String × List String × List String) :=
  [ ("C14", "translator errors", translatorErrors, []),
    ("C14", "key or guard implements Clone/Copy/Default/Send", pr c14_keyLikeImpls, []),
    ("C14", "hold token (a *Ref whose Drop releases, or a struct containing one) implements Clone/Copy/Default", pr c14_holdTokenImpls, []),
    ("C14", "key field not private / ThreadKey lacks the !Send marker", pr c14_keyFields, []),
    ("C14", "Keyable not sealed", c14_keyableSealing.map nm, []),
    ("C14", "safe public acquiring function without a key parameter", pr c14_acquiringWithoutKey, []),
    ("C14", "key lent out by reference or returned without taking one", pr c14_keyLeaks, []),
    ("C14,C01,C17", "Debug::fmt takes a lock without a key and runs the payload's Debug while holding (D13)",
      pr (c14_debugHoldsWithoutKey.filter fun x => !recordedDebugHolds.contains x),
      pr (c14_debugHoldsWithoutKey.filter fun x => recordedDebugHolds.contains x)),
    ("C14", "safe public accessor to the raw lock", pr c14_rawAccessors, []),
    ("C14", "guard type lets holds be moved out through &mut (D6)",
      pr (c14_holdExtraction.filter fun x => !recordedHoldExtraction.contains x),
      pr (c14_holdExtraction.filter fun x => recordedHoldExtraction.contains x)),
    ("C15", "manual Send/Sync impl weaker than the reference / unexpected", pr c15_sendSync, []),
    ("C15,C14", "key-less hold token that is not unconditionally !Send (no PhantomData over a raw pointer): with a raw lock whose guards may be sent it can be lent to another thread through &mut and swapped with that thread's hold (D18)", c15_holdTokenMarkers.map nm, []),
    ("C15", "scoped closure argument not higher-ranked (D8)",
      pr (c15_closureLifetimes.filter fun x => !recordedClosures.contains x),
      pr (c15_closureLifetimes.filter fun x => recordedClosures.contains x)),
    ("C15,C07", "OwnedLockable for a non-owning type", c15_ownedLockable.map nm, []),
    ("C15,C07", "unchecked constructor without OwnedLockable / unsafe", pr c15_uncheckedConstructors, []),
    ("C15", "shared access into an owned collection", pr c15_ownedSharedAccess, []),
    ("C15,C07,C01", "mutable access to the container of a checked collection without OwnedLockable (a duplicate can be added after try_new)", pr c15_mutableAccessToChecked, []),
    ("C15", "raw entry point not unsafe", c15_unsafeEntryPoints.map nm, []),
    ("C15", "Deref does not tie the reference to the guard borrow", c15_derefLifetimes.map nm, []),
    ("C15,C04,C13", "try path reaches a blocking operation", c04_tryReachesBlocking.map nm, []),
    ("C15,C17", "non-acquiring path reaches a blocking operation", c17_nonAcqReachesBlocking.map nm, []),
    ("C12", "[reading] acquiring function of a leaf lock: no second test of the kill flag after the raw acquisition found in its call record (if the test is really gone, a lock killed while the thread waited, or while its try was in flight, still hands out a guard)", pr c12_killFlagProtocol, []),
    ("C12", "[reading] raw operation of a leaf lock not followed by the recovery that stores the kill flag in its call record", pr c12_recovery, []),
    ("C16", "[reading] ownership-sensitive primitive (forget / leak / from_raw / drop_in_place / MaybeUninit / transmute …) in a function no ownership model covers", pr c16_unauditedSensitive, []),
    ("C16", "[reading] audited function no longer has an ownership record", pr c16_auditedMissing, []),
    ("C16", "[reading] BoxedLockCollection: call sequence not recognised as heap-cell operations", c16_boxedUnread.map nm, []),
    ("C16", "BoxedLockCollection: the extracted call sequence is not clean on the heap-cell model (double free / leak / use after free / payload dropped twice or never)", c16_boxedLife.map nm, []),
    ("C16", "[reading] array function not recognised as a MaybeUninit fill loop", c16_arrayUnread.map nm, []),
    ("C16", "array fill loop writes the wrong slot or takes the value from the wrong element (uninitialised read / leaked value / value at the wrong position)", c16_arrayWrong.map nm, []),
    ("C16", "[reading] unlock_all_* forgets something other than the payload of a caught panic", c16_payloadForget.map nm, []) ]

def reportText : String :=
  "\n".intercalate (report.map fun (p, r, bad, known) =>
    s!"{p}|{r}|{";".intercalate bad}|{";".intercalate known}")

end HLV.Static
