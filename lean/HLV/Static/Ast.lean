/-
  HLV.Static.Ast — the shape of the facts the translator extracts from the Rust sources.
  Identifiers are `Nat` codes (see `HLV.Gen.Sym` in the generated file).
-/
namespace HLV.Static

inductive Ty
  | path (name : Nat) (args : List Ty)
  | lt (name : Nat)                                     -- a lifetime (0 = elided / '_, 1 = 'static)
  | ref (lt : Nat) (mutable : Bool) (t : Ty)
  | ptr (mutable : Bool) (t : Ty)
  | tup (ts : List Ty)
  | slice (t : Ty)
  | arr (t : Ty)
  | fnTrait (kind : Nat) (args : List Ty) (ret : Ty)    -- Fn(A, …) -> R
  | impl (bounds : List Ty)
  | dyn (bounds : List Ty)
  | assoc (base : Ty) (name : Nat) (args : List Ty)     -- L::DataMut<'a>, <T as Tr>::N
  | other
  deriving Repr, Inhabited, BEq

structure Param where
  name : Nat
  bounds : List Ty
  isLifetime : Bool
  isConst : Bool := false
  deriving Repr, Inhabited, BEq

structure Field where
  name : Nat
  vis : Nat            -- 0 private, 1 restricted (pub(crate)/pub(super)), 2 pub
  ty : Ty
  deriving Repr, Inhabited, BEq

structure StructDef where
  name : Nat
  vis : Nat
  generics : List Param
  fields : List Field
  derives : List Nat
  modPub : Bool        -- every module on the path from the crate root is `pub`
  isEnum : Bool := false
  deriving Repr, Inhabited

inductive Recv | none | value | ref | refMut
  deriving Repr, Inhabited, BEq, DecidableEq

structure FnDef where
  name : Nat
  vis : Nat
  isUnsafe : Bool
  isConst : Bool
  generics : List Param
  wheres : List (Ty × List Ty)
  recv : Recv
  params : List Ty
  ret : Ty
  callees : List Nat
  testOnly : Bool
  /-- C16: the calls of the body in evaluation order, (callee, receiver-or-first-argument), `for`
  loops bracketed — present only for functions that touch an ownership-sensitive primitive -/
  own : List (Nat × Nat) := []
  /-- C12: the same kind of record (with `if` / `else` / `endif`, `return` and macro heads), for every
  function of an `impl RawLock for …` -/
  calls : List (Nat × Nat) := []
  deriving Repr, Inhabited

structure ImplDef where
  trait_ : Option Ty
  selfTy : Ty
  isUnsafe : Bool
  generics : List Param
  wheres : List (Ty × List Ty)
  fns : List FnDef
  assocTys : List (Nat × Ty)
  deriving Repr, Inhabited

structure TraitDef where
  name : Nat
  vis : Nat
  isUnsafe : Bool
  supers : List Ty
  modPub : Bool
  fns : List FnDef
  deriving Repr, Inhabited

end HLV.Static
