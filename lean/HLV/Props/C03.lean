/-
  C03 — total allocation: a thread that can acquire holds nothing.
-/
import HLV.Props.HoldFamily
namespace HLV

-- @theorem C03_calls_start_and_end_empty_handed : on every execution (any answers, ≤ n faults) of every well-typed program, whenever an acquiring call starts or an API hands the key back, the thread holds no lock
theorem C03_calls_start_and_end_empty_handed (n : Nat) (ro : RankOpt) (C : Ctx) (prog : List Stmt)
    (hok : ProgOK ro C prog) (u : UserSt)
    {tr₁ tr₂ : List (Op × Resp)} {k : Nat} {r : Resp} {out : Outcome Unit UserSt}
    (hp : Path (program C prog u) (tr₁ ++ (.mark k, r) :: tr₂) out)
    (ha : Admissible (HoldSpec n ro) {} tr₁)
    (hk : k = mkKeyBack ∨ k = mkBeginBlocking ∨ k = mkBeginTry) :
    ∀ x m, (ghostAfter (HoldSpec n ro) {} tr₁).held x m = 0 :=
  program_op_ok n ro C prog hok u hp ha hk

-- @theorem C03_program_ends_holding_nothing : when a well-typed program has run to its end, the thread holds nothing and is inside no call
theorem C03_program_ends_holding_nothing (n : Nat) (ro : RankOpt) (C : Ctx) (prog : List Stmt)
    (hok : ProgOK ro C prog) (u u' : UserSt) {tr : List (Op × Resp)}
    (hp : Path (program C prog u) tr (.ret u')) (ha : Admissible (HoldSpec n ro) {} tr) :
    (ghostAfter (HoldSpec n ro) {} tr).held = Held.empty ∧ (ghostAfter (HoldSpec n ro) {} tr).depth = 0 :=
  (wp_sound (HoldSpec n ro) (program_hold n ro C prog hok u) hp).2 ha

-- @theorem C03_every_statement_restores_empty : each statement (session of any API flavour, key operation, Debug, poison query) taken from a state with nothing held ends with nothing held, for every answer sequence
theorem C03_every_statement_restores_empty (n : Nat) (ro : RankOpt) (C : Ctx) (st : Stmt) (hok : StmtOK ro C st)
    (u : UserSt) (g : HG) (hh : g.held = Held.empty) (hd : g.depth = 0) :
    wp (HoldSpec n ro) (stmt C st u) (fun _ g' => g'.held = Held.empty ∧ g'.depth = 0)
      (fun _ _ => False) g :=
  stmt_spec C st u g _ _ hok hh hd (fun _ _ a b => ⟨a, b⟩)

end HLV
