/-
  C10 — poisoning tracks panics during holds, and only those.
-/
import HLV.Logic.Poison
import HLV.Logic.Sessions
import HLV.Model.Seq
namespace HLV

-- @theorem C10_flags_are_set_only_after_a_panic : on every execution of every client program (any answers), whenever a poison flag is set some panic has happened before (a panicking raw-lock answer or a user panic): executions without panics never poison anything
theorem C10_flags_are_set_only_after_a_panic (C : Ctx) (hout : C.outer = false) (prog : List Stmt) (u : UserSt)
    {tr₁ tr₂ : List (Op × Resp)} {p : PoisonId} {r : Resp} {out : Outcome Unit UserSt}
    (hp : Path (program C prog u) (tr₁ ++ (.poisonSet p, r) :: tr₂) out)
    (ha : Admissible PoisonSpec {} tr₁) :
    0 < (ghostAfter PoisonSpec {} tr₁).panics := by
  have h := (wp_sound PoisonSpec (program_poison C hout prog u {}) hp).1
  have : ∀ {g : PG} {tr₁ : List (Op × Resp)}, TraceOK PoisonSpec g (tr₁ ++ (.poisonSet p, r) :: tr₂) →
      Admissible PoisonSpec g tr₁ → 0 < (ghostAfter PoisonSpec g tr₁).panics := by
    intro g tr₁
    induction tr₁ generalizing g with
    | nil => intro h _; exact h.1
    | cons a tr₁ ih => obtain ⟨o, r'⟩ := a; intro h ha; exact ih (h.2 ha.1) ha.2
  exact this h ha

-- @theorem C10_panic_counter_counts_only_panics : the counter used above grows only at panicking answers and user-panic marks, so it is zero on a panic-free history
theorem C10_panic_counter_counts_only_panics (g : PG) (tr : List (Op × Resp))
    (hnp : ∀ or ∈ tr, or.2 ≠ .panic ∧ or.1 ≠ .mark mkUserPanic) :
    (ghostAfter PoisonSpec g tr).panics = g.panics := by
  induction tr generalizing g with
  | nil => rfl
  | cons a tr ih =>
    obtain ⟨o, r⟩ := a
    have h1 := hnp (o, r) List.mem_cons_self
    have : (poisonUpd g o r).panics = g.panics := by
      cases o <;> cases r <;> simp_all [poisonUpd, PG.set]
    simp only [ghostAfter]
    rw [ih _ (fun x hx => hnp x (List.mem_cons_of_mem _ hx))]
    exact this

-- @theorem C10_guard_panic_poisons_every_wrapper_inside : once a guard of any shape exists (own guard of a Poisonable, or the guard of any collection kind containing Poisonables at any depth), a user panic while it is alive leaves every Poisonable inside poisoned, on every answer sequence (unless the process aborts)
theorem C10_guard_panic_poisons_every_wrapper_inside (C : Ctx) (hout : C.outer = false) (S : Shape) (ses : Session)
    (hx : ses.exit = .panic) (u' : UserSt) (g : PG) :
    wp PoisonSpec (guardPhase C S ses u') (fun _ g' => ∀ p ∈ poisonIds S, g'.flag p = true)
      (fun (_ : Unit) _ => True) g :=
  guardPhase_poison C hout S ses u' g _ (fun _ _ _ h => h hx)

-- @theorem C10_own_scoped_panic_poisons : a user panic inside the scoped closure of a Poisonable poisons it (PARTIAL: for a collection's scoped closure the members' flags are not set — finding D5, see C10_finding_D5 below and known_findings.json)
theorem C10_own_scoped_panic_poisons (C : Ctx) (S : Shape) (p : PoisonId) (hS : isPoisonableTop S = some p)
    (ses : Session) (hx : ses.exit = .panic) (u' : UserSt) (g : PG) :
    wp PoisonSpec (scopedHeld C S ses u') (fun _ g' => g'.flag p = true) (fun (_ : Unit) _ => True) g :=
  scopedHeld_poison C S ses u' g _ (fun _ _ _ h => h hx p hS)

-- @theorem C10_clear_poison_restores_ok : clear_poison resets the flag, and until the next panic during a hold every is_poisoned / guard() reads "not poisoned"
theorem C10_clear_poison_restores_ok (g : PG) (p : PoisonId) (r : Resp) :
    (poisonUpd g (.poisonClear p) r).flag p = false ∧
    (poisonAdm (poisonUpd g (.poisonClear p) r) (.poisonGet p) .no) := by
  simp [poisonUpd, PG.set, poisonAdm]

-- @theorem C10_poisoned_acquisition_acquires_and_its_guard_works : the part of a guard session after the acquisition (guard creation reads the flags, Err or Ok) satisfies the hold discipline whatever the flags say: a poisoned result still holds exactly the leaves and its guard releases them exactly once
theorem C10_poisoned_acquisition_acquires_and_its_guard_works (n : Nat) (ro : RankOpt) (C : Ctx)
    (ses : Session) (hok : SesOK ro C ses) (u : UserSt) (g : HG)
    (hh : g.held = Held.empty.plus (holdsOf (C.shape ses.coll) ses.mode)) (hd : g.depth ≤ 1) :
    wp (HoldSpec n ro) (guardPhase C (C.shape ses.coll) ses u)
      (fun _ g' => g'.held = Held.empty ∧ g'.depth = 0) (fun _ _ => False) g :=
  guardPhase_spec C ses u g _ _ hok hh hd (fun _ _ _ a b => ⟨a, b⟩)

-- @theorem C10_user_panics_never_kill_a_lock : in the shared state a lock's killed flag is set only by a panicking raw operation or by RawLock::poison; with no raw faults and no kill operation (which happylock never issues, C12) no lock becomes unusable, whatever user code panics
theorem C10_user_panics_never_kill_a_lock (pol : Policy) (e : Env) (t : Tid) (o : Op) (x : LockId)
    (hk : (e.locks x).killed = false) (hno : ∀ y, o ≠ .kill y) :
    ((e.step pol t o false).env.locks x).killed = false := by
  unfold Env.step
  cases o with
  | kill y => exact absurd rfl (hno y)
  | acq m b y =>
    simp only []
    split
    · exact hk
    · simp only [Bool.false_eq_true, if_false]
      split
      · simp only [StepRes.env, Env.setLock]
        split
        · rename_i h; subst h; cases m <;> simpa [LockSt.take] using hk
        · exact hk
      · split
        · split
          · simp only [StepRes.env]
            split
            · exact hk
            · simp only [Env.setLock]; split
              · rename_i h; subst h; exact hk
              · exact hk
          · exact hk
        · exact hk
  | rel m y =>
    simp only [Bool.false_eq_true, if_false, StepRes.env, Env.setLock]
    split
    · rename_i h; subst h; cases m <;> simpa [LockSt.release] using hk
    · exact hk
  | access y w =>
    cases w with
    | none => exact hk
    | some v =>
      simp only [StepRes.env, Env.setLock]
      split
      · rename_i h; subst h; exact hk
      · exact hk
  | keyGet => simp only []; split <;> exact hk
  | keyDrop => exact hk
  | keyForget => exact hk
  | poisonSet p => exact hk
  | poisonClear p => exact hk
  | poisonGet p => exact hk
  | mark k => exact hk

/-! ### finding D5, reproduced on the model (the model mirrors the code here) -/

def d5Ctx : Ctx := { W := { addr := fun x => x }, colls := [.retry (.seq [.poisonable 0 (.mutex 0)])] }
def d5Prog : List Stmt :=
  [.get, .ses { coll := 0, api := .scoped, mode := .excl, key := .lent, body := [], exit := .panic }]

/-- A user panic inside the scoped closure of a *collection* leaves a `Poisonable` member
unpoisoned (the unwind handler of `utils::scoped_*` only unlocks). The full completeness
statement of C10 is therefore false of the current code; this witness is also in
`known_findings.json` and is replayed against the real code on every run. -/
theorem C10_finding_D5 :
    ((seqRun [] 60 { env := {} } (program d5Ctx d5Prog {})).2.env.poison 0) = false := by
  decide

/-- the same finding through `Poisonable`'s own `scoped_*`: they set the flag of the wrapper they are
called on only; a `Poisonable` nested inside (directly, or as a member of the wrapped collection)
stays unpoisoned, while the guard route poisons every level -/
def d5bCtx : Ctx := { W := { addr := fun x => x }, colls := [.poisonable 0 (.poisonable 1 (.mutex 0))] }

-- @theorem C10_finding_D5_nested_poisonable : finding D5, second route — a user panic inside the scoped closure of a Poisonable that wraps another Poisonable poisons the outer one and leaves the inner one unpoisoned
theorem C10_finding_D5_nested_poisonable :
    let e := (seqRun [] 60 { env := {} } (program d5bCtx d5Prog {})).2.env
    e.poison 0 = true ∧ e.poison 1 = false := by
  decide

end HLV
