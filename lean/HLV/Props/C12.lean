/-
  C12 — a panicking raw lock operation leaks nothing and kills only that lock.
-/
import HLV.Props.HoldFamily
import HLV.Model.Env
namespace HLV

-- @theorem C12_no_leak_under_any_number_of_faults : for every bound n on panicking raw operations (1 = one-shot, any n = persistent), every well-typed program keeps the hold discipline: releases only of held locks, nothing held when a call has ended
theorem C12_no_leak_under_any_number_of_faults (n : Nat) (ro : RankOpt) (C : Ctx) (prog : List Stmt)
    (hok : ProgOK ro C prog) (u : UserSt)
    {tr : List (Op × Resp)} {out : Outcome Unit UserSt} (hp : Path (program C prog u) tr out) :
    TraceOK (HoldSpec n ro) {} tr :=
  program_traces n ro C prog hok u hp

-- @theorem C12_happylock_never_kills_a_lock_itself : no execution of any well-typed program issues `RawLock::poison` on any lock: a lock becomes unusable only through the panic of its own operation
theorem C12_happylock_never_kills_a_lock_itself (n : Nat) (ro : RankOpt) (C : Ctx) (prog : List Stmt)
    (hok : ProgOK ro C prog) (u : UserSt)
    {tr₁ tr₂ : List (Op × Resp)} {x : LockId} {r : Resp} {out : Outcome Unit UserSt}
    (hp : Path (program C prog u) (tr₁ ++ (.kill x, r) :: tr₂) out)
    (ha : Admissible (HoldSpec n ro) {} tr₁) : False :=
  program_op_ok n ro C prog hok u hp ha

-- @theorem C12_acquisition_unwinds_with_holds_as_before : if a blocking acquisition of any shape unwinds (a raw operation panicked at any index, in any round), everything it had taken has been released or is stuck on a killed lock: the holds are exactly as before the call
theorem C12_acquisition_unwinds_with_holds_as_before (n : Nat) (ro : RankOpt) (W : World) (S : Shape)
    (hl : lockable S = true) (hk : ShapeOK ro W S) (m : Mode) (g : HG) (hd : g.depth = 0)
    (hlow : LowFp ro g.held (shapeFp W S m)) :
    wp (HoldSpec n ro) ((toRaw W S).acq m) (fun _ _ => True) (fun _ g' => g'.held = g.held) g := by
  apply (toRaw_isLock (n := n) (ro := ro) W S hl hk).acq m g _ _ hd hlow trivial
  intro g' a _ _; exact a

/-! the raw-lock table: what a fault does -/

-- @theorem C12_fault_kills_exactly_that_lock : a panicking acquisition or release of lock x leaves every other lock's state untouched, sets x's killed flag and does not change who holds x
theorem C12_fault_kills_exactly_that_lock (pol : Policy) (e : Env) (t : Tid) (o : Op) (x : LockId)
    (hx : (∃ m b, o = .acq m b x) ∨ (∃ m, o = .rel m x)) (hk : (e.locks x).killed = false ∨ ∃ m, o = .rel m x) :
    ∃ ev, e.step pol t o true = .stepped .panic (e.setLock x { e.locks x with killed := true }) ev := by
  rcases hx with ⟨m, b, rfl⟩ | ⟨m, rfl⟩
  · rcases hk with hk | ⟨m', h⟩
    · simp [Env.step, hk]
    · cases h
  · simp [Env.step]

-- @theorem C12_killed_lock_refuses_every_acquisition : once killed, a lock answers every try with "no" and every blocking acquisition with a panic, without any raw operation and without changing any state
theorem C12_killed_lock_refuses_every_acquisition (pol : Policy) (e : Env) (t : Tid) (m : Mode)
    (b : Bool) (x : LockId) (fault : Bool) (hk : (e.locks x).killed = true) :
    ∃ ev, e.step pol t (.acq m b x) fault = .stepped (if b then .panic else .no) e ev ∧ ev.raw = false := by
  simp [Env.step, hk]

theorem take_killed (s : LockSt) (t : Tid) (m : Mode) : (s.take t m).killed = s.killed := by
  cases m <;> rfl
theorem release_killed (s : LockSt) (t : Tid) (m : Mode) : (s.release t m).killed = s.killed := by
  cases m <;> rfl
theorem setLock_killed (e : Env) (x y : LockId) (s : LockSt) (hk : (e.locks x).killed = true)
    (hs : (e.locks y).killed = true → s.killed = true) : ((e.setLock y s).locks x).killed = true := by
  by_cases h : x = y
  · subst h; simp [Env.setLock]; exact hs hk
  · simp [Env.setLock, h, hk]

-- @theorem C12_killed_is_forever : no operation of any thread, faulty or not, ever clears a killed flag
theorem C12_killed_is_forever (pol : Policy) (e : Env) (t : Tid) (o : Op) (fault : Bool) (x : LockId)
    (hk : (e.locks x).killed = true) : ((e.step pol t o fault).env.locks x).killed = true := by
  unfold Env.step
  cases o with
  | acq m b y =>
    simp only []
    split
    · exact hk
    · split
      · exact setLock_killed e x y _ hk (fun _ => rfl)
      · split
        · exact setLock_killed e x y _ hk (fun h => by rw [take_killed]; exact h)
        · split
          · split
            · simp only [StepRes.env]
              split
              · exact hk
              · exact setLock_killed e x y _ hk (fun h => h)
            · exact hk
          · exact hk
  | rel m y =>
    simp only []
    split
    · exact setLock_killed e x y _ hk (fun _ => rfl)
    · exact setLock_killed e x y _ hk (fun h => by rw [release_killed]; exact h)
  | kill y => exact setLock_killed e x y _ hk (fun _ => rfl)
  | access y w =>
    cases w with
    | none => exact hk
    | some v => exact setLock_killed e x y _ hk (fun h => h)
  | keyGet => simp only []; split <;> exact hk
  | keyDrop => exact hk
  | keyForget => exact hk
  | poisonSet p => exact hk
  | poisonClear p => exact hk
  | poisonGet p => exact hk
  | mark k => exact hk

end HLV
