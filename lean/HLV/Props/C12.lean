/-
  C12 — a panicking raw lock operation leaks nothing and kills only that lock.
-/
import HLV.Props.HoldFamily
import HLV.Model.Env
import HLV.Logic.Kill
import HLV.Static.KillRules
namespace HLV

-- @theorem C12_no_leak_under_any_number_of_faults : for every bound n on panicking raw operations (1 = one-shot, any n = persistent), every well-typed program keeps the hold discipline: releases only of held locks, nothing held when a call has ended
theorem C12_no_leak_under_any_number_of_faults (n : Nat) (ro : RankOpt) (C : Ctx) (prog : List Stmt)
    (hok : ProgOK ro C prog) (u : UserSt)
    {tr : List (Op × Resp)} {out : Outcome Unit UserSt} (hp : Path (program C prog u) tr out) :
    TraceOK (HoldSpec n ro) {} tr :=
  program_traces n ro C prog hok u hp

-- @theorem C12_happylock_never_kills_a_lock_itself : no execution of any well-typed program issues `RawLock::poison` on any lock: a lock becomes unusable only through the panic of its own operation
theorem C12_happylock_never_kills_a_lock_itself (n : Nat) (ro : RankOpt) (C : Ctx) (prog : List Stmt)
    (hok : ProgOK ro C prog) (u : UserSt)
    {tr₁ tr₂ : List (Op × Resp)} {x : LockId} {r : Resp} {out : Outcome Unit UserSt}
    (hp : Path (program C prog u) (tr₁ ++ (.kill x, r) :: tr₂) out)
    (ha : Admissible (HoldSpec n ro) {} tr₁) : False :=
  program_op_ok n ro C prog hok u hp ha

-- @theorem C12_acquisition_unwinds_with_holds_as_before : if a blocking acquisition of any shape unwinds (a raw operation panicked at any index, in any round), everything it had taken has been released or is stuck on a killed lock: the holds are exactly as before the call
theorem C12_acquisition_unwinds_with_holds_as_before (n : Nat) (ro : RankOpt) (W : World) (S : Shape)
    (hl : lockable S = true) (hk : ShapeOK ro W S) (m : Mode) (g : HG) (hd : g.depth = 0)
    (hlow : LowFp ro g.held (shapeFp W S m)) :
    wp (HoldSpec n ro) ((toRaw W S).acq m) (fun _ _ => True) (fun _ g' => g'.held = g.held) g := by
  apply (toRaw_isLock (n := n) (ro := ro) W S hl hk).acq m g _ _ hd hlow trivial
  intro g' a _ _; exact a

/-! the raw-lock table: what a fault does -/

-- @theorem C12_fault_kills_exactly_that_lock : a panicking acquisition or release of lock x leaves every other lock's state untouched, sets x's killed flag and does not change who holds x
theorem C12_fault_kills_exactly_that_lock (pol : Policy) (e : Env) (t : Tid) (o : Op) (x : LockId)
    (hx : (∃ m b, o = .acq m b x) ∨ (∃ m, o = .rel m x)) (hk : (e.locks x).killed = false ∨ ∃ m, o = .rel m x) :
    ∃ ev, e.step pol t o true = .stepped .panic (e.setLock x { e.locks x with killed := true }) ev := by
  rcases hx with ⟨m, b, rfl⟩ | ⟨m, rfl⟩
  · rcases hk with hk | ⟨m', h⟩
    · simp [Env.step, hk]
    · cases h
  · simp [Env.step]

-- @theorem C12_killed_lock_refuses_every_acquisition : once killed, a lock answers every try with "no" and every blocking acquisition with a panic, without any raw operation and without changing any state
theorem C12_killed_lock_refuses_every_acquisition (pol : Policy) (e : Env) (t : Tid) (m : Mode)
    (b : Bool) (x : LockId) (fault : Bool) (hk : (e.locks x).killed = true) :
    ∃ ev, e.step pol t (.acq m b x) fault = .stepped (if b then .panic else .no) e ev ∧ ev.raw = false := by
  simp [Env.step, hk]

theorem take_killed (s : LockSt) (t : Tid) (m : Mode) : (s.take t m).killed = s.killed := by
  cases m <;> rfl
theorem release_killed (s : LockSt) (t : Tid) (m : Mode) : (s.release t m).killed = s.killed := by
  cases m <;> rfl
theorem setLock_killed (e : Env) (x y : LockId) (s : LockSt) (hk : (e.locks x).killed = true)
    (hs : (e.locks y).killed = true → s.killed = true) : ((e.setLock y s).locks x).killed = true := by
  by_cases h : x = y
  · subst h; simp [Env.setLock]; exact hs hk
  · simp [Env.setLock, h, hk]

-- @theorem C12_killed_is_forever : no operation of any thread, faulty or not, ever clears a killed flag
theorem C12_killed_is_forever (pol : Policy) (e : Env) (t : Tid) (o : Op) (fault : Bool) (x : LockId)
    (hk : (e.locks x).killed = true) : ((e.step pol t o fault).env.locks x).killed = true := by
  unfold Env.step
  cases o with
  | acq m b y =>
    simp only []
    split
    · exact hk
    · split
      · exact setLock_killed e x y _ hk (fun _ => rfl)
      · split
        · exact setLock_killed e x y _ hk (fun h => by rw [take_killed]; exact h)
        · split
          · split
            · simp only [StepRes.env]
              split
              · exact hk
              · exact setLock_killed e x y _ hk (fun h => h)
            · exact hk
          · exact hk
  | rel m y =>
    simp only []
    split
    · exact setLock_killed e x y _ hk (fun _ => rfl)
    · exact setLock_killed e x y _ hk (fun h => by rw [release_killed]; exact h)
  | kill y => exact setLock_killed e x y _ hk (fun _ => rfl)
  | access y w =>
    cases w with
    | none => exact hk
    | some v => exact setLock_killed e x y _ hk (fun h => h)
  | keyGet => simp only []; split <;> exact hk
  | keyDrop => exact hk
  | keyForget => exact hk
  | poisonSet p => exact hk
  | poisonClear p => exact hk
  | poisonGet p => exact hk
  | mark k => exact hk

/-! ### the kill flag at statement granularity (`Model/Kill.lean`, `Logic/Kill.lean`) -/

set_option maxRecDepth 1000000

-- @theorem C12_kill_flag_is_tested_again_after_the_raw_acquisition_in_the_source : in the source as it is now, every acquiring function of `impl RawLock for Mutex / RwLock` tests the kill flag before the raw acquisition and again after it, with the matching raw release after the second test; every raw acquisition (in acquiring functions) and every raw release (in releasing functions) is followed by the recovery closure that stores the flag; six acquiring and three releasing functions carry the protocol themselves (the others delegate)
theorem C12_kill_flag_is_tested_again_after_the_raw_acquisition_in_the_source :
    Static.c12_killFlagProtocol = [] ∧ Static.c12_recovery = [] ∧ Static.c12_protocolFnsSeen = (6, 3) := by
  decide +kernel

-- @theorem C12_no_guard_is_handed_out_once_the_kill_flag_is_up : in the statement-level protocol (flag test; raw acquire; flag test; — release: raw unlock; — a panicking raw operation: store the flag), for any number of threads and every schedule of blocking and try acquisitions, releases, raw panics and flag stores: if the flag is up after the schedule has run, no further step of any thread hands a guard to anybody
theorem C12_no_guard_is_handed_out_once_the_kill_flag_is_up (n : Nat) (p : List (Nat × Kill.Act)) (t u : Nat)
    (a : Kill.Act) (s' : Kill.St)
    (hk : (Kill.run true (Kill.init n) p).killed = true)
    (h : Kill.step true (Kill.run true (Kill.init n) p) t a = some s') :
    Kill.grants (Kill.run true (Kill.init n) p) s' u = false :=
  Kill.no_guard_once_flag_is_up (Kill.init n) p t u a s' hk h

-- @theorem C12_kill_flag_is_never_lowered : once stored, the flag stays up along every schedule
theorem C12_kill_flag_is_never_lowered (rt : Bool) (n : Nat) (p q : List (Nat × Kill.Act))
    (hk : (Kill.run rt (Kill.init n) p).killed = true) : (Kill.run rt (Kill.init n) (p ++ q)).killed = true := by
  rw [Kill.run_append]; exact Kill.run_killed_mono rt q _ hk

-- @theorem C12_kill_protocol_keeps_exclusion : the second test and the give-back release do not disturb exclusion: along every schedule (exclusive and shared acquisitions of one lock) a thread with an exclusive guard is the only thread with any guard, and a refused thread has returned the raw lock
theorem C12_kill_protocol_keeps_exclusion (rt : Bool) (n : Nat) (sched : List (Nat × Kill.Act)) (t u : Nat) (m : Kill.Md)
    (ht : (Kill.run rt (Kill.init n) sched).pc t = .holding .x)
    (hu : (Kill.run rt (Kill.init n) sched).pc u = .holding m) : t = u :=
  Kill.exclusion rt n sched t u m ht hu

-- @theorem C12_model_exhibits_D15_D15b_and_the_residual_window : the protocol without the second test hands a guard to a waiter (D15) and to a try in flight (D15b) after the flag went up; with the second test both are refused (also on the shared path: a reader in flight when another reader's raw lock_shared kills the lock is refused and gives the lock back, the readers already inside keep their guards); and the window that remains is real: a waiter can pass the second test between a raw unlock that releases-then-panics and the store of the flag
theorem C12_model_exhibits_D15_D15b_and_the_residual_window :
    (Kill.run false (Kill.init 3) Kill.schedKillWhileWaiting).pc 1 = .holding .x ∧
    (Kill.run false (Kill.init 3) Kill.schedKillWhileWaiting).killed = true ∧
    (Kill.run false (Kill.init 2) Kill.schedKillDuringTry).pc 1 = .holding .x ∧
    (Kill.run true (Kill.init 3) Kill.schedKillWhileWaiting).pc 1 = .refused ∧
    (Kill.run true (Kill.init 3) Kill.schedKillWhileWaiting).writer = none ∧
    (Kill.run true (Kill.init 2) Kill.schedKillDuringTry).pc 1 = .refused ∧
    (Kill.run true (Kill.init 4) Kill.schedReadersKilled).pc 3 = .refused ∧
    (Kill.run true (Kill.init 4) Kill.schedReadersKilled).readers = [1, 0] ∧
    (Kill.run true (Kill.init 2) Kill.schedResidual).pc 1 = .holding .x ∧
    (Kill.run true (Kill.init 2) Kill.schedResidual).killed = true := by decide

end HLV
