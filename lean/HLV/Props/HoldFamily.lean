/-
  HLV.Props.HoldFamily — the theorems shared by C03, C04, C05, C11, C12, C17: every client
  program over the modelled API, of any length, on collections of any kind, size and nesting,
  obeys the hold discipline on every execution — whatever the other threads do (they appear
  only as answers) and with up to `n` panicking raw-lock operations, `n` arbitrary.
-/
import HLV.Logic.Sessions
namespace HLV

variable {G ε α : Type}

/-- On an acceptable trace, the operation at any position satisfied its obligation in the
ghost state reached by then (as long as the answers before it were admissible). -/
theorem TraceOK.at (S : Spec G) {g : G} {tr₁ : List (Op × Resp)} {o : Op} {r : Resp}
    {tr₂ : List (Op × Resp)} (h : TraceOK S g (tr₁ ++ (o, r) :: tr₂)) (ha : Admissible S g tr₁) :
    S.pre (ghostAfter S g tr₁) o := by
  induction tr₁ generalizing g with
  | nil => exact h.1
  | cons a tr₁ ih =>
    obtain ⟨o', r'⟩ := a
    exact ih (h.2 ha.1) ha.2

/-- A program a well-typed client can write: every session is on a lockable collection, uses
its guard as the types allow and does not leak it with `mem::forget`. -/
def ProgOK (ro : RankOpt) (C : Ctx) (prog : List Stmt) : Prop := ∀ st ∈ prog, StmtOK ro C st

/-- **Main theorem of the family.** -/
theorem program_hold (n : Nat) (ro : RankOpt) (C : Ctx) (prog : List Stmt) (hok : ProgOK ro C prog) (u : UserSt) :
    wp (HoldSpec n ro) (program C prog u)
      (fun _ g => g.held = Held.empty ∧ g.depth = 0) (fun _ _ => False) {} :=
  program_spec C prog u {} _ _ hok rfl rfl (fun _ _ a b => ⟨a, b⟩)

/-- Every finite execution of such a program is an acceptable trace. -/
theorem program_traces (n : Nat) (ro : RankOpt) (C : Ctx) (prog : List Stmt) (hok : ProgOK ro C prog) (u : UserSt)
    {tr : List (Op × Resp)} {out : Outcome Unit UserSt} (hp : Path (program C prog u) tr out) :
    TraceOK (HoldSpec n ro) {} tr :=
  (wp_sound (HoldSpec n ro) (program_hold n ro C prog hok u) hp).1

/-- … and the obligation of each single operation on it holds where it was issued. -/
theorem program_op_ok (n : Nat) (ro : RankOpt) (C : Ctx) (prog : List Stmt) (hok : ProgOK ro C prog) (u : UserSt)
    {tr₁ tr₂ : List (Op × Resp)} {o : Op} {r : Resp} {out : Outcome Unit UserSt}
    (hp : Path (program C prog u) (tr₁ ++ (o, r) :: tr₂) out)
    (ha : Admissible (HoldSpec n ro) {} tr₁) :
    holdPre ro (ghostAfter (HoldSpec n ro) {} tr₁) o :=
  (program_traces n ro C prog hok u hp).at (HoldSpec n ro) ha

/-! ### non-vacuity: a concrete nested world, a concrete program, a concrete faulty execution -/

def exW : World := { addr := fun x => 10 - x }
def exC : Ctx :=
  { W := exW
    colls := [ .boxed (.seq [.mutex 0, .retry (.seq [.rwlock 1, .poisonable 0 (.mutex 2)])]),
               .owned 7 (.seq [.rwlock 3, .rwlock 4]) ] }
def exProg : List Stmt :=
  [ .get,
    .ses { coll := 0, api := .lock, mode := .excl, key := .owned,
           body := [.write 1 5, .read 2, .dbg 1], exit := .panic },
    .get,
    .ses { coll := 1, api := .scopedTry, mode := .shared, key := .lent, body := [.read 0], exit := .ret } ]

example : ProgOK none exC exProg := by
  intro st hst
  simp only [exProg, List.mem_cons, List.mem_nil_iff, or_false] at hst
  rcases hst with rfl | rfl | rfl | rfl
  · trivial
  · refine ⟨rfl, shapeOK_none _ _, by decide, ?_⟩
    intro b hb
    simp only [List.mem_cons, List.mem_nil_iff, or_false] at hb
    rcases hb with rfl | rfl | rfl
    · exact ⟨1, by decide⟩
    · show 2 < _; decide
    · trivial
  · trivial
  · refine ⟨rfl, shapeOK_none _ _, by decide, ?_⟩
    intro b hb
    simp only [List.mem_cons, List.mem_nil_iff, or_false] at hb
    subst hb
    show 0 < _; decide

end HLV
