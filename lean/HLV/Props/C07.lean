/-
  C07 — duplicate-lock detection is exact.
-/
import HLV.Logic.Order
import HLV.Static.Rules
namespace HLV

/-- on a list sorted by ≤, "no two adjacent elements are equal" is "strictly increasing" -/
theorem adjacentDup_false_iff (l : List Nat) (hs : l.Pairwise (· ≤ ·)) :
    adjacentDup l = false ↔ l.Pairwise (· < ·) := by
  induction l with
  | nil => simp [adjacentDup]
  | cons a l ih =>
    cases l with
    | nil => simp [adjacentDup]
    | cons b r =>
      have hs' := List.pairwise_cons.1 hs
      have ih' := ih hs'.2
      simp only [adjacentDup, Bool.or_eq_false_iff, beq_eq_false_iff_ne, ne_eq]
      rw [ih', List.pairwise_cons (l := b :: r)]
      constructor
      · intro ⟨hab, hp⟩
        refine ⟨fun c hc => ?_, hp⟩
        have hab' : a < b := by have := hs'.1 b List.mem_cons_self; omega
        rcases List.mem_cons.1 hc with rfl | hc
        · exact hab'
        · have := (List.pairwise_cons.1 hp).1 c hc; omega
      · intro ⟨ha, hp⟩
        exact ⟨by have := ha b List.mem_cons_self; omega, hp⟩

theorem sorted_addrs_le (ps : List Ptr) : ((sortPtrs ps).map (·.addr)).Pairwise (· ≤ ·) := by
  rw [List.pairwise_map]
  have := List.pairwise_mergeSort (le := fun (a b : Ptr) => decide (a.addr ≤ b.addr))
    (fun a b c h1 h2 => by simp only [decide_eq_true_eq] at *; omega)
    (fun a b => by simp only [Bool.or_eq_true, decide_eq_true_eq]; omega) ps
  exact this.imp (by intro a b h; simpa using h)

theorem pairwise_lt_iff_nodup_of_le (l : List Nat) (hs : l.Pairwise (· ≤ ·)) :
    l.Pairwise (· < ·) ↔ l.Nodup := by
  constructor
  · intro h; exact h.imp (fun h => by omega)
  · intro h; exact List.Pairwise.imp₂ (fun a b h1 h2 => by omega) hs h

-- @theorem C07_sorted_check_is_exact : the duplicate test of the boxed and ref collections' try_new (adjacent-equal scan of the address-sorted list) accepts exactly the inputs in which no unit address occurs twice — for any length and any positions of the duplicate pair
theorem C07_sorted_check_is_exact (W : World) (s : Shape) :
    tryNewSorted W s = true ↔ ((getPtrs W s).map (·.addr)).Nodup := by
  unfold tryNewSorted
  rw [Bool.not_eq_true', adjacentDup_false_iff _ (sorted_addrs_le _),
    pairwise_lt_iff_nodup_of_le _ (sorted_addrs_le _)]
  exact ((List.mergeSort_perm _ _).map _).nodup_iff

theorem seenDup_iff (l seen : List Nat) :
    seenDup l seen = true ↔ (∃ a ∈ l, a ∈ seen) ∨ ¬ l.Nodup := by
  induction l generalizing seen with
  | nil => simp [seenDup]
  | cons a r ih =>
    simp only [seenDup, Bool.or_eq_true, List.contains_iff_mem, ih, List.mem_cons, List.nodup_cons]
    constructor
    · rintro (h | ⟨b, hb, hb'⟩ | h)
      · exact Or.inl ⟨a, Or.inl rfl, h⟩
      · rcases hb' with rfl | hb'
        · exact Or.inr (fun hn => hn.1 hb)
        · exact Or.inl ⟨b, Or.inr hb, hb'⟩
      · exact Or.inr (fun hn => h hn.2)
    · rintro (⟨b, hb, hb'⟩ | h)
      · rcases hb with rfl | hb
        · exact Or.inl hb'
        · exact Or.inr (Or.inl ⟨b, hb, Or.inr hb'⟩)
      · by_cases ha : a ∈ r
        · exact Or.inr (Or.inl ⟨a, ha, Or.inl rfl⟩)
        · exact Or.inr (Or.inr (fun hn => h ⟨ha, hn⟩))

-- @theorem C07_hashset_check_is_exact : the duplicate test of the retrying collection's try_new (insert every address into a set, stop at the first failure) accepts exactly the duplicate-free inputs
theorem C07_hashset_check_is_exact (W : World) (s : Shape) :
    tryNewRetry W s = true ↔ ((getPtrs W s).map (·.addr)).Nodup := by
  unfold tryNewRetry
  rw [Bool.not_eq_true']
  have := seenDup_iff ((getPtrs W s).map (·.addr)) []
  simp only [List.not_mem_nil, and_false, exists_false, false_or] at this
  cases h : seenDup ((getPtrs W s).map (·.addr)) []
  · simp only [true_iff]
    exact Decidable.not_not.1 (fun hn => by rw [this.2 hn] at h; cases h)
  · simp only [Bool.true_eq_false, false_iff]
    exact this.1 h

mutual
/-- without owned groups the units seen by a collection are exactly its declared leaves -/
theorem getPtrs_addr_perm (W : World) : ∀ S : Shape, noOwned S = true →
    ((getPtrs W S).map (·.addr)).Perm ((declLeaves S).map W.addr)
  | .mutex x, _ => by simp [getPtrs, declLeaves]
  | .rwlock x, _ => by simp [getPtrs, declLeaves]
  | .seq ss, h => by simpa [getPtrs, declLeaves] using getPtrsL_addr_perm W ss (by simpa [noOwned] using h)
  | .poisonable _ s, h => by simpa [getPtrs, declLeaves] using getPtrs_addr_perm W s (by simpa [noOwned] using h)
  | .boxed s, h => by
    simp only [getPtrs, declLeaves]
    exact ((List.mergeSort_perm _ _).map _).trans (getPtrs_addr_perm W s (by simpa [noOwned] using h))
  | .refc s, h => by
    simp only [getPtrs, declLeaves]
    exact ((List.mergeSort_perm _ _).map _).trans (getPtrs_addr_perm W s (by simpa [noOwned] using h))
  | .retry s, h => by simpa [getPtrs, declLeaves] using getPtrs_addr_perm W s (by simpa [noOwned] using h)
  | .owned _ _, h => by simp [noOwned] at h
theorem getPtrsL_addr_perm (W : World) : ∀ ss : List Shape, noOwnedL ss = true →
    ((getPtrsL W ss).map (·.addr)).Perm ((declLeavesL ss).map W.addr)
  | [], _ => by simp [getPtrsL, declLeavesL]
  | s :: ss, h => by
    have h' : noOwned s = true ∧ noOwnedL ss = true := by simpa [noOwnedL] using h
    simp only [getPtrsL, declLeavesL, List.map_append]
    exact (getPtrs_addr_perm W s h'.1).append (getPtrsL_addr_perm W ss h'.2)
end

-- @theorem C07_rejected_iff_some_lock_reachable_twice : when distinct locks have distinct addresses, a checked constructor rejects an input of leaf locks (through any nesting of tuples/vectors, wrappers and boxed/ref/retrying members) exactly if some lock occurs twice among the leaves reachable through it
theorem C07_rejected_iff_some_lock_reachable_twice (W : World) (s : Shape) (hno : noOwned s = true)
    (hinj : ∀ x y, W.addr x = W.addr y → x = y) :
    (tryNewSorted W s = false ↔ ¬ (declLeaves s).Nodup) ∧
    (tryNewRetry W s = false ↔ ¬ (declLeaves s).Nodup) := by
  have hnd : ((getPtrs W s).map (·.addr)).Nodup ↔ (declLeaves s).Nodup := by
    rw [(getPtrs_addr_perm W s hno).nodup_iff]
    constructor
    · intro h
      exact (List.pairwise_map.1 h).imp (fun hne heq => hne (by rw [heq]))
    · intro h
      exact List.Pairwise.map _ (fun a b hab heq => hab (hinj a b heq)) h
  constructor
  · rw [← hnd, ← C07_sorted_check_is_exact]; cases tryNewSorted W s <;> simp
  · rw [← hnd, ← C07_hashset_check_is_exact]; cases tryNewRetry W s <;> simp

/-! non-vacuity and the two directions on concrete inputs (duplicate far apart / nested) -/
example : tryNewSorted { addr := fun x => x } (.seq [.mutex 3, .mutex 1, .retry (.seq [.mutex 2, .mutex 3])]) = false := by
  rw [← Bool.not_eq_true, C07_sorted_check_is_exact]; decide
example : tryNewRetry { addr := fun x => x } (.seq [.mutex 3, .mutex 1, .retry (.seq [.mutex 2, .mutex 3])]) = false := by decide
example : tryNewSorted { addr := fun x => 9 - x } (.seq [.mutex 3, .mutex 1, .retry (.seq [.mutex 2, .mutex 0])]) = true := by
  rw [C07_sorted_check_is_exact]; decide

-- @theorem C07_finding_D9_zero_sized_units_alias : (negative witness, recorded finding D9) the exactness theorems above assume that distinct units have distinct addresses; two empty owned collections are zero-sized and may share one address — then the model, like the real constructors (harness bin/zst), rejects an input in which no lock is reachable twice (it contains no lock at all)
theorem C07_finding_D9_zero_sized_units_alias :
    tryNewSorted { addr := fun x => x } (.seq [.owned 5 (.seq []), .owned 5 (.seq [])]) = false ∧
    tryNewRetry { addr := fun x => x } (.seq [.owned 5 (.seq []), .owned 5 (.seq [])]) = false ∧
    declLeaves (.seq [.owned 5 (.seq []), .owned 5 (.seq [])]) = [] := by
  refine ⟨?_, ?_, rfl⟩
  · simp [tryNewSorted, getPtrs, getPtrsL, sortPtrs, adjacentDup, List.mergeSort]
  · simp [tryNewRetry, getPtrs, getPtrsL, seenDup]

/-! ### the compile-time half, over the fact table regenerated from the source -/
section
open HLV.Static HLV.Gen
set_option maxRecDepth 1000000
-- @theorem C07_unchecked_constructors_only_for_owned_inputs : (table theorem, regenerated from the source on every run) the constructors that skip the duplicate test (new, new_ref, From, FromIterator, Default, Extend …) require OwnedLockable inputs or are unsafe, and OwnedLockable is implemented only for types that own their locks (no shared reference, containers and wrappers only over OwnedLockable elements): a lock cannot be given twice to an unchecked constructor in safe code
theorem C07_unchecked_constructors_only_for_owned_inputs :
    c15_uncheckedConstructors = [] ∧ c15_ownedLockable = [] := by decide +kernel

-- @theorem C07_no_duplicate_can_be_added_after_the_test : (table theorem) the checked collections give safe mutable access to their underlying container only for element types that own their locks, so the result of try_new's duplicate test cannot be invalidated afterwards from safe code
theorem C07_no_duplicate_can_be_added_after_the_test : c15_mutableAccessToChecked = [] := by decide +kernel
end

end HLV
