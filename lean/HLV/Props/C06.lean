/-
  C06 — at most one live ThreadKey per thread, over every history.
-/
import HLV.Logic.Key
import HLV.Model.Env
namespace HLV

-- @theorem C06_key_refinement : for every client program (any statements, any length) on every answer sequence (refusals, faults, poisoned results, panicking closures included), the invariant holds at every statement boundary: the program owns at most one key token, a leaked token means it owns none, and the thread's flag is set exactly when a token exists (owned or leaked); inside, a key is only ever dropped/forgotten while the flag is set and ThreadKey::get never succeeds during a hold
theorem C06_key_refinement (C : Ctx) (prog : List Stmt) :
    wp KeySpec (program C prog {}) (fun u' g' => KeyInv u' g') (fun (_ : Unit) (_ : KG) => True) {} :=
  program_key C prog {} {} _ ⟨by decide, (fun h => by cases h), by decide⟩ (fun _ _ h => h)

-- @theorem C06_get_succeeds_iff_no_live_key : under the invariant, ThreadKey::get (a test-and-set of the flag) returns a key if and only if the program owns no token and none was leaked
theorem C06_get_succeeds_iff_no_live_key (u : UserSt) (g : KG) (hi : KeyInv u g) (r : Resp)
    (ha : keyAdm g .keyGet r) : r = .ok ↔ (u.keys = 0 ∧ g.leaked = false) := by
  obtain ⟨h1, h2, h3⟩ := hi
  rcases ha with ⟨rfl, hf⟩ | ⟨rfl, hf⟩
  · refine ⟨fun _ => ?_, fun _ => rfl⟩
    constructor
    · rcases Nat.eq_zero_or_pos u.keys with h | h
      · exact h
      · have := h3.2 (Or.inl (by omega)); rw [hf] at this; cases this
    · cases hl : g.leaked with
      | false => rfl
      | true => have := h3.2 (Or.inr hl); rw [hf] at this; cases this
  · refine ⟨(fun h => by cases h), fun ⟨hk, hl⟩ => ?_⟩
    rcases h3.1 hf with h | h
    · omega
    · rw [hl] at h; cases h

-- @theorem C06_get_inside_a_hold_never_succeeds : on every execution of every program the marker "ThreadKey::get() returned a key while a guard or closure was alive" is never reached
theorem C06_get_inside_a_hold_never_succeeds (C : Ctx) (prog : List Stmt)
    {tr₁ tr₂ : List (Op × Resp)} {r : Resp} {out : Outcome Unit UserSt}
    (hp : Path (program C prog {}) (tr₁ ++ (.mark mkGotKey, r) :: tr₂) out)
    (ha : Admissible KeySpec {} tr₁) : False := by
  have h := (wp_sound KeySpec (C06_key_refinement C prog) hp).1
  have : ∀ {g : KG} {tr₁ : List (Op × Resp)}, TraceOK KeySpec g (tr₁ ++ (.mark mkGotKey, r) :: tr₂) →
      Admissible KeySpec g tr₁ → False := by
    intro g tr₁
    induction tr₁ generalizing g with
    | nil => intro h _; exact h.1 rfl
    | cons a tr₁ ih => obtain ⟨o, r'⟩ := a; intro h ha; exact ih (h.2 ha.1) ha.2
  exact this h ha

-- @theorem C06_leaked_key_is_never_reissued : a leak is permanent (no operation resets it), and by the invariant a leaked key keeps the flag set, so every later ThreadKey::get fails
theorem C06_leaked_key_is_never_reissued (g : KG) (tr : List (Op × Resp)) (hl : g.leaked = true) :
    (ghostAfter KeySpec g tr).leaked = true := by
  induction tr generalizing g with
  | nil => exact hl
  | cons a tr ih =>
    obtain ⟨o, r⟩ := a
    apply ih
    show (keyUpd g o r).leaked = true
    cases o <;> cases r <;> simp [keyUpd, hl]

-- @theorem C06_keys_of_different_threads_are_independent : in the shared state the key operations of thread t read and write only t's flag
theorem C06_keys_of_different_threads_are_independent (pol : Policy) (e : Env) (t t' : Tid)
    (ht : t' ≠ t) (o : Op) (ho : o = .keyGet ∨ o = .keyDrop ∨ o = .keyForget) :
    (e.step pol t o false).env.keyFlag t' = e.keyFlag t' ∧ (e.step pol t o false).env.locks = e.locks := by
  rcases ho with rfl | rfl | rfl
  · simp only [Env.step]
    split
    · exact ⟨rfl, rfl⟩
    · exact ⟨by simp [StepRes.env, Env.setKey, ht], rfl⟩
  · exact ⟨by simp [Env.step, StepRes.env, Env.setKey, ht], rfl⟩
  · exact ⟨rfl, rfl⟩

-- @theorem C06_model_flag_is_test_and_set : the shared-state semantics of ThreadKey::get agrees with the specification's admissible answers and update (so the refinement speaks about the executable model that is compared with the real code)
theorem C06_model_flag_is_test_and_set (pol : Policy) (e : Env) (t : Tid) :
    ∃ r e' ev, e.step pol t .keyGet false = .stepped r e' ev ∧
      keyAdm { flag := e.keyFlag t } .keyGet r ∧
      e'.keyFlag t = (keyUpd { flag := e.keyFlag t } .keyGet r).flag := by
  cases h : e.keyFlag t
  · refine ⟨.ok, e.setKey t true, { tid := t, op := .keyGet, resp := .ok, raw := false }, ?_, Or.inl ⟨rfl, rfl⟩, ?_⟩
    · simp [Env.step, h]
    · simp [Env.setKey, keyUpd]
  · refine ⟨.no, e, { tid := t, op := .keyGet, resp := .no, raw := false }, ?_, Or.inr ⟨rfl, rfl⟩, ?_⟩
    · simp [Env.step, h]
    · simp [keyUpd, h]

/-! non-vacuity: the invariant is satisfiable in all three interesting states -/
example : KeyInv { keys := 0 } { flag := false } := ⟨by decide, (fun h => by cases h), by decide⟩
example : KeyInv { keys := 1 } { flag := true } := ⟨by decide, (fun h => by cases h), by decide⟩
example : KeyInv { keys := 0 } { flag := true, leaked := true } := ⟨by decide, fun _ => rfl, by decide⟩

end HLV
