/-
  C01 — deadlock freedom for every mix of locks and collections.
-/
import HLV.Logic.Deadlock
import HLV.Logic.Order
import HLV.Logic.OrderOwned
import HLV.Logic.ParSound
import HLV.Props.HoldFamily
namespace HLV

/-- the system in which thread `t` runs the client program `progs t` (every thread starts with
no key and no hold; the lock table is all free) -/
def initSys (C : Ctx) (progs : Tid → List Stmt) : Sys :=
  { env := {}, thr := fun t => Prog.bind (program C (progs t) {}) fun _ => .done () }

theorem initSys_inv (ro : RankOpt) (N : Nat) (C : Ctx) (progs : Tid → List Stmt)
    (hok : ∀ t, ProgOK ro C (progs t)) (hidle : ∀ t, N ≤ t → progs t = []) :
    SysInv ro N (initSys C progs) (fun _ => {}) where
  code t := by
    simp only [initSys]
    rw [wp_bind]
    exact program_spec C (progs t) {} {} _ _ (hok t) rfl rfl (fun _ _ a _ => a)
  alive _ := rfl
  excl _ _ := rfl
  shared _ _ := rfl
  waiters _ _ h := by cases h
  waitNodup _ := List.nodup_nil
  idle t ht := by simp [initSys, hidle t ht, program, Prog.bind, Prog.bindX]

-- @theorem C01_deadlock_free : for any number N of threads, each running any well-typed client program (sessions of every API flavour on collections of any kind, size and nesting, sharing any locks in any arrangement and mode) that obeys the rank discipline, under either wake policy, in every reachable state in which no thread has exhausted its retry fuel or died, if some thread still has work then some thread that still has work is not waiting for a lock
theorem C01_deadlock_free (pol : Policy) (rank : LockId → Nat) (N : Nat) (C : Ctx)
    (progs : Tid → List Stmt) (hok : ∀ t, ProgOK (some rank) C (progs t))
    (hidle : ∀ t, N ≤ t → progs t = []) (s : Sys) (hr : Reachable pol (initSys C progs) s)
    (hns : ∀ t, s.thr t ≠ .spin ∧ s.thr t ≠ .abort) (hrun : ∃ t, s.running t) :
    ∃ t, s.running t ∧ ¬ s.blocked pol t := by
  obtain ⟨H, hi⟩ := reachable_inv pol (initSys_inv (some rank) N C progs hok hidle) hr
  exact no_deadlock pol hi hns hrun

-- @theorem C01_rank_discipline_holds_for_valid_flat_collections : the hypothesis of C01_deadlock_free is met with rank = address by every session on a collection that its checked constructor accepts and that contains no owned group (any mix and nesting of boxed, ref, retrying, poisonable, tuples/vectors, both modes, all API flavours)
theorem C01_rank_discipline_holds_for_valid_flat_collections (C : Ctx) (ses : Session)
    (hl : lockable (C.shape ses.coll) = true) (hno : noOwned (C.shape ses.coll) = true)
    (hv : Valid C.W (C.shape ses.coll)) (hf : ses.exit ≠ .forget)
    (hb : ∀ b ∈ ses.body, stepOK (C.shape ses.coll) ses.mode b) :
    SesOK (some C.W.addr) C ses :=
  ⟨hl, shapeOK_addr C.W _ hno hv, hf, hb⟩

-- @theorem C01_rank_discipline_holds_with_owned_groups : the hypothesis of C01_deadlock_free is also met by collections that contain OWNED groups (an OwnedLockCollection as a member of sorting / retrying collections, nested in any way): for every rank of the form "address of the unit, then position inside the unit" (FitOut), every collection accepted by its checked constructor obeys the rank discipline — an owned group is one indivisible unit sorted by the address of the collection object and taken in its own listing order
theorem C01_rank_discipline_holds_with_owned_groups (C : Ctx) (M : Nat) (rank : LockId → Nat) (hM : 0 < M)
    (ses : Session) (hl : lockable (C.shape ses.coll) = true)
    (hfit : FitOut C.W M rank (C.shape ses.coll)) (hv : Valid C.W (C.shape ses.coll))
    (hf : ses.exit ≠ .forget) (hb : ∀ b ∈ ses.body, stepOK (C.shape ses.coll) ses.mode b) :
    SesOK (some rank) C ses :=
  ⟨hl, shapeOK_rank hM _ hfit hv, hf, hb⟩

-- @theorem C01_no_thread_waits_for_itself : one thread alone (N = 1) never waits: whatever sequence of acquire and release calls it makes, its next operation is never a blocking acquisition the table refuses
theorem C01_no_thread_waits_for_itself (pol : Policy) (rank : LockId → Nat) (C : Ctx)
    (prog : List Stmt) (hok : ProgOK (some rank) C prog) (s : Sys)
    (hr : Reachable pol (initSys C (fun t => if t = 0 then prog else [])) s)
    (hns : ∀ t, s.thr t ≠ .spin ∧ s.thr t ≠ .abort) (hrun : s.running 0) :
    ¬ s.blocked pol 0 := by
  have hok' : ∀ t, ProgOK (some rank) C (if t = 0 then prog else []) := by
    intro t; split
    · exact hok
    · intro st hst; cases hst
  obtain ⟨H, hi⟩ := reachable_inv pol
    (initSys_inv (some rank) 1 C _ hok' (fun t ht => by
      have : t ≠ 0 := fun h => by rw [h] at ht; exact absurd ht (by decide)
      simp [this])) hr
  obtain ⟨t, ht, hnb⟩ := no_deadlock pol hi hns ⟨0, hrun⟩
  have : t = 0 := by
    rcases Nat.lt_or_ge t 1 with h | h
    · exact Nat.lt_one_iff.1 h
    · obtain ⟨o, k, hc⟩ := ht
      have := hi.idle t h; rw [hc] at this; cases this
  subst this
  exact hnb

-- @theorem C01_system_invariant_is_preserved : (the engine of the proof) the invariant — each thread's remaining code obeys the hold and rank discipline from its ghost state, and the ghost states are exactly the holders recorded in the lock table, waiting writers are really waiting — is preserved by every step of every thread under either policy
theorem C01_system_invariant_is_preserved (pol : Policy) (ro : RankOpt) (N : Nat) {s s' : Sys}
    {H : Tid → HG} (hi : SysInv ro N s H) (t : Tid) (hs : s.step pol t = some s') :
    ∃ H', SysInv ro N s' H' :=
  hi.step pol t hs

theorem parInit_toSys (C : Ctx) (progs : List (List Stmt)) :
    (parInit C progs).toSys = initSys C (fun t => progs.getD t []) := by
  simp only [ParSt.toSys, parInit, initSys]
  congr 1
  funext t
  simp only [List.getElem?_map, List.getD_eq_getElem?_getD]
  cases progs[t]? with
  | none => simp [program, Prog.bind, Prog.bindX]
  | some p => simp

-- @theorem C01_t2_replay_is_a_run_of_the_semantics : the executable replay of a T2 schedule (Model/Par.lean, the model side of the real-thread correspondence) is, turn by turn, a sequence of Sys.step transitions from the initial system: every state the replay visits is Reachable, so the system invariant and deadlock freedom proved for Reachable states apply to exactly the runs that are compared with the real threads
theorem C01_t2_replay_is_a_run_of_the_semantics (C : Ctx) (progs : List (List Stmt)) (sched : List Nat)
    (s' : ParSt) (h : (parInit C progs).runSched sched = .ok s') :
    Reachable .readerPref (initSys C (fun t => progs.getD t [])) s'.toSys := by
  rw [← parInit_toSys]
  exact runSched_reachable sched _ s' (by simp [parInit]) h

-- @theorem C01_t2_replay_never_ends_in_deadlock : consequently, for programs obeying the rank discipline, no replayed schedule of any length ends in a state where some thread has work left and every such thread waits for a lock: a `deadlock` transcript of the real threads can never be matched by the model
theorem C01_t2_replay_never_ends_in_deadlock (rank : LockId → Nat) (C : Ctx) (progs : List (List Stmt))
    (hok : ∀ p ∈ progs, ProgOK (some rank) C p) (sched : List Nat) (s' : ParSt)
    (h : (parInit C progs).runSched sched = .ok s')
    (hns : ∀ t, s'.toSys.thr t ≠ .spin ∧ s'.toSys.thr t ≠ .abort) (hrun : ∃ t, s'.toSys.running t) :
    ∃ t, s'.toSys.running t ∧ ¬ s'.toSys.blocked .readerPref t := by
  have hok' : ∀ t, ProgOK (some rank) C (progs.getD t []) := by
    intro t
    simp only [List.getD_eq_getElem?_getD]
    cases hp : progs[t]? with
    | none => intro st hst; cases hst
    | some p => exact hok p (List.mem_of_getElem? hp)
  have hidle : ∀ t, progs.length ≤ t → progs.getD t [] = [] := by
    intro t ht
    simp [List.getD_eq_getElem?_getD, List.getElem?_eq_none ht]
  exact C01_deadlock_free .readerPref rank progs.length C _ hok' hidle _
    (C01_t2_replay_is_a_run_of_the_semantics C progs sched s' h) hns hrun

/-! non-vacuity: two threads taking the same two locks through differently listed collections -/
def exC01 : Ctx :=
  { W := { addr := fun x => x }
    colls := [ .boxed (.seq [.mutex 0, .mutex 1]), .refc (.seq [.mutex 1, .mutex 0]),
               .retry (.seq [.mutex 1, .mutex 0]) ] }
example : ∀ c : Nat, c < 3 → Valid exC01.W (exC01.shape c) ∧ noOwned (exC01.shape c) = true := by
  intro c hc
  match c, hc with
  | 0, _ => exact ⟨by simp [exC01, Ctx.shape, Valid, ValidL, getPtrs, getPtrsL], rfl⟩
  | 1, _ => exact ⟨by simp [exC01, Ctx.shape, Valid, ValidL, getPtrs, getPtrsL], rfl⟩
  | 2, _ => exact ⟨by simp [exC01, Ctx.shape, Valid, ValidL, getPtrs, getPtrsL], rfl⟩

/-! non-vacuity for owned groups: a boxed collection over an owned group (at address 7, listing
`[m2, m1]`) and a plain lock `m0`; rank = 4 · unit address + position -/
def exOwned : Shape := .boxed (.seq [.owned 7 (.seq [.mutex 2, .mutex 1]), .mutex 0])
def exRank : LockId → Nat := fun x => if x = 0 then 0 else if x = 2 then 28 else 29
example : FitOut { addr := fun x => x } 4 exRank exOwned ∧ Valid { addr := fun x => x } exOwned := by
  refine ⟨?_, ?_⟩
  · simp [exOwned, FitOut, FitOutL, FitInside, FitInsideL, getPtrs, getPtrsL, exRank]
  · simp [exOwned, Valid, ValidL, getPtrs, getPtrsL]

end HLV
