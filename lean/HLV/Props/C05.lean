/-
  C05 — every hold is released exactly once, in its own mode, by its holder.
-/
import HLV.Props.HoldFamily
import HLV.Props.C01
namespace HLV

-- @theorem C05_release_only_what_is_held : on every execution of every well-typed program (any answers, ≤ n faults) each release names a lock the thread holds at that moment in exactly that mode
theorem C05_release_only_what_is_held (n : Nat) (ro : RankOpt) (C : Ctx) (prog : List Stmt)
    (hok : ProgOK ro C prog) (u : UserSt)
    {tr₁ tr₂ : List (Op × Resp)} {m : Mode} {x : LockId} {r : Resp} {out : Outcome Unit UserSt}
    (hp : Path (program C prog u) (tr₁ ++ (.rel m x, r) :: tr₂) out)
    (ha : Admissible (HoldSpec n ro) {} tr₁) :
    0 < (ghostAfter (HoldSpec n ro) {} tr₁).held x m :=
  program_op_ok n ro C prog hok u hp ha

-- @theorem C05_everything_released_at_the_end : when the program is over every hold has been given back: holds are counted, so together with the previous theorem each was released exactly once
theorem C05_everything_released_at_the_end (n : Nat) (ro : RankOpt) (C : Ctx) (prog : List Stmt)
    (hok : ProgOK ro C prog) (u u' : UserSt) {tr : List (Op × Resp)}
    (hp : Path (program C prog u) tr (.ret u')) (ha : Admissible (HoldSpec n ro) {} tr) :
    ∀ x m, (ghostAfter (HoldSpec n ro) {} tr).held x m = 0 := by
  intro x m
  rw [((wp_sound (HoldSpec n ro) (program_hold n ro C prog hok u) hp).2 ha).1]; rfl

-- @theorem C05_guard_drop_releases_each_leaf_once_in_its_mode : dropping the guard of any shape releases exactly its leaves, each once, a mutex exclusively and an rwlock in the mode it was taken, also when a release panics or the thread is already unwinding
theorem C05_guard_drop_releases_each_leaf_once_in_its_mode (n : Nat) (ro : RankOpt) (S : Shape) (m : Mode)
    (panicking : Bool) (g : HG) (hc : g.held.Covers (holdsOf S m)) :
    wp (HoldSpec n ro) (guardDrop m (guardItems S) panicking)
      (fun _ g' => g'.held = g.held.minus (holdsOf S m) ∧ g'.depth = g.depth) (fun _ _ => False) g := by
  apply guardDrop_spec
  · rw [itemsFp_guardItems]; exact hc
  · intro _ g' a b; rw [itemsFp_guardItems] at a; exact ⟨a, b⟩

-- @theorem C05_collection_release_releases_all_members : the release used by scoped exits and unwind handlers gives back every member even if some unlocks panic (returning or unwinding, the footprint is no longer held)
theorem C05_collection_release_releases_all_members (n : Nat) (ro : RankOpt) (W : World) (S : Shape)
    (hl : lockable S = true) (hk : ShapeOK ro W S) (m : Mode) (g : HG) (hc : g.held.Covers (shapeFp W S m)) :
    wp (HoldSpec n ro) ((toRaw W S).rel m)
      (fun _ g' => g'.held = g.held.minus (shapeFp W S m)) (fun _ g' => g'.held = g.held.minus (shapeFp W S m)) g := by
  apply (toRaw_isLock (n := n) (ro := ro) W S hl hk).rel m g _ _ hc rfl
  intro g' a _ _; exact a

-- @theorem C05_when_all_threads_are_done_every_lock_is_free : in every reachable state of any N-thread system of well-typed programs (any lockable collections, either policy, any interleaving), once every thread has finished, every lock of the table is free: no writer, no readers
theorem C05_when_all_threads_are_done_every_lock_is_free (pol : Policy) (N : Nat) (C : Ctx)
    (progs : Tid → List Stmt) (hok : ∀ t, ProgOK none C (progs t))
    (hidle : ∀ t, N ≤ t → progs t = []) (s : Sys) (hr : Reachable pol (initSys C progs) s)
    (hdone : ∀ t, s.finished t) (x : LockId) :
    (s.env.locks x).writer = none ∧ (s.env.locks x).readers = [] := by
  obtain ⟨H, hi⟩ := reachable_inv pol (initSys_inv none N C progs hok hidle) hr
  have hempty : ∀ t, (H t).held = Held.empty := by
    intro t
    have := hi.code t
    rw [show s.thr t = .done () from hdone t] at this
    exact this
  constructor
  · cases hw : (s.env.locks x).writer with
    | none => rfl
    | some t =>
      have := hi.excl x t
      rw [hempty t, hw] at this
      simp [Held.empty] at this
  · apply List.eq_nil_iff_forall_not_mem.2
    intro t ht
    have := hi.shared x t
    rw [hempty t] at this
    have hpos : 0 < (s.env.locks x).readers.count t := List.count_pos_iff.2 ht
    simp [Held.empty] at this
    omega

end HLV
