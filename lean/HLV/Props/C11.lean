/-
  C11 — a panic in user code never leaks a lock or a key.
-/
import HLV.Props.HoldFamily
namespace HLV

-- @theorem C11_panicking_session_releases_everything : a session of any API flavour, key style, mode and shape whose body panics (exit = panic) ends — in the caller's catch_unwind — with nothing held, on every answer sequence
theorem C11_panicking_session_releases_everything (n : Nat) (ro : RankOpt) (C : Ctx) (ses : Session)
    (hok : SesOK ro C ses) (_hp : ses.exit = .panic) (u : UserSt) (g : HG)
    (hh : g.held = Held.empty) (hd : g.depth = 0) :
    wp (HoldSpec n ro) (session C ses u) (fun _ g' => g'.held = Held.empty ∧ g'.depth = 0)
      (fun _ _ => False) g :=
  session_spec C ses u g _ _ hok hh hd (fun _ _ _ a b => ⟨a, b⟩)

-- @theorem C11_unwinding_guard_drop_releases_all : while a panic unwinds, dropping the guard still releases every leaf exactly once (poison flags are set on the way); it cannot itself unwind
theorem C11_unwinding_guard_drop_releases_all (n : Nat) (ro : RankOpt) (S : Shape) (m : Mode) (g : HG)
    (hc : g.held.Covers (holdsOf S m)) :
    wp (HoldSpec n ro) (guardDrop m (guardItems S) true)
      (fun _ g' => g'.held = g.held.minus (holdsOf S m)) (fun _ _ => False) g := by
  apply guardDrop_spec
  · rw [itemsFp_guardItems]; exact hc
  · intro _ g' a _; rw [itemsFp_guardItems] at a; exact a

-- @theorem C11_key_back_after_panic_with_nothing_held : on every execution, the point at which a panicked call has given the key back (mark keyBack) is reached with nothing held
theorem C11_key_back_after_panic_with_nothing_held (n : Nat) (ro : RankOpt) (C : Ctx) (prog : List Stmt)
    (hok : ProgOK ro C prog) (u : UserSt)
    {tr₁ tr₂ : List (Op × Resp)} {r : Resp} {out : Outcome Unit UserSt}
    (hp : Path (program C prog u) (tr₁ ++ (.mark mkKeyBack, r) :: tr₂) out)
    (ha : Admissible (HoldSpec n ro) {} tr₁) :
    ∀ x m, (ghostAfter (HoldSpec n ro) {} tr₁).held x m = 0 :=
  program_op_ok n ro C prog hok u hp ha (Or.inl rfl)

end HLV
