/-
  C04 — multi-lock acquisition is all-or-nothing and covers exactly the leaf locks.
-/
import HLV.Props.HoldFamily
namespace HLV

-- @theorem C04_footprint_is_the_leaves_each_once : for every lockable shape (any kinds, sizes, arrangement, nesting) the set of holds its acquisition obtains is a permutation of the declared leaves, each once, mutexes exclusively
theorem C04_footprint_is_the_leaves_each_once (W : World) (m : Mode) (S : Shape)
    (hl : lockable S = true) : (shapeFp W S m).Perm (holdsOf S m) :=
  shapeFp_perm W m S hl

-- @theorem C04_lock_returns_holding_exactly_the_leaves : a blocking lock/read on any lockable shape returns only with exactly the leaves added to the holds (and no fault happened); if it unwinds, the holds are as before
theorem C04_lock_returns_holding_exactly_the_leaves (n : Nat) (ro : RankOpt) (W : World) (S : Shape)
    (hl : lockable S = true) (hk : ShapeOK ro W S) (m : Mode) (g : HG) (hd : g.depth = 0)
    (hlow : LowFp ro g.held (shapeFp W S m)) :
    wp (HoldSpec n ro) ((toRaw W S).acq m)
      (fun _ g' => g'.held = g.held.plus (holdsOf S m) ∧ g'.depth = g.depth ∧ g'.panics = g.panics)
      (fun _ g' => g'.held = g.held ∧ g.panics < g'.panics) g := by
  apply (toRaw_isLock (n := n) (ro := ro) W S hl hk).acq m g _ _ hd hlow
  · exact ⟨Held.plus_perm _ (shapeFp_perm W m S hl), rfl, rfl⟩
  · intro g' a _ c; exact ⟨a, c⟩

-- @theorem C04_try_is_all_or_nothing : try_lock/try_read on any lockable shape either returns true holding exactly the leaves, or returns false with the holds (and everything else) exactly as before; if it unwinds the holds are as before
theorem C04_try_is_all_or_nothing (n : Nat) (ro : RankOpt) (W : World) (S : Shape)
    (hl : lockable S = true) (hk : ShapeOK ro W S) (m : Mode) (g : HG) :
    wp (HoldSpec n ro) ((toRaw W S).try_ m)
      (fun b g' => if b then g'.held = g.held.plus (holdsOf S m) ∧ g'.panics = g.panics else g' = g)
      (fun _ g' => g'.held = g.held ∧ g.panics < g'.panics) g := by
  apply (toRaw_isLock (n := n) (ro := ro) W S hl hk).try_ m g
  · exact ⟨Held.plus_perm _ (shapeFp_perm W m S hl), rfl⟩
  · rfl
  · intro g' a _ c; exact ⟨a, c⟩

-- @theorem C04_try_and_nonacquiring_calls_never_block : on every execution of every well-typed program, no blocking acquisition is issued between the start of a try_* (or non-acquiring) call and its end
theorem C04_try_and_nonacquiring_calls_never_block (n : Nat) (ro : RankOpt) (C : Ctx) (prog : List Stmt)
    (hok : ProgOK ro C prog) (u : UserSt)
    {tr₁ tr₂ : List (Op × Resp)} {m : Mode} {x : LockId} {r : Resp} {out : Outcome Unit UserSt}
    (hp : Path (program C prog u) (tr₁ ++ (.acq m true x, r) :: tr₂) out)
    (ha : Admissible (HoldSpec n ro) {} tr₁) :
    (ghostAfter (HoldSpec n ro) {} tr₁).depth = 0 :=
  (program_op_ok n ro C prog hok u hp ha).1

end HLV
