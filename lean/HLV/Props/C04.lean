/-
  C04 — multi-lock acquisition is all-or-nothing and covers exactly the leaf locks.
-/
import HLV.Props.HoldFamily
import HLV.Logic.SoloAcq
import HLV.Logic.Body
import HLV.Props.C13
import HLV.Static.Rules
namespace HLV

-- @theorem C04_footprint_is_the_leaves_each_once : for every lockable shape (any kinds, sizes, arrangement, nesting) the set of holds its acquisition obtains is a permutation of the declared leaves, each once, mutexes exclusively
theorem C04_footprint_is_the_leaves_each_once (W : World) (m : Mode) (S : Shape)
    (hl : lockable S = true) : (shapeFp W S m).Perm (holdsOf S m) :=
  shapeFp_perm W m S hl

-- @theorem C04_lock_returns_holding_exactly_the_leaves : a blocking lock/read on any lockable shape returns only with exactly the leaves added to the holds (and no fault happened); if it unwinds, the holds are as before
theorem C04_lock_returns_holding_exactly_the_leaves (n : Nat) (ro : RankOpt) (W : World) (S : Shape)
    (hl : lockable S = true) (hk : ShapeOK ro W S) (m : Mode) (g : HG) (hd : g.depth = 0)
    (hlow : LowFp ro g.held (shapeFp W S m)) :
    wp (HoldSpec n ro) ((toRaw W S).acq m)
      (fun _ g' => g'.held = g.held.plus (holdsOf S m) ∧ g'.depth = g.depth ∧ g'.panics = g.panics)
      (fun _ g' => g'.held = g.held ∧ g.panics < g'.panics) g := by
  apply (toRaw_isLock (n := n) (ro := ro) W S hl hk).acq m g _ _ hd hlow
  · exact ⟨Held.plus_perm _ (shapeFp_perm W m S hl), rfl, rfl⟩
  · intro g' a _ c; exact ⟨a, c⟩

-- @theorem C04_try_is_all_or_nothing : try_lock/try_read on any lockable shape either returns true holding exactly the leaves, or returns false with the holds (and everything else) exactly as before; if it unwinds the holds are as before
theorem C04_try_is_all_or_nothing (n : Nat) (ro : RankOpt) (W : World) (S : Shape)
    (hl : lockable S = true) (hk : ShapeOK ro W S) (m : Mode) (g : HG) :
    wp (HoldSpec n ro) ((toRaw W S).try_ m)
      (fun b g' => if b then g'.held = g.held.plus (holdsOf S m) ∧ g'.panics = g.panics else g' = g)
      (fun _ g' => g'.held = g.held ∧ g.panics < g'.panics) g := by
  apply (toRaw_isLock (n := n) (ro := ro) W S hl hk).try_ m g
  · exact ⟨Held.plus_perm _ (shapeFp_perm W m S hl), rfl⟩
  · rfl
  · intro g' a _ c; exact ⟨a, c⟩

-- @theorem C04_try_and_nonacquiring_calls_never_block : on every execution of every well-typed program, no blocking acquisition is issued between the start of a try_* (or non-acquiring) call and its end
theorem C04_try_and_nonacquiring_calls_never_block (n : Nat) (ro : RankOpt) (C : Ctx) (prog : List Stmt)
    (hok : ProgOK ro C prog) (u : UserSt)
    {tr₁ tr₂ : List (Op × Resp)} {m : Mode} {x : LockId} {r : Resp} {out : Outcome Unit UserSt}
    (hp : Path (program C prog u) (tr₁ ++ (.acq m true x, r) :: tr₂) out)
    (ha : Admissible (HoldSpec n ro) {} tr₁) :
    (ghostAfter (HoldSpec n ro) {} tr₁).depth = 0 :=
  (program_op_ok n ro C prog hok u hp ha).1

-- @theorem C04_blocking_lock_returns_iff_all_leaves_available_solo : deterministic reading (thread alone, other threads' holds frozen, quiescent table): the blocking lock/read of a leaf, of a sorting or owned collection or a wrapper around one (any size, arrangement, nesting) RETURNS — with exactly its declared leaves taken on top of the table — if every declared leaf is free for the requested hold; otherwise it does not return: the thread ends up waiting, holding a proper prefix (in acquisition order) of the footprint and nothing else, the table otherwise untouched
theorem C04_blocking_lock_returns_iff_all_leaves_available_solo (pol : Policy) (t : Tid) (W : World)
    (S : Shape) (hS : inOrder S = true) (m : Mode) (e : Env) (hnd : (declLeaves S).Nodup) (hq : Quiescent e) :
    ((holdsOf S m).all (freeFor e) = true →
      solo pol t ((toRaw W S).acq m) e = .done () (takeAll t (shapeFp W S m) e)) ∧
    ((holdsOf S m).all (freeFor e) = false →
      ∃ pre e', pre <+: shapeFp W S m ∧ pre.length < (shapeFp W S m).length ∧
        solo pol t ((toRaw W S).acq m) e = .stuck e' ∧ SameHolds (takeAll t pre e) e') := by
  have hl := lockable_of_inOrder S hS
  have hn := shapeFp_ids_nodup W S m hl hnd
  have hw := quiescent_notWaiting t e hq
  have hd := toRaw_detAcq (pol := pol) (t := t) W S hS
  have hiff : (holdsOf S m).all (freeFor e) = true ↔ ∀ p ∈ shapeFp W S m, avail pol e p = true := by
    rw [List.all_eq_true]
    constructor
    · intro h p hp
      rw [avail_quiescent pol e hq]
      exact h p ((shapeFp_perm W m S hl).mem_iff.1 hp)
    · intro h p hp
      rw [← avail_quiescent pol e hq]
      exact h p ((shapeFp_perm W m S hl).mem_iff.2 hp)
  refine ⟨fun h => hd.acq_ok m e hw hn (hiff.1 h), fun h => ?_⟩
  have hnall : ¬ ∀ p ∈ shapeFp W S m, avail pol e p = true := by
    intro h'; rw [hiff.2 h'] at h; cases h
  obtain ⟨pre, e', h1, h2, _, h4, h5⟩ := hd.acq_stuck m e hw hn (fun p _ => (hq p.1).2) hnall
  exact ⟨pre, e', h1, h2, h4, h5⟩

-- @theorem C04_blocking_and_try_agree_in_quiescent_states : blocking and try variants of the same acquisition answer the same question (leaf, sorting or owned collection, wrapper; any size, arrangement, nesting): run alone against the same quiescent table, either try returns true and the blocking call returns, both leaving the SAME table (the old one plus exactly the declared leaves), or try returns false leaving the table untouched and the blocking call is left waiting — never a third outcome (spin, abort, unwind, or a success over a busy leaf)
theorem C04_blocking_and_try_agree_in_quiescent_states (pol : Policy) (t : Tid) (W : World)
    (S : Shape) (hS : inOrder S = true) (m : Mode) (e : Env) (hnd : (declLeaves S).Nodup) (hq : Quiescent e) :
    (solo pol t ((toRaw W S).try_ m) e = .done true (takeAll t (shapeFp W S m) e) ∧
      solo pol t ((toRaw W S).acq m) e = .done () (takeAll t (shapeFp W S m) e)) ∨
    (solo pol t ((toRaw W S).try_ m) e = .done false e ∧
      ∃ e', solo pol t ((toRaw W S).acq m) e = .stuck e') := by
  have hx := C04_blocking_lock_returns_iff_all_leaves_available_solo pol t W S hS m e hnd hq
  have ht := C13_try_is_exact pol t W S m e (lockable_of_inOrder S hS) hnd hq
  cases hb : (holdsOf S m).all (freeFor e) with
  | true =>
    rw [hb] at ht
    exact Or.inl ⟨by simpa using ht, hx.1 hb⟩
  | false =>
    rw [hb] at ht
    obtain ⟨_, e', _, _, h4, _⟩ := hx.2 hb
    exact Or.inr ⟨by simpa using ht, e', h4⟩

/-- non-vacuity: a boxed collection around a ref collection and an owned group is `inOrder` -/
example : inOrder (.boxed (.seq [.refc (.seq [.rwlock 1, .mutex 2]), .owned 3 (.seq [.mutex 4, .rwlock 5])])) = true := by decide

-- @theorem C04_scoped_closure_runs_exactly_once_iff_acquired : along every execution of every scoped session (scoped_lock / scoped_read / scoped_try_* on any shape, any answers of the raw locks, faults and user panics included) either the closure was entered exactly once — the acquisition had succeeded — or it was not entered at all and the call reports WouldBlock (the try failed) or a panic (the acquisition itself unwound); it never reports Ok without having run the closure, and never runs it twice
theorem C04_scoped_closure_runs_exactly_once_iff_acquired (C : Ctx) (S : Shape) (ses : Session)
    (u u' : UserSt) (n : Nat) :
    wp BodySpec (scopedSessionWith C S ses u u')
      (fun r n' => n' = n + 1 ∨ (n' = n ∧ (r.1 = mkOutWouldBlock ∨ r.1 = mkOutPanic)))
      (fun (_ : Unit) _ => True) n :=
  scopedSession_body_once C S ses u u' n

section
open HLV.Static HLV.Gen
set_option maxRecDepth 1000000
-- @theorem C04_try_functions_reach_no_blocking_operation_in_the_source : (table theorem, regenerated from the source on every run) from no try_* function of the crate is a blocking raw operation reachable in the call graph
theorem C04_try_functions_reach_no_blocking_operation_in_the_source : c04_tryReachesBlocking = [] := by decide +kernel
end

end HLV
