/-
  C13 — try_* outcomes are exact in quiescent states.

  The deterministic reading (`Logic/Solo.lean`): thread `t` runs the collection's `raw_try_*`
  alone against the raw-lock table; other threads' holds are frozen in the table.
-/
import HLV.Logic.Solo
import HLV.Logic.Sessions
namespace HLV

/-- no thread is waiting and no lock has been killed by an earlier fault -/
def Quiescent (e : Env) : Prop := ∀ x, (e.locks x).waitW = [] ∧ (e.locks x).killed = false

/-- the hold `p` is compatible with what the table records: an exclusive hold needs the lock
held in no mode at all, a shared hold needs it not held exclusively -/
def freeFor (e : Env) (p : LockId × Mode) : Bool :=
  match p.2 with
  | .excl => (e.locks p.1).writer.isNone && (e.locks p.1).readers.isEmpty
  | .shared => (e.locks p.1).writer.isNone

theorem avail_quiescent (pol : Policy) (e : Env) (hq : Quiescent e) (p : LockId × Mode) :
    avail pol e p = freeFor e p := by
  obtain ⟨x, m⟩ := p
  have := hq x
  cases m <;> cases pol <;> simp [avail, freeFor, grantable, LockSt.free, this.1, this.2]

theorem quiescent_notWaiting (t : Tid) (e : Env) (hq : Quiescent e) : NotWaiting t e := by
  intro x; rw [(hq x).1]; simp

theorem shapeFp_ids_nodup (W : World) (S : Shape) (m : Mode) (hl : lockable S = true)
    (hnd : (declLeaves S).Nodup) : (Fp.ids (shapeFp W S m)).Nodup := by
  have hp := (shapeFp_perm W m S hl).map (·.1)
  rw [← declLeaves_eq m S] at hp
  exact hp.nodup_iff.2 hnd

theorem all_perm {α : Type} (f : α → Bool) {a b : List α} (p : a.Perm b) : a.all f = b.all f := by
  cases h : b.all f
  · cases h' : a.all f
    · rfl
    · rw [List.all_eq_true] at h'
      have : b.all f = true := List.all_eq_true.2 fun x hx => h' x (p.mem_iff.2 hx)
      rw [h] at this; cases this
  · rw [List.all_eq_true] at h ⊢
    exact fun x hx => h x (p.mem_iff.1 hx)

def Out.result {ε α : Type} : Out ε α → Option α
  | .done a _ => some a
  | _ => none

def Out.env {ε α : Type} : Out ε α → Env
  | .done _ e => e
  | .unwound _ e => e
  | .spin e => e
  | .abort e => e
  | .stuck e => e

-- @theorem C13_try_is_exact : with no concurrent activity (quiescent table, any holds of other threads frozen), raw_try_write / raw_try_read of any lockable shape (any kind, size, arrangement, nesting) with distinct leaves returns true if and only if every declared leaf is free for the requested hold (exclusive: held in no mode; shared: not held exclusively); on true the table is the old one with exactly the footprint taken, on false the table is EXACTLY the old one
theorem C13_try_is_exact (pol : Policy) (t : Tid) (W : World) (S : Shape) (m : Mode) (e : Env)
    (hl : lockable S = true) (hnd : (declLeaves S).Nodup) (hq : Quiescent e) :
    solo pol t ((toRaw W S).try_ m) e =
      if (holdsOf S m).all (freeFor e) then .done true (takeAll t (shapeFp W S m) e)
      else .done false e := by
  have hd := toRaw_det (pol := pol) (t := t) W S hl
  have hn := shapeFp_ids_nodup W S m hl hnd
  have hw := quiescent_notWaiting t e hq
  have hall : (holdsOf S m).all (freeFor e) = (shapeFp W S m).all (avail pol e) := by
    rw [all_perm _ (shapeFp_perm W m S hl)]
    congr 1; funext p; exact (avail_quiescent pol e hq p).symm
  rw [hall]
  cases h : (shapeFp W S m).all (avail pol e)
  · simp only [Bool.false_eq_true, if_false]
    exact hd.try_no m e hw hn (fun ha => by rw [List.all_eq_true.2 ha] at h; cases h)
  · simp only [if_true]
    exact hd.try_ok m e hw hn (List.all_eq_true.1 h)

-- @theorem C13_outcome_independent_of_kind_arrangement_nesting : two lockable shapes with the same leaves (in any order, wrapped in any collection kinds, nested in any way) give the same try outcome on the same quiescent table, in either mode
theorem C13_outcome_independent_of_kind_arrangement_nesting (pol : Policy) (t : Tid) (W : World)
    (S S' : Shape) (m : Mode) (e : Env) (hl : lockable S = true) (hl' : lockable S' = true)
    (hnd : (declLeaves S).Nodup) (hsame : (holdsOf S m).Perm (holdsOf S' m)) (hq : Quiescent e) :
    (solo pol t ((toRaw W S).try_ m) e).result = (solo pol t ((toRaw W S').try_ m) e).result := by
  have hnd' : (declLeaves S').Nodup := by
    rw [declLeaves_eq m S'] ; rw [declLeaves_eq m S] at hnd
    exact (hsame.map (·.1)).nodup_iff.1 hnd
  rw [C13_try_is_exact pol t W S m e hl hnd hq, C13_try_is_exact pol t W S' m e hl' hnd' hq,
    all_perm _ hsame]
  split <;> rfl

-- @theorem C13_failed_try_changes_nothing : a failed attempt leaves every lock's state (writer, readers, waiting list, killed flag, datum), the key flags and the poison flags exactly as they were
theorem C13_failed_try_changes_nothing (pol : Policy) (t : Tid) (W : World) (S : Shape) (m : Mode) (e : Env)
    (hl : lockable S = true) (hnd : (declLeaves S).Nodup) (hq : Quiescent e)
    (hf : (solo pol t ((toRaw W S).try_ m) e).result = some false) :
    (solo pol t ((toRaw W S).try_ m) e).env = e := by
  rw [C13_try_is_exact pol t W S m e hl hnd hq] at hf ⊢
  split at hf
  · simp [Out.result] at hf
  · rename_i h; simp [h, Out.env]

-- @theorem C13_success_takes_exactly_the_leaves : after a successful attempt every declared leaf is held by the thread in the requested mode (a Mutex always exclusively) on top of what was there, and every other lock is untouched
theorem C13_success_takes_exactly_the_leaves (pol : Policy) (t : Tid) (W : World) (S : Shape) (m : Mode) (e : Env)
    (hl : lockable S = true) (hnd : (declLeaves S).Nodup) (hq : Quiescent e)
    (hs : (solo pol t ((toRaw W S).try_ m) e).result = some true) :
    let e' := (solo pol t ((toRaw W S).try_ m) e).env
    (∀ p ∈ holdsOf S m, e'.locks p.1 = (e.locks p.1).take t p.2) ∧
    (∀ x, x ∉ declLeaves S → e'.locks x = e.locks x) ∧ e'.keyFlag = e.keyFlag ∧ e'.poison = e.poison := by
  rw [C13_try_is_exact pol t W S m e hl hnd hq] at hs ⊢
  split at hs
  · rename_i h
    simp only [h, if_true, Out.env]
    have hn := shapeFp_ids_nodup W S m hl hnd
    have hp := shapeFp_perm W m S hl
    refine ⟨fun p hp' => takeAll_locks_in _ _ _ hn (hp.mem_iff.2 hp'), fun x hx => ?_, by simp, by simp⟩
    apply takeAll_locks_notin
    intro hmem
    apply hx
    rw [declLeaves_eq m S]
    exact ((hp.map (·.1)).mem_iff).1 hmem
  · simp [Out.result] at hs

-- @theorem C13_success_is_undone_by_release : releasing (what dropping the guard does at raw level: raw_unlock_write / raw_unlock_read of the same shape) after a successful attempt restores the table EXACTLY
theorem C13_success_is_undone_by_release (pol : Policy) (t : Tid) (W : World) (S : Shape) (m : Mode) (e : Env)
    (hl : lockable S = true) (hnd : (declLeaves S).Nodup) (hq : Quiescent e)
    (hfree : (holdsOf S m).all (freeFor e) = true) :
    solo pol t (Prog.bind ((toRaw W S).try_ m) fun _ => (toRaw W S).rel m) e = .done () e := by
  have hd := toRaw_det (pol := pol) (t := t) W S hl
  have hn := shapeFp_ids_nodup W S m hl hnd
  have hw := quiescent_notWaiting t e hq
  have h1 := C13_try_is_exact pol t W S m e hl hnd hq
  rw [hfree] at h1
  simp only [if_true] at h1
  simp only [Prog.bind, solo_bindX, h1, hd.rel]
  congr 1
  apply relAll_takeAll (pol := pol) _ _ hn hw
  intro p hp
  rw [avail_quiescent pol e hq]
  exact List.all_eq_true.1 hfree p ((shapeFp_perm W m S hl).mem_iff.1 hp)

/-! ### the API layer above the raw try: `try_lock` / `try_read` … `unlock(guard)` -/

theorem solo_mark {ε α : Type} (pol : Policy) (t : Tid) (k : Nat) (c : Resp → Prog ε α) (e : Env) :
    solo pol t (.op (.mark k) c) e = solo pol t (c .ok) e := by
  simp [solo, Env.step]

theorem solo_readPoison (pol : Policy) (t : Tid) (e : Env) : ∀ (ps : List PoisonId) (b : Bool),
    solo pol t (readPoison ps b) e = .done (b || ps.any e.poison) e
  | [], b => by simp [readPoison, solo]
  | p :: ps, b => by
    simp only [readPoison, solo, Env.step]
    rw [solo_readPoison pol t e ps]
    have h1 : (Resp.no == Resp.ok) = false := by decide
    have h2 : (Resp.ok == Resp.ok) = true := by decide
    cases h : e.poison p <;> simp [h, h1, h2, Bool.or_assoc]

/-- dropping a guard, fault-free and not unwinding: every leaf is released, in declared order -/
theorem solo_guardDrop (pol : Policy) (t : Tid) (m : Mode) : ∀ (items : List GuardItem) (e : Env),
    solo pol t (guardDrop m items false) e = .done false (relAll t (itemsFp m items) e)
  | [], e => by simp [guardDrop, solo, itemsFp]
  | .poisonRef p :: gs, e => by
    simp only [guardDrop, Bool.false_eq_true, if_false, itemsFp]
    exact solo_guardDrop pol t m gs e
  | .leaf x isMutex :: gs, e => by
    simp only [guardDrop, solo, Env.step, Bool.false_eq_true, if_false, itemsFp, relAll_cons]
    exact solo_guardDrop pol t m gs _

/-- releasing a permutation of what was taken restores the table -/
theorem relAll_takeAll_perm (pol : Policy) (t : Tid) (fp fp' : Fp) (e : Env) (hp : fp'.Perm fp)
    (hn : (Fp.ids fp).Nodup) (hw : NotWaiting t e) (ha : ∀ p ∈ fp, avail pol e p = true) :
    relAll t fp' (takeAll t fp e) = e := by
  have hpi : (Fp.ids fp').Perm (Fp.ids fp) := hp.map (fun (p : LockId × Mode) => p.1)
  have hn' : (Fp.ids fp').Nodup := hpi.nodup_iff.2 hn
  have h1 := relAll_takeAll (pol := pol) (t := t) fp e hn hw ha
  have h2 : relAll t fp' (takeAll t fp e) = relAll t fp (takeAll t fp e) := by
    apply Env.ext'
    · funext x
      by_cases hx : x ∈ Fp.ids fp
      · obtain ⟨p, hpm, rfl⟩ := List.mem_map.1 hx
        rw [relAll_locks_in _ _ _ hn' (hp.mem_iff.2 hpm), relAll_locks_in _ _ _ hn hpm]
      · have hx' : x ∉ Fp.ids fp' := fun h => hx (hpi.mem_iff.1 h)
        rw [relAll_locks_notin _ _ _ hx', relAll_locks_notin _ _ _ hx]
    · simp
    · simp
  rw [h2, h1]

-- @theorem C13_try_lock_then_unlock_api_is_exact : at the API level (ThreadKey check, raw try, poison read, guard construction, LockGuard::unlock): with no concurrent activity, try_lock/try_read of any lockable shape with distinct leaves returns WouldBlock — table, flags and key count exactly as before — if some declared leaf is busy, and otherwise returns a guard (Ok or Err(poisoned) according to the flags) whose unlock hands the key back and leaves the whole table EXACTLY as it was before the call
theorem C13_try_lock_then_unlock_api_is_exact (pol : Policy) (t : Tid) (C : Ctx) (c : Nat) (m : Mode)
    (u : UserSt) (e : Env) (hout : C.outer = false) (hl : lockable (C.shape c) = true)
    (hnd : (declLeaves (C.shape c)).Nodup) (hq : Quiescent e) :
    solo pol t (guardSession C (C.shape c)
        { coll := c, api := .tryLock, mode := m, key := .owned, body := [], exit := .unlock } u) e =
      if (holdsOf (C.shape c) m).all (freeFor e) then
        .done (if (poisonIds (C.shape c)).any e.poison then mkOutPoisoned else mkOutOk,
               { u with keys := u.keys - 1 + 1 }) e
      else .done (mkOutWouldBlock, u) e := by
  have htry := C13_try_is_exact pol t C.W (C.shape c) m e hl hnd hq
  by_cases hfree : (holdsOf (C.shape c) m).all (freeFor e) = true
  · rw [hfree] at htry
    simp only [if_true] at htry
    simp only [hfree, if_true]
    have hrestore : relAll t (itemsFp m (guardItems (C.shape c))) (takeAll t (shapeFp C.W (C.shape c) m) e) = e := by
      rw [itemsFp_guardItems]
      apply relAll_takeAll_perm pol t _ _ e (shapeFp_perm C.W m (C.shape c) hl).symm
        (shapeFp_ids_nodup C.W (C.shape c) m hl hnd) (quiescent_notWaiting t e hq)
      intro p hp
      rw [avail_quiescent pol e hq]
      exact List.all_eq_true.1 hfree p ((shapeFp_perm C.W m (C.shape c) hl).mem_iff.1 hp)
    have hpois : (poisonIds (C.shape c)).any (takeAll t (shapeFp C.W (C.shape c) m) e).poison =
        (poisonIds (C.shape c)).any e.poison := by simp
    -- the guard phase: read the flags, end of the call, empty body, unlock(guard)
    simp only [guardSession, solo_mark, solo_bindX, htry, if_true, guardPhase, guardDropN, hout, Prog.bind, solo_readPoison,
      Bool.false_or, bodySteps, solo, solo_guardDrop, Bool.false_eq_true, if_false, hrestore, hpois]
  · have hf : (holdsOf (C.shape c) m).all (freeFor e) = false := by
      cases h : (holdsOf (C.shape c) m).all (freeFor e)
      · rfl
      · exact absurd h hfree
    rw [hf] at htry
    simp only [Bool.false_eq_true, if_false] at htry
    simp [guardSession, solo_mark, solo_bindX, htry, hf, solo]

theorem solo_keyDrop {ε α : Type} (pol : Policy) (t : Tid) (c : Resp → Prog ε α) (e : Env) :
    solo pol t (.op .keyDrop c) e = solo pol t (c .ok) (e.setKey t false) := by
  simp [solo, Env.step]

-- @theorem C13_try_lock_then_drop_api_is_exact : the same with the guard dropped instead of unlocked (the key is consumed with it): every lock and every poison flag exactly as before the call, the thread's key flag cleared
theorem C13_try_lock_then_drop_api_is_exact (pol : Policy) (t : Tid) (C : Ctx) (c : Nat) (m : Mode)
    (u : UserSt) (e : Env) (hout : C.outer = false) (hl : lockable (C.shape c) = true)
    (hnd : (declLeaves (C.shape c)).Nodup) (hq : Quiescent e) :
    solo pol t (guardSession C (C.shape c)
        { coll := c, api := .tryLock, mode := m, key := .owned, body := [], exit := .drop } u) e =
      if (holdsOf (C.shape c) m).all (freeFor e) then
        .done (if (poisonIds (C.shape c)).any e.poison then mkOutPoisoned else mkOutOk,
               { u with keys := u.keys - 1 }) (e.setKey t false)
      else .done (mkOutWouldBlock, u) e := by
  have htry := C13_try_is_exact pol t C.W (C.shape c) m e hl hnd hq
  by_cases hfree : (holdsOf (C.shape c) m).all (freeFor e) = true
  · rw [hfree] at htry
    simp only [if_true] at htry
    simp only [hfree, if_true]
    have hrestore : relAll t (itemsFp m (guardItems (C.shape c))) (takeAll t (shapeFp C.W (C.shape c) m) e) = e := by
      rw [itemsFp_guardItems]
      apply relAll_takeAll_perm pol t _ _ e (shapeFp_perm C.W m (C.shape c) hl).symm
        (shapeFp_ids_nodup C.W (C.shape c) m hl hnd) (quiescent_notWaiting t e hq)
      intro p hp
      rw [avail_quiescent pol e hq]
      exact List.all_eq_true.1 hfree p ((shapeFp_perm C.W m (C.shape c) hl).mem_iff.1 hp)
    have hpois : (poisonIds (C.shape c)).any (takeAll t (shapeFp C.W (C.shape c) m) e).poison =
        (poisonIds (C.shape c)).any e.poison := by simp
    simp only [guardSession, solo_mark, solo_bindX, htry, if_true, guardPhase, guardDropN, hout, Prog.bind, solo_readPoison,
      Bool.false_or, bodySteps, solo, solo_guardDrop, Bool.false_eq_true, if_false, hrestore, hpois, solo_keyDrop]
  · have hf : (holdsOf (C.shape c) m).all (freeFor e) = false := by
      cases h : (holdsOf (C.shape c) m).all (freeFor e)
      · rfl
      · exact absurd h hfree
    rw [hf] at htry
    simp only [Bool.false_eq_true, if_false] at htry
    simp [guardSession, solo_mark, solo_bindX, htry, hf, solo]

-- @theorem C13_scoped_try_lock_api_is_exact : scoped_try_lock / scoped_try_read with a lent key and an empty closure, with no concurrent activity: WouldBlock with everything as before if some declared leaf is busy; otherwise the closure runs and the call returns with every lock and flag EXACTLY as before the call
theorem C13_scoped_try_lock_api_is_exact (pol : Policy) (t : Tid) (C : Ctx) (c : Nat) (m : Mode)
    (u : UserSt) (e : Env) (hl : lockable (C.shape c) = true)
    (hnd : (declLeaves (C.shape c)).Nodup) (hq : Quiescent e) :
    solo pol t (scopedSession C (C.shape c)
        { coll := c, api := .scopedTry, mode := m, key := .lent, body := [], exit := .ret } u) e =
      if (holdsOf (C.shape c) m).all (freeFor e) then
        .done (if (poisonIds (C.shape c)).any e.poison then mkOutPoisoned else mkOutOk, u) e
      else .done (mkOutWouldBlock, u) e := by
  have htry := C13_try_is_exact pol t C.W (C.shape c) m e hl hnd hq
  have hd := toRaw_det (pol := pol) (t := t) C.W (C.shape c) hl
  by_cases hfree : (holdsOf (C.shape c) m).all (freeFor e) = true
  · rw [hfree] at htry
    simp only [if_true] at htry
    simp only [hfree, if_true]
    have hrestore : relAll t (shapeFp C.W (C.shape c) m) (takeAll t (shapeFp C.W (C.shape c) m) e) = e := by
      apply relAll_takeAll_perm pol t _ _ e (List.Perm.refl _)
        (shapeFp_ids_nodup C.W (C.shape c) m hl hnd) (quiescent_notWaiting t e hq)
      intro p hp
      rw [avail_quiescent pol e hq]
      exact List.all_eq_true.1 hfree p ((shapeFp_perm C.W m (C.shape c) hl).mem_iff.1 hp)
    have hpois : (poisonIds (C.shape c)).any (takeAll t (shapeFp C.W (C.shape c) m) e).poison =
        (poisonIds (C.shape c)).any e.poison := by simp
    have hcl : ∀ (c' : Unit → Prog Unit Unit) (e1 : Env),
        solo pol t (Prog.handle () ((Prog.done ()).bindX Prog.unwind fun _ => Prog.done ()) c') e1 = .done () e1 := by
      intro c' e1
      exact solo_handle_done () _ c' e1 e1 () (by simp [Prog.bindX, solo])
    simp only [scopedSession, scopedSessionWith, scopedHeld, solo_mark, solo_bindX, htry, if_true, Prog.bind,
      solo_readPoison, Bool.false_or, bodySteps, solo, hcl, Bool.false_eq_true, if_false, hd.rel, hrestore, hpois,
      dropKeyIf]
  · have hf : (holdsOf (C.shape c) m).all (freeFor e) = false := by
      cases h : (holdsOf (C.shape c) m).all (freeFor e)
      · rfl
      · exact absurd h hfree
    rw [hf] at htry
    simp only [Bool.false_eq_true, if_false] at htry
    simp [scopedSession, scopedSessionWith, solo_mark, solo_bindX, htry, hf, solo]

/-- non-vacuity: a concrete table where one of three leaves is read-held by another thread
meets the hypotheses; by the theorem `try_read` of a boxed-in-retry nest succeeds and
`try_lock` fails -/
example :
    let W : World := { addr := fun x => 100 - x }
    let S : Shape := .retry (.seq [.boxed (.seq [.rwlock 1, .rwlock 2]), .rwlock 3])
    let e : Env := { locks := fun x => if x = 2 then { readers := [7] } else {} }
    (solo .readerPref 0 ((toRaw W S).try_ .shared) e).result = some true ∧
    (solo .readerPref 0 ((toRaw W S).try_ .excl) e).result = some false := by
  intro W S e
  have hq : Quiescent e := by
    intro x
    by_cases hx : x = 2 <;> simp [e, hx]
  have hnd : (declLeaves S).Nodup := by decide
  rw [C13_try_is_exact .readerPref 0 W S .shared e rfl hnd hq, C13_try_is_exact .readerPref 0 W S .excl e rfl hnd hq]
  have h1 : (holdsOf S .shared).all (freeFor e) = true := by decide
  have h2 : (holdsOf S .excl).all (freeFor e) = false := by decide
  rw [h1, h2]
  exact ⟨rfl, rfl⟩

end HLV
