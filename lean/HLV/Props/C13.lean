/-
  C13 — try_* outcomes are exact in quiescent states.

  The deterministic reading (`Logic/Solo.lean`): thread `t` runs the collection's `raw_try_*`
  alone against the raw-lock table; other threads' holds are frozen in the table.
-/
import HLV.Logic.Solo
import HLV.Logic.Sessions
namespace HLV

/-- no thread is waiting and no lock has been killed by an earlier fault -/
def Quiescent (e : Env) : Prop := ∀ x, (e.locks x).waitW = [] ∧ (e.locks x).killed = false

/-- the hold `p` is compatible with what the table records: an exclusive hold needs the lock
held in no mode at all, a shared hold needs it not held exclusively -/
def freeFor (e : Env) (p : LockId × Mode) : Bool :=
  match p.2 with
  | .excl => (e.locks p.1).writer.isNone && (e.locks p.1).readers.isEmpty
  | .shared => (e.locks p.1).writer.isNone

theorem avail_quiescent (pol : Policy) (e : Env) (hq : Quiescent e) (p : LockId × Mode) :
    avail pol e p = freeFor e p := by
  obtain ⟨x, m⟩ := p
  have := hq x
  cases m <;> cases pol <;> simp [avail, freeFor, grantable, LockSt.free, this.1, this.2]

theorem quiescent_notWaiting (t : Tid) (e : Env) (hq : Quiescent e) : NotWaiting t e := by
  intro x; rw [(hq x).1]; simp

theorem shapeFp_ids_nodup (W : World) (S : Shape) (m : Mode) (hl : lockable S = true)
    (hnd : (declLeaves S).Nodup) : (Fp.ids (shapeFp W S m)).Nodup := by
  have hp := (shapeFp_perm W m S hl).map (·.1)
  rw [← declLeaves_eq m S] at hp
  exact hp.nodup_iff.2 hnd

theorem all_perm {α : Type} (f : α → Bool) {a b : List α} (p : a.Perm b) : a.all f = b.all f := by
  cases h : b.all f
  · cases h' : a.all f
    · rfl
    · rw [List.all_eq_true] at h'
      have : b.all f = true := List.all_eq_true.2 fun x hx => h' x (p.mem_iff.2 hx)
      rw [h] at this; cases this
  · rw [List.all_eq_true] at h ⊢
    exact fun x hx => h x (p.mem_iff.1 hx)

def Out.result {ε α : Type} : Out ε α → Option α
  | .done a _ => some a
  | _ => none

def Out.env {ε α : Type} : Out ε α → Env
  | .done _ e => e
  | .unwound _ e => e
  | .spin e => e
  | .abort e => e
  | .stuck e => e

-- @theorem C13_try_is_exact : with no concurrent activity (quiescent table, any holds of other threads frozen), raw_try_write / raw_try_read of any lockable shape (any kind, size, arrangement, nesting) with distinct leaves returns true if and only if every declared leaf is free for the requested hold (exclusive: held in no mode; shared: not held exclusively); on true the table is the old one with exactly the footprint taken, on false the table is EXACTLY the old one
theorem C13_try_is_exact (pol : Policy) (t : Tid) (W : World) (S : Shape) (m : Mode) (e : Env)
    (hl : lockable S = true) (hnd : (declLeaves S).Nodup) (hq : Quiescent e) :
    solo pol t ((toRaw W S).try_ m) e =
      if (holdsOf S m).all (freeFor e) then .done true (takeAll t (shapeFp W S m) e)
      else .done false e := by
  have hd := toRaw_det (pol := pol) (t := t) W S hl
  have hn := shapeFp_ids_nodup W S m hl hnd
  have hw := quiescent_notWaiting t e hq
  have hall : (holdsOf S m).all (freeFor e) = (shapeFp W S m).all (avail pol e) := by
    rw [all_perm _ (shapeFp_perm W m S hl)]
    congr 1; funext p; exact (avail_quiescent pol e hq p).symm
  rw [hall]
  cases h : (shapeFp W S m).all (avail pol e)
  · simp only [Bool.false_eq_true, if_false]
    exact hd.try_no m e hw hn (fun ha => by rw [List.all_eq_true.2 ha] at h; cases h)
  · simp only [if_true]
    exact hd.try_ok m e hw hn (List.all_eq_true.1 h)

-- @theorem C13_outcome_independent_of_kind_arrangement_nesting : two lockable shapes with the same leaves (in any order, wrapped in any collection kinds, nested in any way) give the same try outcome on the same quiescent table, in either mode
theorem C13_outcome_independent_of_kind_arrangement_nesting (pol : Policy) (t : Tid) (W : World)
    (S S' : Shape) (m : Mode) (e : Env) (hl : lockable S = true) (hl' : lockable S' = true)
    (hnd : (declLeaves S).Nodup) (hsame : (holdsOf S m).Perm (holdsOf S' m)) (hq : Quiescent e) :
    (solo pol t ((toRaw W S).try_ m) e).result = (solo pol t ((toRaw W S').try_ m) e).result := by
  have hnd' : (declLeaves S').Nodup := by
    rw [declLeaves_eq m S'] ; rw [declLeaves_eq m S] at hnd
    exact (hsame.map (·.1)).nodup_iff.1 hnd
  rw [C13_try_is_exact pol t W S m e hl hnd hq, C13_try_is_exact pol t W S' m e hl' hnd' hq,
    all_perm _ hsame]
  split <;> rfl

-- @theorem C13_failed_try_changes_nothing : a failed attempt leaves every lock's state (writer, readers, waiting list, killed flag, datum), the key flags and the poison flags exactly as they were
theorem C13_failed_try_changes_nothing (pol : Policy) (t : Tid) (W : World) (S : Shape) (m : Mode) (e : Env)
    (hl : lockable S = true) (hnd : (declLeaves S).Nodup) (hq : Quiescent e)
    (hf : (solo pol t ((toRaw W S).try_ m) e).result = some false) :
    (solo pol t ((toRaw W S).try_ m) e).env = e := by
  rw [C13_try_is_exact pol t W S m e hl hnd hq] at hf ⊢
  split at hf
  · simp [Out.result] at hf
  · rename_i h; simp [h, Out.env]

-- @theorem C13_success_takes_exactly_the_leaves : after a successful attempt every declared leaf is held by the thread in the requested mode (a Mutex always exclusively) on top of what was there, and every other lock is untouched
theorem C13_success_takes_exactly_the_leaves (pol : Policy) (t : Tid) (W : World) (S : Shape) (m : Mode) (e : Env)
    (hl : lockable S = true) (hnd : (declLeaves S).Nodup) (hq : Quiescent e)
    (hs : (solo pol t ((toRaw W S).try_ m) e).result = some true) :
    let e' := (solo pol t ((toRaw W S).try_ m) e).env
    (∀ p ∈ holdsOf S m, e'.locks p.1 = (e.locks p.1).take t p.2) ∧
    (∀ x, x ∉ declLeaves S → e'.locks x = e.locks x) ∧ e'.keyFlag = e.keyFlag ∧ e'.poison = e.poison := by
  rw [C13_try_is_exact pol t W S m e hl hnd hq] at hs ⊢
  split at hs
  · rename_i h
    simp only [h, if_true, Out.env]
    have hn := shapeFp_ids_nodup W S m hl hnd
    have hp := shapeFp_perm W m S hl
    refine ⟨fun p hp' => takeAll_locks_in _ _ _ hn (hp.mem_iff.2 hp'), fun x hx => ?_, by simp, by simp⟩
    apply takeAll_locks_notin
    intro hmem
    apply hx
    rw [declLeaves_eq m S]
    exact ((hp.map (·.1)).mem_iff).1 hmem
  · simp [Out.result] at hs

-- @theorem C13_success_is_undone_by_release : releasing (what dropping the guard does at raw level: raw_unlock_write / raw_unlock_read of the same shape) after a successful attempt restores the table EXACTLY
theorem C13_success_is_undone_by_release (pol : Policy) (t : Tid) (W : World) (S : Shape) (m : Mode) (e : Env)
    (hl : lockable S = true) (hnd : (declLeaves S).Nodup) (hq : Quiescent e)
    (hfree : (holdsOf S m).all (freeFor e) = true) :
    solo pol t (Prog.bind ((toRaw W S).try_ m) fun _ => (toRaw W S).rel m) e = .done () e := by
  have hd := toRaw_det (pol := pol) (t := t) W S hl
  have hn := shapeFp_ids_nodup W S m hl hnd
  have hw := quiescent_notWaiting t e hq
  have h1 := C13_try_is_exact pol t W S m e hl hnd hq
  rw [hfree] at h1
  simp only [if_true] at h1
  simp only [Prog.bind, solo_bindX, h1, hd.rel]
  congr 1
  apply relAll_takeAll (pol := pol) _ _ hn hw
  intro p hp
  rw [avail_quiescent pol e hq]
  exact List.all_eq_true.1 hfree p ((shapeFp_perm W m S hl).mem_iff.1 hp)

/-- non-vacuity: a concrete table where one of three leaves is read-held by another thread
meets the hypotheses; by the theorem `try_read` of a boxed-in-retry nest succeeds and
`try_lock` fails -/
example :
    let W : World := { addr := fun x => 100 - x }
    let S : Shape := .retry (.seq [.boxed (.seq [.rwlock 1, .rwlock 2]), .rwlock 3])
    let e : Env := { locks := fun x => if x = 2 then { readers := [7] } else {} }
    (solo .readerPref 0 ((toRaw W S).try_ .shared) e).result = some true ∧
    (solo .readerPref 0 ((toRaw W S).try_ .excl) e).result = some false := by
  intro W S e
  have hq : Quiescent e := by
    intro x
    by_cases hx : x = 2 <;> simp [e, hx]
  have hnd : (declLeaves S).Nodup := by decide
  rw [C13_try_is_exact .readerPref 0 W S .shared e rfl hnd hq, C13_try_is_exact .readerPref 0 W S .excl e rfl hnd hq]
  have h1 : (holdsOf S .shared).all (freeFor e) = true := by decide
  have h2 : (holdsOf S .excl).all (freeFor e) = false := by decide
  rw [h1, h2]
  exact ⟨rfl, rfl⟩

end HLV
