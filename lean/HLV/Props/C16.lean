/-
  C16 — values are dropped exactly once and round-trip unchanged.
-/
import HLV.Model.Own
namespace HLV.Own

-- @theorem C16_boxed_new_then_drop_frees_everything_once : new / try_new followed by Drop (also the path of a try_new that rejects its input: the collection is built, then dropped) frees the heap cell once, drops the payload once, frees the lock list once and touches nothing after freeing it
theorem C16_boxed_new_then_drop_frees_everything_once : (run (opsNew ++ opsDrop)).clean false = true := by decide

-- @theorem C16_boxed_into_child_moves_payload_out_once : into_child frees the cell once, hands the payload to the caller once without dropping it, frees the lock list once, and the forgotten collection runs neither Drop nor the field glue
theorem C16_boxed_into_child_moves_payload_out_once : (run (opsNew ++ opsIntoChild)).clean true = true := by decide

-- @theorem C16_model_exhibits_the_classic_mistakes : the model is able to show the bugs the code avoids: into_child without mem::forget double-frees, a Drop that does not reclaim the box leaks
theorem C16_model_exhibits_the_classic_mistakes :
    (run (opsNew ++ [.dropLocksInPlace, .fromRawIntoInner] ++ opsDrop)).clean true = false ∧
    (run (opsNew ++ [.clearLocks, .fieldGlue])).clean false = false := by decide

mutual
theorem flatten_build (s : OShape) (vs : List Nat) (h : s.size ≤ vs.length) :
    (build s vs).1.flatten = vs.take s.size ∧ (build s vs).2 = vs.drop s.size := by
  match s with
  | .leaf =>
    cases vs with
    | nil => simp [OShape.size] at h
    | cons v vs => simp [build, VTree.flatten, OShape.size]
  | .node ss =>
    have := flattenL_buildL ss vs (by simpa [OShape.size] using h)
    simp only [build, VTree.flatten, OShape.size]
    exact this
  | .wrap s' =>
    have := flatten_build s' vs (by simpa [OShape.size] using h)
    simp only [build, VTree.flatten, OShape.size]
    exact this
theorem flattenL_buildL (ss : List OShape) (vs : List Nat) (h : OShape.sizeL ss ≤ vs.length) :
    VTree.flattenL (buildL ss vs).1 = vs.take (OShape.sizeL ss) ∧ (buildL ss vs).2 = vs.drop (OShape.sizeL ss) := by
  match ss with
  | [] => simp [buildL, VTree.flattenL, OShape.sizeL]
  | s :: ss' =>
    have h1 : s.size ≤ vs.length := by simp only [OShape.sizeL] at h; omega
    obtain ⟨a1, a2⟩ := flatten_build s vs h1
    have h2 : OShape.sizeL ss' ≤ (build s vs).2.length := by
      rw [a2]; simp only [OShape.sizeL] at h; simp; omega
    obtain ⟨b1, b2⟩ := flattenL_buildL ss' (build s vs).2 h2
    simp only [buildL, VTree.flattenL, OShape.sizeL]
    constructor
    · rw [a1, b1, a2, List.take_add]
    · rw [b2, a2, List.drop_drop]
end

-- @theorem C16_round_trip : for every shape (any nesting of tuples, arrays, vectors, boxed slices, wrappers and collections), building it from a list of values in declared order and then taking into_inner / get_mut / the guard positions yields exactly those values, in that order
theorem C16_round_trip (s : OShape) (vs : List Nat) (h : vs.length = s.size) :
    (build s vs).1.flatten = vs := by
  have := (flatten_build s vs (by omega)).1
  rw [this, ← h, List.take_length]

mutual
theorem flatten_setPos (t : VTree) (i w : Nat) : (t.setPos i w).flatten = t.flatten.set i w := by
  match t with
  | .leaf v =>
    simp only [VTree.setPos]
    split
    · rename_i h; subst h; simp [VTree.flatten]
    · rename_i h
      cases i with
      | zero => exact absurd rfl h
      | succ i => simp [VTree.flatten]
  | .node ts => simpa [VTree.setPos, VTree.flatten] using flattenL_setPosL ts i w
  | .wrap t' => simpa [VTree.setPos, VTree.flatten] using flatten_setPos t' i w
theorem flattenL_setPosL (ts : List VTree) (i w : Nat) :
    VTree.flattenL (VTree.setPosL ts i w) = (VTree.flattenL ts).set i w := by
  match ts with
  | [] => simp [VTree.setPosL, VTree.flattenL]
  | t :: ts' =>
    simp only [VTree.setPosL, VTree.flattenL]
    split
    · rename_i h
      simp only [VTree.flattenL, flatten_setPos t i w, List.set_append, h, if_true]
    · rename_i h
      simp only [VTree.flattenL, flattenL_setPosL ts' _ w, List.set_append, h, if_false]
end

-- @theorem C16_last_write_is_what_comes_back : a write through position i of a guard or get_mut result changes exactly position i of what into_inner later returns (positions are the declared ones, for every shape)
theorem C16_last_write_is_what_comes_back (t : VTree) (i w : Nat) :
    (t.setPos i w).flatten = t.flatten.set i w :=
  flatten_setPos t i w

/-! non-vacuity -/
example : (build (.node [.leaf, .wrap (.node [.leaf, .leaf]), .node []]) [7, 8, 9]).1.flatten = [7, 8, 9] := by decide

end HLV.Own
