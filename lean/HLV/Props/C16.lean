/-
  C16 — values are dropped exactly once and round-trip unchanged.
-/
import HLV.Model.Own
import HLV.Static.OwnRules
namespace HLV.Own
open HLV.Static

set_option maxRecDepth 1000000

-- @theorem C16_ownership_primitives_only_in_audited_functions : in the source as it is now, the only non-test functions that touch an ownership-sensitive primitive (mem::forget, Box::leak / from_raw, ptr::drop_in_place / read / write, MaybeUninit, ManuallyDrop, transmute, set_len …) are the audited ones — BoxedLockCollection::{new_unchecked, drop, into_child}, the six array functions of lockable.rs and unlock_all_writes / unlock_all_reads — and each of them still has its record; everything else is safe Rust, which drops every value exactly once
theorem C16_ownership_primitives_only_in_audited_functions :
    c16_unauditedSensitive = [] ∧ c16_auditedMissing = [] := by decide +kernel

-- @theorem C16_boxed_new_then_drop_frees_everything_once : the call sequences extracted from new_unchecked and Drop::drop of boxed.rs, run on the heap-cell model (new / try_new followed by Drop — also the path of a try_new that rejects its input: the collection is built, then dropped), free the heap cell once, drop the payload once, free the lock list once and touch nothing after freeing it
theorem C16_boxed_new_then_drop_frees_everything_once :
    (boxedNewOps.bind fun n => boxedDropOps.map fun d => (lifeDrop n d).clean false) = some true := by
  decide +kernel

-- @theorem C16_boxed_into_child_moves_payload_out_once : the call sequence extracted from into_child frees the cell once, hands the payload to the caller once without dropping it, frees the lock list once, and the forgotten collection runs neither Drop nor the field glue when it goes out of scope
theorem C16_boxed_into_child_moves_payload_out_once :
    (boxedNewOps.bind fun n => boxedDropOps.bind fun d => boxedIntoChildOps.map fun c =>
      (lifeIntoChild n c d).clean true) = some true := by
  decide +kernel

-- @theorem C16_boxed_source_says_what_the_model_expects : the extracted sequences are the ones the model was written for (a rewrite of boxed.rs that keeps the theorems above true but changes the sequence shows up here first)
theorem C16_boxed_source_says_what_the_model_expects :
    boxedNewOps = some opsNew ∧ boxedDropOps = some opsDrop ∧ boxedIntoChildOps = some opsIntoChild := by
  decide +kernel

-- @theorem C16_model_exhibits_the_classic_mistakes : the model is able to show the bugs the code avoids: into_child without mem::forget double-frees, a Drop that does not reclaim the box leaks, a Box that is not leaked in new_unchecked is freed at the end of the constructor and used afterwards, drop(boxed) followed by into_inner frees twice
theorem C16_model_exhibits_the_classic_mistakes :
    (lifeIntoChild opsNew [.dropLocksInPlace, .fromRaw, .boxIntoInner] opsDrop).clean true = false ∧
    (lifeDrop opsNew [.clearLocks]).clean false = false ∧
    (lifeDrop [.boxNew, .buildLocks] opsDrop).clean false = false ∧
    (lifeIntoChild opsNew [.dropLocksInPlace, .fromRaw, .forgetSelf, .dropBox, .boxIntoInner] opsDrop).clean true = false ∧
    (lifeIntoChild opsNew [.fromRaw, .forgetSelf, .boxIntoInner] opsDrop).clean true = false := by decide

theorem filter_eq_range (n j : Nat) (h : j < n) : (List.range n).filter (fun i => i == j) = [j] := by
  induction n with
  | zero => omega
  | succ n ih =>
    rw [List.range_succ, List.filter_append]
    rcases Nat.lt_or_ge j n with hlt | hge
    · rw [ih hlt]
      have : (n == j) = false := by simp; omega
      simp [List.filter, this]
    · have hj : j = n := by omega
      subst hj
      have : (List.range j).filter (fun i => i == j) = [] := by
        rw [List.filter_eq_nil_iff]
        intro a ha
        have := List.mem_range.1 ha
        simp; omega
      rw [this]; simp [List.filter]

-- @theorem C16_array_fill_is_exact : for every array length N, the loop "for i in 0..N: slot i := element i" followed by assume_init on every slot writes every slot exactly once (no read of uninitialised memory, no overwritten and leaked value, no index out of bounds) and slot j holds the value of element j
theorem C16_array_fill_is_exact (n : Nat) : ({ dst := .loopVar, src := .loopVar } : ArrFill).clean n := by
  have hid : (List.range n).map (Idx.eval .loopVar) = List.range n := by
    have : Idx.eval .loopVar = id := by funext i; rfl
    rw [this, List.map_id]
  refine ⟨fun i h => h, ?_, ?_⟩
  · simp only [ArrFill.writes, hid]
    apply List.ext_getElem
    · simp
    · intro i h1 h2
      simp only [List.getElem_map, List.getElem_range, List.getElem_replicate, List.count_range]
      have : i < n := by simpa using h1
      simp [this]
  · intro j hj
    simp only [ArrFill.source, Idx.eval]
    rw [filter_eq_range n j hj]
    rfl

-- @theorem C16_array_functions_fill_slot_i_from_element_i : the records extracted from [T; N]::{guard, data_mut, read_guard, data_ref, get_mut, into_inner} are all of the shape uninit; for i in 0..N (or enumerate over the elements); one call on element i; write into slot i; assume_init on every slot — so the theorem above is about what the source says now
theorem C16_array_functions_fill_slot_i_from_element_i : c16_arrayFills = [] := by decide +kernel

-- @theorem C16_model_exhibits_array_mistakes : the fill model shows the mistakes the code avoids: writing every value into slot 0 leaves slot 1 uninitialised and leaks, reading every value from element 0 puts values at the wrong positions
theorem C16_model_exhibits_array_mistakes :
    ¬ ({ dst := .const 0, src := .loopVar } : ArrFill).clean 2 ∧
    ¬ ({ dst := .loopVar, src := .const 0 } : ArrFill).clean 2 := by
  constructor
  · intro h; exact absurd h.2.1 (by decide)
  · intro h; exact absurd (h.2.2 1 (by decide)) (by decide)

-- @theorem C16_only_panic_payloads_are_forgotten : the only ownership-sensitive call of unlock_all_writes / unlock_all_reads is mem::forget(e) on the payload of a caught surplus panic — never a stored value
theorem C16_only_panic_payloads_are_forgotten : c16_payloadForget = [] := by decide +kernel

mutual
theorem flatten_build (s : OShape) (vs : List Nat) (h : s.size ≤ vs.length) :
    (build s vs).1.flatten = vs.take s.size ∧ (build s vs).2 = vs.drop s.size := by
  match s with
  | .leaf =>
    cases vs with
    | nil => simp [OShape.size] at h
    | cons v vs => simp [build, VTree.flatten, OShape.size]
  | .node ss =>
    have := flattenL_buildL ss vs (by simpa [OShape.size] using h)
    simp only [build, VTree.flatten, OShape.size]
    exact this
  | .wrap s' =>
    have := flatten_build s' vs (by simpa [OShape.size] using h)
    simp only [build, VTree.flatten, OShape.size]
    exact this
theorem flattenL_buildL (ss : List OShape) (vs : List Nat) (h : OShape.sizeL ss ≤ vs.length) :
    VTree.flattenL (buildL ss vs).1 = vs.take (OShape.sizeL ss) ∧ (buildL ss vs).2 = vs.drop (OShape.sizeL ss) := by
  match ss with
  | [] => simp [buildL, VTree.flattenL, OShape.sizeL]
  | s :: ss' =>
    have h1 : s.size ≤ vs.length := by simp only [OShape.sizeL] at h; omega
    obtain ⟨a1, a2⟩ := flatten_build s vs h1
    have h2 : OShape.sizeL ss' ≤ (build s vs).2.length := by
      rw [a2]; simp only [OShape.sizeL] at h; simp; omega
    obtain ⟨b1, b2⟩ := flattenL_buildL ss' (build s vs).2 h2
    simp only [buildL, VTree.flattenL, OShape.sizeL]
    constructor
    · rw [a1, b1, a2, List.take_add]
    · rw [b2, a2, List.drop_drop]
end

-- @theorem C16_round_trip : for every shape (any nesting of tuples, arrays, vectors, boxed slices, wrappers and collections), building it from a list of values in declared order and then taking into_inner / get_mut / the guard positions yields exactly those values, in that order
theorem C16_round_trip (s : OShape) (vs : List Nat) (h : vs.length = s.size) :
    (build s vs).1.flatten = vs := by
  have := (flatten_build s vs (by omega)).1
  rw [this, ← h, List.take_length]

mutual
theorem flatten_setPos (t : VTree) (i w : Nat) : (t.setPos i w).flatten = t.flatten.set i w := by
  match t with
  | .leaf v =>
    simp only [VTree.setPos]
    split
    · rename_i h; subst h; simp [VTree.flatten]
    · rename_i h
      cases i with
      | zero => exact absurd rfl h
      | succ i => simp [VTree.flatten]
  | .node ts => simpa [VTree.setPos, VTree.flatten] using flattenL_setPosL ts i w
  | .wrap t' => simpa [VTree.setPos, VTree.flatten] using flatten_setPos t' i w
theorem flattenL_setPosL (ts : List VTree) (i w : Nat) :
    VTree.flattenL (VTree.setPosL ts i w) = (VTree.flattenL ts).set i w := by
  match ts with
  | [] => simp [VTree.setPosL, VTree.flattenL]
  | t :: ts' =>
    simp only [VTree.setPosL, VTree.flattenL]
    split
    · rename_i h
      simp only [VTree.flattenL, flatten_setPos t i w, List.set_append, h, if_true]
    · rename_i h
      simp only [VTree.flattenL, flattenL_setPosL ts' _ w, List.set_append, h, if_false]
end

-- @theorem C16_last_write_is_what_comes_back : a write through position i of a guard or get_mut result changes exactly position i of what into_inner later returns (positions are the declared ones, for every shape)
theorem C16_last_write_is_what_comes_back (t : VTree) (i w : Nat) :
    (t.setPos i w).flatten = t.flatten.set i w :=
  flatten_setPos t i w

/-! non-vacuity -/
example : (build (.node [.leaf, .wrap (.node [.leaf, .leaf]), .node []]) [7, 8, 9]).1.flatten = [7, 8, 9] := by decide

end HLV.Own
