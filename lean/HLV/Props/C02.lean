/-
  C02 — mutual exclusion and per-lock data continuity under guards and closures.
-/
import HLV.Props.C01
namespace HLV

/-- exclusion in the lock table: a writer excludes everybody else -/
def Exclusive (e : Env) : Prop := ∀ x, (e.locks x).writer.isSome → (e.locks x).readers = []

-- @theorem C02_table_grants_preserve_exclusion : whatever any thread does (any operation, either policy, faulty or not), the table never has a writer together with readers: exclusive and shared holds of one lock never overlap, and there is at most one writer (a field, not a list)
theorem C02_table_grants_preserve_exclusion (pol : Policy) (e : Env) (t : Tid) (o : Op) (fault : Bool)
    (hex : Exclusive e) (hrel : ∀ m x, o = .rel m x → (e.locks x).holds t m = true) :
    Exclusive (e.step pol t o fault).env := by
  intro x
  unfold Env.step
  cases o with
  | acq m b y =>
    simp only []
    split
    · exact hex x
    · split
      · simp only [StepRes.env, Env.setLock]; split
        · rename_i h; subst h; exact hex x
        · exact hex x
      · split
        · rename_i hg
          simp only [StepRes.env, Env.setLock]
          split
          · rename_i h; subst h
            cases m with
            | excl =>
              simp only [grantable, LockSt.free, Bool.and_eq_true, List.isEmpty_iff] at hg
              intro _; simpa [LockSt.take] using hg.2
            | shared =>
              simp only [grantable, Bool.and_eq_true, Option.isNone_iff_eq_none] at hg
              intro hw; simp [LockSt.take, hg.1] at hw
          · exact hex x
        · split
          · split
            · simp only [StepRes.env]
              split
              · exact hex x
              · simp only [Env.setLock]; split
                · rename_i h; subst h; exact hex x
                · exact hex x
            · exact hex x
          · exact hex x
  | rel m y =>
    simp only []
    split
    · simp only [StepRes.env, Env.setLock]; split
      · rename_i h; subst h; exact hex x
      · exact hex x
    · simp only [StepRes.env, Env.setLock]
      split
      · rename_i h; subst h
        have hh := hrel m x rfl
        cases m with
        | excl => intro hw; simp [LockSt.release] at hw
        | shared =>
          intro hw
          have hw' : (e.locks x).writer.isSome := by simpa [LockSt.release] using hw
          have := hex x hw'
          simp [LockSt.release, this]
      · exact hex x
  | kill y =>
    simp only [StepRes.env, Env.setLock]; split
    · rename_i h; subst h; exact hex x
    · exact hex x
  | access y w =>
    cases w with
    | none => exact hex x
    | some v =>
      simp only [StepRes.env, Env.setLock]; split
      · rename_i h; subst h; exact hex x
      · exact hex x
  | keyGet => simp only []; split <;> exact hex x
  | keyDrop => exact hex x
  | keyForget => exact hex x
  | poisonSet p => exact hex x
  | poisonClear p => exact hex x
  | poisonGet p => exact hex x
  | mark k => exact hex x

-- @theorem C02_sections_only_while_held : in every reachable state of any N-thread system of well-typed programs — ANY lockable collections incl. owned groups and retrying collections, no rank discipline needed — (either policy), a thread whose next step is a write through a guard or closure argument is the lock's writer, and a thread about to read is its writer or one of its readers
theorem C02_sections_only_while_held (pol : Policy) (N : Nat) (C : Ctx)
    (progs : Tid → List Stmt) (hok : ∀ t, ProgOK none C (progs t))
    (hidle : ∀ t, N ≤ t → progs t = []) (s : Sys) (hr : Reachable pol (initSys C progs) s)
    (t : Tid) (x : LockId) (w : Option Nat) (k : Resp → Prog Unit Unit)
    (hc : s.thr t = .op (.access x w) k) :
    (w.isSome → (s.env.locks x).writer = some t) ∧
    (w = none → (s.env.locks x).writer = some t ∨ t ∈ (s.env.locks x).readers) := by
  obtain ⟨H, hi⟩ := reachable_inv pol (initSys_inv none N C progs hok hidle) hr
  have hcode := hi.code t
  rw [hc] at hcode
  have hpre := hcode.1
  have hw : 0 < (H t).held x .excl → (s.env.locks x).writer = some t := by
    intro h
    rw [hi.excl x t] at h
    split at h
    · assumption
    · exact absurd h (Nat.lt_irrefl 0)
  constructor
  · intro hs
    obtain ⟨v, rfl⟩ := Option.isSome_iff_exists.1 hs
    exact hw hpre
  · intro hn
    subst hn
    rcases hpre with h | h
    · exact Or.inl (hw h)
    · right
      rw [hi.shared x t] at h
      exact List.count_pos_iff.1 h

-- @theorem C02_value_changes_only_in_exclusive_sections : the protected datum of a lock changes only by a write step of the thread that is its writer at that moment; every other step of every thread leaves it as it was — so each section observes exactly the value left by the most recent exclusive section of that same lock (no lost, torn or misrouted update)
theorem C02_value_changes_only_in_exclusive_sections (pol : Policy) (N : Nat)
    (C : Ctx) (progs : Tid → List Stmt) (hok : ∀ t, ProgOK none C (progs t))
    (hidle : ∀ t, N ≤ t → progs t = []) (s s' : Sys) (hr : Reachable pol (initSys C progs) s)
    (t : Tid) (hs : s.step pol t = some s') (x : LockId)
    (hne : (s'.env.locks x).value ≠ (s.env.locks x).value) :
    ∃ v k, s.thr t = .op (.access x (some v)) k ∧ (s.env.locks x).writer = some t ∧
      (s'.env.locks x).value = v := by
  have hsec := C02_sections_only_while_held pol N C progs hok hidle s hr t x
  unfold Sys.step at hs
  cases hc : s.thr t with
  | done a => rw [hc] at hs; cases hs
  | unwind e => rw [hc] at hs; cases hs
  | spin => rw [hc] at hs; cases hs
  | abort => rw [hc] at hs; cases hs
  | op o k =>
    rw [hc] at hs
    simp only at hs
    -- every operation except a write to x leaves x's value alone
    have hval : ∀ (o' : Op), (∀ v, o' ≠ .access x (some v)) →
        ((s.env.step pol t o' false).env.locks x).value = (s.env.locks x).value := by
      intro o' hno
      unfold Env.step
      cases o' with
      | acq m b y =>
        simp only []
        split
        · rfl
        · simp only [Bool.false_eq_true, if_false]
          split
          · simp only [StepRes.env, Env.setLock]; split
            · rename_i h; subst h; cases m <;> rfl
            · rfl
          · split
            · split
              · simp only [StepRes.env]; split
                · rfl
                · simp only [Env.setLock]; split
                  · rename_i h; subst h; rfl
                  · rfl
              · rfl
            · rfl
      | rel m y =>
        simp only [Bool.false_eq_true, if_false, StepRes.env, Env.setLock]; split
        · rename_i h; subst h; cases m <;> rfl
        · rfl
      | kill y =>
        simp only [StepRes.env, Env.setLock]; split
        · rename_i h; subst h; rfl
        · rfl
      | access y w' =>
        cases w' with
        | none => rfl
        | some v =>
          simp only [StepRes.env, Env.setLock]; split
          · rename_i h; subst h; exact absurd rfl (hno v)
          · rfl
      | keyGet => simp only []; split <;> rfl
      | keyDrop => rfl
      | keyForget => rfl
      | poisonSet p => rfl
      | poisonClear p => rfl
      | poisonGet p => rfl
      | mark k => rfl
    have henv : s'.env = (s.env.step pol t o false).env := by
      cases hst : s.env.step pol t o false with
      | stepped r e' ev => rw [hst] at hs; cases hs; rfl
      | blocked e' => rw [hst] at hs; cases hs; rfl
    by_cases hw : ∃ v, o = .access x (some v)
    · obtain ⟨v, rfl⟩ := hw
      refine ⟨v, k, rfl, (hsec (some v) k hc).1 rfl, ?_⟩
      rw [henv]
      simp [Env.step, StepRes.env, Env.setLock]
    · exfalso
      apply hne
      rw [henv]
      exact hval o (fun v h => hw ⟨v, h⟩)

/-- the table of every reachable state is exclusive -/
theorem reachable_exclusive (pol : Policy) (N : Nat) (C : Ctx) (progs : Tid → List Stmt)
    (hok : ∀ t, ProgOK none C (progs t)) (hidle : ∀ t, N ≤ t → progs t = [])
    (s : Sys) (hr : Reachable pol (initSys C progs) s) : Exclusive s.env := by
  induction hr with
  | init => intro x h; simp [initSys] at h
  | @step s1 s2 t hr1 hs ih =>
    obtain ⟨H, hi⟩ := reachable_inv pol (initSys_inv none N C progs hok hidle) hr1
    unfold Sys.step at hs
    cases hc : s1.thr t with
    | done a => rw [hc] at hs; cases hs
    | unwind e => rw [hc] at hs; cases hs
    | spin => rw [hc] at hs; cases hs
    | abort => rw [hc] at hs; cases hs
    | op o k =>
      rw [hc] at hs
      have hrel : ∀ m x, o = .rel m x → (s1.env.locks x).holds t m = true := by
        intro m x ho
        subst ho
        have hcode := hi.code t
        rw [hc] at hcode
        have hpos : 0 < (H t).held x m := hcode.1
        cases m with
        | excl =>
          rw [hi.excl x t] at hpos
          split at hpos
          · rename_i hw; simp [LockSt.holds, hw]
          · exact absurd hpos (Nat.lt_irrefl 0)
        | shared =>
          rw [hi.shared x t] at hpos
          simpa [LockSt.holds] using List.count_pos_iff.1 hpos
      have hex := C02_table_grants_preserve_exclusion pol s1.env t o false ih hrel
      cases hst : s1.env.step pol t o false with
      | stepped r e' ev =>
        rw [hst] at hex
        simp only [hst, Option.some.injEq] at hs
        subst hs
        exact hex
      | blocked e' =>
        rw [hst] at hex
        simp only [hst, Option.some.injEq] at hs
        subst hs
        exact hex

-- @theorem C02_no_two_threads_in_conflicting_sections : in every reachable state of any N-thread system of well-typed programs (any collections, either policy, any interleaving), two different threads are never both about to use the datum of the same lock through their guards / closure arguments unless both only read: an exclusive section excludes every other section of that lock
theorem C02_no_two_threads_in_conflicting_sections (pol : Policy) (N : Nat) (C : Ctx)
    (progs : Tid → List Stmt) (hok : ∀ t, ProgOK none C (progs t))
    (hidle : ∀ t, N ≤ t → progs t = []) (s : Sys) (hr : Reachable pol (initSys C progs) s)
    (t u : Tid) (htu : t ≠ u) (x : LockId) (v : Nat) (w : Option Nat)
    (k k' : Resp → Prog Unit Unit)
    (ht : s.thr t = .op (.access x (some v)) k) (hu : s.thr u = .op (.access x w) k') : False := by
  have h1 := (C02_sections_only_while_held pol N C progs hok hidle s hr t x (some v) k ht).1 rfl
  have hex := reachable_exclusive pol N C progs hok hidle s hr x (by rw [h1]; rfl)
  cases w with
  | some v' =>
    have h2 := (C02_sections_only_while_held pol N C progs hok hidle s hr u x (some v') k' hu).1 rfl
    rw [h1] at h2
    exact htu (Option.some.inj h2)
  | none =>
    rcases (C02_sections_only_while_held pol N C progs hok hidle s hr u x none k' hu).2 rfl with h2 | h2
    · rw [h1] at h2; exact htu (Option.some.inj h2)
    · rw [hex] at h2; cases h2

-- @theorem C02_guard_positions_are_the_declared_leaves : position i of a guard or closure argument of any shape is the i-th leaf in declared order (through every container, wrapper and nested collection), whatever order the locks were acquired in
theorem C02_guard_positions_are_the_declared_leaves (m : Mode) (S : Shape) :
    declLeaves S = (holdsOf S m).map (·.1) ∧ itemsFp m (guardItems S) = holdsOf S m :=
  ⟨declLeaves_eq m S, itemsFp_guardItems m S⟩

end HLV
