/-
  C14 — the type system enforces the one-key discipline.
  Table theorems over `HLV.Generated.Facts` (regenerated from /repo/src on every run): the
  quantifier is the finite table of items the source defines now; `decide` evaluates the rule
  in the kernel. A recorded finding is a literal here and in known_findings.json.
-/
import HLV.Static.Rules
import HLV.Logic.Key
namespace HLV
open HLV.Static HLV.Gen

set_option maxRecDepth 1000000

-- @theorem C14_translator_read_every_item : the translator handled every item of every module reachable from lib.rs (no unparsed file, no unknown item macro)
theorem C14_translator_read_every_item : translatorErrors = [] := by decide +kernel

-- @theorem C14_keys_and_guards_not_clone_copy_default_send : neither ThreadKey nor any struct that stores a ThreadKey (the guards handed to users) implements or derives Clone, Copy, Default or Send
theorem C14_keys_and_guards_not_clone_copy_default_send : c14_keyLikeImpls = [] := by decide +kernel

-- @theorem C14_hold_tokens_cannot_be_duplicated : no struct whose Drop releases a raw lock (MutexRef, RwLockReadRef, RwLockWriteRef), and no struct containing one by value, implements or derives Clone, Copy or Default, and the set of hold tokens found in the source is non-empty (the rule is not vacuous)
theorem C14_hold_tokens_cannot_be_duplicated : c14_holdTokenImpls = [] ∧ holdTokens.length ≥ 3 := by decide +kernel

-- @theorem C14_key_fields_private_and_key_not_send : every field holding a key is private, ThreadKey's own fields are private, and ThreadKey contains PhantomData<*const ()> (so it and everything containing it is !Send by the auto-trait rules)
theorem C14_key_fields_private_and_key_not_send : c14_keyFields = [] := by decide +kernel

-- @theorem C14_keyable_is_sealed : Keyable is an unsafe trait whose supertrait Sealed lives in a private module, and both are implemented exactly for ThreadKey and &mut ThreadKey
theorem C14_keyable_is_sealed : c14_keyableSealing = [] := by decide +kernel

-- @theorem C14_acquiring_functions_take_a_key : every safe public inherent function that calls an acquiring RawLock method or a scoped helper has a parameter of type ThreadKey (by value), impl Keyable, or a generic bounded by Keyable
theorem C14_acquiring_functions_take_a_key : c14_acquiringWithoutKey = [] := by decide +kernel

-- @theorem C14_keys_never_lent_out_or_conjured : no function returns a reference to a ThreadKey, and a public function returns a ThreadKey by value only if it took a key or a key-holding guard by value (ThreadKey::get is the only source)
theorem C14_keys_never_lent_out_or_conjured : c14_keyLeaks = [] := by decide +kernel

-- @theorem C14_raw_lock_not_reachable_from_safe_code : no safe public function of a type with a raw-lock field returns a reference to the raw lock (lock_api's lock()/try_lock() are safe functions)
theorem C14_raw_lock_not_reachable_from_safe_code : c14_rawAccessors = [] := by decide +kernel

/-- finding D6: the guard of `Vec<T>` / `Box<[T]>` collections is `Box<[T::Guard]>`, which is
`Default`; `mem::take(&mut *guard)` moves the holds out and `unlock(guard)` then returns the
key while the locks are still held -/
def recordedC14_holdExtraction : List (Nat × Nat) :=
  [(Sym.Box, Sym.Guard), (Sym.Vec, Sym.Guard), (Sym.Box, Sym.ReadGuard), (Sym.Vec, Sym.ReadGuard)]

-- @theorem C14_no_hold_extraction_partial : PARTIAL — the only Lockable/Sharable guard types out of which holds can be moved through &mut are the recorded ones (finding D6: Box<[Guard]> for Vec<T> and Box<[T]>)
theorem C14_no_hold_extraction_partial :
    c14_holdExtraction.all (fun x => recordedC14_holdExtraction.contains x) = true := by decide +kernel

-- @theorem C14_keyless_holds_only_in_debug_partial : PARTIAL — the only code that takes a lock without a key and then runs user code while holding it is the recorded one (finding D13: Debug::fmt of Mutex and RwLock, to which the collections and Poisonable forward); the set is non-empty on the current tree
theorem C14_keyless_holds_only_in_debug_partial :
    c14_debugHoldsWithoutKey.all (fun x => [(Sym.Mutex, Sym.fmt), (Sym.RwLock, Sym.fmt)].contains x) = true := by
  decide +kernel

-- @theorem C14_discipline_gives_at_most_one_key : with keys unforgeable, uncopyable and consumed by every acquiring call (the table theorems above), client histories are the linear token histories of the model, for which the key refinement holds (at most one token; flag set iff a token exists; get succeeds iff none) — this is C06's theorem, restated here as the consequence
theorem C14_discipline_gives_at_most_one_key (C : Ctx) (prog : List Stmt) :
    wp KeySpec (program C prog {}) (fun u' g' => KeyInv u' g') (fun (_ : Unit) (_ : KG) => True) {} :=
  program_key C prog {} {} _ ⟨by decide, (fun h => by cases h), by decide⟩ (fun _ _ h => h)

end HLV
