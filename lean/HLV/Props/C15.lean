/-
  C15 — the type system confines protected data to live holds.
  Table theorems over `HLV.Generated.Facts`, regenerated from /repo/src on every run.
-/
import HLV.Static.Rules
namespace HLV
open HLV.Static HLV.Gen

set_option maxRecDepth 1000000

-- @theorem C15_send_sync_at_least_std : every manual Send/Sync impl in the crate is one of the expected ones and carries at least the bounds of the reference table (std's Mutex/RwLock/guard conditions; a collection holding &L needs L: Sync to be Send)
theorem C15_send_sync_at_least_std : c15_sendSync = [] := by decide +kernel

/-- finding D8 (collections and `Poisonable`): the scoped closure's argument has the lifetime of
the borrow of the collection, not a higher-ranked one, so the closure can return it -/
def recordedC15_closures : List (Nat × Nat) :=
  [Sym.BoxedLockCollection, Sym.OwnedLockCollection, Sym.RefLockCollection, Sym.RetryingLockCollection,
   Sym.Poisonable].flatMap (fun t =>
    [Sym.scoped_lock, Sym.scoped_try_lock, Sym.scoped_read, Sym.scoped_try_read].map fun f => (t, f)) ++
  [Sym.scoped_write, Sym.scoped_try_write, Sym.scoped_read, Sym.scoped_try_read].map fun f => (0, f)

-- @theorem C15_closure_arguments_higher_ranked_partial : PARTIAL — the scoped closures of Mutex and RwLock take their argument with a higher-ranked lifetime (a reference cannot be returned from the closure); the only scoped functions whose closure argument mentions a named lifetime of the function are the recorded ones (finding D8: collections, Poisonable, and the shared helpers)
theorem C15_closure_arguments_higher_ranked_partial :
    c15_closureLifetimes.all (fun x => recordedC15_closures.contains x) = true := by decide +kernel

-- @theorem C15_ownedlockable_only_for_owning_types : OwnedLockable is implemented for no shared reference, and every impl for a container, wrapper or collection requires its element parameters to be OwnedLockable themselves
theorem C15_ownedlockable_only_for_owning_types : c15_ownedLockable = [] := by decide +kernel

-- @theorem C15_unchecked_constructors_need_owned_or_unsafe : new / new_ref of every collection require OwnedLockable inputs; new_unchecked is unsafe (also the compile-time half of C07)
theorem C15_unchecked_constructors_need_owned_or_unsafe : c15_uncheckedConstructors = [] := by decide +kernel

-- @theorem C15_owned_collection_gives_no_shared_access : OwnedLockCollection has no safe &self method returning a reference, no AsRef impl and no IntoIterator for &OwnedLockCollection
theorem C15_owned_collection_gives_no_shared_access : c15_ownedSharedAccess = [] := by decide +kernel

-- @theorem C15_no_mutable_access_to_checked_collections_of_borrowed_locks : the collections that can be built over borrowed locks (their try_new tests for duplicates once) give safe mutable access to their underlying container (child_mut, iter_mut, AsMut, DerefMut, IntoIterator for &mut) only when the element type owns its locks — otherwise a lock that is already inside could be added after the test and lock() would wait for a lock the thread holds itself
theorem C15_no_mutable_access_to_checked_collections_of_borrowed_locks : c15_mutableAccessToChecked = [] := by decide +kernel

-- @theorem C15_hold_tokens_are_never_send : every struct whose Drop releases a raw lock (MutexRef, RwLockReadRef, RwLockWriteRef) has a PhantomData field over a raw pointer, so it is !Send for every raw lock — also for raw locks whose guards may be sent (spin, parking_lot with send_guard): the guards lend &mut to these tokens, and a Send token could be swapped with the token inside another thread's guard (D18, repaired)
theorem C15_hold_tokens_are_never_send : c15_holdTokenMarkers = [] ∧ holdTokens.length ≥ 3 := by decide +kernel

-- @theorem C15_raw_entry_points_are_unsafe : RawLock, Lockable, Sharable, OwnedLockable, Keyable are unsafe traits; every RawLock method except poison, and guard/data_mut/read_guard/data_ref, are unsafe fns
theorem C15_raw_entry_points_are_unsafe : c15_unsafeEntryPoints = [] := by decide +kernel

-- @theorem C15_deref_ties_reference_to_guard_borrow : every Deref/DerefMut impl returns a reference with the elided lifetime of &self / &mut self
theorem C15_deref_ties_reference_to_guard_borrow : c15_derefLifetimes = [] := by decide +kernel

-- @theorem C15_try_paths_never_reach_a_blocking_operation : (static half of C04) no function named try_* / scoped_try_* / raw_try_* / ordered_try_* reaches raw_write, raw_read, ordered_write/read or lock_api's blocking calls through the crate's own functions
theorem C15_try_paths_never_reach_a_blocking_operation : c04_tryReachesBlocking = [] := by decide +kernel

-- @theorem C15_nonacquiring_paths_never_reach_a_blocking_operation : (static half of C17) Debug::fmt, is_poisoned, clear_poison, accessors, constructors, get_ptrs and poison never reach a blocking operation through the crate's own functions
theorem C15_nonacquiring_paths_never_reach_a_blocking_operation : c17_nonAcqReachesBlocking = [] := by decide +kernel

end HLV
