/-
  C09 — a retrying collection never waits while holding, and still completes.
-/
import HLV.Logic.Order
import HLV.Props.HoldFamily
namespace HLV

theorem ghostAfter_ro (n : Nat) (ro ro' : RankOpt) (g : HG) (tr : List (Op × Resp)) :
    ghostAfter (HoldSpec n ro) g tr = ghostAfter (HoldSpec n ro') g tr := by
  induction tr generalizing g with
  | nil => rfl
  | cons a tr ih => obtain ⟨o, r⟩ := a; exact ih _

theorem admissible_ro (n : Nat) (ro ro' : RankOpt) (g : HG) (tr : List (Op × Resp)) :
    Admissible (HoldSpec n ro) g tr → Admissible (HoldSpec n ro') g tr := by
  induction tr generalizing g with
  | nil => exact id
  | cons a tr ih => obtain ⟨o, r⟩ := a; exact fun h => ⟨h.1, ih _ h.2⟩

-- @theorem C09_retry_blocks_only_empty_handed : while acquiring a retrying collection of leaf locks (any size, arrangement, nesting of boxed/ref/retry/poisonable members, either mode), in every round and on every answer sequence with up to n faults, each blocking raw acquisition is issued while the thread holds no lock at all
theorem C09_retry_blocks_only_empty_handed (n : Nat) (W : World) (s : Shape)
    (hno : noOwned s = true) (m : Mode)
    {tr₁ tr₂ : List (Op × Resp)} {m' : Mode} {x : LockId} {r : Resp} {out : Outcome Unit Unit}
    (hp : Path ((toRaw W (.retry s)).acq m) (tr₁ ++ (.acq m' true x, r) :: tr₂) out)
    (ha : Admissible (HoldSpec n none) {} tr₁) :
    ∀ y my, (ghostAfter (HoldSpec n none) {} tr₁).held y my = 0 := by
  -- the acquisition obeys the rank discipline for EVERY rank function, in particular for one
  -- that puts x at the bottom: then nothing can be held when x is blocked on
  let rank : LockId → Nat := fun y => if y = x then 0 else 1
  have hL := toRaw_isLock (n := n) (ro := some rank) W (.retry s) rfl (ptrsOK_noOwned _ W s hno)
  have hwp : wp (HoldSpec n (some rank)) ((toRaw W (.retry s)).acq m)
      (fun _ _ => True) (fun _ _ => True) {} :=
    hL.acq m {} _ _ rfl (LowFp_empty _ _) trivial (fun _ _ _ _ => trivial)
  have htr := (wp_sound (HoldSpec n (some rank)) hwp hp).1
  have hpre := htr.at (HoldSpec n (some rank)) (admissible_ro n none (some rank) {} tr₁ ha)
  rw [ghostAfter_ro n (some rank) none] at hpre
  intro y my
  rcases Nat.eq_zero_or_pos ((ghostAfter (HoldSpec n none) {} tr₁).held y my) with h | h
  · exact h
  · have := hpre.2 y my h
    simp only [rank, if_true] at this
    omega

-- @theorem C09_retry_contract : the retrying acquisition of any members that are locks (leaves, nested collections, owned groups) returns with exactly all of them held, or unwinds holding what it held before; its try variant is all-or-nothing; for any fuel (number of rounds)
theorem C09_retry_contract (n : Nat) (fuel : Nat) (ms : Members) (hm : ms.Ok n none) :
    IsLock n none (retryLock fuel ms.locks) ms.fp :=
  isLock_retry fuel ms hm

end HLV
