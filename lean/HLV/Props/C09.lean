/-
  C09 — a retrying collection never waits while holding, and still completes.
-/
import HLV.Logic.Order
import HLV.Logic.SoloAcq
import HLV.Logic.RetryOwned
import HLV.Props.C13
import HLV.Props.HoldFamily
import HLV.Model.Seq
namespace HLV

theorem ghostAfter_ro (n : Nat) (ro ro' : RankOpt) (g : HG) (tr : List (Op × Resp)) :
    ghostAfter (HoldSpec n ro) g tr = ghostAfter (HoldSpec n ro') g tr := by
  induction tr generalizing g with
  | nil => rfl
  | cons a tr ih => obtain ⟨o, r⟩ := a; exact ih _

theorem admissible_ro (n : Nat) (ro ro' : RankOpt) (g : HG) (tr : List (Op × Resp)) :
    Admissible (HoldSpec n ro) g tr → Admissible (HoldSpec n ro') g tr := by
  induction tr generalizing g with
  | nil => exact id
  | cons a tr ih => obtain ⟨o, r⟩ := a; exact fun h => ⟨h.1, ih _ h.2⟩

-- @theorem C09_retry_blocks_only_empty_handed : while acquiring a retrying collection of leaf locks (any size, arrangement, nesting of boxed/ref/retry/poisonable members, either mode), in every round and on every answer sequence with up to n faults, each blocking raw acquisition is issued while the thread holds no lock at all
theorem C09_retry_blocks_only_empty_handed (n : Nat) (W : World) (s : Shape)
    (hno : noOwned s = true) (m : Mode)
    {tr₁ tr₂ : List (Op × Resp)} {m' : Mode} {x : LockId} {r : Resp} {out : Outcome Unit Unit}
    (hp : Path ((toRaw W (.retry s)).acq m) (tr₁ ++ (.acq m' true x, r) :: tr₂) out)
    (ha : Admissible (HoldSpec n none) {} tr₁) :
    ∀ y my, (ghostAfter (HoldSpec n none) {} tr₁).held y my = 0 := by
  -- the acquisition obeys the rank discipline for EVERY rank function, in particular for one
  -- that puts x at the bottom: then nothing can be held when x is blocked on
  let rank : LockId → Nat := fun y => if y = x then 0 else 1
  have hL := toRaw_isLock (n := n) (ro := some rank) W (.retry s) rfl (ptrsOK_noOwned _ W s hno)
  have hwp : wp (HoldSpec n (some rank)) ((toRaw W (.retry s)).acq m)
      (fun _ _ => True) (fun _ _ => True) {} :=
    hL.acq m {} _ _ rfl (LowFp_empty _ _) trivial (fun _ _ _ _ => trivial)
  have htr := (wp_sound (HoldSpec n (some rank)) hwp hp).1
  have hpre := htr.at (HoldSpec n (some rank)) (admissible_ro n none (some rank) {} tr₁ ha)
  rw [ghostAfter_ro n (some rank) none] at hpre
  intro y my
  rcases Nat.eq_zero_or_pos ((ghostAfter (HoldSpec n none) {} tr₁).held y my) with h | h
  · exact h
  · have := hpre.2 y my h
    simp only [rank, if_true] at this
    omega

-- @theorem C09_retry_blocks_holding_only_earlier_leaves_of_the_same_unit : the general form, owned groups allowed (any members, any nesting): whenever the acquisition of a retrying collection with distinct leaves blocks on a lock x, everything the thread holds is a leaf of the very member (unit) x belongs to and comes before x in that unit's own order — for a member that is a leaf, nothing; for an owned group, only its earlier leaves: finding D17 is the only way the first sentence of C09 can fail, and nothing taken from ANOTHER member is ever held while waiting
theorem C09_retry_blocks_holding_only_earlier_leaves_of_the_same_unit (n : Nat) (W : World) (s : Shape) (m : Mode)
    (hnd : (declLeaves (.retry s)).Nodup)
    {tr₁ tr₂ : List (Op × Resp)} {m' : Mode} {x : LockId} {r : Resp} {out : Outcome Unit Unit}
    (hp : Path ((toRaw W (.retry s)).acq m) (tr₁ ++ (.acq m' true x, r) :: tr₂) out)
    (ha : Admissible (HoldSpec n none) {} tr₁)
    (p : Ptr) (hpm : p ∈ getPtrs W s) (hx : x ∈ p.leaves) :
    ∀ y my, 0 < (ghostAfter (HoldSpec n none) {} tr₁).held y my →
      y ∈ p.leaves ∧ p.leaves.idxOf y < p.leaves.idxOf x := by
  have hn : ((getPtrs W s).flatMap (·.leaves)).Nodup := by
    have := shapeFp_ids_nodup W (.retry s) .excl rfl hnd
    simp only [shapeFp, ptrsM_fp, Fp.ids] at this
    rw [flatMap_ids .excl (getPtrs W s) (fun q _ => rfl)] at this
    exact this
  let rank : LockId → Nat := rankAt (getPtrs W s) p.leaves.length x
  have hok : ShapeOK (some rank) W (.retry s) :=
    ptrsOK_of_fitInside s (fitInside_of_unitsIncr W rank s (unitsIncr_rankAt W s _ x hn))
  have hL := toRaw_isLock (n := n) (ro := some rank) W (.retry s) rfl hok
  have hwp : wp (HoldSpec n (some rank)) ((toRaw W (.retry s)).acq m)
      (fun _ _ => True) (fun _ _ => True) {} :=
    hL.acq m {} _ _ rfl (LowFp_empty _ _) trivial (fun _ _ _ _ => trivial)
  have htr := (wp_sound (HoldSpec n (some rank)) hwp hp).1
  have hpre := htr.at (HoldSpec n (some rank)) (admissible_ro n none (some rank) {} tr₁ ha)
  rw [ghostAfter_ro n (some rank) none] at hpre
  intro y my h
  have hlt := hpre.2 y my h
  exact rankAt_lt (getPtrs W s) _ x y p hpm hx hn (Nat.le_refl _) hlt

/-- non-vacuity: the shape of finding D17 meets the hypotheses, with `x` the second leaf of the owned group -/
example :
    let W : World := { addr := fun x => 2 * x }
    let s : Shape := .seq [.owned 1 (.seq [.mutex 0, .mutex 1]), .mutex 2]
    (declLeaves (.retry s)).Nodup ∧ ∃ p ∈ getPtrs W s, 1 ∈ p.leaves ∧ p.leaves = [0, 1] := by
  intro W s
  refine ⟨by decide, ?_⟩
  simp [s, getPtrs, getPtrsL, Ptr.leaves]

-- @theorem C09_retry_contract : the retrying acquisition of any members that are locks (leaves, nested collections, owned groups) returns with exactly all of them held, or unwinds holding what it held before; its try variant is all-or-nothing; for any fuel (number of rounds)
theorem C09_retry_contract (n : Nat) (fuel : Nat) (ms : Members) (hm : ms.Ok n none) :
    IsLock n none (retryLock fuel ms.locks) ms.fp :=
  isLock_retry fuel ms hm

/-! ### completion (deterministic reading: the thread alone against a frozen table) -/

theorem calm_of_quiescent (e : Env) (hq : Quiescent e) (fp : Fp) : Calm e fp := fun p _ => (hq p.1).2

-- @theorem C09_retry_completes_once_the_holders_have_released : run alone against a quiescent table (the contending holders have released or hold other locks) in which every leaf of the retrying collection is free for the requested hold, the blocking acquisition of a retrying collection of ANY members (leaves, nested boxed/ref/retry/poisonable, owned groups), any size and arrangement, completes — in its first round — with exactly its leaves taken; two rounds of the loop suffice (fuel ≥ 2)
theorem C09_retry_completes_once_the_holders_have_released (pol : Policy) (t : Tid) (W : World) (f : Nat)
    (hf : W.fuel = f + 2) (s : Shape) (m : Mode) (e : Env) (hnd : (declLeaves (.retry s)).Nodup)
    (hq : Quiescent e) (hfree : (holdsOf (.retry s) m).all (freeFor e) = true) :
    solo pol t ((toRaw W (.retry s)).acq m) e = .done () (takeAll t (shapeFp W (.retry s) m) e) := by
  have hn := shapeFp_ids_nodup W (.retry s) m rfl hnd
  have hw := quiescent_notWaiting t e hq
  have hall : ∀ p ∈ shapeFp W (.retry s) m, avail pol e p = true := by
    intro p hp
    rw [avail_quiescent pol e hq]
    exact List.all_eq_true.1 hfree p ((shapeFp_perm W m (.retry s) rfl).mem_iff.1 hp)
  have := (det_retry_acq (pol := pol) (t := t) f (ptrsM (getPtrs W s)) (getPtrs_det W s) (getPtrs_detA W s)
    m e hw (by simpa [shapeFp] using hn) (calm_of_quiescent e hq _)).1 (by simpa [shapeFp] using hall)
  rw [ptrsM_locks] at this
  simpa [toRaw, toRaw?, retryLock, shapeFp, hf] using this

-- @theorem C09_retry_waits_empty_handed_with_the_table_untouched : run alone against a quiescent table in which some leaf is NOT free (held by a frozen other thread), the blocking acquisition of a retrying collection whose members are leaves (any nesting of boxed/ref/retry/poisonable) ends up waiting with every hold, flag and datum of the table exactly as before the call — everything it had taken in the first round has been released before it waits
theorem C09_retry_waits_empty_handed_with_the_table_untouched (pol : Policy) (t : Tid) (W : World) (f : Nat)
    (hf : W.fuel = f + 2) (s : Shape) (hno : noOwned s = true) (m : Mode) (e : Env)
    (hnd : (declLeaves (.retry s)).Nodup) (hq : Quiescent e)
    (hbusy : (holdsOf (.retry s) m).all (freeFor e) = false) :
    ∃ e', solo pol t ((toRaw W (.retry s)).acq m) e = .stuck e' ∧ SameHolds e e' := by
  have hn := shapeFp_ids_nodup W (.retry s) m rfl hnd
  have hw := quiescent_notWaiting t e hq
  have hnall : ¬ ∀ p ∈ shapeFp W (.retry s) m, avail pol e p = true := by
    intro h
    have : (holdsOf (.retry s) m).all (freeFor e) = true := by
      rw [List.all_eq_true]
      intro p hp
      rw [← avail_quiescent pol e hq]
      exact h p ((shapeFp_perm W m (.retry s) rfl).mem_iff.2 hp)
    rw [this] at hbusy; cases hbusy
  obtain ⟨l, hl, pre, e', h1, h2, _, h4, h5⟩ :=
    (det_retry_acq (pol := pol) (t := t) f (ptrsM (getPtrs W s)) (getPtrs_det W s) (getPtrs_detA W s)
      m e hw (by simpa [shapeFp] using hn) (calm_of_quiescent e hq _)).2 (by simpa [shapeFp] using hnall)
  -- the member is a leaf: its footprint is one hold, so the proper prefix is empty
  simp only [ptrsM, List.mem_map] at hl
  obtain ⟨p, hp, rfl⟩ := hl
  obtain ⟨x, _, hfp⟩ := getPtrs_leaves W s hno p hp
  obtain ⟨m', hm'⟩ := hfp m
  have hpre : pre = [] := by
    simp only [hm', List.length_singleton] at h2
    exact List.eq_nil_of_length_eq_zero (by omega)
  subst hpre
  rw [ptrsM_locks] at h4
  refine ⟨e', ?_, by simpa using h5⟩
  simpa [toRaw, toRaw?, retryLock, hf] using h4

-- @theorem C09_retry_waits_holding_only_a_prefix_of_the_blocked_member : the same with owned groups allowed (any members): run alone against a quiescent table in which some leaf is not free, the blocking acquisition of a retrying collection ends up waiting, and at that point the table is the initial one plus a PROPER PREFIX of the footprint of ONE member — the member it is blocked inside (nothing at all when that member is a leaf; the earlier leaves of the group when it is an owned group, finding D17); every other member has been released
theorem C09_retry_waits_holding_only_a_prefix_of_the_blocked_member (pol : Policy) (t : Tid) (W : World) (f : Nat)
    (hf : W.fuel = f + 2) (s : Shape) (m : Mode) (e : Env)
    (hnd : (declLeaves (.retry s)).Nodup) (hq : Quiescent e)
    (hbusy : (holdsOf (.retry s) m).all (freeFor e) = false) :
    ∃ p ∈ getPtrs W s, StuckWith pol t e (p.fp m) (solo pol t ((toRaw W (.retry s)).acq m) e) := by
  have hn := shapeFp_ids_nodup W (.retry s) m rfl hnd
  have hw := quiescent_notWaiting t e hq
  have hnall : ¬ ∀ p ∈ shapeFp W (.retry s) m, avail pol e p = true := by
    intro h
    have : (holdsOf (.retry s) m).all (freeFor e) = true := by
      rw [List.all_eq_true]
      intro p hp
      rw [← avail_quiescent pol e hq]
      exact h p ((shapeFp_perm W m (.retry s) rfl).mem_iff.2 hp)
    rw [this] at hbusy; cases hbusy
  obtain ⟨l, hl, hst⟩ :=
    (det_retry_acq (pol := pol) (t := t) f (ptrsM (getPtrs W s)) (getPtrs_det W s) (getPtrs_detA W s)
      m e hw (by simpa [shapeFp] using hn) (calm_of_quiescent e hq _)).2 (by simpa [shapeFp] using hnall)
  simp only [ptrsM, List.mem_map] at hl
  obtain ⟨p, hp, rfl⟩ := hl
  rw [ptrsM_locks] at hst
  refine ⟨p, hp, ?_⟩
  simpa [toRaw, toRaw?, retryLock, hf] using hst

-- @theorem C09_retry_completes_exactly_when_every_leaf_is_free : the two directions together, for ANY members (owned groups included): run alone against a quiescent table, the blocking acquisition of a retrying collection completes if and only if every one of its leaves is free for the requested hold — it never "completes" over a busy leaf, never spins, aborts or unwinds, and is never left waiting when everything is free; the completed table is the old one plus exactly its footprint
theorem C09_retry_completes_exactly_when_every_leaf_is_free (pol : Policy) (t : Tid) (W : World) (f : Nat)
    (hf : W.fuel = f + 2) (s : Shape) (m : Mode) (e : Env)
    (hnd : (declLeaves (.retry s)).Nodup) (hq : Quiescent e) :
    ((holdsOf (.retry s) m).all (freeFor e) = true ↔
      solo pol t ((toRaw W (.retry s)).acq m) e = .done () (takeAll t (shapeFp W (.retry s) m) e)) ∧
    ((holdsOf (.retry s) m).all (freeFor e) = false ↔
      ∃ e', solo pol t ((toRaw W (.retry s)).acq m) e = .stuck e') := by
  have hT := C09_retry_completes_once_the_holders_have_released pol t W f hf s m e hnd hq
  have hF := C09_retry_waits_holding_only_a_prefix_of_the_blocked_member pol t W f hf s m e hnd hq
  cases hb : (holdsOf (.retry s) m).all (freeFor e) with
  | true =>
    have h1 := hT hb
    refine ⟨⟨fun _ => h1, fun _ => rfl⟩, ⟨fun h => (by cases h), ?_⟩⟩
    rintro ⟨e', he'⟩; rw [h1] at he'; cases he'
  | false =>
    obtain ⟨p, _, pre, e', _, _, _, h4, _⟩ := hF hb
    refine ⟨⟨fun h => (by cases h), ?_⟩, ⟨fun _ => ⟨e', h4⟩, fun _ => rfl⟩⟩
    intro h; rw [h4] at h; cases h

-- @theorem C09_blocking_and_try_agree_in_quiescent_states : the blocking acquisition of a retrying collection and its try variant decide the same question: run alone against the same quiescent table, try returns true if and only if the blocking call completes, and then both leave the SAME table (the old one plus exactly the footprint); when try returns false the table is untouched and the blocking call is the one that waits
theorem C09_blocking_and_try_agree_in_quiescent_states (pol : Policy) (t : Tid) (W : World) (f : Nat)
    (hf : W.fuel = f + 2) (s : Shape) (m : Mode) (e : Env) (hl : lockable (.retry s) = true)
    (hnd : (declLeaves (.retry s)).Nodup) (hq : Quiescent e) :
    (solo pol t ((toRaw W (.retry s)).try_ m) e = .done true (takeAll t (shapeFp W (.retry s) m) e) ∧
      solo pol t ((toRaw W (.retry s)).acq m) e = .done () (takeAll t (shapeFp W (.retry s) m) e)) ∨
    (solo pol t ((toRaw W (.retry s)).try_ m) e = .done false e ∧
      ∃ e', solo pol t ((toRaw W (.retry s)).acq m) e = .stuck e') := by
  have hx := C09_retry_completes_exactly_when_every_leaf_is_free pol t W f hf s m e hnd hq
  have ht := C13_try_is_exact pol t W (.retry s) m e hl hnd hq
  cases hb : (holdsOf (.retry s) m).all (freeFor e) with
  | true =>
    rw [hb] at ht
    exact Or.inl ⟨by simpa using ht, hx.1.1 hb⟩
  | false =>
    rw [hb] at ht
    exact Or.inr ⟨by simpa using ht, hx.2.1 hb⟩

/-- non-vacuity: three leaves, the middle one write-held by thread 7; the hypotheses of both
theorems are met by concrete tables -/
example :
    let s : Shape := .seq [.rwlock 1, .boxed (.seq [.rwlock 2, .rwlock 3])]
    let busy : Env := { locks := fun x => if x = 2 then { writer := some 7 } else {} }
    let free : Env := {}
    noOwned s = true ∧ (declLeaves (.retry s)).Nodup ∧ Quiescent busy ∧ Quiescent free ∧
    (holdsOf (.retry s) .excl).all (freeFor busy) = false ∧
    (holdsOf (.retry s) .excl).all (freeFor free) = true := by
  intro s busy free
  refine ⟨rfl, by decide, ?_, ?_, by decide, by decide⟩
  · intro x; by_cases hx : x = 2 <;> simp [busy, hx]
  · intro x; exact ⟨rfl, rfl⟩

/-- non-vacuity of `hl` in `C09_blocking_and_try_agree_in_quiescent_states` for the same shape -/
example : lockable (.retry (.seq [.rwlock 1, .boxed (.seq [.rwlock 2, .rwlock 3])])) = true := by decide

/-! ### finding D17, reproduced on the model (the model mirrors the code here)

`hno : noOwned s` in the theorems above is forced by the code: an `OwnedLockCollection` is ONE lock
for the retrying algorithm, and its `raw_write` takes its members in order, blocking. When the group
is the member the algorithm waits on, and a later leaf of the group is busy (another thread is in
the middle of releasing the same group), the thread waits for that leaf while it holds the earlier
leaves of the group. No cycle can come of it (the members of an owned group are reachable only
through the group), but the first sentence of C09 is false of it, read leaf by leaf. -/

def d17Ctx : Ctx :=
  { W := { addr := fun x => 2 * x }, colls := [.retry (.seq [.owned 1 (.seq [.mutex 0, .mutex 1]), .mutex 2])] }
def d17Prog : List Stmt :=
  [.get, .ses { coll := 0, api := .lock, mode := .excl, key := .owned, body := [], exit := .drop }]
/-- leaf 1 (the second member of the owned group) is held by the other thread, leaf 0 is free -/
def d17Env : Env := { locks := fun x => if x = 1 then { writer := some other } else {} }

-- @theorem C09_finding_D17_owned_group_member_waits_holding : PARTIAL/finding — a retrying collection with an owned group of two leaves as a member: with the second leaf busy, the acquisition takes leaf 0 (blocking), then waits for leaf 1 while holding leaf 0 — the environment has to release leaf 1 before it goes on (recorded as D17; the theorems above exclude owned groups by hypothesis)
theorem C09_finding_D17_owned_group_member_waits_holding :
    (((seqRun [] 80 { env := d17Env } (program d17Ctx d17Prog {})).2.trace.reverse.drop 2).take 3) =
      [.raw .lockX 0 .ok false, .envRel 1, .raw .lockX 1 .ok false] := by decide

end HLV
