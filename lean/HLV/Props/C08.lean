/-
  C08 — sorting collections agree on one arrangement-independent acquisition order.
-/
import HLV.Logic.Order
import HLV.Props.HoldFamily
import HLV.Logic.OrderOwned
namespace HLV

-- @theorem C08_sorted_order_is_strictly_increasing : the lock list of a duplicate-free sorting collection (any length, any listing order) is strictly increasing in address
theorem C08_sorted_order_is_strictly_increasing (ps : List Ptr) (hnd : (ps.map (·.addr)).Nodup) :
    (sortPtrs ps).Pairwise fun p q => p.addr < q.addr :=
  sortPtrs_strict ps hnd

-- @theorem C08_order_does_not_depend_on_the_listing : two duplicate-free listings of the same units (any permutation) are acquired in the same address sequence
theorem C08_order_does_not_depend_on_the_listing (ps ps' : List Ptr) (hp : ps.Perm ps')
    (hnd : (ps.map (·.addr)).Nodup) :
    (sortPtrs ps).map (·.addr) = (sortPtrs ps').map (·.addr) := by
  have hnd' : (ps'.map (·.addr)).Nodup := ((hp.map _).nodup_iff).1 hnd
  have h1 : ((sortPtrs ps).map (·.addr)).Pairwise (· < ·) := List.pairwise_map.2 (sortPtrs_strict ps hnd)
  have h2 : ((sortPtrs ps').map (·.addr)).Pairwise (· < ·) := List.pairwise_map.2 (sortPtrs_strict ps' hnd')
  have hperm : ((sortPtrs ps).map (·.addr)).Perm ((sortPtrs ps').map (·.addr)) :=
    (((List.mergeSort_perm ps _).trans hp).trans (List.mergeSort_perm ps' _).symm).map _
  exact List.Perm.eq_of_pairwise (le := (· < ·)) (fun a b _ _ h1 h2 => by omega) h1 h2 hperm

-- @theorem C08_every_blocking_acquisition_follows_the_address_order : in every execution of every program over valid collections without owned groups (any mix of boxed/ref/retrying/poisonable, any nesting, both modes, any faults), whenever the thread blocks on lock x every lock it holds has a smaller address — so any two sorting acquisitions take their common locks in the same relative order
theorem C08_every_blocking_acquisition_follows_the_address_order (n : Nat) (C : Ctx)
    (prog : List Stmt) (hok : ProgOK (some C.W.addr) C prog) (u : UserSt)
    {tr₁ tr₂ : List (Op × Resp)} {m : Mode} {x : LockId} {r : Resp} {out : Outcome Unit UserSt}
    (hp : Path (program C prog u) (tr₁ ++ (.acq m true x, r) :: tr₂) out)
    (ha : Admissible (HoldSpec n (some C.W.addr)) {} tr₁) :
    ∀ y m', 0 < (ghostAfter (HoldSpec n (some C.W.addr)) {} tr₁).held y m' → C.W.addr y < C.W.addr x :=
  (program_op_ok n _ C prog hok u hp ha).2

-- @theorem C08_valid_flat_sessions_satisfy_the_discipline : the hypothesis of the previous theorem holds for every session on a collection that its checked constructor accepts and that contains no owned group
theorem C08_valid_flat_sessions_satisfy_the_discipline (C : Ctx) (ses : Session)
    (hl : lockable (C.shape ses.coll) = true) (hno : noOwned (C.shape ses.coll) = true)
    (hv : Valid C.W (C.shape ses.coll)) (hf : ses.exit ≠ .forget)
    (hb : ∀ b ∈ ses.body, stepOK (C.shape ses.coll) ses.mode b) :
    SesOK (some C.W.addr) C ses :=
  ⟨hl, shapeOK_addr C.W _ hno hv, hf, hb⟩

-- @theorem C08_owned_groups_are_ordered_as_one_unit : with owned groups (an OwnedLockCollection nested in sorting / retrying collections in any way) every session on a collection accepted by its checked constructor obeys the rank discipline for the rank "address of the unit, then position inside the unit": whenever the thread blocks on lock x every lock it holds belongs to a unit with a smaller address, or to the same owned group and comes earlier in that group's own order — so two sorting acquisitions take their common units in the same relative order and an owned group is never interleaved with other units
theorem C08_owned_groups_are_ordered_as_one_unit (n : Nat) (C : Ctx) (M : Nat) (rank : LockId → Nat) (hM : 0 < M)
    (prog : List Stmt)
    (hses : ∀ st ∈ prog, match st with
      | .ses ses => lockable (C.shape ses.coll) = true ∧ FitOut C.W M rank (C.shape ses.coll) ∧
          Valid C.W (C.shape ses.coll) ∧ ses.exit ≠ .forget ∧
          ∀ b ∈ ses.body, stepOK (C.shape ses.coll) ses.mode b
      | _ => True)
    (u : UserSt) {tr₁ tr₂ : List (Op × Resp)} {m : Mode} {x : LockId} {r : Resp} {out : Outcome Unit UserSt}
    (hp : Path (program C prog u) (tr₁ ++ (.acq m true x, r) :: tr₂) out)
    (ha : Admissible (HoldSpec n (some rank)) {} tr₁) :
    ∀ y m', 0 < (ghostAfter (HoldSpec n (some rank)) {} tr₁).held y m' → rank y < rank x := by
  have hok : ProgOK (some rank) C prog := by
    intro st hst
    have := hses st hst
    cases st with
    | ses ses => exact ⟨this.1, shapeOK_rank hM _ this.2.1 this.2.2.1, this.2.2.2.1, this.2.2.2.2⟩
    | _ => trivial
  exact (program_op_ok n _ C prog hok u hp ha).2

-- @theorem C08_nested_collections_contribute_their_leaves : a boxed, ref or retrying collection nested in a sorting collection hands its member locks (not itself) to the enclosing sort; an owned collection hands itself as one unit
theorem C08_nested_collections_contribute_their_leaves (W : World) (s : Shape) (a : Nat) :
    getPtrs W (.boxed s) = sortPtrs (getPtrs W s) ∧ getPtrs W (.refc s) = sortPtrs (getPtrs W s) ∧
    getPtrs W (.retry s) = getPtrs W s ∧ (getPtrs W (.owned a s)).length = 1 := by
  simp [getPtrs]

/-! non-vacuity: a valid nested flat shape, listed against the address order -/
example : noOwned (.boxed (.seq [.rwlock 2, .retry (.seq [.rwlock 0, .rwlock 1])])) = true := by decide
example : Valid { addr := fun x => 10 - x } (.boxed (.seq [.rwlock 2, .retry (.seq [.rwlock 0, .rwlock 1])])) := by
  simp [Valid, ValidL, getPtrs, getPtrsL]

end HLV
