/-
  C17 — non-acquiring operations never wait and never disturb holds.
-/
import HLV.Props.HoldFamily
import HLV.Static.Rules
namespace HLV

-- @theorem C17_debug_never_blocks_and_restores_holds : Debug-formatting a lock or collection of any shape, from any hold state of the caller (including holding the very locks being formatted), issues no blocking acquisition, and whether it returns or unwinds — because a raw operation faults or because the payload's own Debug impl panics (bomb, at any leaf) — the caller's holds are exactly what they were
theorem C17_debug_never_blocks_and_restores_holds (n : Nat) (ro : RankOpt) (bomb : Option LockId) (S : Shape) (g : HG) (hd : 0 < g.depth) :
    wp (HoldSpec n ro) (debugFmt bomb S) (fun _ g' => g'.held = g.held ∧ g'.depth = g.depth)
      (fun _ g' => g'.held = g.held ∧ g'.depth = g.depth) g := by
  have _ := hd
  exact debugFmt_spec bomb S g _ _ (fun _ a b => ⟨a, b⟩) (fun _ a b => ⟨a, b⟩)

-- @theorem C17_nonacquiring_statements_keep_everything : the statements dbg, is_poisoned, clear_poison, ThreadKey::get/drop/forget leave the thread's holds empty-as-found on every answer sequence (no obligation of the hold discipline is violated inside them: in particular nothing blocks at depth > 0)
theorem C17_nonacquiring_statements_keep_everything (n : Nat) (ro : RankOpt) (C : Ctx) (st : Stmt)
    (hna : match st with | .ses _ => False | _ => True) (u : UserSt) (g : HG)
    (hh : g.held = Held.empty) (hd : g.depth = 0) :
    wp (HoldSpec n ro) (stmt C st u) (fun _ g' => g'.held = Held.empty ∧ g'.depth = 0) (fun _ _ => False) g := by
  apply stmt_spec C st u g _ _ _ hh hd (fun _ _ a b => ⟨a, b⟩)
  cases st <;> first | trivial | exact absurd hna id

-- @theorem C17_debug_inside_a_hold_is_harmless : a Debug step inside a guard's life or a scoped closure (on any collection, also the one being held) keeps the session's holds; the session still ends with nothing held
theorem C17_debug_inside_a_hold_is_harmless (n : Nat) (ro : RankOpt) (C : Ctx) (S : Shape) (m : Mode) (c : Nat) (bomb : Option LockId)
    (rest : List BodyStep) (hrest : ∀ b ∈ rest, stepOK S m b) (g : HG)
    (hc : g.held.Covers (holdsOf S m)) :
    wp (HoldSpec n ro) (bodySteps C S (.dbg c bomb :: rest)) (fun _ g' => g'.held = g.held ∧ g'.depth = g.depth)
      (fun _ g' => g'.held = g.held ∧ g'.depth = g.depth) g :=
  bodySteps_spec C S m _ g _ _ hc
    (by intro b hb; rcases List.mem_cons.1 hb with rfl | h; exact trivial; exact hrest b h)
    (fun _ a b => ⟨a, b⟩) (fun _ a b => ⟨a, b⟩)

section
open HLV.Static HLV.Gen
set_option maxRecDepth 1000000
-- @theorem C17_nonacquiring_functions_reach_no_blocking_operation_in_the_source : (table theorem, regenerated from the source on every run) from no non-acquiring function (Debug::fmt, is_poisoned, clear_poison, accessors, constructors, into_*) is a blocking raw operation reachable in the call graph
theorem C17_nonacquiring_functions_reach_no_blocking_operation_in_the_source : c17_nonAcqReachesBlocking = [] := by decide +kernel
end

end HLV
