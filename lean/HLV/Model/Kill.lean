/-
  HLV.Model.Kill — the kill-flag protocol of a leaf lock at statement granularity (C12).

  `Mutex` / `RwLock` wrap every raw operation in `handle_unwind(|| raw.op(), || self.poison())`:
  a raw operation that panics *kills* the lock (`poison` stores the flag while the panic unwinds).
  The acquiring functions test the flag, call the raw operation, and test the flag again
  (`mutex.rs` / `rwlock.rs`: `raw_write`, `raw_try_write`, `raw_read`, `raw_try_read`). The rest of
  the model treats a leaf acquisition as one atomic step; this file splits it into the steps
  the source has, so that threads can interleave between the test, the raw call, the second test
  and the flag store — the interleavings in which defects D15 and D15b lived.

  One lock (exclusive and shared holds: an `RwLock`; a `Mutex` uses the exclusive mode only), any
  number of threads. `retest = false` is the protocol before the repairs.
-/
namespace HLV.Kill

inductive Md | x | s      -- exclusive / shared
  deriving DecidableEq, Repr

inductive Pc
  | idle
  | tested (try_ : Bool) (m : Md)   -- passed the first flag test, about to call the raw operation
  | locked (try_ : Bool) (m : Md)   -- the raw operation returned "acquired", about to test the flag again
  | holding (m : Md)                -- a guard has been handed out
  | recover                         -- a raw operation panicked; the recovery closure is about to store the flag
  | refused                         -- the acquisition was refused (panic "killed" / `false` for a killed lock)
  | busy                            -- a try found the raw lock taken (`false`)
  | unwound                         -- the thread's panic has left happylock
  deriving DecidableEq, Repr

structure St where
  writer : Option Nat := none      -- who has the raw lock exclusively
  readers : List Nat := []         -- who has it shared
  killed : Bool := false
  pcs : List Pc
  deriving DecidableEq, Repr

/-- what the scheduler asks thread `t` to do next -/
inductive Act
  | start (try_ : Bool) (m : Md)   -- begin `lock()` / `try_lock()` / `read()` / `try_read()`: the first flag test
  | raw (fault : Bool)             -- the raw acquire (a fault = the raw operation panics instead)
  | retest                         -- the second flag test
  | release (fault : Bool)         -- `drop(guard)`: the raw unlock (fault = it panics after releasing)
  | store                          -- the recovery closure stores the kill flag
  | again                          -- a refused / busy thread goes back to idle (to try once more)
  deriving DecidableEq, Repr

def St.pc (s : St) (t : Nat) : Pc := s.pcs.getD t .unwound
def St.setPc (s : St) (t : Nat) (p : Pc) : St := { s with pcs := s.pcs.set t p }

/-- the raw lock can be taken in mode `m` -/
def St.free (s : St) : Md → Bool
  | .x => s.writer.isNone && s.readers.isEmpty
  | .s => s.writer.isNone
def St.take (s : St) (t : Nat) : Md → St
  | .x => { s with writer := some t }
  | .s => { s with readers := t :: s.readers }
def St.give (s : St) (t : Nat) : Md → St
  | .x => { s with writer := none }
  | .s => { s with readers := s.readers.erase t }

/-- one step of thread `t`; `none` = not enabled (a blocking acquire of a taken lock waits) -/
def step (retest : Bool) (s : St) (t : Nat) : Act → Option St
  | .start tr m => match s.pc t with
    | .idle => some (if s.killed then s.setPc t .refused else s.setPc t (.tested tr m))
    | _ => none
  | .raw fault => match s.pc t with
    | .tested tr m =>
      if fault then some (s.setPc t .recover)
      else if s.free m then
        some (if retest then (s.take t m).setPc t (.locked tr m) else (s.take t m).setPc t (.holding m))
      else if tr then some (s.setPc t .busy) else none
    | _ => none
  | .retest => match s.pc t with
    | .locked _ m =>
      some (if s.killed then (s.give t m).setPc t .refused else s.setPc t (.holding m))
    | _ => none
  | .release fault => match s.pc t with
    | .holding m =>
      some (if fault then (s.give t m).setPc t .recover else (s.give t m).setPc t .idle)
    | _ => none
  | .store => match s.pc t with
    | .recover => some (({ s with killed := true } : St).setPc t .unwound)
    | _ => none
  | .again => match s.pc t with
    | .refused => some (s.setPc t .idle)
    | .busy => some (s.setPc t .idle)
    | _ => none

/-- a schedule; a step that is not enabled is skipped (the thread waits, or the protocol has no such step) -/
def run (retest : Bool) : St → List (Nat × Act) → St
  | s, [] => s
  | s, (t, a) :: rest => match step retest s t a with
    | some s' => run retest s' rest
    | none => run retest s rest

def init (n : Nat) : St := { pcs := List.replicate n .idle }

def Pc.isHolding : Pc → Bool
  | .holding _ => true
  | _ => false

/-- thread `t` receives a guard in this step -/
def grants (s s' : St) (t : Nat) : Bool := !(s.pc t).isHolding && (s'.pc t).isHolding

/-! ### the scenarios of `harness/src/bin/extras.rs` as schedules (thread 0 = A, 1 = B, 2 = C) -/

/-- A holds; B starts `lock()` and waits in the raw lock; C's raw `try_lock` panics and kills the
lock; A releases; B's raw lock returns -/
def schedKillWhileWaiting : List (Nat × Act) :=
  [(0, .start false .x), (0, .raw false), (0, .retest),
   (1, .start false .x),
   (2, .start true .x), (2, .raw true), (2, .store),
   (0, .release false),
   (1, .raw false), (1, .retest)]

/-- A holds; B's `try_lock` passes the flag test and is pre-empted inside the raw try; A's raw unlock
releases, then panics, and the flag is stored; B's raw try succeeds -/
def schedKillDuringTry : List (Nat × Act) :=
  [(0, .start false .x), (0, .raw false), (0, .retest),
   (1, .start true .x),
   (0, .release true), (0, .store),
   (1, .raw false), (1, .retest)]

/-- the same on the shared path: A holds exclusively; B's `try_read` is in flight when A's raw unlock
releases-then-panics -/
def schedKillDuringTryRead : List (Nat × Act) :=
  [(0, .start false .x), (0, .raw false), (0, .retest),
   (1, .start true .s),
   (0, .release true), (0, .store),
   (1, .raw false), (1, .retest)]

/-- the residual window: the waiter gets the raw lock and re-tests *between* a raw unlock that
releases-then-panics and the store of the flag -/
def schedResidual : List (Nat × Act) :=
  [(0, .start false .x), (0, .raw false), (0, .retest),
   (1, .start false .x),
   (0, .release true),
   (1, .raw false), (1, .retest),
   (0, .store)]

/-- the shared path: two readers hold; a third reader's raw `lock_shared` panics and kills the lock
while a fourth is between its first test and the raw call -/
def schedReadersKilled : List (Nat × Act) :=
  [(0, .start false .s), (0, .raw false), (0, .retest),
   (1, .start false .s), (1, .raw false), (1, .retest),
   (3, .start true .s),
   (2, .start false .s), (2, .raw true), (2, .store),
   (3, .raw false), (3, .retest)]

def Pc.show : Pc → String
  | .holding _ => "guard"
  | .refused => "refused"
  | .busy => "busy"
  | .idle => "idle"
  | .recover => "recover"
  | .unwound => "unwound"
  | .tested _ _ => "tested"
  | .locked _ _ => "locked"

/-- what the model says the scenarios of `bin/extras` end in -/
def scenarioLines (retest : Bool) : List String :=
  let a := run retest (init 3) schedKillWhileWaiting
  let b := run retest (init 2) schedKillDuringTry
  let c := run retest (init 2) schedKillDuringTryRead
  [ s!"kill_while_waiting;waiter_got={(a.pc 1).show}",
    s!"kill_during_try;in_flight_try_got_guard={(b.pc 1).isHolding}",
    s!"kill_during_try_read;in_flight_try_got_guard={(c.pc 1).isHolding}" ]

end HLV.Kill
