/-
  HLV.Model.Own — ownership (C16): (1) the manual memory management of `BoxedLockCollection`
  (`Box::leak` in `new_unchecked`, `Box::from_raw` in `Drop` and `into_child`, `mem::forget`,
  `ptr::drop_in_place`), operation by operation; (2) where values sit: `into_inner`, `get_mut`
  and guards all expose the stored values at the user's declared positions.
-/
namespace HLV.Own

/-! ### (1) the heap cell of a boxed collection

The operations are the ownership-relevant calls of `boxed.rs`, one constructor per call (the
translator extracts the calls of `new_unchecked`, `Drop::drop` and `into_child` in evaluation
order; `Static/OwnRules.lean` maps them to these operations, so the theorems of `Props/C16.lean`
are about the call sequences the source contains now). -/

inductive MemOp
  | boxNew           -- `Box::new(UnsafeCell::new(data))`: allocates the cell, owned by a `Box` value
  | boxLeak          -- `Box::leak(b)`: the `Box` value is given up, the cell lives on behind a raw pointer
  | buildLocks       -- the `locks` vector comes into being (`Vec::new()`, filled by `get_ptrs`, sorted)
  | clearLocks       -- `self.locks.clear()` (Drop::drop)
  | dropLocksInPlace -- `ptr::drop_in_place(&mut self.locks)` (into_child)
  | fromRaw          -- `Box::from_raw(self.data)`: a `Box` value owning the cell again
  | dropBox          -- `drop(boxed)`: frees the cell, drops the payload
  | boxIntoInner     -- `boxed.into_inner()`: frees the cell, moves the payload out to the caller
  | forgetSelf       -- `mem::forget(self)`: neither `Drop::drop` nor the field glue will run
  | fieldGlue        -- the compiler's drop glue for the struct's fields after `Drop::drop` (drops the `locks` Vec)
  deriving DecidableEq, Repr

structure Mem where
  cellAllocs : Nat := 0
  cellFrees : Nat := 0
  boxLive : Nat := 0                -- `Box` values that currently own the cell
  payloadDrops : Nat := 0
  payloadMovedOut : Nat := 0
  locksBuilt : Nat := 0
  locksFreed : Nat := 0
  useAfterFree : Bool := false      -- the cell or the locks Vec was touched after being freed, or two owners of the cell
  forgotten : Bool := false
  deriving DecidableEq, Repr

def Mem.step (m : Mem) : MemOp → Mem
  | .boxNew => { m with cellAllocs := m.cellAllocs + 1, boxLive := m.boxLive + 1 }
  | .boxLeak => { m with boxLive := m.boxLive - 1, useAfterFree := m.useAfterFree || decide (m.boxLive = 0) }
  | .buildLocks => { m with locksBuilt := m.locksBuilt + 1 }
  | .clearLocks => { m with useAfterFree := m.useAfterFree || decide (m.locksFreed ≥ m.locksBuilt) }
  | .dropLocksInPlace =>
    { m with locksFreed := m.locksFreed + 1, useAfterFree := m.useAfterFree || decide (m.locksFreed ≥ m.locksBuilt) }
  | .fromRaw =>
    { m with boxLive := m.boxLive + 1,
             useAfterFree := m.useAfterFree || decide (m.cellFrees ≥ m.cellAllocs) || decide (m.boxLive > 0) }
  | .dropBox =>
    { m with boxLive := m.boxLive - 1, cellFrees := m.cellFrees + 1, payloadDrops := m.payloadDrops + 1,
             useAfterFree := m.useAfterFree || decide (m.boxLive = 0) }
  | .boxIntoInner =>
    { m with boxLive := m.boxLive - 1, cellFrees := m.cellFrees + 1, payloadMovedOut := m.payloadMovedOut + 1,
             useAfterFree := m.useAfterFree || decide (m.boxLive = 0) }
  | .forgetSelf => { m with forgotten := true }
  | .fieldGlue =>
    { m with locksFreed := m.locksFreed + 1, useAfterFree := m.useAfterFree || decide (m.locksFreed ≥ m.locksBuilt) }

/-- the end of a function body: every `Box` value still alive is dropped by the compiler -/
def Mem.endScope (m : Mem) : Mem := Nat.repeat (fun m => m.step .dropBox) m.boxLive m

/-- one function body -/
def Mem.body (m : Mem) (ops : List MemOp) : Mem := (ops.foldl Mem.step m).endScope

/-- the collection value goes out of scope (or is consumed by a function that does not forget it):
`Drop::drop` runs, then the field glue — unless it has been forgotten -/
def Mem.dropSelf (m : Mem) (dropOps : List MemOp) : Mem :=
  if m.forgotten then m else (m.body dropOps).step .fieldGlue

/-- `new_unchecked` … the collection is dropped -/
def lifeDrop (newOps dropOps : List MemOp) : Mem := (({} : Mem).body newOps).dropSelf dropOps
/-- `new_unchecked` … `into_child(self)`: the body runs, then `self` (taken by value) goes out of scope -/
def lifeIntoChild (newOps childOps dropOps : List MemOp) : Mem :=
  ((({} : Mem).body newOps).body childOps).dropSelf dropOps

/-- what the source is expected to say (the extracted sequences are compared with these in
`Props/C16.lean`; the theorems are stated on the extracted ones) -/
def opsNew : List MemOp := [.boxNew, .boxLeak, .buildLocks]
def opsDrop : List MemOp := [.clearLocks, .fromRaw, .dropBox]
def opsIntoChild : List MemOp := [.dropLocksInPlace, .fromRaw, .forgetSelf, .boxIntoInner]

/-- clean end state: everything allocated was freed exactly once, the payload was dropped or
handed to the caller exactly once, nothing was touched after being freed -/
def Mem.clean (m : Mem) (movedOut : Bool) : Bool :=
  m.cellAllocs == 1 && m.cellFrees == 1 && m.boxLive == 0 && m.locksBuilt == 1 && m.locksFreed == 1 && !m.useAfterFree &&
  (if movedOut then m.payloadDrops == 0 && m.payloadMovedOut == 1
   else m.payloadDrops == 1 && m.payloadMovedOut == 0)

/-! ### (1b) the `MaybeUninit` arrays of `lockable.rs`

`[T; N]::{guard, data_mut, read_guard, data_ref, get_mut, into_inner}` build their result in an
uninitialised array: one `write` per loop iteration, then `assume_init` on every slot. Slot `j`
counts the writes it received: 0 at `assume_init` is a read of uninitialised memory, 2 or more
leaks the overwritten value (`MaybeUninit::write` does not drop), an index out of bounds panics
with everything written so far leaked. -/

/-- which slot an iteration writes, and which element it takes the value from -/
inductive Idx
  | loopVar          -- `i`
  | const (k : Nat)  -- a literal
  deriving DecidableEq, Repr

def Idx.eval : Idx → Nat → Nat
  | .loopVar, i => i
  | .const k, _ => k

structure ArrFill where
  dst : Idx          -- `guards[dst].write(…)`
  src : Idx          -- `self[src].f()` / the element the iterator yields at `i`
  deriving DecidableEq, Repr

/-- writes per slot after the loop `for i in 0..n` -/
def ArrFill.writes (f : ArrFill) (n : Nat) : List Nat :=
  (List.range n).map fun j => ((List.range n).map f.dst.eval).count j
/-- the element whose value ends up in slot `j` (last write wins) -/
def ArrFill.source (f : ArrFill) (n j : Nat) : Option Nat :=
  (((List.range n).filter fun i => f.dst.eval i == j).getLast?).map f.src.eval
/-- no out-of-bounds index, every slot written exactly once, slot `j` holds element `j` -/
def ArrFill.clean (f : ArrFill) (n : Nat) : Prop :=
  (∀ i < n, f.dst.eval i < n) ∧ f.writes n = List.replicate n 1 ∧ ∀ j < n, f.source n j = some j

/-! ### (2) positions -/

/-- a lockable value with the stored values at its leaves; containers keep declared order;
collections and wrappers are transparent for positions -/
inductive VTree
  | leaf (v : Nat)
  | node (ts : List VTree)      -- tuple | array | Vec | Box<[T]>
  | wrap (t : VTree)            -- any collection, Poisonable
  deriving Repr

mutual
/-- `LockableIntoInner::into_inner` / `LockableGetMut::get_mut` / `guard()`: leaf values in declared order -/
def VTree.flatten : VTree → List Nat
  | .leaf v => [v]
  | .node ts => VTree.flattenL ts
  | .wrap t => t.flatten
def VTree.flattenL : List VTree → List Nat
  | [] => []
  | t :: ts => t.flatten ++ VTree.flattenL ts
end

/-- shapes without values -/
inductive OShape
  | leaf
  | node (ss : List OShape)
  | wrap (s : OShape)
  deriving Repr

mutual
def OShape.size : OShape → Nat
  | .leaf => 1
  | .node ss => OShape.sizeL ss
  | .wrap s => s.size
def OShape.sizeL : List OShape → Nat
  | [] => 0
  | s :: ss => s.size + OShape.sizeL ss
end

mutual
/-- construct the value in declared order, taking the values from a supply -/
def build : OShape → List Nat → VTree × List Nat
  | .leaf, vs => (.leaf (vs.headD 0), vs.tail)
  | .node ss, vs => let (ts, r) := buildL ss vs; (.node ts, r)
  | .wrap s, vs => let (t, r) := build s vs; (.wrap t, r)
def buildL : List OShape → List Nat → List VTree × List Nat
  | [], vs => ([], vs)
  | s :: ss, vs =>
    let (t, r) := build s vs
    let (ts, r') := buildL ss r
    (t :: ts, r')
end

mutual
/-- a write through position `i` of a guard / `get_mut` result -/
def VTree.setPos : VTree → Nat → Nat → VTree
  | .leaf v, i, w => if i = 0 then .leaf w else .leaf v
  | .node ts, i, w => .node (VTree.setPosL ts i w)
  | .wrap t, i, w => .wrap (t.setPos i w)
def VTree.setPosL : List VTree → Nat → Nat → List VTree
  | [], _, _ => []
  | t :: ts, i, w =>
    if i < t.flatten.length then t.setPos i w :: ts
    else t :: VTree.setPosL ts (i - t.flatten.length) w
end

end HLV.Own
