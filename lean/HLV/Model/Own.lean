/-
  HLV.Model.Own — ownership (C16): (1) the manual memory management of `BoxedLockCollection`
  (`Box::leak` in `new_unchecked`, `Box::from_raw` in `Drop` and `into_child`, `mem::forget`,
  `ptr::drop_in_place`), operation by operation; (2) where values sit: `into_inner`, `get_mut`
  and guards all expose the stored values at the user's declared positions.
-/
namespace HLV.Own

/-! ### (1) the heap cell of a boxed collection -/

inductive MemOp
  | leakBox          -- `Box::leak(Box::new(UnsafeCell::new(data)))`
  | buildLocks       -- `get_ptrs` + sort into `self.locks`
  | clearLocks       -- `self.locks.clear()` (Drop::drop)
  | dropLocksInPlace -- `ptr::drop_in_place(&mut self.locks)` (into_child)
  | fromRawDrop      -- `drop(Box::from_raw(self.data))`: frees the cell, drops the payload
  | fromRawIntoInner -- `Box::from_raw(self.data).into_inner()`: frees the cell, moves the payload out
  | fieldGlue        -- the compiler's drop glue for the struct's fields after `Drop::drop` (drops the `locks` Vec)
  | forgetSelf       -- `mem::forget(self)`: neither `Drop::drop` nor the field glue will run
  deriving DecidableEq, Repr

structure Mem where
  cellAllocs : Nat := 0
  cellFrees : Nat := 0
  payloadDrops : Nat := 0
  payloadMovedOut : Nat := 0
  locksBuilt : Nat := 0
  locksFreed : Nat := 0
  useAfterFree : Bool := false      -- the cell or the locks Vec was touched after being freed
  forgotten : Bool := false
  deriving DecidableEq, Repr

def Mem.step (m : Mem) : MemOp → Mem
  | .leakBox => { m with cellAllocs := m.cellAllocs + 1 }
  | .buildLocks => { m with locksBuilt := m.locksBuilt + 1 }
  | .clearLocks => { m with useAfterFree := m.useAfterFree || decide (m.locksFreed ≥ m.locksBuilt) }
  | .dropLocksInPlace =>
    { m with locksFreed := m.locksFreed + 1, useAfterFree := m.useAfterFree || decide (m.locksFreed ≥ m.locksBuilt) }
  | .fromRawDrop =>
    { m with cellFrees := m.cellFrees + 1, payloadDrops := m.payloadDrops + 1,
             useAfterFree := m.useAfterFree || decide (m.cellFrees ≥ m.cellAllocs) }
  | .fromRawIntoInner =>
    { m with cellFrees := m.cellFrees + 1, payloadMovedOut := m.payloadMovedOut + 1,
             useAfterFree := m.useAfterFree || decide (m.cellFrees ≥ m.cellAllocs) }
  | .fieldGlue =>
    if m.forgotten then m
    else { m with locksFreed := m.locksFreed + 1, useAfterFree := m.useAfterFree || decide (m.locksFreed ≥ m.locksBuilt) }
  | .forgetSelf => { m with forgotten := true }

def run (ops : List MemOp) : Mem := ops.foldl Mem.step {}

/-- `new_unchecked` -/
def opsNew : List MemOp := [.leakBox, .buildLocks]
/-- `impl Drop for BoxedLockCollection` followed by the field glue -/
def opsDrop : List MemOp := [.clearLocks, .fromRawDrop, .fieldGlue]
/-- `into_child` -/
def opsIntoChild : List MemOp := [.dropLocksInPlace, .fromRawIntoInner, .forgetSelf, .fieldGlue]

/-- clean end state: everything allocated was freed exactly once, the payload was dropped or
handed to the caller exactly once, nothing was touched after being freed -/
def Mem.clean (m : Mem) (movedOut : Bool) : Bool :=
  m.cellAllocs == 1 && m.cellFrees == 1 && m.locksBuilt == 1 && m.locksFreed == 1 && !m.useAfterFree &&
  (if movedOut then m.payloadDrops == 0 && m.payloadMovedOut == 1
   else m.payloadDrops == 1 && m.payloadMovedOut == 0)

/-! ### (2) positions -/

/-- a lockable value with the stored values at its leaves; containers keep declared order;
collections and wrappers are transparent for positions -/
inductive VTree
  | leaf (v : Nat)
  | node (ts : List VTree)      -- tuple | array | Vec | Box<[T]>
  | wrap (t : VTree)            -- any collection, Poisonable
  deriving Repr

mutual
/-- `LockableIntoInner::into_inner` / `LockableGetMut::get_mut` / `guard()`: leaf values in declared order -/
def VTree.flatten : VTree → List Nat
  | .leaf v => [v]
  | .node ts => VTree.flattenL ts
  | .wrap t => t.flatten
def VTree.flattenL : List VTree → List Nat
  | [] => []
  | t :: ts => t.flatten ++ VTree.flattenL ts
end

/-- shapes without values -/
inductive OShape
  | leaf
  | node (ss : List OShape)
  | wrap (s : OShape)
  deriving Repr

mutual
def OShape.size : OShape → Nat
  | .leaf => 1
  | .node ss => OShape.sizeL ss
  | .wrap s => s.size
def OShape.sizeL : List OShape → Nat
  | [] => 0
  | s :: ss => s.size + OShape.sizeL ss
end

mutual
/-- construct the value in declared order, taking the values from a supply -/
def build : OShape → List Nat → VTree × List Nat
  | .leaf, vs => (.leaf (vs.headD 0), vs.tail)
  | .node ss, vs => let (ts, r) := buildL ss vs; (.node ts, r)
  | .wrap s, vs => let (t, r) := build s vs; (.wrap t, r)
def buildL : List OShape → List Nat → List VTree × List Nat
  | [], vs => ([], vs)
  | s :: ss, vs =>
    let (t, r) := build s vs
    let (ts, r') := buildL ss r
    (t :: ts, r')
end

mutual
/-- a write through position `i` of a guard / `get_mut` result -/
def VTree.setPos : VTree → Nat → Nat → VTree
  | .leaf v, i, w => if i = 0 then .leaf w else .leaf v
  | .node ts, i, w => .node (VTree.setPosL ts i w)
  | .wrap t, i, w => .wrap (t.setPos i w)
def VTree.setPosL : List VTree → Nat → Nat → List VTree
  | [], _, _ => []
  | t :: ts, i, w =>
    if i < t.flatten.length then t.setPos i w :: ts
    else t :: VTree.setPosL ts (i - t.flatten.length) w
end

end HLV.Own
