/-
  HLV.Model.Conc — the interleaving semantics: any number of threads, each a resumption, over
  the shared raw-lock table, at lock-operation granularity, under either wake policy.
  Fault-free (raw-lock faults are the business of C12).
-/
import HLV.Model.Env
import HLV.Model.Prog
namespace HLV

structure Sys where
  env : Env
  thr : Tid → Prog Unit Unit

/-- Thread `t` performs its next operation (if it is blocked, at most its registration as a
waiting writer changes). Finished threads do not step. -/
def Sys.step (pol : Policy) (s : Sys) (t : Tid) : Option Sys :=
  match s.thr t with
  | .op o k =>
    match s.env.step pol t o false with
    | .stepped r env' _ => some { env := env', thr := fun u => if u = t then k r else s.thr u }
    | .blocked env' => some { env := env', thr := s.thr }
  | _ => none

/-- the thread's next operation is a blocking acquisition that the table does not grant -/
def Sys.blocked (pol : Policy) (s : Sys) (t : Tid) : Prop :=
  ∃ o k e', s.thr t = .op o k ∧ s.env.step pol t o false = .blocked e'

/-- the thread still has something to do -/
def Sys.running (s : Sys) (t : Tid) : Prop := ∃ o k, s.thr t = .op o k

/-- the thread ran to completion -/
def Sys.finished (s : Sys) (t : Tid) : Prop := s.thr t = .done ()

inductive Reachable (pol : Policy) (init : Sys) : Sys → Prop
  | init : Reachable pol init init
  | step {s s' : Sys} (t : Tid) : Reachable pol init s → s.step pol t = some s' → Reachable pol init s'

end HLV
