/-
  HLV.Model.Parse — the case-line language shared with the Rust harness.

  case  := id ';' 'N=' n ';' 'A=' a0,a1,.. ';' 'C=' expr '|' expr .. ';' 'H=' [FRW]* ';'
           'P=' stmt ' ' stmt .. ';' 'S=' dec ' ' dec ..
  expr  := 'm'i | 'r'i | 'V(' expr,.. ')' | 'P'p'(' expr ')' | 'B(' expr ')' | 'F(' expr ')'
         | 'T(' expr ')' | 'O'a'(' expr ')' | 'c'j
  stmt  := 'get' | 'dropkey' | 'forgetkey' | 'dbg:'c[':'bomb] | 'isp:'c | 'clr:'c
         | 'ses:'c':'[ltsq]':'[wr]':'[ob]':'body':'[dufpe]
  body  := '-' | step ',' step ..      step := 'w'pos'='v | 'r'pos | 'd'c | 'g' | 'i'c
  dec   := x '.' kind '.' occ '=' [np]
-/
import HLV.Model.Seq
namespace HLV

def parseNat (cs : List Char) : Option (Nat × List Char) :=
  let ds := cs.takeWhile Char.isDigit
  if ds.isEmpty then none else (String.ofList ds).toNat?.map fun n => (n, cs.dropWhile Char.isDigit)

partial def parseExpr (colls : List Shape) : List Char → Option (Shape × List Char)
  | 'm' :: cs => (parseNat cs).map fun (n, r) => (.mutex n, r)
  | 'r' :: cs => (parseNat cs).map fun (n, r) => (.rwlock n, r)
  | 'c' :: cs => (parseNat cs).bind fun (n, r) => (colls[n]?).map fun s => (s, r)
  | 'V' :: '(' :: cs => parseList colls cs [] |>.map fun (ss, r) => (.seq ss, r)
  | 'B' :: '!' :: cs => parseExpr colls ('B' :: cs)     -- built with `new` (same shape)
  | 'B' :: '&' :: cs => parseExpr colls ('B' :: cs)     -- built with `new_ref`
  | 'F' :: '!' :: cs => parseExpr colls ('F' :: cs)
  | 'T' :: '!' :: cs => parseExpr colls ('T' :: cs)
  | 'T' :: '&' :: cs => parseExpr colls ('T' :: cs)
  | 'B' :: '(' :: cs => (parseExpr colls cs).bind fun (s, r) => match r with | ')' :: r' => some (.boxed s, r') | _ => none
  | 'F' :: '(' :: cs => (parseExpr colls cs).bind fun (s, r) => match r with | ')' :: r' => some (.refc s, r') | _ => none
  | 'T' :: '(' :: cs => (parseExpr colls cs).bind fun (s, r) => match r with | ')' :: r' => some (.retry s, r') | _ => none
  | 'P' :: cs => (parseNat cs).bind fun (p, r) => match r with
      | '(' :: r1 => (parseExpr colls r1).bind fun (s, r2) => match r2 with | ')' :: r3 => some (.poisonable p s, r3) | _ => none
      | _ => none
  | 'O' :: cs => (parseNat cs).bind fun (a, r) => match r with
      | '(' :: r1 => (parseExpr colls r1).bind fun (s, r2) => match r2 with | ')' :: r3 => some (.owned a s, r3) | _ => none
      | _ => none
  | _ => none
where
  parseList (colls : List Shape) : List Char → List Shape → Option (List Shape × List Char)
    | ')' :: r, acc => some (acc.reverse, r)
    | ',' :: r, acc => parseList colls r acc
    | cs, acc => (parseExpr colls cs).bind fun (s, r) => parseList colls r (s :: acc)

def parseColls (s : String) : Option (List Shape) :=
  if s.isEmpty then some [] else
  (s.splitOn "|").foldlM (fun acc e =>
    match parseExpr acc e.toList with
    | some (sh, []) => some (acc ++ [sh])
    | _ => none) []

def parseMode : String → Option Mode | "w" => some .excl | "r" => some .shared | _ => none
def parseApi : String → Option Api
  | "l" => some .lock | "t" => some .tryLock | "s" => some .scoped | "q" => some .scopedTry | _ => none
def parseKey : String → Option KeyStyle | "o" => some .owned | "b" => some .lent | _ => none
def parseExit : String → Option Exit
  | "d" => some .drop | "u" => some .unlock | "f" => some .forget | "p" => some .panic | "e" => some .ret | _ => none

def parseStep (s : String) : Option BodyStep :=
  match s.toList with
  | 'w' :: cs => (parseNat cs).bind fun (pos, r) => match r with
      | '=' :: r' => (parseNat r').map fun (v, _) => .write pos v
      | _ => none
  | 'r' :: cs => (parseNat cs).map fun (pos, _) => .read pos
  | 'd' :: cs => (parseNat cs).bind fun (c, r) => match r with
      | '!' :: r' => (parseNat r').map fun (x, _) => .dbg c (some x)
      | _ => some (.dbg c none)
  | 'i' :: cs => (parseNat cs).map fun (c, _) => .isPoisoned c
  | 'c' :: cs => (parseNat cs).map fun (c, _) => .clearPoison c
  | ['g'] => some .getKey
  | _ => none

def parseBody (s : String) : Option (List BodyStep) :=
  if s == "-" then some [] else (s.splitOn ",").mapM parseStep

def parseStmt (colls : List Shape) (s : String) : Option Stmt :=
  match s.splitOn ":" with
  | ["trynew", k, e] =>
    let kind := match k with | "B" => some 0 | "F" => some 1 | "T" => some 2 | _ => none
    kind.bind fun kind =>
      match parseExpr colls e.toList with
      | some (sh, []) => some (.tryNew kind sh)
      | _ => none
  | ["get"] => some .get
  | ["dropkey"] => some .dropKey
  | ["forgetkey"] => some .forgetKey
  | ["dbg", c] => c.toNat?.map fun c => .dbg c none
  | ["dbg", c, x] => c.toNat?.bind fun c => x.toNat?.map fun x => .dbg c (some x)
  | ["isp", c] => c.toNat?.map .isPoisoned
  | ["clr", c] => c.toNat?.map .clearPoison
  | ["ses", c, a, m, k, b, e] => do
      let c ← c.toNat?; let a ← parseApi a; let m ← parseMode m; let k ← parseKey k
      let b ← parseBody b; let e ← parseExit e
      pure (.ses { coll := c, api := a, mode := m, key := k, body := b, exit := e })
  | _ => none

def parseKind : String → Option OpKind
  | "LX" => some .lockX | "LS" => some .lockS | "TX" => some .tryX | "TS" => some .tryS
  | "UX" => some .unlockX | "US" => some .unlockS | _ => none

def parseDecision (s : String) : Option Decision :=
  match s.splitOn "=" with
  | [l, a] =>
    match l.splitOn "." with
    | [x, k, occ] => do
      let x ← x.toNat?; let k ← parseKind k; let occ ← occ.toNat?
      let ans ← (match a with | "n" => some Resp.no | "p" => some Resp.panic | _ => none)
      pure { x := x, kind := k, occ := occ, ans := ans }
    | _ => none
  | _ => none

def words (s : String) : List String := (s.splitOn " ").filter (· ≠ "")

structure Case where
  id : String
  n : Nat
  addr : List Nat
  colls : List Shape
  held : List Char
  prog : List Stmt
  script : Script
  np : Nat := 0

def field (pref : String) (s : String) : Option String :=
  if s.startsWith pref then some (s.drop pref.length).toString else none

mutual
def maxPoison : Shape → Nat
  | .mutex _ => 0 | .rwlock _ => 0
  | .seq ss => maxPoisonL ss
  | .poisonable p s => max (p + 1) (maxPoison s)
  | .boxed s => maxPoison s | .refc s => maxPoison s | .retry s => maxPoison s
  | .owned _ s => maxPoison s
def maxPoisonL : List Shape → Nat
  | [] => 0
  | s :: ss => max (maxPoison s) (maxPoisonL ss)
end

def parseCase (line : String) : Option Case :=
  match line.splitOn ";" with
  | [id, n, a, c, h, p, s] => do
    let n ← (← field "N=" n).toNat?
    let a ← field "A=" a
    let addr ← (if a.isEmpty then some [] else (a.splitOn ",").mapM (·.toNat?))
    let colls ← parseColls (← field "C=" c)
    let held := (← field "H=" h).toList
    let prog ← (words (← field "P=" p)).mapM (parseStmt colls)
    let script ← (words (← field "S=" s)).mapM parseDecision
    pure { id := id, n := n, addr := addr, colls := colls, held := held, prog := prog,
           script := script, np := maxPoisonL colls }
  | _ => none

def Case.env (c : Case) : Env :=
  { locks := fun x =>
      match c.held.getD x 'F' with
      | 'W' => { writer := some other }
      | 'R' => { readers := [other] }
      | _ => {} }

def Case.world (c : Case) : World := { addr := fun x => c.addr.getD x 0 }

/-- `H=…!`: the whole program runs inside a destructor while the thread is unwinding from an
unrelated panic (inner panics are caught inside that destructor) -/
def Case.outer (c : Case) : Bool := c.held.contains '!'


def Case.run (c : Case) : String :=
  let C : Ctx := { W := c.world, colls := c.colls, outer := c.outer }
  let (t, s) := seqRun c.script 100000 { env := c.env, np := c.np, seenPoison := List.replicate c.np false } (program C c.prog {})
  c.id ++ ";" ++ " ".intercalate (s.trace.reverse.map TEv.text) ++ ";" ++ t.text ++ ";" ++
    (match t with
     | .abort => "-"          -- the process is gone: there is no final state to compare
     | _ => finalText c.n c.np s.env)

end HLV
