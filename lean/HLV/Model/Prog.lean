/-
  HLV.Model.Prog — thread-local code as resumptions.

  A `Prog ε α` is what one Rust function body does, seen from outside: the next
  observable operation together with what the code does for each possible answer.
  `ε` is the type of the body's `Cell` locals as they are when the body unwinds
  (that is what `handle_unwind`'s `catch` closure can still read).

  Core Lean only (no Mathlib): this file is linked into the `hlv-driver` executable.
-/
namespace HLV

abbrev LockId := Nat
abbrev Tid := Nat
abbrev PoisonId := Nat

inductive Mode | shared | excl
  deriving DecidableEq, Repr, Inhabited

/-- The answer of the environment to one operation. For a blocking acquisition `ok`
means "granted (after waiting as long as it took)"; `no` is only meaningful for `try`
operations and for the boolean probes (`keyGet`, `poisonGet`). `panic` means the
operation unwound (raw-lock fault, or happylock's own "killed" assertion). -/
inductive Resp | ok | no | panic
  deriving DecidableEq, Repr, Inhabited

/-- Everything a thread does that other threads, the raw locks or the thread-local key
flag can observe. Leaf operations are at the granularity of happylock's `RawLock` impls
for `Mutex`/`RwLock` (`raw_write`, `raw_try_read`, …): the `killed` flag test, the
`lock_api` call and the `handle_unwind(.., poison)` wrapper are one step. -/
inductive Op
  | acq (m : Mode) (blocking : Bool) (x : LockId)
  | rel (m : Mode) (x : LockId)
  | kill (x : LockId)                       -- `RawLock::poison` on a leaf
  | access (x : LockId) (w : Option Nat)    -- use of the protected datum (read / write v)
  | keyGet | keyDrop | keyForget            -- `ThreadKey::get`, `Drop for ThreadKey`, `mem::forget(key)`
  | poisonSet (p : PoisonId) | poisonClear (p : PoisonId) | poisonGet (p : PoisonId)
  | mark (n : Nat)                          -- API-boundary marker (no effect; makes boundaries visible in traces)
  deriving DecidableEq, Repr, Inhabited

inductive Prog (ε α : Type) where
  | done (a : α)
  | unwind (e : ε)
  | spin                                    -- retry fuel exhausted: the thread is still running
  | abort                                   -- panic while unwinding out of a destructor: process abort
  | op (o : Op) (k : Resp → Prog ε α)

namespace Prog

/-- Sequencing with an unwind handler in one primitive: continue with `k` after a normal
return, with `h` after an unwind. Both `handle_unwind` and "call a function that has its
own cells" are instances. -/
def bindX {ε₁ ε₂ α β : Type} : Prog ε₁ β → (ε₁ → Prog ε₂ α) → (β → Prog ε₂ α) → Prog ε₂ α
  | done b, _, k => k b
  | unwind e, h, _ => h e
  | spin, _, _ => spin
  | abort, _, _ => abort
  | op o c, h, k => op o (fun r => bindX (c r) h k)

/-- Ordinary bind: unwinding passes through unchanged. -/
def bind {ε α β : Type} (p : Prog ε β) (k : β → Prog ε α) : Prog ε α :=
  bindX p unwind k

instance {ε : Type} : Monad (Prog ε) where
  pure := done
  bind := bind

/-- `call cells callee k`: run a callee that has its own (already handled) locals inside a
body whose cells are `cells`; if the callee unwinds, the body unwinds with its cells as they
are at the call. -/
def call {ε ε' α β : Type} (cells : ε) (callee : Prog ε' β) (k : β → Prog ε α) : Prog ε α :=
  bindX callee (fun _ => unwind cells) k

/-- `handle_unwind(try_fn, catch)`: if `body` unwinds with cells `e`, run `catch e`, then keep
unwinding with the *caller's* cells `outer`; a panic inside `catch` replaces the first one
(and also reaches the caller as an unwind with `outer`). -/
def handle {ε ε' α : Type} (outer : ε') (body : Prog ε α) (onUnwind : ε → Prog Unit Unit) : Prog ε' α :=
  bindX body (fun e => bindX (onUnwind e) (fun _ => unwind outer) (fun _ => unwind outer)) done

/-- Single operation helpers. -/
def op1 {ε : Type} (o : Op) : Prog ε Resp := op o fun r => done r

/-- Cleanup code that runs *while a panic is already unwinding* (drop glue): a second
panic aborts the process. -/
def duringUnwind {ε α : Type} (e : ε) (cleanup : Prog Unit Unit) : Prog ε α :=
  bindX cleanup (fun _ => abort) (fun _ => unwind e)

end Prog

end HLV
