/-
  HLV.Model.Par — executable side of the interleaving semantics (`Model/Conc.lean`) for the T2
  correspondence: several threads, each the `program` of its statement list, over one raw-lock
  table; the schedule is the list of thread ids the real scheduler granted. A turn of thread
  `t` = its pending raw-lock operation (`Env.step .readerPref t o false`, exactly `Sys.step`)
  followed by its thread-local operations up to the next raw-lock operation — the same
  granularity at which the harness's baton scheduler serialises the real threads.
-/
import HLV.Model.Parse
import HLV.Model.Conc
namespace HLV

/-- operations at which the real threads are scheduled: those that reach the raw lock -/
def isSched (e : Env) : Op → Bool
  | .acq _ _ x => !(e.locks x).killed
  | .rel _ _ => true
  | _ => false

def logT (t : Tid) (ev : Ev) (tr : List String) : List String :=
  match tevOf ev with
  | some te => s!"{t}:{te.text}" :: tr
  | none => tr

/-- thread `t`'s operations up to (excluding) its next scheduling point -/
def runLocal (t : Tid) : Nat → Env → List String → Prog Unit UserSt → Env × List String × Prog Unit UserSt
  | 0, e, tr, p => (e, tr, p)
  | f + 1, e, tr, .op o k =>
    if isSched e o then (e, tr, .op o k)
    else match e.step .readerPref t o false with
      | .stepped r e' ev => runLocal t f e' (logT t ev tr) (k r)
      | .blocked _ => (e, tr, .op o k)
  | _, e, tr, p => (e, tr, p)

structure ParSt where
  env : Env
  thr : List (Prog Unit UserSt)
  started : List Bool
  trace : List String := []     -- reversed

def localFuel : Nat := 100000

def ParSt.turn (s : ParSt) (t : Tid) : Except String ParSt :=
  let p := s.thr.getD t (.done {})
  if !(s.started.getD t true) then
    let (e, tr, p') := runLocal t localFuel s.env s.trace p
    .ok { s with env := e, trace := tr, thr := s.thr.set t p', started := s.started.set t true }
  else match p with
    | .op o k =>
      if isSched s.env o then
        match s.env.step .readerPref t o false with
        | .stepped r e' ev =>
          let (e2, tr2, p2) := runLocal t localFuel e' (logT t ev s.trace) (k r)
          .ok { s with env := e2, trace := tr2, thr := s.thr.set t p2 }
        | .blocked _ => .error s!"thread {t} is granted a turn but is blocked in the model"
      else .error s!"thread {t}: model is not at a scheduling point"
    | _ => .error s!"thread {t} is granted a turn but has finished in the model"

def threadEnabled (s : ParSt) (t : Tid) : Bool :=
  if !(s.started.getD t true) then true
  else match s.thr.getD t (.done {}) with
    | .op o _ =>
      (match s.env.step .readerPref t o false with
       | .stepped .. => true
       | .blocked _ => false)
    | _ => false

def threadFinished (s : ParSt) (t : Tid) : Bool :=
  (s.started.getD t true) &&
  match s.thr.getD t (.done {}) with
  | .done _ => true
  | _ => false

/-- follow a schedule (the thread granted at each scheduling step) -/
def ParSt.runSched (s : ParSt) : List Nat → Except String ParSt
  | [] => .ok s
  | t :: ts => match s.turn t with
    | .ok s' => s'.runSched ts
    | .error e => .error e

/-- the initial state of a T2 replay: every thread about to run the `program` of its statements -/
def parInit (C : Ctx) (progs : List (List Stmt)) : ParSt :=
  { env := {}, thr := progs.map fun p => program C p {}, started := List.replicate progs.length false }

structure T2Case where
  id : String
  n : Nat
  addr : List Nat
  colls : List Shape
  progs : List (List Stmt)
  sched : List Nat
  np : Nat

def parseT2 (line : String) : Option T2Case :=
  match line.splitOn ";" with
  | [id, n, a, c, t, x] => do
    let n ← (← field "N=" n).toNat?
    let a ← field "A=" a
    let addr ← (if a.isEmpty then some [] else (a.splitOn ",").mapM (·.toNat?))
    let colls ← parseColls (← field "C=" c)
    let progs ← ((← field "T=" t).splitOn "||").mapM fun p => (words p).mapM (parseStmt colls)
    let x ← field "X=" x
    let sched ← (if x.isEmpty then some [] else (x.splitOn ",").mapM (·.toNat?))
    pure { id := id, n := n, addr := addr, colls := colls, progs := progs, sched := sched,
           np := maxPoisonL colls }
  | _ => none

def T2Case.run (c : T2Case) : String :=
  let C : Ctx := { W := { addr := fun x => c.addr.getD x 0, fuel := 1000000 }, colls := c.colls }
  let nt := c.progs.length
  match (parInit C c.progs).runSched c.sched with
  | .error e => c.id ++ ";model-error;" ++ e
  | .ok s =>
    let tr := " ".intercalate s.trace.reverse
    let ts := List.range nt
    if ts.all (threadFinished s) then
      c.id ++ ";" ++ tr ++ ";done;" ++
        " ".intercalate ((List.range c.n).map fun x => lockStText (s.env.locks x)) ++ ";" ++
        "".intercalate ((List.range c.np).map fun p => if s.env.poison p then "P" else "-") ++ ";" ++
        "".intercalate (ts.map fun t => if s.env.keyFlag t then "K" else "-")
    else if ts.all fun t => threadFinished s t || !threadEnabled s t then
      c.id ++ ";" ++ tr ++ ";deadlock;-"
    else c.id ++ ";" ++ tr ++ ";unfinished;-"

/-! ### direct predicates on T2 transcripts of the real code -/

structure T2Ev where
  tid : Nat
  tok : String

def parseT2Evs (s : String) : List T2Ev :=
  (words s).filterMap fun w =>
    match w.splitOn ":" with
    | [t, k] => t.toNat?.map fun t => { tid := t, tok := k }
    | _ => none

/-- lock number of a raw token such as `LX12+` / `UX3+?` -/
def rawOf (tok : String) : Option (String × Nat × Bool × Bool) :=
  let cs := tok.toList
  match cs with
  | a :: b :: r =>
    let k := String.ofList [a, b]
    if k == "LX" || k == "LS" || k == "TX" || k == "TS" || k == "UX" || k == "US" then
      let ds := r.takeWhile Char.isDigit
      let rest := r.dropWhile Char.isDigit
      (String.ofList ds).toNat?.map fun x => (k, x, rest.head? == some '+', rest.contains '?')
    else none
  | _ => none

/-- C01 on a T2 transcript: the run did not end in a deadlock. C02/C05: no audit flag; every
read sees the last value written to that lock by any thread through any route; a thread's
blocking acquisitions happen in an order consistent with one global order is NOT required here
(that is C08's predicate on T1 runs) — the deadlock itself is the observation. C09-style: a thread
inside a blocking call of a retrying collection … is checked on T1. -/
def checkT2Poison (c : T2Case) (id : String) (es : List T2Ev) : Option String := Id.run do
  let C : Ctx := { W := { addr := fun x => c.addr.getD x 0 }, colls := c.colls }
  let nt := c.progs.length
  let mut idx : List Nat := List.replicate nt 0            -- statement index per thread
  let mut expect : List (Option Bool) := List.replicate nt none   -- flag state seen at this statement's acquisition
  let mut poisoned : List PoisonId := []
  for e in es do
    let t := e.tid
    let st := (c.progs.getD t []).getD (idx.getD t 0) .get
    match st with
    | .ses ses =>
      let S := C.shape ses.coll
      if e.tok == "m7" then
        -- a user panic during this hold: guards poison every wrapper inside, a Poisonable's own
        -- scoped call poisons itself (collections' scoped closures do not: finding D5)
        let isScopedS := ses.api == .scoped || ses.api == .scopedTry
        if ses.mode == .excl then
          for p in poisonIds S do
            if (!isScopedS || isPoisonableTop S == some p) && !poisoned.contains p then poisoned := p :: poisoned
      match rawOf e.tok with
      | some (k, _, true, _) =>
        if (k == "LX" || k == "LS" || k == "TX" || k == "TS") && (expect.getD t none).isNone then
          match isPoisonableTop S with
          | some p => expect := expect.set t (some (poisoned.contains p))
          | none => expect := expect.set t (some false)
      | _ => pure ()
    | _ => pure ()
    -- outcome marks end a statement
    match (e.tok.drop 1).toString.toNat? with
    | some k =>
      if e.tok.startsWith "m" && 10 ≤ k && k < 20 then
        match st with
        | .ses _ =>
          if k == mkOutOk && expect.getD t none == some true then
            return some s!"{id}: thread {t} got Ok from a Poisonable although another hold on it had ended in a panic before this acquisition"
        | .clearPoison cc =>
          match isPoisonableTop (C.shape cc) with
          | some p => poisoned := poisoned.filter (· != p)
          | none => pure ()
        | _ => pure ()
        idx := idx.set t (idx.getD t 0 + 1)
        expect := expect.set t none
    | none => pure ()
  return none

/-- C09 on a T2 transcript: while a thread is inside a session on a *retrying* collection, every
blocking acquisition it is granted finds it holding nothing (it never waited while holding). -/
def checkT2Retry (c : T2Case) (id : String) (es : List T2Ev) : Option String := Id.run do
  let C : Ctx := { W := { addr := fun x => c.addr.getD x 0 }, colls := c.colls }
  let nt := c.progs.length
  let rec isRetryTop : Shape → Bool
    | .retry _ => true
    | .poisonable _ s => isRetryTop s
    | _ => false
  let mut idx : List Nat := List.replicate nt 0
  let mut held : List (Nat × Nat) := []          -- (thread, lock), with multiplicity
  for e in es do
    let t := e.tid
    let st := (c.progs.getD t []).getD (idx.getD t 0) .get
    match rawOf e.tok with
    | some (k, x, true, _) =>
      if k == "LX" || k == "LS" then
        match st with
        | .ses ses =>
          if isRetryTop (C.shape ses.coll) && held.any (·.1 == t) then
            return some s!"{id}: thread {t} was granted the blocking acquisition of {x} of a retrying collection while holding {(held.filter (·.1 == t)).map (·.2)}"
        | _ => pure ()
      if k == "LX" || k == "LS" || k == "TX" || k == "TS" then held := (t, x) :: held
      else held := held.erase (t, x)
    | _ => pure ()
    match (e.tok.drop 1).toString.toNat? with
    | some k => if e.tok.startsWith "m" && 10 ≤ k && k < 20 then idx := idx.set t (idx.getD t 0 + 1)
    | none => pure ()
  return none

def checkT2 (prop : String) (caseLine : String) (line : String) : Option String :=
  match line.splitOn ";" with
  | id :: evs :: term :: _ =>
    let es := parseT2Evs evs
    if prop == "C01" then
      if term == "deadlock" then some s!"{id}: the real threads deadlocked under this schedule" else none
    else if prop == "C09" then
      if term == "deadlock" then some s!"{id}: the real threads deadlocked under this schedule" else
      match parseT2 caseLine with
      | some c => checkT2Retry c id es
      | none => some s!"unparsable T2 case {caseLine}"
    else if prop == "C10" then
      match parseT2 caseLine with
      | some c => checkT2Poison c id es
      | none => some s!"unparsable T2 case {caseLine}"
    else
      -- audit flags
      match es.find? fun e => e.tok.endsWith "?" with
      | some e => some s!"{id}: thread {e.tid} {e.tok}: release or access without a matching hold"
      | none => Id.run do
        let mut vals : List (Nat × Nat) := []
        for e in es do
          let cs := e.tok.toList
          match cs with
          | 'w' :: r =>
            match (String.ofList r).splitOn "=" with
            | [x, v] => match x.toNat?, v.toNat? with
              | some x, some v => vals := (x, v) :: vals.filter (·.1 != x)
              | _, _ => pure ()
            | _ => pure ()
          | 'r' :: r =>
            match (String.ofList r).splitOn "=" with
            | [x, v] => match x.toNat?, v.toNat? with
              | some x, some v =>
                let want := ((vals.find? (·.1 == x)).map (·.2)).getD 0
                if v != want then return some s!"{id}: thread {e.tid} read {v} from lock {x}, last write was {want}"
              | _, _ => pure ()
            | _ => pure ()
          | _ => pure ()
        -- exclusion, recomputed from the raw events alone
        let mut w : List (Nat × Nat) := []        -- (lock, writer)
        let mut rd : List (Nat × Nat) := []       -- (lock, reader)
        for e in es do
          match rawOf e.tok with
          | some (k, x, true, _) =>
            if k == "LX" || k == "TX" then
              if (w.any (·.1 == x)) || (rd.any (·.1 == x)) then return some s!"{id}: exclusive grant of {x} to thread {e.tid} while it is held"
              w := (x, e.tid) :: w
            else if k == "LS" || k == "TS" then
              if w.any (·.1 == x) then return some s!"{id}: shared grant of {x} to thread {e.tid} while it is held exclusively"
              rd := (x, e.tid) :: rd
            else if k == "UX" then w := w.filter (· != (x, e.tid))
            else rd := rd.erase (x, e.tid)
          | _ => pure ()
        return none
  | _ => some s!"malformed T2 transcript {line}"

end HLV
