/-
  HLV.Model.Check — executable trace predicates, evaluated by the driver on *implementation*
  transcripts (and on model transcripts). They are the list-based, decidable counterparts of
  the specifications the theorems are about (`HoldSpec` etc.): a failure here is a concrete
  violating run of the real code.
-/
import HLV.Model.Parse
namespace HLV

/-! ### transcript parsing -/

def parseTEv (s : String) : Option TEv :=
  let cs := s.toList
  let bad := cs.getLast? == some '?'
  let cs := if bad then cs.dropLast else cs
  match cs with
  | 'm' :: r => (parseNat r).map fun (n, _) => .mark n
  | 'p' :: r => (parseNat r).bind fun (p, r') => match r' with
      | ['+'] => some (.pois p true)
      | ['-'] => some (.pois p false)
      | _ => none
  | 'E' :: r => (parseNat r).map fun (n, _) => .envRel n
  | 'w' :: r => (parseNat r).bind fun (x, r') => match r' with
      | '=' :: r'' => (parseNat r'').map fun (v, _) => .acc x true v bad
      | _ => none
  | 'r' :: r => (parseNat r).bind fun (x, r') => match r' with
      | '=' :: r'' => (parseNat r'').map fun (v, _) => .acc x false v bad
      | _ => none
  | a :: b :: r =>
    match parseKind (String.ofList [a, b]) with
    | some k => (parseNat r).bind fun (x, r') =>
        match r' with
        | ['+'] => some (.raw k x .ok bad)
        | ['-'] => some (.raw k x .no bad)
        | ['!'] => some (.raw k x .panic bad)
        | _ => none
    | none => none
  | _ => none

structure Transcript where
  id : String
  evs : List TEv
  terminal : String
  locks : List String     -- per lock: owner text (+ "k")
  poison : String
  key : String
  deriving Repr

def parseTranscript (line : String) : Option Transcript :=
  match line.splitOn ";" with
  | [id, evs, term, locks, pois, key] => do
    let evs ← (words evs).mapM parseTEv
    pure { id := id, evs := evs, terminal := term, locks := words locks, poison := pois, key := key }
  | [id, evs, term, "-"] => do
    let evs ← (words evs).mapM parseTEv
    pure { id := id, evs := evs, terminal := term, locks := [], poison := "", key := "" }
  | _ => none

/-! ### the hold discipline on a trace (list-based `HoldSpec`) -/

def kindMode : OpKind → Mode
  | .lockX | .tryX | .unlockX => .excl
  | _ => .shared
def kindIsAcq : OpKind → Bool
  | .unlockX | .unlockS => false
  | _ => true
def kindBlocking : OpKind → Bool
  | .lockX | .lockS => true
  | _ => false

structure HSt where
  held : List (LockId × Mode) := []
  stuck : List (LockId × Mode) := []
  depth : Nat := 0
  faulted : List LockId := []        -- locks one of whose raw operations panicked
  deriving Repr

/-- One step of the list-based hold discipline; `Except.error` names the violated obligation. -/
def holdStep (s : HSt) : TEv → Except String HSt
  | .raw k x r bad =>
    if bad then .error s!"audit: release of lock {x} not held by the caller in that mode" else
    let m := kindMode k
    if kindIsAcq k then
      if kindBlocking k && s.depth > 0 then .error s!"blocking acquisition of {x} inside a non-blocking API" else
      match r with
      | .ok => .ok { s with held := (x, m) :: s.held }
      | .no => .ok s
      | .panic => .ok { s with faulted := x :: s.faulted }
    else
      if !(s.held.contains (x, m)) then .error s!"release of {x} which the caller does not hold in that mode" else
      match r with
      | .panic => .ok { s with held := s.held.erase (x, m), stuck := (x, m) :: s.stuck, faulted := x :: s.faulted }
      | _ => .ok { s with held := s.held.erase (x, m) }
  | .envRel _ => .ok s
  | .pois _ _ => .ok s
  | .acc x w _ bad =>
    if bad then .error s!"access to {x} without a suitable hold (audit)" else
    if w then
      if s.held.contains (x, .excl) then .ok s else .error s!"write access to {x} without an exclusive hold"
    else
      if s.held.contains (x, .excl) || s.held.contains (x, .shared) then .ok s
      else .error s!"read access to {x} without a hold"
  | .mark n =>
    if n == mkKeyBack then
      if s.held.isEmpty then .ok s else .error s!"key handed back while still holding {repr s.held}"
    else if (n == mkBeginBlocking || n == mkBeginTry) && !s.held.isEmpty then
      .error s!"an acquiring call starts while the caller still holds {repr s.held}"
    else if n == mkBeginTry || n == mkBeginNonAcq then .ok { s with depth := s.depth + 1 }
    else if n == mkEndCall then .ok { s with depth := s.depth - 1 }
    else .ok s

def holdRun (s : HSt) : List TEv → Except String HSt
  | [] => .ok s
  | e :: es => match holdStep s e with
    | .ok s' => holdRun s' es
    | .error msg => .error msg

def sameMultiset (a b : List (LockId × Mode)) : Bool :=
  a.length == b.length && a.all fun k => a.count k == b.count k

/-- the holds a successful acquisition of shape `S` in mode `m` gives (declared order) -/
def declHolds (S : Shape) (m : Mode) : List (LockId × Mode) := holdsOf S m

/-! ### per-statement segmentation -/

/-- split the events of a program run into one segment per statement (each ends with an
outcome mark ≥ 10 and < 20) -/
def segments (evs : List TEv) : List (List TEv) :=
  let (cur, acc) := evs.foldl (fun (st : List TEv × List (List TEv)) e =>
    let (cur, acc) := st
    match e with
    | .mark n => if n ≥ 10 && n < 20 then ([], (e :: cur).reverse :: acc) else (e :: cur, acc)
    | _ => (e :: cur, acc)) ([], [])
  (if cur.isEmpty then acc else cur.reverse :: acc).reverse

def segOutcome (seg : List TEv) : Nat :=
  match seg.getLast? with
  | some (.mark n) => n
  | _ => 0

def hasMark (seg : List TEv) (n : Nat) : Bool := seg.any fun e => e == .mark n
def countMark (seg : List TEv) (n : Nat) : Nat := (seg.filter fun e => e == .mark n).length

/-- the holds at the first occurrence of mark `n` in the segment, starting from `s` -/
def heldAtMark (s : HSt) (seg : List TEv) (n : Nat) : Option (List (LockId × Mode)) :=
  match seg with
  | [] => none
  | e :: es =>
    if e == .mark n then some s.held
    else match holdStep s e with
      | .ok s' => heldAtMark s' es n
      | .error _ => none

def initialLocks (c : Case) : List String :=
  (List.range c.n).map fun x => match c.held.getD x 'F' with
    | 'W' => "W1" | 'R' => "R1" | _ => "F"

def stripK (s : String) : String := if s.endsWith "k" then (s.dropEnd 1).toString else s

/-! ### the property predicates -/

def modeOf (s : Session) : Mode := s.mode

/-- C05 (+ g3, g4, g5 of C03/C04/C17): the whole trace obeys the hold discipline, and at the
end the client holds nothing unless it forgot a guard or a release panicked. -/
def checkHold (c : Case) (t : Transcript) : Option String :=
  match holdRun {} t.evs with
  | .error msg => some msg
  | .ok s =>
    let forgets := c.prog.any fun st => match st with | .ses ses => ses.exit == .forget | _ => false
    if t.terminal != "done" then none
    else if !forgets && !s.held.isEmpty then some s!"holds never released: {repr s.held}"
    else
      -- owner table agrees: nothing held by the client except stuck holds
      let mine := (List.range t.locks.length).filter fun x =>
        let o := stripK (t.locks.getD x "F")
        o.startsWith "W0" || (o.startsWith "R" && ((o.drop 1).toString.splitOn ",").contains "0")
      let bad := mine.filter fun x => !(s.stuck.any (·.1 == x)) && !(s.held.any (·.1 == x))
      if bad.isEmpty then none else some s!"locks {bad} still owned by the client at the end"

/-- C04: at the end of a successful acquiring call the caller holds exactly the leaves (each
once, in its mode); a failed `try` holds nothing, hands the key back and never blocked; a
scoped closure runs exactly once iff the acquisition succeeded. -/
def checkC04 (c : Case) (t : Transcript) : Option String := Id.run do
  let C : Ctx := { W := c.world, colls := c.colls, outer := c.outer }
  let mut st : HSt := {}
  let segs := segments t.evs
  let mut i := 0
  for s in c.prog do
    let seg := segs.getD i []
    i := i + 1
    if seg.isEmpty then break
    match s with
    | .ses ses =>
      let out := segOutcome seg
      let S := C.shape ses.coll
      let want := declHolds S ses.mode
      let isScoped := ses.api == .scoped || ses.api == .scopedTry
      if out != mkOutNoKey then
        if isScoped then
          let bodies := countMark seg mkBody
          if bodies > 1 then return some "scoped closure invoked more than once"
          if bodies == 1 then
            match heldAtMark st seg mkBody with
            | some h => if !sameMultiset h want then
                return some s!"closure ran holding {repr h}, expected exactly {repr want}"
            | none => pure ()
          if out == mkOutWouldBlock && bodies != 0 then return some "closure ran although try failed"
          if (out == mkOutOk || out == mkOutPoisoned) && bodies != 1 then
            return some "scoped call returned normally without running the closure once"
        else
          match heldAtMark st seg mkEndCall with
          | some h =>
            if out == mkOutWouldBlock then
              if !h.isEmpty then return some s!"failed try still holds {repr h}"
            else if out == mkOutOk || out == mkOutPoisoned then
              if !sameMultiset h want then
                return some s!"acquisition returned holding {repr h}, expected exactly {repr want}"
            else if !h.isEmpty && !sameMultiset h want then
              return some s!"call ended holding a partial set {repr h}"
          | none => pure ()
    | _ => pure ()
    match holdRun st seg with
    | .ok s' => st := s'
    | .error msg => return some msg
  return none

mutual
/-- the leaf sets of the owned groups inside a shape -/
def ownedGroups : Shape → List (List LockId)
  | .mutex _ => []
  | .rwlock _ => []
  | .seq ss => ownedGroupsL ss
  | .poisonable _ s => ownedGroups s
  | .boxed s => ownedGroups s
  | .refc s => ownedGroups s
  | .retry s => ownedGroups s
  | .owned _ s => declLeaves s :: ownedGroups s
def ownedGroupsL : List Shape → List (List LockId)
  | [] => []
  | s :: ss => ownedGroups s ++ ownedGroupsL ss
end

/-- C09: during a session on a retrying collection every blocking raw acquisition is issued
while the caller holds nothing. (A blocking acquisition *inside* an owned group that is a member
of the collection, holding only earlier leaves of that group, is finding D17: the group is one
lock for the retrying algorithm and is taken in order, blocking.) -/
def checkC09 (c : Case) (t : Transcript) : Option String := Id.run do
  let C : Ctx := { W := c.world, colls := c.colls, outer := c.outer }
  let rec isRetryTop : Shape → Bool
    | .retry _ => true
    | .poisonable _ s => isRetryTop s
    | _ => false
  let mut st : HSt := {}
  let segs := segments t.evs
  let mut i := 0
  for s in c.prog do
    let seg := segs.getD i []
    i := i + 1
    let check := match s with
      | .ses ses => isRetryTop (C.shape ses.coll)
      | _ => false
    for e in seg do
      if check then
        match e with
        | .raw k x .ok _ | .raw k x .panic _ =>
          if kindBlocking k && !st.held.isEmpty then
            let inOneGroup := match s with
              | .ses ses => (ownedGroups (C.shape ses.coll)).any fun g => g.contains x && st.held.all fun h => g.contains h.1
              | _ => false
            if inOneGroup then
              return some s!"D17: blocking acquisition of {x} while holding {repr st.held}, all leaves of one owned group that is a member of the retrying collection"
            return some s!"blocking acquisition of {x} while holding {repr st.held}"
        | _ => pure ()
      match holdStep st e with
      | .ok s' => st := s'
      | .error msg => return some msg
  if t.terminal == "spin" then return some "retrying acquisition did not complete (fuel)"
  return none

/-- C08: during a session on a sorting collection, whenever the caller blocks on a lock, every
lock it holds belongs to a unit with a smaller address (or to the same owned unit): the rank
discipline with rank = address, which is what makes two sorting acquisitions take their common
locks in the same relative order. -/
def checkC08 (c : Case) (t : Transcript) : Option String := Id.run do
  let C : Ctx := { W := c.world, colls := c.colls, outer := c.outer }
  let rec isSortTop : Shape → Bool
    | .boxed _ | .refc _ | .owned _ _ => true      -- an owned collection on its own: one unit, listing order
    | .poisonable _ s => isSortTop s
    | _ => false
  let mut st : HSt := {}
  let segs := segments t.evs
  let mut i := 0
  for s in c.prog do
    let seg := segs.getD i []
    i := i + 1
    -- (address of the unit, position inside the unit in its own listing order)
    let unitAddr? : Option (LockId → Nat × Nat) := match s with
      | .ses ses =>
        let S := C.shape ses.coll
        if isSortTop S then
          let ptrs := getPtrs c.world S
          some fun x => ((ptrs.find? fun p => p.leaves.contains x).map
            fun p => (p.addr, (p.leaves.findIdx? (· == x)).getD 0)).getD (0, 0)
        else none
      | _ => none
    for e in seg do
      match unitAddr?, e with
      | some ua, .raw k x r _ =>
        if kindBlocking k && r != .no then
          let bad := st.held.filter fun (y, _) => (ua y).1 > (ua x).1
          if !bad.isEmpty then
            return some s!"blocked on lock {x} (unit address {(ua x).1}) while holding {repr bad} of higher address"
          -- an owned group is one indivisible unit, taken in its own listing order in both modes
          let bad2 := st.held.filter fun (y, _) => (ua y).1 == (ua x).1 && (ua y).2 > (ua x).2
          if !bad2.isEmpty then
            return some s!"blocked on lock {x} (position {(ua x).2} of the owned unit at {(ua x).1}) while holding {repr bad2}, listed later in the same unit"
      | _, _ => pure ()
      match holdStep st e with
      | .ok s' => st := s'
      | .error msg => return some msg
  return none

/-- C11: a user panic inside a guard's life or a scoped closure reaches the caller, releases
everything, and the key is obtainable (or still usable) afterwards. -/
def checkC11 (c : Case) (t : Transcript) : Option String := Id.run do
  let segs := segments t.evs
  let mut i := 0
  let mut st : HSt := {}
  for s in c.prog do
    let seg := segs.getD i []
    i := i + 1
    if seg.isEmpty then break
    match s with
    | .ses ses =>
      let acquired := if ses.api == .scoped || ses.api == .scopedTry then hasMark seg mkBody
        else segOutcome seg != mkOutWouldBlock && segOutcome seg != mkOutNoKey
      if ses.exit == .panic && acquired && segOutcome seg != mkOutPanic && segOutcome seg != mkOutWouldBlock then
        return some "a user panic did not reach the caller"
    | _ => pure ()
    match holdRun st seg with
    | .ok s' =>
      if !s'.held.isEmpty && segOutcome seg == mkOutPanic then
        return some s!"after the panic the caller still holds {repr s'.held}"
      st := s'
    | .error msg => return some msg
  return none

/-- C12: with raw-lock faults, nothing is leaked or released twice (hold discipline), only locks
whose own operation panicked end up killed, and every such lock is killed. -/
def checkC12 (c : Case) (t : Transcript) : Option String :=
  match checkHold c t with
  | some m => some m
  | none =>
    match holdRun {} t.evs with
    | .error m => some m
    | .ok s =>
      if t.terminal != "done" then none else
      let killed := (List.range t.locks.length).filter fun x => (t.locks.getD x "").endsWith "k"
      let extra := killed.filter fun x => !s.faulted.contains x
      let missing := s.faulted.filter fun x => !killed.contains x
      if !extra.isEmpty then some s!"locks {extra} were killed although none of their operations panicked"
      else if !missing.isEmpty then some s!"locks {missing} had a panicking operation but still accept acquisitions"
      else none

/-- C13: in a quiescent state (no script), a `try` succeeds iff no leaf is held (for reads:
held exclusively); a failed attempt leaves every lock as it was; a successful one is undone
by dropping the guard. Applies to cases whose program is `get, one try session, …`. -/
def checkC13 (c : Case) (t : Transcript) : Option String := Id.run do
  if !c.script.isEmpty then return none
  let C : Ctx := { W := c.world, colls := c.colls, outer := c.outer }
  let segs := segments t.evs
  let mut i := 0
  for s in c.prog do
    let seg := segs.getD i []
    i := i + 1
    match s with
    | .ses ses =>
      if (ses.api == .tryLock || ses.api == .scopedTry) && segOutcome seg != mkOutNoKey then
        let S := C.shape ses.coll
        let leaves := (declHolds S ses.mode)
        let blockedBy (x : LockId) (m : Mode) : Bool :=
          match c.held.getD x 'F' with
          | 'W' => true
          | 'R' => m == .excl
          | _ => false
        let expectFail := leaves.any fun (x, m) => blockedBy x m
        let failed := segOutcome seg == mkOutWouldBlock
        if expectFail != failed then
          return some s!"try outcome wrong: expected {if expectFail then "failure" else "success"}"
        if seg.any fun e => match e with | .raw k _ _ _ => kindBlocking k | _ => false then
          return some "a try call issued a blocking acquisition"
    | _ => pure ()
  let envActed := t.evs.any fun e => match e with | .envRel _ => true | _ => false
  if t.terminal == "done" && !envActed then
    let forgets := c.prog.any fun st => match st with | .ses ses => ses.exit == .forget | _ => false
    if !forgets && t.locks.map stripK != initialLocks c then
      return some s!"hold state changed: {t.locks} vs initially {initialLocks c}"
  return none

/-- C17: inside non-acquiring operations (marks 3..4) nothing blocks and the caller's holds are
the same before and after; the final owner table is unchanged by programs made only of them. -/
def checkC17 (_c : Case) (t : Transcript) : Option String := Id.run do
  let mut st : HSt := {}
  let mut inside := false
  let mut before : List (LockId × Mode) := []
  for e in t.evs do
    if e == .mark mkBeginNonAcq then
      inside := true
      before := st.held
    if inside then
      match e with
      | .raw k x _ _ => if kindBlocking k then return some s!"non-acquiring operation blocks on {x}"
      | .envRel x => return some s!"non-acquiring operation waited for {x}"
      | _ => pure ()
    match holdStep st e with
    | .ok s' => st := s'
    | .error msg => return some msg
    if inside && e == .mark mkEndCall then
      inside := false
      if !sameMultiset before st.held then
        return some s!"non-acquiring operation changed the caller's holds from {repr before} to {repr st.held}"
  return none

mutual
/-- the leaf locks below each `Poisonable` of a shape -/
def leavesUnder : Shape → List (PoisonId × List LockId)
  | .mutex _ => []
  | .rwlock _ => []
  | .seq ss => leavesUnderL ss
  | .poisonable p s => (p, declLeaves s) :: leavesUnder s
  | .boxed s => leavesUnder s
  | .refc s => leavesUnder s
  | .retry s => leavesUnder s
  | .owned _ s => leavesUnder s
def leavesUnderL : List Shape → List (PoisonId × List LockId)
  | [] => []
  | s :: ss => leavesUnder s ++ leavesUnderL ss
end

mutual
/-- the lockable units reachable through a shape, independently of addresses: leaf locks and
owned collections (which present themselves as one unit) -/
def unitIds : Shape → List (Bool × Nat)
  | .mutex x => [(false, x)]
  | .rwlock x => [(false, x)]
  | .seq ss => unitIdsL ss
  | .poisonable _ s => unitIds s
  | .boxed s => unitIds s
  | .refc s => unitIds s
  | .retry s => unitIds s
  | .owned a _ => [(true, a)]
def unitIdsL : List Shape → List (Bool × Nat)
  | [] => []
  | s :: ss => unitIds s ++ unitIdsL ss
end

/-- C07: a checked constructor returns `None` exactly if some unit is reachable twice. -/
def checkC07 (c : Case) (t : Transcript) : Option String := Id.run do
  let segs := segments t.evs
  let mut i := 0
  for s in c.prog do
    let seg := segs.getD i []
    i := i + 1
    match s with
    | .tryNew _ sh =>
      let ids := unitIds sh
      let dupFree := ids.all fun k => ids.count k == 1
      let accepted := segOutcome seg == mkOutOk
      if accepted != dupFree then
        return some s!"statement {i}: try_new returned {if accepted then "Some" else "None"} for a {if dupFree then "duplicate-free" else "duplicate-containing"} input"
      if seg.any fun e => match e with | .raw .. => true | _ => false then
        return some s!"statement {i}: try_new touched a raw lock"
    | _ => pure ()
  return none

/-- C06: replay the key-token specification over the statements and their observed outcomes:
`ThreadKey::get` must return a key iff no token is alive (owned by the program, inside a guard
or running call, or leaked), never inside a hold, and the final flag must agree. -/
def checkC06 (c : Case) (t : Transcript) : Option String := Id.run do
  if t.evs.any (fun e => e == .mark mkGotKey) then
    return some "ThreadKey::get() returned a key while a guard or scoped closure was alive"
  let segs := segments t.evs
  let mut keys : Nat := 0
  let mut flag : Bool := false
  let mut i := 0
  for s in c.prog do
    let seg := segs.getD i []
    i := i + 1
    if seg.isEmpty then break
    let out := segOutcome seg
    match s with
    | .get =>
      if flag && out != mkOutWouldBlock then return some s!"statement {i}: get() returned a key although one is alive"
      if !flag && out != mkOutOk then return some s!"statement {i}: get() failed although no key is alive"
      if !flag then
        keys := 1
        flag := true
    | .dropKey =>
      if keys == 0 then
        if out != mkOutNoKey then return some "harness desynchronised (dropkey)"
      else
        keys := 0
        flag := false
    | .forgetKey =>
      if keys == 0 then
        if out != mkOutNoKey then return some "harness desynchronised (forgetkey)"
      else keys := 0
    | .ses ses =>
      if keys == 0 then
        if out != mkOutNoKey then return some s!"statement {i}: a session ran without a key"
      else
        let guardApi := ses.api == .lock || ses.api == .tryLock
        if out == mkOutWouldBlock then pure ()            -- key handed back / still lent
        else if guardApi then
          if out == mkOutPanic then
            keys := 0
            flag := false
          else match ses.exit with
            | .unlock => pure ()
            | .forget => keys := 0
            | _ =>
              keys := 0
              flag := false
        else if ses.key == .owned then
          keys := 0
          flag := false
    | _ => pure ()
  if t.terminal == "done" then
    if (t.key == "K") != flag then
      return some s!"final key flag is {t.key}, the specification says {if flag then "K" else "-"}"
  return none

/-- C10: replay the poisoning specification: a `Poisonable` must report poisoned if a user panic
unwound while an exclusive hold on it was live (own guard/closure, or guard/closure of a
collection containing it) since the last `clear_poison`; it may report poisoned only if some
panic happened during a hold on it; `clear_poison` restores Ok. Observations: `isp` statements,
Ok/Err outcome of sessions, final flags. -/
def checkC10 (c : Case) (t : Transcript) : Option String := Id.run do
  let C : Ctx := { W := c.world, colls := c.colls, outer := c.outer }
  let segs := segments t.evs
  let mut may : List PoisonId := []
  let mut must : List (PoisonId × String) := []
  let mut cur : List PoisonId := []          -- flags currently observed set (sampled at raw operations)
  let mut i := 0
  for s in c.prog do
    let seg := segs.getD i []
    i := i + 1
    if seg.isEmpty then break
    let out := segOutcome seg
    match s with
    | .ses ses =>
      let S := C.shape ses.coll
      let ps := poisonIds S
      if out != mkOutNoKey && out != mkOutWouldBlock then
        -- outcome of the acquisition: Err (12) needs a reason, Ok (10) must not hide a poisoned wrapper
        if out == mkOutPoisoned && !(ps.any fun p => may.contains p) then
          return some s!"statement {i}: poisoned result although no panic happened during a hold"
        if out == mkOutOk then
          match ps.find? fun p => must.any (·.1 == p) with
          | some p => return some s!"statement {i}: Ok result although Poisonable {p} must be poisoned ({((must.find? (·.1 == p)).map (·.2)).getD ""})"
          | none => pure ()
        let userPanic := hasMark seg mkUserPanic
        let fault := seg.any fun e => match e with | .raw _ _ .panic _ => true | _ => false
        -- the call is made while the thread unwinds from an unrelated panic: `PoisonRef::drop` sees
        -- `thread::panicking()` and poisons also when the guard goes away normally
        if c.outer && (ses.api == .lock || ses.api == .tryLock) then
          for p in ps do
            if !may.contains p then may := p :: may
        -- `clear_poison()` inside the hold (the body ran: no raw fault in this segment)
        if !fault then
          for b in ses.body do
            match b with
            | .clearPoison cc =>
              match isPoisonableTop (C.shape cc) with
              | some p =>
                may := may.filter (· != p)
                must := must.filter (·.1 != p)
                cur := cur.filter (· != p)
              | none => pure ()
            | _ => pure ()
        if userPanic || fault then
          for p in ps do
            if !may.contains p then may := p :: may
        -- ordering: a wrapper that must be poisoned by this panic has to be poisoned *before* the
        -- locks below it are released (otherwise a waiter can acquire in between and see Ok).
        -- Only where the code poisons at all (guards, and a Poisonable's own scoped calls: not D5).
        if userPanic && ses.mode == .excl then
          let isScopedS := ses.api == .scoped || ses.api == .scopedTry
          let before := (seg.takeWhile fun e => e != .mark mkUserPanic)
          let after := (seg.dropWhile fun e => e != .mark mkUserPanic)
          for (p, ls) in leavesUnder S do
            if !isScopedS || isPoisonableTop S == some p then
              let already := cur.contains p || before.any fun e => e == .pois p true
              let idxP := after.findIdx? fun e => e == .pois p true
              let idxU := after.findIdx? fun e => match e with
                | .raw k x .ok _ => !kindIsAcq k && ls.contains x
                | _ => false
              if !already then
                match idxP, idxU with
                | some ip, some iu =>
                  if iu < ip then
                    return some s!"statement {i}: Poisonable {p} was poisoned only after a lock below it had been released"
                | none, some _ =>
                  return some s!"statement {i}: Poisonable {p} was not yet poisoned when the locks below it were released after the panic"
                | _, _ => pure ()
        if userPanic && ses.mode == .excl then
          let isScoped := ses.api == .scoped || ses.api == .scopedTry
          for p in ps do
            let why := if isScoped && (isPoisonableTop S).isNone then "panic in the scoped closure of a collection containing it"
              else if isScoped && isPoisonableTop S != some p then "panic in the scoped closure of a Poisonable containing it"
              else if isScoped then "panic in its own scoped closure" else "panic while a guard was alive"
            if !(must.any (·.1 == p)) then must := (p, why) :: must
    | .isPoisoned cc =>
      match isPoisonableTop (C.shape cc) with
      | some p =>
        let observed := out == mkOutPoisoned
        cur := if observed then (if cur.contains p then cur else p :: cur) else cur.filter (· != p)
        if observed && !may.contains p then
          return some s!"statement {i}: Poisonable {p} reports poisoned although no panic happened during a hold on it"
        if !observed then
          match must.find? (·.1 == p) with
          | some (_, why) => return some s!"statement {i}: Poisonable {p} is not poisoned after a {why}"
          | none => pure ()
      | none => pure ()
    | .clearPoison cc =>
      match isPoisonableTop (C.shape cc) with
      | some p =>
        may := may.filter (· != p)
        must := must.filter (·.1 != p)
        cur := cur.filter (· != p)
      | none => pure ()
    | _ => pure ()
    for e in seg do
      match e with
      | .pois p true => cur := if cur.contains p then cur else p :: cur
      | .pois p false => cur := cur.filter (· != p)
      | _ => pure ()
  if t.terminal == "done" then
    let flags := t.poison.toList
    for p in List.range flags.length do
      let observed := flags.getD p '-' == 'P'
      if observed && !may.contains p then
        return some s!"at the end Poisonable {p} is poisoned although no panic happened during a hold on it"
      if !observed then
        match must.find? (·.1 == p) with
        | some (_, why) => return some s!"at the end Poisonable {p} is not poisoned after a {why}"
        | none => pure ()
    -- "a plain Mutex/RwLock is never made unusable by a panic in user code": without raw-lock
    -- faults no lock ends up killed or still held, whatever panicked in user code
    let faults := t.evs.any fun e => match e with | .raw _ _ .panic _ => true | _ => false
    let envActed := t.evs.any fun e => match e with | .envRel _ => true | _ => false
    let forgets := c.prog.any fun st => match st with | .ses ses => ses.exit == .forget | _ => false
    if !faults && !envActed && !forgets && t.locks != initialLocks c then
      return some s!"after user panics only, the locks are not as they were (killed or still held): {t.locks} vs initially {initialLocks c}"
  return none

/-- C14 (run-time face): a thread must not be able to obtain a key while it still owns a live hold
taken through an acquiring call. The harness's raw unlock asks `ThreadKey::get()` (mark 24 if it
succeeds): inside a session, outside non-acquiring sub-calls (Debug's own transient hold), that
must never happen — the key has to be surrendered for the whole duration of the hold. -/
def checkC14 (c : Case) (t : Transcript) : Option String := Id.run do
  let segs := segments t.evs
  let mut i := 0
  for s in c.prog do
    let seg := segs.getD i []
    i := i + 1
    match s with
    | .ses ses =>
      let mut inNonAcq := false
      for e in seg do
        if e == .mark mkBeginNonAcq then inNonAcq := true
        if e == .mark mkEndCall && inNonAcq then inNonAcq := false
        else if e == .mark mkKeyInUnlock && !inNonAcq then
          return some s!"statement {i}: ThreadKey::get() succeeds inside a raw unlock of this {repr ses.api} call (key style {repr ses.key}): the key is usable again while the call still owns a live hold"
    | _ => pure ()
  return none

/-- C01 (thread-local half, checked on every implementation transcript): the rank discipline.
Whenever the caller blocks on a lock, every lock it holds either belongs to the same unit
(owned group) and comes earlier in it, or — in a sorting collection — to a unit with a smaller
address; in particular a retrying acquisition blocks only empty-handed (across units), and a
thread never waits for a lock it holds itself. By `C01_deadlock_free` this discipline, kept by
every thread, excludes deadlock under every interleaving. -/
def checkC01 (c : Case) (t : Transcript) : Option String := Id.run do
  if t.terminal == "selfdeadlock" then return some "the thread waits for a lock it holds itself"
  let C : Ctx := { W := c.world, colls := c.colls, outer := c.outer }
  let rec isSortTop : Shape → Bool
    | .boxed _ | .refc _ => true
    | .poisonable _ s => isSortTop s
    | _ => false
  let mut st : HSt := {}
  let segs := segments t.evs
  let mut i := 0
  for s in c.prog do
    let seg := segs.getD i []
    i := i + 1
    let info? : Option (Bool × List Ptr) := match s with
      | .ses ses =>
        let S := C.shape ses.coll
        some (isSortTop S, match S with
          | .mutex _ | .rwlock _ => getPtrs c.world S
          | _ => (match S with
              | .poisonable _ (.mutex x) => getPtrs c.world (.mutex x)
              | .poisonable _ (.rwlock x) => getPtrs c.world (.rwlock x)
              | _ =>
                -- the units the session's own RawLock impl iterates over
                let rec inner : Shape → List Ptr
                  | .poisonable _ s' => inner s'
                  | .boxed s' => sortPtrs (getPtrs c.world s')
                  | .refc s' => sortPtrs (getPtrs c.world s')
                  | .retry s' => getPtrs c.world s'
                  | .owned _ s' => [{ addr := 0, lock := default, fp := fun m => (getPtrs c.world s').flatMap (·.fp m) }]
                  | s' => getPtrs c.world s'
                inner S))
      | _ => none
    for e in seg do
      match info?, e with
      | some (sorting, ptrs), .raw k x r _ =>
        if kindBlocking k && r != .no then
          let unitIdx (y : LockId) : Nat := (ptrs.findIdx? fun p => p.leaves.contains y).getD 1000
          let pos (y : LockId) : Nat :=
            ((ptrs.find? fun p => p.leaves.contains y).map fun p => (p.leaves.findIdx? (· == y)).getD 0).getD 0
          let addrOf (y : LockId) : Nat := ((ptrs.find? fun p => p.leaves.contains y).map (·.addr)).getD 0
          let bad := st.held.filter fun (y, _) =>
            !((unitIdx y == unitIdx x && pos y < pos x) || (sorting && unitIdx y != unitIdx x && addrOf y < addrOf x))
          if !bad.isEmpty then
            return some s!"blocked on lock {x} while holding {repr bad}: not below it in the acquisition order"
      | _, _ => pure ()
      match holdStep st e with
      | .ok s' => st := s'
      | .error msg => return some msg
  return none

/-- C02 (sequential half): data accesses happen only under a suitable hold (audit), every read
observes the value of the most recent write to that same lock (whatever collection, position
or API it went through), and a scoped closure runs only while all its locks are held. -/
def checkC02 (c : Case) (t : Transcript) : Option String := Id.run do
  let C : Ctx := { W := c.world, colls := c.colls, outer := c.outer }
  let mut st : HSt := {}
  let mut vals : List (LockId × Nat) := []
  let segs := segments t.evs
  let mut i := 0
  for s in c.prog do
    let seg := segs.getD i []
    i := i + 1
    for e in seg do
      match e with
      | .acc x true v _ => vals := (x, v) :: vals.filter (·.1 != x)
      | .acc x false v _ =>
        let want := ((vals.find? (·.1 == x)).map (·.2)).getD 0
        if v != want then return some s!"read of lock {x} saw {v}, the last exclusive section left {want}"
      | .mark n =>
        if n == mkBody then
          match s with
          | .ses ses =>
            let want := declHolds (C.shape ses.coll) ses.mode
            if !sameMultiset st.held want then
              return some s!"closure invoked holding {repr st.held}, not all of {repr want}"
          | _ => pure ()
      | _ => pure ()
      match holdStep st e with
      | .ok s' => st := s'
      | .error msg => return some msg
  return none

def checkProp (prop : String) (c : Case) (t : Transcript) : Option String :=
  match prop with
  | "C01" => checkC01 c t
  | "C02" => checkC02 c t
  -- C03: "whenever any API gives the thread its key back, every lock covered by that guard or call
  -- has already been released": the key must not be obtainable inside a raw unlock of a session
  | "C03" => (checkC14 c t).orElse fun _ => checkHold c t
  | "C05" => checkHold c t
  | "C04" => (checkC04 c t).orElse fun _ => checkHold c t
  | "C06" => checkC06 c t
  | "C07" => checkC07 c t
  | "C08" => checkC08 c t
  | "C09" => checkC09 c t
  | "C10" => checkC10 c t
  | "C11" => (checkC11 c t).orElse fun _ => checkHold c t
  | "C12" => checkC12 c t
  | "C13" => checkC13 c t
  | "C14" => checkC14 c t
  | "C17" => (checkC17 c t).orElse fun _ => checkHold c t
  | _ => none

end HLV
