/-
  HLV.Model.Seq — sequential (one client thread, scripted environment) semantics used by the
  T1 correspondence runs, and the canonical transcript format shared with the Rust harness.

  The client is thread 0. Locks may be pre-held by "the other thread" (tid 1). A blocking
  acquisition of a lock held by the other thread makes the environment release it first
  (event `E<x>`); the script can make a particular raw operation (keyed by lock, kind and
  occurrence among the *raw* operations of that kind on that lock) answer "refused"
  (transient contention, only for `try`) or panic (raw-lock fault).
-/
import HLV.Model.Api
import HLV.Model.Env
namespace HLV

inductive OpKind | lockX | lockS | tryX | tryS | unlockX | unlockS
  deriving DecidableEq, Repr, Inhabited

def OpKind.code : OpKind → String
  | .lockX => "LX" | .lockS => "LS" | .tryX => "TX" | .tryS => "TS" | .unlockX => "UX" | .unlockS => "US"

def opKind? : Op → Option (OpKind × LockId)
  | .acq .excl true x => some (.lockX, x)
  | .acq .shared true x => some (.lockS, x)
  | .acq .excl false x => some (.tryX, x)
  | .acq .shared false x => some (.tryS, x)
  | .rel .excl x => some (.unlockX, x)
  | .rel .shared x => some (.unlockS, x)
  | _ => none

structure Decision where
  x : LockId
  kind : OpKind
  occ : Nat
  ans : Resp
  deriving Repr, Inhabited, DecidableEq

abbrev Script := List Decision

def Script.find (s : Script) (x : LockId) (k : OpKind) (occ : Nat) : Option Resp :=
  (s.find? fun d => d.x == x && d.kind == k && d.occ == occ).map (·.ans)

/-- transcript events -/
inductive TEv
  | raw (k : OpKind) (x : LockId) (r : Resp) (bad : Bool)
  | envRel (x : LockId)
  | acc (x : LockId) (write : Bool) (v : Nat) (bad : Bool)
  | mark (n : Nat)
  | pois (p : PoisonId) (b : Bool)   -- poison flag `p` observed changed (sampled at raw operations)
  deriving DecidableEq, Repr, Inhabited

inductive Terminal | done | unwound | spin | abort | selfDeadlock | outOfFuel
  deriving DecidableEq, Repr, Inhabited

structure SeqSt where
  env : Env
  counts : List ((LockId × OpKind) × Nat) := []
  trace : List TEv := []          -- reversed
  evs : List Ev := []             -- reversed, full model events (incl. internal ones)
  np : Nat := 0                   -- number of poison flags observed
  seenPoison : List Bool := []    -- their values at the last raw operation

def SeqSt.count (s : SeqSt) (x : LockId) (k : OpKind) : Nat :=
  ((s.counts.find? fun c => c.1 == (x, k)).map (·.2)).getD 0

def SeqSt.bump (s : SeqSt) (x : LockId) (k : OpKind) : SeqSt :=
  let n := s.count x k
  { s with counts := ((x, k), n + 1) :: s.counts.filter (fun c => c.1 != (x, k)) }

def me : Tid := 0
def other : Tid := 1

def tevOf (e : Ev) : Option TEv :=
  match e.op with
  | .access x w => some (.acc x w.isSome e.val e.bad)
  | .mark n => some (.mark n)
  | o => if e.raw then (opKind? o).map fun (k, x) => .raw k x e.resp e.bad else none

def SeqSt.log (s : SeqSt) (e : Ev) : SeqSt :=
  { s with evs := e :: s.evs, trace := match tevOf e with | some t => t :: s.trace | none => s.trace }

/-- Environment releases the other thread's holds of `x`. -/
def envRelease (e : Env) (x : LockId) : Env :=
  let s := e.locks x
  e.setLock x { s with writer := if s.writer == some other then none else s.writer,
                        readers := s.readers.filter (· != other) }

/-- The harness samples the poison flags at every raw-lock operation and reports changes. -/
def SeqSt.samplePoison (s : SeqSt) : SeqSt :=
  let now := (List.range s.np).map fun p => s.env.poison p
  let changes := (List.range s.np).filterMap fun p =>
    if now.getD p false != s.seenPoison.getD p false then some (TEv.pois p (now.getD p false)) else none
  { s with trace := changes.reverse ++ s.trace, seenPoison := now }

/-- Answer one operation of the client. `none` = self-deadlock. -/
def seqAnswer (script : Script) (s : SeqSt) (o : Op) : Option (Resp × SeqSt) :=
  let plain (s : SeqSt) (fault : Bool) : Option (Resp × SeqSt) :=
    match s.env.step .readerPref me o fault with
    | .stepped r env ev => some (r, { (s.log ev) with env := env })
    | .blocked _ =>
      -- held by the other thread: it releases; held by the client itself: self-deadlock
      match o with
      | .acq _ _ x =>
        let env' := envRelease s.env x
        match env'.step .readerPref me o false with
        | .stepped r env ev =>
          let s1 := { s with trace := .envRel x :: s.trace, env := env' }
          some (r, { (s1.log ev) with env := env })
        | .blocked _ => none
      | _ => none
  match opKind? o with
  | some (k, x) =>
    if (s.env.locks x).killed && (k != .unlockX && k != .unlockS) then plain s false
    else
      let s := s.samplePoison
      -- the harness's raw unlock asks `ThreadKey::get()`: obtainable iff no key of this thread is alive
      let s := if (k == .unlockX || k == .unlockS) && !s.env.keyFlag me
               then { s with trace := .mark mkKeyInUnlock :: s.trace } else s
      let occ := s.count x k
      let s' := s.bump x k
      match script.find x k occ with
      | some .panic => plain s' true
      | some .no =>
        if k == .tryX || k == .tryS then
          some (.no, s'.log { tid := me, op := o, resp := .no })
        else plain s' false
      | _ => plain s' false
  | none =>
    match o with
    | .poisonClear _ =>
      -- the harness also samples the flags right after a `clear_poison()`
      (plain s false).map fun (r, s') => (r, s'.samplePoison)
    | _ => plain s false

def seqRun {α : Type} (script : Script) : Nat → SeqSt → Prog Unit α → Terminal × SeqSt
  | 0, s, _ => (.outOfFuel, s)
  | _ + 1, s, .done _ => (.done, s)
  | _ + 1, s, .unwind _ => (.unwound, s)
  | _ + 1, s, .spin => (.spin, s)
  | _ + 1, s, .abort => (.abort, s)
  | n + 1, s, .op o k =>
    match seqAnswer script s o with
    | some (r, s') => seqRun script n s' (k r)
    | none => (.selfDeadlock, s)

/-! ### canonical text -/

def Resp.code : Resp → String | .ok => "+" | .no => "-" | .panic => "!"

def TEv.text : TEv → String
  | .raw k x r b => s!"{k.code}{x}{r.code}" ++ (if b then "?" else "")
  | .envRel x => s!"E{x}"
  | .acc x w v b => (if w then "w" else "r") ++ s!"{x}={v}" ++ (if b then "?" else "")
  | .mark n => s!"m{n}"
  | .pois p b => s!"p{p}" ++ (if b then "+" else "-")

def Terminal.text : Terminal → String
  | .done => "done" | .unwound => "unwound" | .spin => "spin" | .abort => "abort"
  | .selfDeadlock => "selfdeadlock" | .outOfFuel => "fuel"

def lockStText (s : LockSt) : String :=
  let held := match s.writer with
    | some t => s!"W{t}"
    | none => if s.readers.isEmpty then "F" else "R" ++ ",".intercalate ((s.readers.mergeSort (· ≤ ·)).map toString)
  held ++ (if s.killed then "k" else "")

def finalText (n : Nat) (np : Nat) (e : Env) : String :=
  " ".intercalate ((List.range n).map fun x => lockStText (e.locks x)) ++ ";" ++
  "".intercalate ((List.range np).map fun p => if e.poison p then "P" else "-") ++ ";" ++
  (if e.keyFlag me then "K" else "-")

end HLV
