/-
  HLV.Model.Env — the shared state: raw-lock table (the `lock_api` contract as happylock's
  leaf wrappers use it), per-lock `killed` flags, per-thread key flags, poison flags.
-/
import HLV.Model.Prog
namespace HLV

inductive Policy | readerPref | writerPref
  deriving DecidableEq, Repr, Inhabited

structure LockSt where
  writer  : Option Tid := none
  readers : List Tid := []
  waitW   : List Tid := []      -- writers registered as waiting (writer-preferring policy)
  killed  : Bool := false       -- `Mutex.poison` / `RwLock.poison` field
  value   : Nat := 0            -- abstract protected datum
  deriving Repr, Inhabited, DecidableEq

def LockSt.free (s : LockSt) : Bool := s.writer.isNone && s.readers.isEmpty

def grantable (pol : Policy) (s : LockSt) : Mode → Bool
  | .excl   => s.free
  | .shared => s.writer.isNone &&
      (match pol with | .readerPref => true | .writerPref => s.waitW.isEmpty)

def LockSt.holds (s : LockSt) (t : Tid) : Mode → Bool
  | .excl => s.writer == some t
  | .shared => s.readers.contains t

def LockSt.take (s : LockSt) (t : Tid) : Mode → LockSt
  | .excl => { s with writer := some t, waitW := s.waitW.erase t }
  | .shared => { s with readers := t :: s.readers }

def LockSt.release (s : LockSt) (t : Tid) : Mode → LockSt
  | .excl => { s with writer := none }
  | .shared => { s with readers := s.readers.erase t }

structure Env where
  locks   : LockId → LockSt := fun _ => {}
  keyFlag : Tid → Bool := fun _ => false
  poison  : PoisonId → Bool := fun _ => false
  deriving Inhabited

def Env.setLock (e : Env) (x : LockId) (s : LockSt) : Env :=
  { e with locks := fun y => if y = x then s else e.locks y }
def Env.setKey (e : Env) (t : Tid) (b : Bool) : Env :=
  { e with keyFlag := fun u => if u = t then b else e.keyFlag u }
def Env.setPoison (e : Env) (p : PoisonId) (b : Bool) : Env :=
  { e with poison := fun q => if q = p then b else e.poison q }

/-- One observable event. `raw` says whether a `lock_api` operation was issued (a `try` or
blocking acquisition of a killed lock answers without touching the raw lock); `bad` is the
audit flag: a release that does not match a hold of the issuing thread in that mode, or a
data access without a suitable hold. `val` is the datum seen/left by an `access`. -/
structure Ev where
  tid : Tid
  op  : Op
  resp : Resp
  raw : Bool := true
  bad : Bool := false
  val : Nat := 0
  deriving Repr, Inhabited, DecidableEq

inductive StepRes
  | blocked (env : Env)                    -- not enabled; `env` may record a waiting writer
  | stepped (r : Resp) (env : Env) (ev : Ev)
  deriving Inhabited

def StepRes.env : StepRes → Env
  | .stepped _ e _ => e
  | .blocked e => e

/-- The effect of one operation of thread `t`. `fault = true` makes a raw-lock operation
panic *before* it has any effect on the raw lock; happylock's wrapper then sets `killed`.
`ThreadKey::get` is modelled as the code is after the `then(|| …)` repair (test-and-set);
see `Model/Legacy.lean` for the eager `then_some` version. -/
def Env.step (pol : Policy) (e : Env) (t : Tid) (o : Op) (fault : Bool) : StepRes :=
  match o with
  | .acq m blocking x =>
    let s := e.locks x
    if s.killed then
      -- blocking: `assert!(!killed)` panics; try: returns false. No raw operation.
      .stepped (if blocking then .panic else .no) e
        { tid := t, op := o, resp := if blocking then .panic else .no, raw := false }
    else if fault then
      .stepped .panic (e.setLock x { s with killed := true }) { tid := t, op := o, resp := .panic }
    else if grantable pol s m then
      .stepped .ok (e.setLock x (s.take t m)) { tid := t, op := o, resp := .ok }
    else if blocking then
      match pol, m with
      | .writerPref, .excl =>
        .blocked (if s.waitW.contains t then e else e.setLock x { s with waitW := t :: s.waitW })
      | _, _ => .blocked e
    else
      .stepped .no e { tid := t, op := o, resp := .no }
  | .rel m x =>
    let s := e.locks x
    if fault then
      .stepped .panic (e.setLock x { s with killed := true }) { tid := t, op := o, resp := .panic }
    else
      let bad := !(s.holds t m)
      .stepped .ok (e.setLock x (s.release t m)) { tid := t, op := o, resp := .ok, bad := bad }
  | .kill x =>
    let s := e.locks x
    .stepped .ok (e.setLock x { s with killed := true }) { tid := t, op := o, resp := .ok, raw := false }
  | .access x w =>
    let s := e.locks x
    match w with
    | some v =>
      .stepped .ok (e.setLock x { s with value := v })
        { tid := t, op := o, resp := .ok, raw := false, bad := !(s.holds t .excl), val := v }
    | none =>
      .stepped .ok e
        { tid := t, op := o, resp := .ok, raw := false,
          bad := !(s.holds t .excl || s.holds t .shared), val := s.value }
  | .keyGet =>
    if e.keyFlag t then .stepped .no e { tid := t, op := o, resp := .no, raw := false }
    else .stepped .ok (e.setKey t true) { tid := t, op := o, resp := .ok, raw := false }
  | .keyDrop => .stepped .ok (e.setKey t false) { tid := t, op := o, resp := .ok, raw := false }
  | .keyForget => .stepped .ok e { tid := t, op := o, resp := .ok, raw := false }
  | .poisonSet p => .stepped .ok (e.setPoison p true) { tid := t, op := o, resp := .ok, raw := false }
  | .poisonClear p => .stepped .ok (e.setPoison p false) { tid := t, op := o, resp := .ok, raw := false }
  | .poisonGet p =>
    let r := if e.poison p then Resp.ok else Resp.no
    .stepped r e { tid := t, op := o, resp := r, raw := false }
  | .mark _ => .stepped .ok e { tid := t, op := o, resp := .ok, raw := false }

end HLV
