/-
  HLV.Model.Algo — one definition per Rust function of `collection/utils.rs`,
  `collection/retry.rs` and the `RawLock` impls of the collections.

  `RawLockM` is the model of `&dyn RawLock`: a record of the code each method runs.
  The read and write variants of the Rust functions are textually parallel; the model has
  one definition parametric in `Mode` (the correspondence harness runs both variants).
-/
import HLV.Model.Prog
namespace HLV

open Prog

/-- Model of a `&dyn RawLock` trait object. -/
structure RawLockM where
  acq  : Mode → Prog Unit Unit      -- raw_write / raw_read
  try_ : Mode → Prog Unit Bool      -- raw_try_write / raw_try_read
  rel  : Mode → Prog Unit Unit      -- raw_unlock_write / raw_unlock_read
  kill : Prog Unit Unit             -- poison
  deriving Inhabited

/-- `impl RawLock for RwLock<T, R>` (rwlock/rwlock.rs). -/
def rwLeaf (x : LockId) : RawLockM where
  acq m := op (.acq m true x) fun r => match r with | .ok => done () | _ => unwind ()
  try_ m := op (.acq m false x) fun r =>
    match r with | .ok => done true | .no => done false | .panic => unwind ()
  rel m := op (.rel m x) fun r => match r with | .panic => unwind () | _ => done ()
  kill := op (.kill x) fun _ => done ()

/-- `impl RawLock for Mutex<T, R>` (mutex/mutex.rs): the read methods call the write methods. -/
def mutexLeaf (x : LockId) : RawLockM where
  acq _ := (rwLeaf x).acq .excl
  try_ _ := (rwLeaf x).try_ .excl
  rel _ := (rwLeaf x).rel .excl
  kill := (rwLeaf x).kill

/-- `utils::unlock_all_writes/reads`: unlock every lock even if some unlocks panic; the first
panic continues unwinding afterwards. `p` = "a panic is pending". -/
def unlockAllFrom (m : Mode) : List RawLockM → Bool → Prog Unit Unit
  | [], p => if p then unwind () else done ()
  | l :: ls, p => bindX (l.rel m) (fun _ => unlockAllFrom m ls true) (fun _ => unlockAllFrom m ls p)

def unlockAll (m : Mode) (ls : List RawLockM) : Prog Unit Unit := unlockAllFrom m ls false

/-- `utils::attempt_to_recover_writes/reads_from_panic`. -/
def recover (m : Mode) (ls : List RawLockM) : Prog Unit Unit := unlockAll m ls

/-- body of `utils::ordered_write/read`; the cell is `locked`. -/
def orderedAcqBody (m : Mode) : List RawLockM → Nat → Prog Nat Unit
  | [], _ => done ()
  | l :: ls, locked => call locked (l.acq m) fun _ => orderedAcqBody m ls (locked + 1)

/-- `utils::ordered_write/read`. -/
def orderedAcq (m : Mode) (ls : List RawLockM) : Prog Unit Unit :=
  handle () (orderedAcqBody m ls 0) (fun locked => recover m (ls.take locked))

/-- body of `utils::ordered_try_write/read`: `i` is the loop index, the cell is `locked`;
`all` is the whole slice (for the rollback `&locks[0..i]`). -/
def orderedTryBody (m : Mode) (all : List RawLockM) : List RawLockM → Nat → Nat → Prog Nat Bool
  | [], _, _ => done true
  | l :: ls, i, locked =>
    call locked (l.try_ m) fun b =>
      if b then orderedTryBody m all ls (i + 1) (locked + 1)
      else
        -- `locked.set(0); unlock_all(&locks[0..i]); return false`
        call 0 (unlockAll m (all.take i)) fun _ => done false

/-- `utils::ordered_try_write/read`. -/
def orderedTry (m : Mode) (ls : List RawLockM) : Prog Unit Bool :=
  handle () (orderedTryBody m ls ls 0 0) (fun locked => recover m (ls.take locked))

/-- cells of `RetryingLockCollection::raw_write/raw_read`. -/
structure RetryCells where
  firstIndex : Nat := 0
  firstLocked : Bool := false
  locked : Nat := 0
  deriving Repr, Inhabited, DecidableEq

/-- The `for (i, lock) in locks.iter().enumerate()` loop of retry's `raw_write/raw_read`.
Returns `none` when every member is held (the `break`), `some i` when the try at index `i`
failed and the round was rolled back (`continue 'outer` with `first_index = i`). -/
def retryInner (m : Mode) (all : List RawLockM) : List RawLockM → Nat → RetryCells → Prog RetryCells (Option Nat)
  | [], _, _ => done none
  | l :: ls, i, c =>
    if i = c.firstIndex then retryInner m all ls (i + 1) c
    else
      call c (l.try_ m) fun b =>
        if b then retryInner m all ls (i + 1) { c with locked := i + 1 }
        else
          -- locked.set(0); first_locked.set(first_index >= i);
          let c1 : RetryCells := { c with locked := 0, firstLocked := decide (c.firstIndex ≥ i) }
          call c1 (recover m (all.take i)) fun _ =>
            -- if first_locked.replace(false) { locks[first_index].raw_unlock(); }
            let c2 : RetryCells := { c1 with firstLocked := false }
            if c1.firstLocked then
              call c2 ((all.getD c.firstIndex default).rel m) fun _ => done (some i)
            else done (some i)

/-- The `'outer: loop` of retry's `raw_write/raw_read`, with `fuel` rounds. -/
def retryOuter (m : Mode) (all : List RawLockM) : Nat → RetryCells → Prog RetryCells Unit
  | 0, _ => spin
  | fuel + 1, c =>
    call c ((all.getD c.firstIndex default).acq m) fun _ =>
      let c1 : RetryCells := { c with firstLocked := true }
      Prog.bind (retryInner m all all 0 c1) fun r =>
        match r with
        | none => done ()
        | some i => retryOuter m all fuel { firstIndex := i, firstLocked := false, locked := 0 }

/-- the unwind handler of retry's `raw_write/raw_read`. -/
def retryCatch (m : Mode) (all : List RawLockM) (c : RetryCells) : Prog Unit Unit :=
  let held := all.take c.locked
  let held := if c.firstLocked && decide (c.firstIndex ≥ c.locked)
              then held ++ [all.getD c.firstIndex default] else held
  recover m held

/-- `RetryingLockCollection::raw_write/raw_read`. -/
def retryAcq (m : Mode) (fuel : Nat) (ls : List RawLockM) : Prog Unit Unit :=
  if ls.isEmpty then done ()
  else handle () (retryOuter m ls fuel {}) (retryCatch m ls)

/-- body of `RetryingLockCollection::raw_try_write/raw_try_read`. -/
def retryTryBody (m : Mode) (all : List RawLockM) : List RawLockM → Nat → Nat → Prog Nat Bool
  | [], _, _ => done true
  | l :: ls, i, locked =>
    call locked (l.try_ m) fun b =>
      if b then retryTryBody m all ls (i + 1) (locked + 1)
      else call 0 (recover m (all.take i)) fun _ => done false

def retryTry (m : Mode) (ls : List RawLockM) : Prog Unit Bool :=
  if ls.isEmpty then done true
  else handle () (retryTryBody m ls ls 0 0) (fun locked => recover m (ls.take locked))

def killAll : List RawLockM → Prog Unit Unit
  | [] => done ()
  | l :: ls => Prog.bind l.kill fun _ => killAll ls

/-- `impl RawLock for BoxedLockCollection / RefLockCollection` over the *sorted* lock list,
and `impl RawLock for OwnedLockCollection` over the listing order. -/
def orderedLock (ls : List RawLockM) : RawLockM where
  acq m := orderedAcq m ls
  try_ m := orderedTry m ls
  rel m := unlockAll m ls
  kill := killAll ls

/-- `impl RawLock for RetryingLockCollection`. -/
def retryLock (fuel : Nat) (ls : List RawLockM) : RawLockM where
  acq m := retryAcq m fuel ls
  try_ m := retryTry m ls
  rel m := unlockAll m ls
  kill := killAll ls

end HLV
