/-
  HLV.Model.CheckOwn — expectation for the drop-counting harness (C16), computed from the
  ownership model: values at declared positions (`build`, `setPos`, `flatten`), every payload
  dropped exactly once.
-/
import HLV.Model.Own
import HLV.Model.Parse
namespace HLV.Own

partial def parseOShape : List Char → Option (OShape × List Char)
  | 'm' :: r => some (.leaf, r)
  | 'r' :: r => some (.leaf, r)
  | c :: '(' :: r =>
    let rec items (cs : List Char) (acc : List OShape) : Option (List OShape × List Char) :=
      match cs with
      | ')' :: r' => some (acc.reverse, r')
      | ',' :: r' => items r' acc
      | _ => match parseOShape cs with
        | some (s, r') => items r' (s :: acc)
        | none => none
    match items r [] with
    | some (ss, r') =>
      if c == 'U' || c == 'A' || c == 'V' || c == 'X' then some (.node ss, r')
      else match ss with
        | [s] => some (.wrap s, r')
        | _ => none
    | none => none
  | _ => none

/-- shapes joined by '+' are separate values observed together -/
def parseShapes (s : String) : Option OShape :=
  let parts := s.splitOn "+"
  (parts.mapM fun (p : String) => match parseOShape p.toList with
    | some (sh, []) => some sh
    | _ => none).map fun l => match l with
      | [x] => x
      | xs => .node xs

def parseWrites (path : String) : List (Nat × Nat) :=
  match path.splitOn "(" with
  | [_, rest] =>
    ((rest.splitOn ")").headD "" |>.splitOn ",").filterMap fun w =>
      match w.splitOn ":=" with
      | [i, v] => match i.toNat?, v.toNat? with
        | some i, some v => some (i, v)
        | _, _ => none
      | _ => none
  | _ => []

def checkDropsLine (line : String) : Option String :=
  match line.splitOn ";" with
  | [shape, path, vals, drops] =>
    let vals := ((vals.drop 7).toString.splitOn ",").filterMap (·.toNat?)
    let drops := ((drops.drop 6).toString.splitOn ",").filterMap (·.toNat?)
    if shape == "U(m,&s,&s)" then
      -- payload 0 belongs to the enclosing frame; each rejected try_new must have dropped the
      -- payload its input owned
      let want := if path.startsWith "boxed" then [0, 1] else if path.startsWith "retry" then [0, 1, 1]
        else if path.startsWith "ref" then [0, 1, 1, 1] else [1, 1, 1, 1]
      if drops == want && vals.isEmpty then none
      else some s!"{shape};{path}: drop counts {drops}, expected {want}"
    else match parseShapes shape with
    | none => some s!"unparsable shape {shape}"
    | some sh =>
      let n := sh.size
      let t0 := (build sh ((List.range n).map (· + 100))).1
      let base := t0.flatten
      let bumped := if (path.splitOn "get_mut").length > 1 then base.map (· + 1000) else base
      let t1 := (build sh bumped).1
      let t2 := (parseWrites path).foldl (fun t (i, v) => t.setPos i v) t1
      let observes := (path.splitOn "into_inner").length > 1 || (path.splitOn "into_iter").length > 1
        || (path.splitOn "write").length > 1
      let wantVals := if observes then t2.flatten else []
      let wantDrops := List.replicate n 1
      if vals != wantVals then some s!"{shape};{path}: values {vals}, expected {wantVals} (declared positions)"
      else if drops != wantDrops then some s!"{shape};{path}: drop counts {drops}, expected every payload dropped exactly once"
      else none
  | _ => some s!"malformed line {line}"

end HLV.Own
