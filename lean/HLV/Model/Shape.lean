/-
  HLV.Model.Shape — what a lockable value looks like (`lockable.rs`, the `Lockable` impls of
  every type), what an enclosing collection sees of it (`get_ptrs`), and which `RawLock`
  implementation its own type has.
-/
import HLV.Model.Algo
namespace HLV

/-- The shape of a `Lockable` value. References (`&T`, `&mut T`) are transparent and not
represented; tuples, arrays, `Vec` and `Box<[T]>` all behave as `seq` for locking. -/
inductive Shape
  | mutex (x : LockId)
  | rwlock (x : LockId)
  | seq (ss : List Shape)
  | poisonable (p : PoisonId) (s : Shape)
  | boxed (s : Shape)                  -- BoxedLockCollection<S>
  | refc (s : Shape)                   -- RefLockCollection<'_, S>
  | retry (s : Shape)                  -- RetryingLockCollection<S>
  | owned (a : Nat) (s : Shape)        -- OwnedLockCollection<S> living at address `a`
  deriving Repr, Inhabited

/-- One entry of the `Vec<&dyn RawLock>` filled by `get_ptrs`: the address used for sorting
and duplicate detection, the trait object, and (for specifications) the holds it stands for. -/
structure Ptr where
  addr : Nat
  lock : RawLockM
  fp : Mode → List (LockId × Mode)   -- the holds an acquisition in mode `m` obtains
  deriving Inhabited

def Ptr.leaves (p : Ptr) : List LockId := (p.fp .excl).map (·.1)

def sortPtrs (ps : List Ptr) : List Ptr := ps.mergeSort (fun a b => a.addr ≤ b.addr)

/-- World parameters of the model: the address of every leaf lock, and the number of
rounds the retrying acquisition loop is unrolled (any value; theorems are for all). -/
structure World where
  addr : LockId → Nat
  fuel : Nat := 8

mutual
/-- `Lockable::get_ptrs`. -/
def getPtrs (W : World) : Shape → List Ptr
  | .mutex x => [{ addr := W.addr x, lock := mutexLeaf x, fp := fun _ => [(x, .excl)] }]
  | .rwlock x => [{ addr := W.addr x, lock := rwLeaf x, fp := fun m => [(x, m)] }]
  | .seq ss => getPtrsL W ss
  | .poisonable _ s => getPtrs W s
  | .boxed s => sortPtrs (getPtrs W s)
  | .refc s => sortPtrs (getPtrs W s)
  | .retry s => getPtrs W s
  | .owned a s =>
    let ps := getPtrs W s
    [{ addr := a, lock := orderedLock (ps.map (·.lock)), fp := fun m => ps.flatMap (·.fp m) }]
def getPtrsL (W : World) : List Shape → List Ptr
  | [] => []
  | s :: ss => getPtrs W s ++ getPtrsL W ss
end

/-- The `RawLock` impl of the shape's own type (`None` for plain containers, which have none). -/
def toRaw? (W : World) : Shape → Option RawLockM
  | .mutex x => some (mutexLeaf x)
  | .rwlock x => some (rwLeaf x)
  | .seq _ => none
  | .poisonable _ s => toRaw? W s
  | .boxed s => some (orderedLock ((sortPtrs (getPtrs W s)).map (·.lock)))
  | .refc s => some (orderedLock ((sortPtrs (getPtrs W s)).map (·.lock)))
  | .retry s => some (retryLock W.fuel ((getPtrs W s).map (·.lock)))
  | .owned _ s => some (orderedLock ((getPtrs W s).map (·.lock)))

def toRaw (W : World) (s : Shape) : RawLockM := (toRaw? W s).getD default

mutual
/-- Leaf locks in *declared* order — the order of the positions of `guard()` / `data_mut()`. -/
def declLeaves : Shape → List LockId
  | .mutex x => [x]
  | .rwlock x => [x]
  | .seq ss => declLeavesL ss
  | .poisonable _ s => declLeaves s
  | .boxed s => declLeaves s
  | .refc s => declLeaves s
  | .retry s => declLeaves s
  | .owned _ s => declLeaves s
def declLeavesL : List Shape → List LockId
  | [] => []
  | s :: ss => declLeaves s ++ declLeavesL ss
end

mutual
/-- The holds a successful acquisition of the shape in mode `m` consists of, in declared
order: every leaf once; a `Mutex` is always held exclusively. -/
def holdsOf : Shape → Mode → List (LockId × Mode)
  | .mutex x, _ => [(x, .excl)]
  | .rwlock x, m => [(x, m)]
  | .seq ss, m => holdsOfL ss m
  | .poisonable _ s, m => holdsOf s m
  | .boxed s, m => holdsOf s m
  | .refc s, m => holdsOf s m
  | .retry s, m => holdsOf s m
  | .owned _ s, m => holdsOf s m
def holdsOfL : List Shape → Mode → List (LockId × Mode)
  | [], _ => []
  | s :: ss, m => holdsOf s m ++ holdsOfL ss m
end

mutual
/-- `Sharable` is implemented (no `Mutex` leaf anywhere). -/
def sharable : Shape → Bool
  | .mutex _ => false
  | .rwlock _ => true
  | .seq ss => sharableL ss
  | .poisonable _ s => sharable s
  | .boxed s => sharable s
  | .refc s => sharable s
  | .retry s => sharable s
  | .owned _ s => sharable s
def sharableL : List Shape → Bool
  | [] => true
  | s :: ss => sharable s && sharableL ss
end

/-- One element of a guard in declared order: either the `MutexRef`/`RwLock*Ref` of a leaf or
the `PoisonRef` wrapper around what follows (its `Drop` runs *before* the wrapped guard's). -/
inductive GuardItem
  | leaf (x : LockId) (isMutex : Bool)
  | poisonRef (p : PoisonId)
  deriving Repr, DecidableEq, Inhabited

mutual
/-- Drop order of `guard()` / `read_guard()` of a shape. -/
def guardItems : Shape → List GuardItem
  | .mutex x => [.leaf x true]
  | .rwlock x => [.leaf x false]
  | .seq ss => guardItemsL ss
  | .poisonable p s => .poisonRef p :: guardItems s
  | .boxed s => guardItems s
  | .refc s => guardItems s
  | .retry s => guardItems s
  | .owned _ s => guardItems s
def guardItemsL : List Shape → List GuardItem
  | [] => []
  | s :: ss => guardItems s ++ guardItemsL ss
end

mutual
/-- Poison flags in the order `guard()`/`data_mut()` read them (only the set matters). -/
def poisonIds : Shape → List PoisonId
  | .mutex _ => []
  | .rwlock _ => []
  | .seq ss => poisonIdsL ss
  | .poisonable p s => p :: poisonIds s
  | .boxed s => poisonIds s
  | .refc s => poisonIds s
  | .retry s => poisonIds s
  | .owned _ s => poisonIds s
def poisonIdsL : List Shape → List PoisonId
  | [] => []
  | s :: ss => poisonIds s ++ poisonIdsL ss
end

/-! ### the checked constructors' duplicate test -/

/-- `utils::ordered_contains_duplicates`: `windows(2).any(addr_eq)` on the sorted list -/
def adjacentDup : List Nat → Bool
  | a :: b :: r => a == b || adjacentDup (b :: r)
  | _ => false

/-- `BoxedLockCollection::try_new` / `RefLockCollection::try_new` return `Some` -/
def tryNewSorted (W : World) (s : Shape) : Bool :=
  !adjacentDup ((sortPtrs (getPtrs W s)).map (·.addr))

/-- `retry.rs contains_duplicates`: scan with a hash set of the addresses seen so far -/
def seenDup : List Nat → List Nat → Bool
  | [], _ => false
  | a :: r, seen => seen.contains a || seenDup r (a :: seen)

/-- `RetryingLockCollection::try_new` returns `Some` -/
def tryNewRetry (W : World) (s : Shape) : Bool :=
  !seenDup ((getPtrs W s).map (·.addr)) []

end HLV
