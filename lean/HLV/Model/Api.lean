/-
  HLV.Model.Api — the public API as programs: guard construction and destruction, the four
  API flavours on every lockable kind, `Poisonable`, `Debug`, `ThreadKey`, and the small
  statement language in which client programs (histories) are written.
-/
import HLV.Model.Shape
namespace HLV
open Prog

/-! ### marks (API boundaries made visible in traces) -/
abbrev mkBeginBlocking : Nat := 1   -- a blocking acquiring API call starts
abbrev mkBeginTry : Nat := 2   -- a try_* API call starts
abbrev mkBeginNonAcq : Nat := 3   -- a non-acquiring operation starts (Debug, is_poisoned, …)
abbrev mkEndCall : Nat := 4   -- the call returned or unwound
abbrev mkKeyBack : Nat := 5   -- the API has given the thread its key back (or left it usable)
abbrev mkBody : Nat := 6   -- the scoped closure was invoked
abbrev mkUserPanic     : Nat := 7   -- user code panics (while a guard is alive / inside a closure)
abbrev mkOutOk : Nat := 10
abbrev mkOutWouldBlock : Nat := 11
abbrev mkOutPoisoned : Nat := 12  -- acquired, result was `Err(PoisonError)` carrying the guard/data
abbrev mkOutPanic : Nat := 13
abbrev mkOutNoKey : Nat := 14  -- statement skipped: the program owns no key to pass
abbrev mkGotKey : Nat := 20  -- `ThreadKey::get()` inside a hold returned a key
abbrev mkNoKeyInside : Nat := 21
abbrev mkSeenPoisoned : Nat := 22  -- `is_poisoned()` inside a hold
abbrev mkSeenClean : Nat := 23
abbrev mkKeyInUnlock : Nat := 24  -- (harness probe) the thread's key was obtainable inside a raw unlock

inductive Api | lock | tryLock | scoped | scopedTry
  deriving DecidableEq, Repr, Inhabited
inductive KeyStyle | owned | lent
  deriving DecidableEq, Repr, Inhabited
inductive Exit | drop | unlock | forget | panic | ret
  deriving DecidableEq, Repr, Inhabited

inductive BodyStep
  | write (pos : Nat) (v : Nat)   -- through position `pos` (declared order) of the guard / closure argument
  | read (pos : Nat)
  | dbg (c : Nat) (bomb : Option LockId := none)  -- `format!("{:?}", collection c)` while holding; `bomb`: the payload of that lock panics in its own `Debug`
  | getKey                        -- `ThreadKey::get()` while holding (dropped at once if obtained)
  | isPoisoned (c : Nat)
  | clearPoison (c : Nat)         -- `clear_poison()` on collection c while holding
  deriving DecidableEq, Repr, Inhabited

structure Session where
  coll : Nat
  api : Api
  mode : Mode
  key : KeyStyle
  body : List BodyStep
  exit : Exit
  deriving Repr, Inhabited

inductive Stmt
  | ses (s : Session)
  | get | dropKey | forgetKey
  | dbg (c : Nat) (bomb : Option LockId := none) | isPoisoned (c : Nat) | clearPoison (c : Nat)
  | tryNew (kind : Nat) (s : Shape)      -- `try_new` of a boxed (0) / ref (1) / retrying (2) collection over `s`
  deriving Repr, Inhabited

/-- static context of a program: the world and the table of collections -/
structure Ctx where
  W : World
  colls : List Shape
  /-- the whole program runs inside a destructor while the thread unwinds from an unrelated panic
  (inner panics are caught inside that destructor) -/
  outer : Bool := false

def Ctx.shape (C : Ctx) (c : Nat) : Shape := C.colls.getD c (.seq [])

/-! ### guards -/

/-- `guard()` / `read_guard()` / `data_mut()` / `data_ref()`: the poison flags are read when
the value is produced. Returns whether some flag was set (top-level `Err`). -/
def readPoison : List PoisonId → Bool → Prog Unit Bool
  | [], b => done b
  | p :: ps, b => op (.poisonGet p) fun r => readPoison ps (b || r == .ok)

/-- Dropping a guard (declared order). `panicking`: the thread is already unwinding (then
`PoisonRef::drop` sets its flag, and a panicking release aborts the process). A panicking
release while not yet unwinding starts unwinding; the remaining elements are still dropped. -/
def guardDrop (m : Mode) : List GuardItem → Bool → Prog Unit Bool
  | [], panicking => done panicking
  | .poisonRef p :: gs, panicking =>
    if panicking then op (.poisonSet p) fun _ => guardDrop m gs panicking
    else guardDrop m gs panicking
  | .leaf x isMutex :: gs, panicking =>
    op (.rel (if isMutex then .excl else m) x) fun r =>
      match r with
      | .panic => if panicking then abort else guardDrop m gs true
      | _ => guardDrop m gs panicking

/-- Dropping a guard on the normal path *while the thread is already unwinding from an unrelated
panic* (the call was made from a destructor): `PoisonRef::drop` tests `thread::panicking()`,
which is true, so every wrapper inside poisons although nothing panicked during the hold. A
panicking release is an ordinary panic here (the guard is not dropped by cleanup code). -/
def guardDropO (m : Mode) : List GuardItem → Bool → Prog Unit Bool
  | [], panicking => done panicking
  | .poisonRef p :: gs, panicking => op (.poisonSet p) fun _ => guardDropO m gs panicking
  | .leaf x isMutex :: gs, panicking =>
    op (.rel (if isMutex then .excl else m) x) fun r =>
      match r with
      | .panic => if panicking then abort else guardDropO m gs true
      | _ => guardDropO m gs panicking

/-- the guard goes away normally; `outer`: from a destructor during an unrelated unwind -/
def guardDropN (outer : Bool) (m : Mode) (items : List GuardItem) : Prog Unit Bool :=
  if outer then guardDropO m items false else guardDrop m items false

/-! ### Debug -/

/-- `Debug` of a leaf: `try_lock_no_key` / `try_read_no_key`, the value is formatted, the
`MutexRef` / `RwLockReadRef` is dropped; `<locked>` if the try fails. `bomb`: the payload's own
`Debug` impl panics (user code): the transient hold is released by the `*Ref`'s destructor
while that panic unwinds (a fault in this release is a panic during unwinding: abort). -/
def debugLeaf (x : LockId) (m : Mode) (bomb : Nat := 0) : Prog Unit Unit :=
  op (.acq m false x) fun r =>
    match r with
    | .ok => op (.access x none) fun _ =>
        if bomb = 1 then
          op (.mark mkUserPanic) fun _ => op (.rel m x) fun r' =>
            match r' with | .panic => abort | _ => unwind ()
        else op (.rel m x) fun r' =>
               match r' with
               | .panic => unwind ()
               -- bomb = 2: the payload's `Debug` returned `Err(fmt::Error)`; the `*Ref` is dropped
               -- normally, the error propagates, and `format!` turns it into a panic at the end
               | _ => if bomb = 2 then op (.mark mkUserPanic) fun _ => unwind () else done ()
    | .no => done ()
    | .panic => unwind ()

/-- which way the payload of leaf `x` misbehaves when formatted: `b = some x` panics,
`b = some (x + 1000)` returns `Err(fmt::Error)` -/
def bombKind (b : Option LockId) (x : LockId) : Nat :=
  if b == some x then 1 else if b == some (x + 1000) then 2 else 0

mutual
/-- `impl Debug` of every lock and collection type. -/
def debugFmt (b : Option LockId) : Shape → Prog Unit Unit
  | .mutex x => debugLeaf x .excl (bombKind b x)
  | .rwlock x => debugLeaf x .shared (bombKind b x)
  | .seq ss => debugFmtL b ss
  | .poisonable _ s => debugFmt b s        -- derived: `inner`, then the flag
  | .boxed _ => done ()                    -- prints the raw pointer field only
  | .refc s => debugFmt b s
  | .retry s => debugFmt b s               -- derived
  | .owned _ s => debugFmt b s             -- derived
def debugFmtL (b : Option LockId) : List Shape → Prog Unit Unit
  | [] => done ()
  | s :: ss => Prog.bind (debugFmt b s) fun _ => debugFmtL b ss
end

/-! ### sessions -/

structure UserSt where
  keys : Nat := 0          -- key tokens the program owns
  deriving Repr, Inhabited, DecidableEq

def isPoisonableTop : Shape → Option PoisonId
  | .poisonable p _ => some p
  | _ => none

/-- Is the scoped API of this kind the one in `poisonable.rs` (unlock before `drop(key)`, poison
on unwind) rather than `utils::scoped_*` / `Mutex`/`RwLock` (same order as utils)? -/
def bodySteps (C : Ctx) (S : Shape) : List BodyStep → Prog Unit Unit
  | [] => done ()
  | .write pos v :: bs =>
    op (.access ((declLeaves S).getD pos 0) (some v)) fun _ => bodySteps C S bs
  | .read pos :: bs =>
    op (.access ((declLeaves S).getD pos 0) none) fun _ => bodySteps C S bs
  | .dbg c b :: bs =>
    op (.mark mkBeginNonAcq) fun _ =>
      bindX (debugFmt b (C.shape c))
        (fun _ => op (.mark mkEndCall) fun _ => unwind ())
        (fun _ => op (.mark mkEndCall) fun _ => bodySteps C S bs)
  | .getKey :: bs =>
    op .keyGet fun r =>
      match r with
      | .ok => op (.mark mkGotKey) fun _ => op .keyDrop fun _ => bodySteps C S bs
      | _ => op (.mark mkNoKeyInside) fun _ => bodySteps C S bs
  | .isPoisoned c :: bs =>
    match isPoisonableTop (C.shape c) with
    | some p => op (.poisonGet p) fun r =>
        op (.mark (if r == .ok then mkSeenPoisoned else mkSeenClean)) fun _ => bodySteps C S bs
    | none => bodySteps C S bs
  | .clearPoison c :: bs =>
    match isPoisonableTop (C.shape c) with
    | some p => op (.poisonClear p) fun _ => bodySteps C S bs
    | none => bodySteps C S bs

def dropKeyIf (k : KeyStyle) {α : Type} (cont : Prog Unit α) : Prog Unit α :=
  match k with
  | .owned => op .keyDrop fun _ => cont
  | .lent => cont

/-- The part of a guard-API session after the acquisition succeeded. -/
def guardPhase (C : Ctx) (S : Shape) (ses : Session) (u : UserSt) : Prog Unit (Nat × UserSt) :=
  let items := guardItems S
  -- `guard()`: poison flags are read; Err(PoisonError(guard)) still carries the guard
  Prog.bind (readPoison (poisonIds S) false) fun poisoned =>
  op (.mark mkEndCall) fun _ =>
  let out := if poisoned then mkOutPoisoned else mkOutOk
  -- the body may unwind only through a panicking `Debug` (raw fault); treat like a user panic
  let afterPanic : Prog Unit (Nat × UserSt) :=
    Prog.bind (guardDrop ses.mode items true) fun _ =>
      op .keyDrop fun _ => op (.mark mkKeyBack) fun _ => done (mkOutPanic, u)
  bindX (bodySteps C S ses.body) (fun _ => afterPanic) fun _ =>
    match ses.exit with
    | .forget => op .keyForget fun _ => done (out, u)
    | .panic => op (.mark mkUserPanic) fun _ => afterPanic
    | .unlock =>
      Prog.bind (guardDropN C.outer ses.mode items) fun panicked =>
        if panicked then op .keyDrop fun _ => op (.mark mkKeyBack) fun _ => done (mkOutPanic, u)
        else op (.mark mkKeyBack) fun _ => done (out, { u with keys := u.keys + 1 })
    | _ =>
      Prog.bind (guardDropN C.outer ses.mode items) fun panicked =>
        op .keyDrop fun _ => op (.mark mkKeyBack) fun _ =>
          done (if panicked then mkOutPanic else out, u)

/-- A session through the guard APIs (`lock`, `try_lock`, `read`, …) with an owned key. -/
def guardSession (C : Ctx) (S : Shape) (ses : Session) (u : UserSt) : Prog Unit (Nat × UserSt) :=
  let L := toRaw C.W S
  let u' : UserSt := { u with keys := u.keys - 1 }
  match ses.api with
  | .tryLock =>
    op (.mark mkBeginTry) fun _ =>
      bindX (L.try_ ses.mode)
        (fun _ => op .keyDrop fun _ => op (.mark mkEndCall) fun _ => op (.mark mkKeyBack) fun _ =>
          done (mkOutPanic, u'))
        fun b =>
          if b then guardPhase C S ses u'
          else op (.mark mkEndCall) fun _ => op (.mark mkKeyBack) fun _ => done (mkOutWouldBlock, u)
  | _ =>
    op (.mark mkBeginBlocking) fun _ =>
      bindX (L.acq ses.mode)
        (fun _ => op .keyDrop fun _ => op (.mark mkEndCall) fun _ => op (.mark mkKeyBack) fun _ =>
          done (mkOutPanic, u'))
        fun _ => guardPhase C S ses u'

/-- A session through the scoped APIs: the locks are released first, then the key is given
back; `Poisonable::scoped_*` additionally poisons when the closure unwinds. -/
def scopedUnwound (ses : Session) (u' : UserSt) : Prog Unit (Nat × UserSt) :=
  dropKeyIf ses.key (op (.mark mkEndCall) fun _ => op (.mark mkKeyBack) fun _ => done (mkOutPanic, u'))

/-- the part of a scoped session after the acquisition succeeded -/
def scopedHeld (C : Ctx) (S : Shape) (ses : Session) (u' : UserSt) : Prog Unit (Nat × UserSt) :=
  let L := toRaw C.W S
  -- data_mut()/data_ref(): poison flags are read
  Prog.bind (readPoison (poisonIds S) false) fun poisoned =>
  op (.mark mkBody) fun _ =>
  let out := if poisoned then mkOutPoisoned else mkOutOk
  let closure : Prog Unit Unit :=
    Prog.bind (bodySteps C S ses.body) fun _ =>
      match ses.exit with | .panic => op (.mark mkUserPanic) fun _ => unwind () | _ => done ()
  let onUnwind : Prog Unit Unit :=
    match isPoisonableTop S with
    | some p => op (.poisonSet p) fun _ => L.rel ses.mode
    | none => L.rel ses.mode
  -- every scoped function releases first and gives the key back afterwards (since the repair of
  -- D14 also `utils::scoped_*`, `Mutex::scoped_*`, `RwLock::scoped_*`, which used to `drop(key)` first)
  bindX (handle () closure (fun _ => onUnwind)) (fun _ => scopedUnwound ses u') fun _ =>
    bindX (L.rel ses.mode) (fun _ => scopedUnwound ses u') fun _ =>
      dropKeyIf ses.key (op (.mark mkEndCall) fun _ => op (.mark mkKeyBack) fun _ => done (out, u'))

def scopedSessionWith (C : Ctx) (S : Shape) (ses : Session) (u u' : UserSt) :
    Prog Unit (Nat × UserSt) :=
  let L := toRaw C.W S
  match ses.api with
  | .scopedTry =>
    op (.mark mkBeginTry) fun _ =>
      bindX (L.try_ ses.mode) (fun _ => scopedUnwound ses u') fun b =>
        if b then scopedHeld C S ses u'
        else op (.mark mkEndCall) fun _ => op (.mark mkKeyBack) fun _ => done (mkOutWouldBlock, u)
  | _ =>
    op (.mark mkBeginBlocking) fun _ =>
      bindX (L.acq ses.mode) (fun _ => scopedUnwound ses u') fun _ => scopedHeld C S ses u'

def scopedSession (C : Ctx) (S : Shape) (ses : Session) (u : UserSt) : Prog Unit (Nat × UserSt) :=
  scopedSessionWith C S ses u
    (match ses.key with | .owned => { u with keys := u.keys - 1 } | .lent => u)

def session (C : Ctx) (ses : Session) (u : UserSt) : Prog Unit (Nat × UserSt) :=
  let S := C.shape ses.coll
  if u.keys = 0 then done (mkOutNoKey, u)
  else match ses.api with
    | .lock | .tryLock => guardSession C S ses u
    | .scoped | .scopedTry => scopedSession C S ses u

/-- One statement; every statement runs under the client's `catch_unwind`, its outcome is
recorded with a mark. -/
def stmt (C : Ctx) (s : Stmt) (u : UserSt) : Prog Unit UserSt :=
  match s with
  | .ses ses =>
    Prog.bind (session C ses u) fun (out, u') => op (.mark out) fun _ => done u'
  | .get =>
    op .keyGet fun r =>
      match r with
      | .ok => op (.mark mkOutOk) fun _ => done { u with keys := u.keys + 1 }
      | _ => op (.mark mkOutWouldBlock) fun _ => done u
  | .dropKey =>
    if u.keys = 0 then op (.mark mkOutNoKey) fun _ => done u
    else op .keyDrop fun _ => op (.mark mkOutOk) fun _ => done { u with keys := u.keys - 1 }
  | .forgetKey =>
    if u.keys = 0 then op (.mark mkOutNoKey) fun _ => done u
    else op .keyForget fun _ => op (.mark mkOutOk) fun _ => done { u with keys := u.keys - 1 }
  | .dbg c b =>
    op (.mark mkBeginNonAcq) fun _ =>
      bindX (debugFmt b (C.shape c))
        (fun _ => op (.mark mkEndCall) fun _ => op (.mark mkOutPanic) fun _ => done u)
        (fun _ => op (.mark mkEndCall) fun _ => op (.mark mkOutOk) fun _ => done u)
  | .isPoisoned c =>
    match isPoisonableTop (C.shape c) with
    | some p => op (.poisonGet p) fun r =>
        op (.mark (if r == .ok then mkOutPoisoned else mkOutOk)) fun _ => done u
    | none => op (.mark mkOutNoKey) fun _ => done u
  | .clearPoison c =>
    match isPoisonableTop (C.shape c) with
    | some p => op (.poisonClear p) fun _ => op (.mark mkOutOk) fun _ => done u
    | none => op (.mark mkOutNoKey) fun _ => done u
  | .tryNew kind s =>
    -- no lock operation at all: the constructors only compare addresses
    let accepted := if kind = 2 then tryNewRetry C.W s else tryNewSorted C.W s
    op (.mark (if accepted then mkOutOk else mkOutWouldBlock)) fun _ => done u

def program (C : Ctx) : List Stmt → UserSt → Prog Unit UserSt
  | [], u => done u
  | s :: ss, u => Prog.bind (stmt C s u) fun u' => program C ss u'

end HLV
