/-
  HLV.Logic.Body — "the scoped closure is invoked exactly once if and only if the acquisition
  succeeded" (C04): a ghost counter of the `mkBody` marks (the moment the user's closure is
  entered) along every execution of every scoped session, for any answers of the raw locks.
-/
import HLV.Logic.OpsIn
namespace HLV
open Prog

/-- ghost: how often the closure has been entered -/
def BodySpec : Spec Nat :=
  { pre := fun _ _ => True, adm := fun _ _ _ => True,
    upd := fun n o _ => if o = .mark mkBody then n + 1 else n }

/-- everything except entering the closure -/
def notBody (o : Op) : Prop := o ≠ .mark mkBody

theorem notBody_of_lock {o : Op} (h : isLockOp o) : notBody o := by
  cases o <;> first | exact absurd h id | (intro h'; cases h')

variable {ε α : Type}

/-- frame: a program that never enters the closure leaves the counter alone -/
theorem body_frame {p : Prog ε α} (hp : OpsIn notBody p) (Q : α → Nat → Prop) (E : ε → Nat → Prop) (n : Nat)
    (hQ : ∀ a, Q a n) (hE : ∀ e, E e n) : wp BodySpec p Q E n :=
  wp_of_opsIn BodySpec notBody hp (fun _ _ _ => trivial)
    (fun g o r ho => by simp only [BodySpec]; rw [if_neg ho]) Q E n hQ hE

theorem mark_notBody {k : Nat} (h : k ≠ mkBody) : notBody (.mark k) := by
  intro h'; cases h'; exact h rfl

/-- one operation that does not enter the closure -/
theorem bwp_skip (o : Op) (c : Resp → Prog ε α) (Q : α → Nat → Prop) (E : ε → Nat → Prop) (n : Nat)
    (ho : notBody o) (h : ∀ r, wp BodySpec (c r) Q E n) : wp BodySpec (.op o c) Q E n := by
  refine ⟨trivial, fun r _ => ?_⟩
  have : BodySpec.upd n o r = n := by simp only [BodySpec]; rw [if_neg ho]
  rw [this]
  exact h r

theorem debugLeaf_notBody (x : LockId) (m : Mode) (b : Nat) : OpsIn notBody (debugLeaf x m b) := by
  unfold debugLeaf
  refine .op _ _ (by intro h; cases h) (fun r => ?_)
  cases r
  · refine .op _ _ (by intro h; cases h) (fun _ => ?_)
    split
    · refine .op _ _ (mark_notBody (by decide)) (fun _ => .op _ _ (by intro h; cases h) (fun r' => ?_))
      cases r' <;> first | exact .abort | exact .unwind _
    · refine .op _ _ (by intro h; cases h) (fun r' => ?_)
      cases r' <;> dsimp only <;>
        first | exact .unwind _ | (split <;> first | exact .done _ | exact .op _ _ (mark_notBody (by decide)) (fun _ => .unwind _))
  · exact .done _
  · exact .unwind _

mutual
theorem debugFmt_notBody (b : Option LockId) : ∀ S : Shape, OpsIn notBody (debugFmt b S)
  | .mutex x => by simpa [debugFmt] using debugLeaf_notBody x .excl _
  | .rwlock x => by simpa [debugFmt] using debugLeaf_notBody x .shared _
  | .seq ss => by simpa [debugFmt] using debugFmtL_notBody b ss
  | .poisonable _ s => by simpa [debugFmt] using debugFmt_notBody b s
  | .boxed _ => by simp only [debugFmt]; exact .done _
  | .refc s => by simpa [debugFmt] using debugFmt_notBody b s
  | .retry s => by simpa [debugFmt] using debugFmt_notBody b s
  | .owned _ s => by simpa [debugFmt] using debugFmt_notBody b s
theorem debugFmtL_notBody (b : Option LockId) : ∀ ss : List Shape, OpsIn notBody (debugFmtL b ss)
  | [] => by simp only [debugFmtL]; exact .done _
  | s :: ss => by
    simp only [debugFmtL]
    exact (debugFmt_notBody b s).bind (fun _ => debugFmtL_notBody b ss)
end

theorem bodySteps_notBody (C : Ctx) (S : Shape) : ∀ body : List BodyStep, OpsIn notBody (bodySteps C S body)
  | [] => .done _
  | .write _ _ :: bs => .op _ _ (by intro h; cases h) (fun _ => bodySteps_notBody C S bs)
  | .read _ :: bs => .op _ _ (by intro h; cases h) (fun _ => bodySteps_notBody C S bs)
  | .dbg c b :: bs => by
    simp only [bodySteps]
    refine .op _ _ (mark_notBody (by decide)) (fun _ => ?_)
    exact (debugFmt_notBody b _).bindX
      (fun _ => .op _ _ (mark_notBody (by decide)) (fun _ => .unwind _))
      (fun _ => .op _ _ (mark_notBody (by decide)) (fun _ => bodySteps_notBody C S bs))
  | .getKey :: bs => by
    simp only [bodySteps]
    refine .op _ _ (by intro h; cases h) (fun r => ?_)
    cases r
    · exact .op _ _ (mark_notBody (by decide)) (fun _ => .op _ _ (by intro h; cases h) (fun _ => bodySteps_notBody C S bs))
    · exact .op _ _ (mark_notBody (by decide)) (fun _ => bodySteps_notBody C S bs)
    · exact .op _ _ (mark_notBody (by decide)) (fun _ => bodySteps_notBody C S bs)
  | .isPoisoned c :: bs => by
    simp only [bodySteps]
    split
    · refine .op _ _ (by intro h; cases h) (fun r => .op _ _ (mark_notBody ?_) (fun _ => bodySteps_notBody C S bs))
      split <;> decide
    · exact bodySteps_notBody C S bs
  | .clearPoison c :: bs => by
    simp only [bodySteps]
    split
    · exact .op _ _ (by intro h; cases h) (fun _ => bodySteps_notBody C S bs)
    · exact bodySteps_notBody C S bs

theorem readPoison_notBody : ∀ (ps : List PoisonId) (b : Bool), OpsIn notBody (readPoison ps b)
  | [], _ => .done _
  | _ :: ps, _ => .op _ _ (by intro h; cases h) (fun _ => readPoison_notBody ps _)

theorem lock_notBody (W : World) (S : Shape) :
    (∀ m, OpsIn notBody ((toRaw W S).acq m)) ∧ (∀ m, OpsIn notBody ((toRaw W S).try_ m)) ∧
    (∀ m, OpsIn notBody ((toRaw W S).rel m)) := by
  obtain ⟨h1, h2, h3, _⟩ := toRaw_lockOnly W S
  exact ⟨fun m => (h1 m).mono (fun _ => notBody_of_lock), fun m => (h2 m).mono (fun _ => notBody_of_lock),
    fun m => (h3 m).mono (fun _ => notBody_of_lock)⟩

theorem dropKeyIf_notBody (k : KeyStyle) {cont : Prog Unit α} (h : OpsIn notBody cont) :
    OpsIn notBody (dropKeyIf k cont) := by
  unfold dropKeyIf
  split
  · exact .op _ _ (by intro h; cases h) (fun _ => h)
  · exact h

theorem scopedUnwound_notBody (ses : Session) (u' : UserSt) : OpsIn notBody (scopedUnwound ses u') :=
  dropKeyIf_notBody _ (.op _ _ (mark_notBody (by decide)) (fun _ => .op _ _ (mark_notBody (by decide)) (fun _ => .done _)))

/-- everything in `scopedHeld` after the closure has been entered -/
theorem scopedHeld_after_notBody (C : Ctx) (S : Shape) (ses : Session) (u' : UserSt) (out : Nat) :
    OpsIn notBody
      (bindX (handle () (Prog.bind (bodySteps C S ses.body) fun _ =>
          match ses.exit with | .panic => op (.mark mkUserPanic) fun _ => unwind () | _ => done ())
          (fun _ => match isPoisonableTop S with
            | some p => op (.poisonSet p) fun _ => (toRaw C.W S).rel ses.mode
            | none => (toRaw C.W S).rel ses.mode))
        (fun _ => scopedUnwound ses u') fun _ =>
        bindX ((toRaw C.W S).rel ses.mode) (fun _ => scopedUnwound ses u') fun _ =>
          dropKeyIf ses.key (op (.mark mkEndCall) fun _ => op (.mark mkKeyBack) fun _ => done (out, u'))) := by
  obtain ⟨_, _, hrel⟩ := lock_notBody C.W S
  have hend : ∀ r : Nat × UserSt, OpsIn notBody
      (op (.mark mkEndCall) fun _ => op (.mark mkKeyBack) fun _ => (done r : Prog Unit (Nat × UserSt))) :=
    fun r => .op _ _ (mark_notBody (by decide)) (fun _ => .op _ _ (mark_notBody (by decide)) (fun _ => .done _))
  refine OpsIn.bindX (OpsIn.handle ?_ ?_) (fun _ => scopedUnwound_notBody ses u') (fun _ => ?_)
  · refine (bodySteps_notBody C S ses.body).bind (fun _ => ?_)
    split
    · exact .op _ _ (mark_notBody (by decide)) (fun _ => .unwind _)
    · exact .done _
  · intro _
    split
    · exact .op _ _ (by intro h; cases h) (fun _ => hrel _)
    · exact hrel _
  · exact (hrel _).bindX (fun _ => scopedUnwound_notBody ses u') (fun _ => dropKeyIf_notBody _ (hend _))

/-- **The closure of a scoped call is entered exactly once iff the acquisition succeeded.**
Along every execution (any answers, faults, panics) of a scoped session: either the closure was
entered exactly once (the acquisition had succeeded), or it was not entered at all and the call
reports `WouldBlock` (the try failed) or a panic (the acquisition itself unwound) — never `Ok`. -/
theorem scopedSession_body_once (C : Ctx) (S : Shape) (ses : Session) (u u' : UserSt) (n : Nat) :
    wp BodySpec (scopedSessionWith C S ses u u')
      (fun r n' => n' = n + 1 ∨ (n' = n ∧ (r.1 = mkOutWouldBlock ∨ r.1 = mkOutPanic)))
      (fun (_ : Unit) _ => True) n := by
  obtain ⟨hacq, htry, _⟩ := lock_notBody C.W S
  -- the acquisition unwound: not entered, the call reports a panic
  have hunw : wp BodySpec (scopedUnwound ses u')
      (fun r n' => n' = n + 1 ∨ (n' = n ∧ (r.1 = mkOutWouldBlock ∨ r.1 = mkOutPanic)))
      (fun (_ : Unit) _ => True) n := by
    unfold scopedUnwound dropKeyIf
    split
    · exact bwp_skip _ _ _ _ _ (by intro h; cases h) (fun _ => bwp_skip _ _ _ _ _ (mark_notBody (by decide))
        (fun _ => bwp_skip _ _ _ _ _ (mark_notBody (by decide)) (fun _ => Or.inr ⟨rfl, Or.inr rfl⟩)))
    · exact bwp_skip _ _ _ _ _ (mark_notBody (by decide))
        (fun _ => bwp_skip _ _ _ _ _ (mark_notBody (by decide)) (fun _ => Or.inr ⟨rfl, Or.inr rfl⟩))
  -- the held phase: exactly one entry, whatever happens afterwards
  have hheld : wp BodySpec (scopedHeld C S ses u')
      (fun r n' => n' = n + 1 ∨ (n' = n ∧ (r.1 = mkOutWouldBlock ∨ r.1 = mkOutPanic)))
      (fun (_ : Unit) _ => True) n := by
    unfold scopedHeld
    rw [wp_bind]
    refine body_frame (readPoison_notBody _ _) _ _ _ (fun poisoned => ?_) (fun _ => trivial)
    refine ⟨trivial, fun _ _ => ?_⟩
    have hn : BodySpec.upd n (.mark mkBody) Resp.ok = n + 1 := by simp [BodySpec]
    have hn' : ∀ r, BodySpec.upd n (.mark mkBody) r = n + 1 := by intro r; simp [BodySpec]
    rw [hn']
    exact body_frame (scopedHeld_after_notBody C S ses u' _) _ _ _ (fun r => Or.inl rfl) (fun _ => trivial)
  unfold scopedSessionWith
  split
  · refine bwp_skip _ _ _ _ _ (mark_notBody (by decide)) (fun _ => ?_)
    rw [wp_bindX]
    refine body_frame (htry _) _ _ _ (fun b => ?_) (fun _ => hunw)
    cases b
    · simp only [Bool.false_eq_true, if_false]
      exact bwp_skip _ _ _ _ _ (mark_notBody (by decide))
        (fun _ => bwp_skip _ _ _ _ _ (mark_notBody (by decide)) (fun _ => Or.inr ⟨rfl, Or.inl rfl⟩))
    · exact hheld
  · refine bwp_skip _ _ _ _ _ (mark_notBody (by decide)) (fun _ => ?_)
    rw [wp_bindX]
    exact body_frame (hacq _) _ _ _ (fun _ => hheld) (fun _ => hunw)

end HLV
