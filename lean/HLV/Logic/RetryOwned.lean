/-
  HLV.Logic.RetryOwned — what a retrying acquisition may hold when it blocks, with owned groups
  among its members: only earlier leaves of the very unit it is blocked inside.

  The rank discipline holds for every rank function that is increasing inside each owned unit
  (`OrderOwned`). For a given lock `x` we build such a rank that puts `x`'s own unit at the bottom
  (position inside the unit) and every other unit above it; the discipline then says that
  whatever is held when `x` is blocked on sits in `x`'s unit, before `x`.
-/
import HLV.Logic.OrderOwned
namespace HLV

variable (W : World)

/-- the rank increases along every unit `get_ptrs` hands out -/
def UnitsIncr (rank : LockId → Nat) (ps : List Ptr) : Prop :=
  ∀ p ∈ ps, ∀ m, ((p.fp m).map fun k => rank k.1).Pairwise (· < ·)

theorem sublist_flatMap_of_mem {α β : Type} (f : α → List β) : ∀ (l : List α) (a : α), a ∈ l →
    (f a).Sublist (l.flatMap f)
  | b :: l, a, h => by
    rw [List.flatMap_cons]
    rcases List.mem_cons.1 h with h | h
    · subst h; exact List.sublist_append_left _ _
    · exact (sublist_flatMap_of_mem f l a h).trans (List.sublist_append_right _ _)

mutual
theorem fitInside_of_unitsIncr (rank : LockId → Nat) : ∀ S : Shape, UnitsIncr rank (getPtrs W S) → FitInside W rank S
  | .mutex _, _ => trivial
  | .rwlock _, _ => trivial
  | .seq ss, h => by simpa [FitInside] using fitInsideL_of_unitsIncr rank ss (by simpa [getPtrs] using h)
  | .poisonable _ s, h => by simpa [FitInside] using fitInside_of_unitsIncr rank s (by simpa [getPtrs] using h)
  | .boxed s, h => by
    have : UnitsIncr rank (getPtrs W s) := fun p hp => h p (by simpa [getPtrs, sortPtrs_mem] using hp)
    simpa [FitInside] using fitInside_of_unitsIncr rank s this
  | .refc s, h => by
    have : UnitsIncr rank (getPtrs W s) := fun p hp => h p (by simpa [getPtrs, sortPtrs_mem] using hp)
    simpa [FitInside] using fitInside_of_unitsIncr rank s this
  | .retry s, h => by simpa [FitInside] using fitInside_of_unitsIncr rank s (by simpa [getPtrs] using h)
  | .owned a s, h => by
    have h0 : ∀ m, (((getPtrs W s).flatMap (·.fp m)).map fun k => rank k.1).Pairwise (· < ·) := by
      intro m
      have := h { addr := a, lock := orderedLock ((getPtrs W s).map (·.lock)), fp := fun m => (getPtrs W s).flatMap (·.fp m) }
        (by simp [getPtrs]) m
      simpa using this
    simp only [FitInside]
    refine ⟨h0, ?_⟩
    apply fitInside_of_unitsIncr rank s
    intro q hq m
    have hs := sublist_flatMap_of_mem (fun p : Ptr => p.fp m) (getPtrs W s) q hq
    exact (h0 m).sublist (hs.map _)
theorem fitInsideL_of_unitsIncr (rank : LockId → Nat) : ∀ ss : List Shape, UnitsIncr rank (getPtrsL W ss) → FitInsideL W rank ss
  | [], _ => trivial
  | s :: ss, h => by
    simp only [FitInsideL]
    exact ⟨fitInside_of_unitsIncr rank s (fun p hp => h p (by simp [getPtrsL, hp])),
           fitInsideL_of_unitsIncr rank ss (fun p hp => h p (by simp [getPtrsL, hp]))⟩
end

/-! ### the rank that puts `x`'s unit at the bottom -/

/-- the unit (as its leaf list) that contains `y` -/
def unitOf (ps : List Ptr) (y : LockId) : Option (List LockId) :=
  (ps.find? fun p => p.leaves.contains y).map (·.leaves)

/-- position inside `x`'s unit for its leaves; everything else sits above the whole unit -/
def rankAt (ps : List Ptr) (N : Nat) (x y : LockId) : Nat :=
  match unitOf ps y with
  | none => N
  | some l => (if l.contains x then 0 else N) + l.idxOf y

theorem unitOf_of_mem : ∀ (ps : List Ptr) (p : Ptr) (y : LockId), p ∈ ps → y ∈ p.leaves →
    (ps.flatMap (·.leaves)).Nodup → unitOf ps y = some p.leaves
  | q :: ps, p, y, hp, hy, hn => by
    rw [List.flatMap_cons, List.nodup_append] at hn
    obtain ⟨_, hn2, hdis⟩ := hn
    unfold unitOf
    rw [List.find?_cons]
    by_cases hq : q.leaves.contains y = true
    · simp only [hq, Option.map_some]
      rcases List.mem_cons.1 hp with h | h
      · rw [h]
      · exfalso
        have h1 : y ∈ q.leaves := by simpa using hq
        have h2 : y ∈ ps.flatMap (·.leaves) := List.mem_flatMap.2 ⟨p, h, hy⟩
        exact hdis y h1 y h2 rfl
    · simp only [hq]
      rcases List.mem_cons.1 hp with h | h
      · subst h; exact absurd (by simpa using hy) hq
      · exact unitOf_of_mem ps p y h hy hn2

theorem idxOf_incr (c : Nat) : ∀ (l : List LockId), l.Nodup → (l.map fun y => c + l.idxOf y).Pairwise (· < ·) := by
  intro l hn
  rw [List.pairwise_iff_getElem]
  intro i j hi hj hij
  simp only [List.getElem_map]
  simp only [List.length_map] at hi hj
  rw [hn.idxOf_getElem i hi, hn.idxOf_getElem j hj]
  omega

theorem flatMap_ids (m : Mode) : ∀ ps : List Ptr, (∀ q ∈ ps, (q.fp m).map (·.1) = q.leaves) →
    (ps.flatMap (·.fp m)).map (·.1) = ps.flatMap (·.leaves)
  | [], _ => rfl
  | q :: ps, h => by
    simp only [List.flatMap_cons, List.map_append]
    rw [h q List.mem_cons_self, flatMap_ids m ps (fun r hr => h r (List.mem_cons_of_mem _ hr))]

mutual
/-- which locks a unit takes does not depend on the mode -/
theorem getPtrs_ids (m : Mode) : ∀ S : Shape, ∀ p ∈ getPtrs W S, (p.fp m).map (·.1) = p.leaves
  | .mutex x, p, hp => by
    simp only [getPtrs, List.mem_singleton] at hp; subst hp; rfl
  | .rwlock x, p, hp => by
    simp only [getPtrs, List.mem_singleton] at hp; subst hp; rfl
  | .seq ss, p, hp => getPtrsL_ids m ss p (by simpa [getPtrs] using hp)
  | .poisonable _ s, p, hp => getPtrs_ids m s p (by simpa [getPtrs] using hp)
  | .boxed s, p, hp => getPtrs_ids m s p (by simpa [getPtrs, sortPtrs_mem] using hp)
  | .refc s, p, hp => getPtrs_ids m s p (by simpa [getPtrs, sortPtrs_mem] using hp)
  | .retry s, p, hp => getPtrs_ids m s p (by simpa [getPtrs] using hp)
  | .owned a s, p, hp => by
    simp only [getPtrs, List.mem_singleton] at hp; subst hp
    have h1 := flatMap_ids m (getPtrs W s) (fun q hq => getPtrs_ids m s q hq)
    have h2 := flatMap_ids .excl (getPtrs W s) (fun q _ => rfl)
    simp only [Ptr.leaves]
    rw [h1, h2]
theorem getPtrsL_ids (m : Mode) : ∀ ss : List Shape, ∀ p ∈ getPtrsL W ss, (p.fp m).map (·.1) = p.leaves
  | [], p, hp => by simp [getPtrsL] at hp
  | s :: ss, p, hp => by
    simp only [getPtrsL, List.mem_append] at hp
    rcases hp with hp | hp
    · exact getPtrs_ids m s p hp
    · exact getPtrsL_ids m ss p hp
end

/-- `rankAt` increases along every unit -/
theorem unitsIncr_rankAt (S : Shape) (N : Nat) (x : LockId)
    (hn : ((getPtrs W S).flatMap (·.leaves)).Nodup) : UnitsIncr (rankAt (getPtrs W S) N x) (getPtrs W S) := by
  intro p hp m
  have hids := getPtrs_ids W m S p hp
  have hnp : p.leaves.Nodup := hn.sublist (sublist_flatMap_of_mem (fun q : Ptr => q.leaves) _ p hp)
  -- along the unit the rank is a constant plus the position
  have hmap : ((p.fp m).map fun k => rankAt (getPtrs W S) N x k.1) =
      p.leaves.map fun y => (if p.leaves.contains x then 0 else N) + p.leaves.idxOf y := by
    rw [← hids, List.map_map]
    apply List.map_congr_left
    intro k hk
    have hy : k.1 ∈ p.leaves := by rw [← hids]; exact List.mem_map.2 ⟨k, hk, rfl⟩
    simp only [Function.comp, rankAt, unitOf_of_mem (getPtrs W S) p k.1 hp hy hn, hids]
  rw [hmap]
  exact idxOf_incr _ p.leaves hnp

/-- what has a smaller `rankAt` than `x` sits in `x`'s unit, before `x` -/
theorem rankAt_lt (ps : List Ptr) (N : Nat) (x y : LockId) (p : Ptr) (hp : p ∈ ps) (hx : x ∈ p.leaves)
    (hn : (ps.flatMap (·.leaves)).Nodup) (hN : p.leaves.length ≤ N)
    (h : rankAt ps N x y < rankAt ps N x x) : y ∈ p.leaves ∧ p.leaves.idxOf y < p.leaves.idxOf x := by
  have hxr : rankAt ps N x x = p.leaves.idxOf x := by
    simp [rankAt, unitOf_of_mem ps p x hp hx hn, hx]
  have hxlt : p.leaves.idxOf x < N := Nat.lt_of_lt_of_le (List.idxOf_lt_length_of_mem hx) hN
  rw [hxr] at h
  unfold rankAt at h
  cases hu : unitOf ps y with
  | none => rw [hu] at h; simp only at h; omega
  | some l =>
    rw [hu] at h
    simp only at h
    by_cases hc : l.contains x = true
    · -- the unit of y contains x: it is x's unit
      simp only [hc, if_true, Nat.zero_add] at h
      unfold unitOf at hu
      cases hf : ps.find? (fun p => p.leaves.contains y) with
      | none => rw [hf] at hu; cases hu
      | some q =>
        rw [hf] at hu
        simp only [Option.map_some, Option.some.injEq] at hu
        have hq := List.mem_of_find?_eq_some hf
        have hqy : y ∈ q.leaves := by simpa using List.find?_some hf
        have hqx : x ∈ q.leaves := by rw [hu]; simpa using hc
        have := unitOf_of_mem ps q x hq hqx hn
        rw [unitOf_of_mem ps p x hp hx hn] at this
        simp only [Option.some.injEq] at this
        rw [← hu, ← this] at h
        exact ⟨by rw [this]; exact hqy, h⟩
    · simp only [hc, Bool.false_eq_true, if_false] at h; omega

end HLV
