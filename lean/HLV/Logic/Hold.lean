/-
  HLV.Logic.Hold — the hold-discipline specification (`HoldSpec n`) shared by C03, C04, C05,
  C09, C11, C12, C17, and the contracts of the leaf locks and of every algorithm under it.

  Ghost state: how many holds of each lock (per mode) the thread owns (`held`), holds whose
  release panicked (`stuck`: still locked, lock killed), how deeply the thread is inside APIs
  that must not block (`depth`), how many panic answers it has received (`panics`).
  `n` bounds the number of panic answers the environment may give (0 = fault-free,
  1 = one-shot fault, any `n` = persistent faults).
-/
import HLV.Logic.Wp
import HLV.Model.Api
namespace HLV

abbrev Held := LockId → Mode → Nat

abbrev Fp := List (LockId × Mode)

def Held.empty : Held := fun _ _ => 0
/-- add / remove a multiset of holds -/
def Held.plus (h : Held) (l : Fp) : Held := fun y m' => h y m' + l.count (y, m')
def Held.minus (h : Held) (l : Fp) : Held := fun y m' => h y m' - l.count (y, m')
def Held.add (h : Held) (x : LockId) (m : Mode) : Held := h.plus [(x, m)]
def Held.sub (h : Held) (x : LockId) (m : Mode) : Held := h.minus [(x, m)]
/-- the thread holds at least the multiset `l` -/
def Held.Covers (h : Held) (l : Fp) : Prop := ∀ y m', l.count (y, m') ≤ h y m'

theorem Held.plus_nil (h : Held) : h.plus [] = h := by funext y m; simp [Held.plus]
theorem Held.minus_nil (h : Held) : h.minus [] = h := by funext y m; simp [Held.minus]
theorem Held.plus_append (h : Held) (a b : Fp) : h.plus (a ++ b) = (h.plus a).plus b := by
  funext y m; simp [Held.plus, List.count_append]; omega
theorem Held.minus_append (h : Held) (a b : Fp) : h.minus (a ++ b) = (h.minus a).minus b := by
  funext y m; simp [Held.minus, List.count_append]; omega
theorem Held.minus_plus (h : Held) (a : Fp) : (h.plus a).minus a = h := by
  funext y m; simp [Held.plus, Held.minus]
theorem Held.plus_comm (h : Held) (a b : Fp) : (h.plus a).plus b = (h.plus b).plus a := by
  funext y m; simp [Held.plus]; omega
theorem Held.plus_append_comm (h : Held) (a b : Fp) : h.plus (a ++ b) = h.plus (b ++ a) := by
  funext y m; simp [Held.plus, List.count_append]; omega
theorem Held.plus_minus_left (h : Held) (a b : Fp) : (h.plus (a ++ b)).minus a = h.plus b := by
  funext y m; simp [Held.plus, Held.minus, List.count_append]; omega
theorem Held.covers_plus_append_left (h : Held) (a b : Fp) : (h.plus (a ++ b)).Covers a := by
  intro y m; simp [Held.plus, List.count_append]; omega
theorem Held.covers_nil (h : Held) : h.Covers [] := by intro y m; simp
theorem Held.covers_plus (h : Held) (a : Fp) : (h.plus a).Covers a := by
  intro y m; simp [Held.plus]
theorem Held.Covers.append {h : Held} {a b : Fp} (hc : h.Covers (a ++ b)) :
    h.Covers a ∧ (h.minus a).Covers b := by
  constructor
  · intro y m; have := hc y m; simp [List.count_append] at this; omega
  · intro y m; have := hc y m; simp [List.count_append, Held.minus] at this ⊢; omega
theorem Held.Covers.pos {h : Held} {x : LockId} {m : Mode} {l : Fp} (hc : h.Covers ((x, m) :: l)) :
    0 < h x m := by
  have := hc x m; simp at this; omega

structure HG where
  held : Held := Held.empty
  stuck : Held := Held.empty
  depth : Nat := 0          -- nesting depth of non-blocking API calls (try_*, Debug, …)
  panics : Nat := 0

def respPanics : Resp → Nat | .panic => 1 | _ => 0

/-- An optional rank discipline (g2 of DESIGN §4). With `none` the specification carries no
ordering obligation (all the theorems about holds are unconditional); with `some rank` a
blocking acquisition of `x` is allowed only while every lock held has a smaller rank. -/
abbrev RankOpt := Option (LockId → Nat)

def Low (ro : RankOpt) (h : Held) (x : LockId) : Prop :=
  match ro with
  | none => True
  | some rank => ∀ y m, 0 < h y m → rank y < rank x

@[simp] theorem Low_none (h : Held) (x : LockId) : Low none h x = True := rfl

theorem Low_empty (ro : RankOpt) (x : LockId) : Low ro Held.empty x := by
  cases ro with
  | none => trivial
  | some rank => intro y m h; exact absurd h (Nat.lt_irrefl 0)

/-- Obligations of the code (g1 … g5 of DESIGN §4). -/
def holdPre (ro : RankOpt) (g : HG) : Op → Prop
  | .acq _ true x => g.depth = 0 ∧ Low ro g.held x    -- g3: never block inside try / non-acquiring APIs; g2: rank
  | .acq _ false _ => True
  | .rel m x => 0 < g.held x m                              -- g1: release only what is held, in its mode
  | .kill _ => False                                        -- happylock itself never kills a lock
  | .access x (some _) => 0 < g.held x .excl                -- g4
  | .access x none => 0 < g.held x .excl ∨ 0 < g.held x .shared
  | .mark n =>                                              -- g5: key handed back ⇒ nothing held;
    (n = mkKeyBack ∨ n = mkBeginBlocking ∨ n = mkBeginTry) →  --     an acquiring call starts ⇒ nothing held
      ∀ x m, g.held x m = 0
  | _ => True

/-- What the environment may answer. -/
def holdAdm (n : Nat) (g : HG) : Op → Resp → Prop
  | .acq _ true _, r => r ≠ .no ∧ (r = .panic → g.panics < n)
  | .acq _ false _, r => r = .panic → g.panics < n
  | .rel _ _, r => r ≠ .no ∧ (r = .panic → g.panics < n)
  | .keyGet, r => r ≠ .panic
  | .poisonGet _, r => r ≠ .panic
  | _, r => r = .ok

def holdUpd (g : HG) : Op → Resp → HG
  | .acq m _ x, .ok => { g with held := g.held.add x m }
  | .acq _ _ _, .panic => { g with panics := g.panics + 1 }
  | .rel m x, .ok => { g with held := g.held.sub x m }
  | .rel m x, .panic =>
    { g with held := g.held.sub x m, stuck := g.stuck.add x m, panics := g.panics + 1 }
  | .mark k, _ =>
    if k = mkBeginTry ∨ k = mkBeginNonAcq then { g with depth := g.depth + 1 }
    else if k = mkEndCall then { g with depth := g.depth - 1 }
    else g
  | _, _ => g

def HoldSpec (n : Nat) (ro : RankOpt) : Spec HG := { pre := holdPre ro, adm := holdAdm n, upd := holdUpd }

/-! ### leaf contracts -/

section leaf
variable (n : Nat) (ro : RankOpt)

theorem rwLeaf_acq (x : LockId) (m : Mode) (Q : Unit → HG → Prop) (E : Unit → HG → Prop) (g : HG)
    (hb : g.depth = 0) (hlow : Low ro g.held x)
    (hok : Q () { g with held := g.held.add x m })
    (hp : g.panics < n → E () { g with panics := g.panics + 1 }) :
    wp (HoldSpec n ro) ((rwLeaf x).acq m) Q E g := by
  refine ⟨⟨hb, hlow⟩, fun r hr => ?_⟩
  cases r with
  | ok => exact hok
  | no => exact absurd rfl hr.1
  | panic => exact hp (hr.2 rfl)

theorem rwLeaf_try (x : LockId) (m : Mode) (Q : Bool → HG → Prop) (E : Unit → HG → Prop) (g : HG)
    (hok : Q true { g with held := g.held.add x m })
    (hno : Q false g)
    (hp : g.panics < n → E () { g with panics := g.panics + 1 }) :
    wp (HoldSpec n ro) ((rwLeaf x).try_ m) Q E g := by
  refine ⟨trivial, fun r hr => ?_⟩
  cases r with
  | ok => exact hok
  | no => exact hno
  | panic => exact hp (hr rfl)

theorem rwLeaf_rel (x : LockId) (m : Mode) (Q : Unit → HG → Prop) (E : Unit → HG → Prop) (g : HG)
    (hh : 0 < g.held x m)
    (hok : Q () { g with held := g.held.sub x m })
    (hp : g.panics < n →
      E () { g with held := g.held.sub x m, stuck := g.stuck.add x m, panics := g.panics + 1 }) :
    wp (HoldSpec n ro) ((rwLeaf x).rel m) Q E g := by
  refine ⟨hh, fun r hr => ?_⟩
  cases r with
  | ok => exact hok
  | no => exact absurd rfl hr.1
  | panic => exact hp (hr.2 rfl)

end leaf

/-- the rank obligation for a whole footprint -/
def LowFp (ro : RankOpt) (h : Held) (fp : Fp) : Prop := ∀ k ∈ fp, Low ro h k.1

/-- every lock of `a` ranks below every lock of `b` (no obligation without a rank) -/
def FpBelow (ro : RankOpt) (a b : Fp) : Prop :=
  match ro with
  | none => True
  | some rank => ∀ x ∈ a, ∀ y ∈ b, rank x.1 < rank y.1

theorem LowFp_empty (ro : RankOpt) (fp : Fp) : LowFp ro Held.empty fp := fun k _ => Low_empty ro k.1

theorem LowFp.mono {ro : RankOpt} {h : Held} {a b : Fp} (hl : LowFp ro h b) (hs : ∀ k ∈ a, k ∈ b) :
    LowFp ro h a := fun k hk => hl k (hs k hk)

theorem LowFp.plus {ro : RankOpt} {h : Held} {a b : Fp} (hl : LowFp ro h b) (hab : FpBelow ro a b) :
    LowFp ro (h.plus a) b := by
  cases ro with
  | none => intro k _; trivial
  | some rank =>
    intro k hk y m hpos
    simp only [Held.plus] at hpos
    by_cases hy : 0 < h y m
    · exact hl k hk y m hy
    · have : 0 < a.count (y, m) := by omega
      exact hab (y, m) (List.count_pos_iff.1 this) k hk

end HLV
