/-
  HLV.Logic.Solo — the *deterministic* reading of the code: one thread running alone against
  the raw-lock table of `Model/Env.lean`, no faults, everything other threads hold frozen
  ("with no concurrent activity"). Where the hold logic (`Logic/Contracts.lean`) says what the
  code may do under any answers, this file says what it *does* under the answers the table
  actually gives: the outcome of `try_*` as a function of the table, and the exact table after.

  Contract `DetLock`; proved for the leaves, for `ordered_try_*` / `unlock_all_*` and for
  `RetryingLockCollection::raw_try_*` over any member list, and for every shape by induction.
-/
import HLV.Logic.Shapes
import HLV.Model.Env
namespace HLV

open Prog

/-- how a solo run ends -/
inductive Out (ε α : Type)
  | done (a : α) (e : Env)
  | unwound (c : ε) (e : Env)
  | spin (e : Env)
  | abort (e : Env)
  | stuck (e : Env)          -- next operation is a blocking acquisition the table does not grant

/-- run `p` as thread `t`, alone, without faults -/
def solo {ε α : Type} (pol : Policy) (t : Tid) : Prog ε α → Env → Out ε α
  | .done a, e => .done a e
  | .unwind c, e => .unwound c e
  | .spin, e => .spin e
  | .abort, e => .abort e
  | .op o k, e =>
    match e.step pol t o false with
    | .stepped r e' _ => solo pol t (k r) e'
    | .blocked e' => .stuck e'

variable {pol : Policy} {t : Tid}

theorem solo_bindX {ε₁ ε₂ α β : Type} (p : Prog ε₁ β) (h : ε₁ → Prog ε₂ α) (k : β → Prog ε₂ α) (e : Env) :
    solo pol t (bindX p h k) e =
      match solo pol t p e with
      | .done b e' => solo pol t (k b) e'
      | .unwound c e' => solo pol t (h c) e'
      | .spin e' => .spin e'
      | .abort e' => .abort e'
      | .stuck e' => .stuck e' := by
  induction p generalizing e with
  | done b => simp [bindX, solo]
  | unwind c => simp [bindX, solo]
  | spin => simp [bindX, solo]
  | abort => simp [bindX, solo]
  | op o c ih =>
    simp only [bindX, solo]
    cases hs : e.step pol t o false with
    | stepped r e' ev => simp only; exact ih r e'
    | blocked e' => simp only

theorem solo_call_done {ε ε' α β : Type} (cells : ε) (callee : Prog ε' β) (k : β → Prog ε α) (e e' : Env) (b : β)
    (h : solo pol t callee e = .done b e') : solo pol t (call cells callee k) e = solo pol t (k b) e' := by
  simp [call, solo_bindX, h]

theorem solo_handle_done {ε ε' α : Type} (outer : ε') (body : Prog ε α) (c : ε → Prog Unit Unit) (e e' : Env) (a : α)
    (h : solo pol t body e = .done a e') : solo pol t (handle outer body c) e = .done a e' := by
  simp [handle, solo_bindX, h, solo]

/-! ### the table after taking / releasing a footprint -/

def Env.take1 (e : Env) (t : Tid) (p : LockId × Mode) : Env := e.setLock p.1 ((e.locks p.1).take t p.2)
def Env.rel1 (e : Env) (t : Tid) (p : LockId × Mode) : Env := e.setLock p.1 ((e.locks p.1).release t p.2)

def takeAll (t : Tid) (fp : Fp) (e : Env) : Env := fp.foldl (fun e p => e.take1 t p) e
def relAll (t : Tid) (fp : Fp) (e : Env) : Env := fp.foldl (fun e p => e.rel1 t p) e

@[simp] theorem takeAll_nil (e : Env) : takeAll t [] e = e := rfl
@[simp] theorem relAll_nil (e : Env) : relAll t [] e = e := rfl
@[simp] theorem takeAll_cons (p : LockId × Mode) (fp : Fp) (e : Env) :
    takeAll t (p :: fp) e = takeAll t fp (e.take1 t p) := rfl
@[simp] theorem relAll_cons (p : LockId × Mode) (fp : Fp) (e : Env) :
    relAll t (p :: fp) e = relAll t fp (e.rel1 t p) := rfl
theorem takeAll_append (a b : Fp) (e : Env) : takeAll t (a ++ b) e = takeAll t b (takeAll t a e) := by
  simp [takeAll, List.foldl_append]
theorem relAll_append (a b : Fp) (e : Env) : relAll t (a ++ b) e = relAll t b (relAll t a e) := by
  simp [relAll, List.foldl_append]

/-- the lock ids of a footprint -/
def Fp.ids (fp : Fp) : List LockId := fp.map (·.1)

@[simp] theorem Fp.ids_nil : Fp.ids [] = [] := rfl
@[simp] theorem Fp.ids_cons (p : LockId × Mode) (fp : Fp) : Fp.ids (p :: fp) = p.1 :: Fp.ids fp := rfl
theorem Fp.ids_append (a b : Fp) : Fp.ids (a ++ b) = Fp.ids a ++ Fp.ids b := by simp [Fp.ids]

theorem setLock_locks_ne (e : Env) (x y : LockId) (s : LockSt) (h : y ≠ x) : (e.setLock x s).locks y = e.locks y := by
  simp [Env.setLock, h]
theorem setLock_locks_eq (e : Env) (x : LockId) (s : LockSt) : (e.setLock x s).locks x = s := by
  simp [Env.setLock]

theorem takeAll_locks_notin (fp : Fp) (e : Env) (x : LockId) (h : x ∉ Fp.ids fp) :
    (takeAll t fp e).locks x = e.locks x := by
  induction fp generalizing e with
  | nil => rfl
  | cons p fp ih =>
    simp only [Fp.ids_cons, List.mem_cons, not_or] at h
    rw [takeAll_cons, ih _ h.2]
    exact setLock_locks_ne _ _ _ _ h.1

theorem relAll_locks_notin (fp : Fp) (e : Env) (x : LockId) (h : x ∉ Fp.ids fp) :
    (relAll t fp e).locks x = e.locks x := by
  induction fp generalizing e with
  | nil => rfl
  | cons p fp ih =>
    simp only [Fp.ids_cons, List.mem_cons, not_or] at h
    rw [relAll_cons, ih _ h.2]
    exact setLock_locks_ne _ _ _ _ h.1

theorem takeAll_locks_in (fp : Fp) (e : Env) (p : LockId × Mode) (hn : (Fp.ids fp).Nodup) (hp : p ∈ fp) :
    (takeAll t fp e).locks p.1 = (e.locks p.1).take t p.2 := by
  induction fp generalizing e with
  | nil => cases hp
  | cons q fp ih =>
    simp only [Fp.ids_cons, List.nodup_cons] at hn
    rcases List.mem_cons.1 hp with rfl | hp
    · rw [takeAll_cons, takeAll_locks_notin _ _ _ hn.1]
      exact setLock_locks_eq _ _ _
    · have hne : p.1 ≠ q.1 := by
        intro h; apply hn.1; rw [← h]; exact List.mem_map_of_mem hp
      rw [takeAll_cons, ih _ hn.2 hp]
      simp [Env.take1, setLock_locks_ne _ _ _ _ hne]

theorem relAll_locks_in (fp : Fp) (e : Env) (p : LockId × Mode) (hn : (Fp.ids fp).Nodup) (hp : p ∈ fp) :
    (relAll t fp e).locks p.1 = (e.locks p.1).release t p.2 := by
  induction fp generalizing e with
  | nil => cases hp
  | cons q fp ih =>
    simp only [Fp.ids_cons, List.nodup_cons] at hn
    rcases List.mem_cons.1 hp with rfl | hp
    · rw [relAll_cons, relAll_locks_notin _ _ _ hn.1]
      exact setLock_locks_eq _ _ _
    · have hne : p.1 ≠ q.1 := by
        intro h; apply hn.1; rw [← h]; exact List.mem_map_of_mem hp
      rw [relAll_cons, ih _ hn.2 hp]
      simp [Env.rel1, setLock_locks_ne _ _ _ _ hne]

@[simp] theorem takeAll_keyFlag (fp : Fp) (e : Env) : (takeAll t fp e).keyFlag = e.keyFlag := by
  induction fp generalizing e with
  | nil => rfl
  | cons p fp ih => rw [takeAll_cons, ih]; rfl
@[simp] theorem takeAll_poison (fp : Fp) (e : Env) : (takeAll t fp e).poison = e.poison := by
  induction fp generalizing e with
  | nil => rfl
  | cons p fp ih => rw [takeAll_cons, ih]; rfl
@[simp] theorem relAll_keyFlag (fp : Fp) (e : Env) : (relAll t fp e).keyFlag = e.keyFlag := by
  induction fp generalizing e with
  | nil => rfl
  | cons p fp ih => rw [relAll_cons, ih]; rfl
@[simp] theorem relAll_poison (fp : Fp) (e : Env) : (relAll t fp e).poison = e.poison := by
  induction fp generalizing e with
  | nil => rfl
  | cons p fp ih => rw [relAll_cons, ih]; rfl

theorem Env.ext' {a b : Env} (h1 : a.locks = b.locks) (h2 : a.keyFlag = b.keyFlag) (h3 : a.poison = b.poison) : a = b := by
  cases a; cases b; simp_all

/-- the raw `try` of one hold is granted by the table -/
def avail (pol : Policy) (e : Env) (p : LockId × Mode) : Bool :=
  !(e.locks p.1).killed && grantable pol (e.locks p.1) p.2

/-- thread `t` is not registered as a waiting writer (it is running) -/
def NotWaiting (t : Tid) (e : Env) : Prop := ∀ x, t ∉ (e.locks x).waitW

theorem avail_takeAll (fp : Fp) (e : Env) (p : LockId × Mode) (h : p.1 ∉ Fp.ids fp) :
    avail pol (takeAll t fp e) p = avail pol e p := by
  simp [avail, takeAll_locks_notin _ _ _ h]

theorem notWaiting_takeAll (fp : Fp) (e : Env) (h : NotWaiting t e) : NotWaiting t (takeAll t fp e) := by
  induction fp generalizing e with
  | nil => exact h
  | cons p fp ih =>
    rw [takeAll_cons]; apply ih
    intro x
    by_cases hx : x = p.1
    · subst hx
      simp only [Env.take1, setLock_locks_eq]
      cases p.2 <;> simp only [LockSt.take]
      · exact h _
      · intro hm; exact h _ (List.mem_of_mem_erase hm)
    · simp only [Env.take1, setLock_locks_ne _ _ _ _ hx]; exact h x

/-- taking what the table grants and releasing it again leaves the table exactly as it was -/
theorem relAll_takeAll (fp : Fp) (e : Env) (hn : (Fp.ids fp).Nodup) (hw : NotWaiting t e)
    (ha : ∀ p ∈ fp, avail pol e p = true) : relAll t fp (takeAll t fp e) = e := by
  apply Env.ext'
  · funext x
    by_cases hx : x ∈ Fp.ids fp
    · obtain ⟨p, hp, rfl⟩ := List.mem_map.1 hx
      rw [relAll_locks_in _ _ _ hn hp, takeAll_locks_in _ _ _ hn hp]
      have := ha p hp
      simp only [avail, Bool.and_eq_true, Bool.not_eq_true'] at this
      rcases p with ⟨x, m⟩
      cases m
      · simp [LockSt.take, LockSt.release]
      · simp only [grantable, LockSt.free, Bool.and_eq_true, Option.isNone_iff_eq_none] at this
        have h3 := hw x
        cases hl : e.locks x with
        | mk w r ww k v =>
          simp only [hl] at this h3
          simp [LockSt.take, LockSt.release, List.erase_of_not_mem h3, this.2.1]
    · rw [relAll_locks_notin _ _ _ hx, takeAll_locks_notin _ _ _ hx]
  · simp
  · simp

/-! ### the deterministic contract -/

/-- What `L` does when run alone against the table: `try_` succeeds exactly when the table
grants every hold of its footprint, takes exactly those holds, and otherwise leaves the table
exactly as it was; `rel` releases exactly the footprint. -/
structure DetLock (pol : Policy) (t : Tid) (L : RawLockM) (fp : FpFun) : Prop where
  try_ok : ∀ m e, NotWaiting t e → (Fp.ids (fp m)).Nodup → (∀ p ∈ fp m, avail pol e p = true) →
    solo pol t (L.try_ m) e = .done true (takeAll t (fp m) e)
  try_no : ∀ m e, NotWaiting t e → (Fp.ids (fp m)).Nodup → ¬ (∀ p ∈ fp m, avail pol e p = true) →
    solo pol t (L.try_ m) e = .done false e
  rel : ∀ m e, solo pol t (L.rel m) e = .done () (relAll t (fp m) e)

theorem det_rwLeaf (x : LockId) : DetLock pol t (rwLeaf x) (fun m => [(x, m)]) where
  try_ok m e _ _ ha := by
    have := ha (x, m) (List.mem_singleton.2 rfl)
    simp only [avail, Bool.and_eq_true, Bool.not_eq_true'] at this
    simp [rwLeaf, solo, Env.step, this.1, this.2, takeAll, Env.take1]
  try_no m e _ _ ha := by
    have : avail pol e (x, m) = false := by
      cases h : avail pol e (x, m)
      · rfl
      · exact absurd (fun p hp => by rw [List.mem_singleton.1 hp]; exact h) ha
    simp only [avail, Bool.and_eq_false_iff, Bool.not_eq_false'] at this
    rcases this with h | h
    · simp [rwLeaf, solo, Env.step, h]
    · by_cases hk : (e.locks x).killed = true
      · simp [rwLeaf, solo, Env.step, hk]
      · simp [rwLeaf, solo, Env.step, hk, h]
  rel m e := by
    simp [rwLeaf, solo, Env.step, relAll, Env.rel1]

theorem det_mutexLeaf (x : LockId) : DetLock pol t (mutexLeaf x) (fun _ => [(x, .excl)]) where
  try_ok m e hw hn ha := (det_rwLeaf (pol := pol) (t := t) x).try_ok .excl e hw hn ha
  try_no m e hw hn ha := (det_rwLeaf (pol := pol) (t := t) x).try_no .excl e hw hn ha
  rel m e := (det_rwLeaf (pol := pol) (t := t) x).rel .excl e

def Members.Det (pol : Policy) (t : Tid) (ms : Members) : Prop := ∀ p ∈ ms, DetLock pol t p.1 p.2

theorem det_unlockAll (ms : Members) (hm : ms.Det pol t) (m : Mode) (e : Env) :
    solo pol t (unlockAll m (Members.locks ms)) e = .done () (relAll t (Members.fp ms m) e) := by
  unfold unlockAll
  induction ms generalizing e with
  | nil => simp [unlockAllFrom, solo]
  | cons p ms ih =>
    simp only [Members.locks_cons, unlockAllFrom, solo_bindX, (hm p (List.mem_cons_self ..)).rel m e]
    rw [ih (fun q hq => hm q (List.mem_cons_of_mem _ hq)), Members.fp_cons, relAll_append]

theorem nodup_append_disjoint {a b : List LockId} (h : (a ++ b).Nodup) : ∀ x ∈ b, x ∉ a := by
  intro x hb ha
  exact (List.nodup_append.1 h).2.2 x ha x hb rfl

/-- the loop of `ordered_try_*` (and of retry's `raw_try_*`, which is the same code) -/
theorem det_tryBody (m : Mode) (e : Env) (hw : NotWaiting t e) :
    ∀ (ls pre : Members), (pre ++ ls).Det pol t → (Fp.ids (Members.fp (pre ++ ls) m)).Nodup →
      (∀ p ∈ Members.fp pre m, avail pol e p = true) →
      solo pol t (orderedTryBody m (Members.locks (pre ++ ls)) (Members.locks ls) pre.length pre.length)
          (takeAll t (Members.fp pre m) e) =
        if (Members.fp ls m).all (avail pol e) then .done true (takeAll t (Members.fp (pre ++ ls) m) e)
        else .done false e := by
  intro ls
  induction ls with
  | nil =>
    intro pre _ _ _
    simp [orderedTryBody, solo]
  | cons l ls ih =>
    intro pre hd hn hpre
    have hl : DetLock pol t l.1 l.2 := hd l (by simp)
    have hn' := hn
    rw [Members.fp_append, Members.fp_cons, Fp.ids_append, Fp.ids_append] at hn'
    have hnl : (Fp.ids (l.2 m)).Nodup := (List.nodup_append.1 (List.nodup_append.1 hn').2.1).1
    have hdisj : ∀ p ∈ l.2 m, p.1 ∉ Fp.ids (Members.fp pre m) := by
      intro p hp
      have : p.1 ∈ Fp.ids (l.2 m) ++ Fp.ids (Members.fp ls m) :=
        List.mem_append_left _ (List.mem_map_of_mem hp)
      exact nodup_append_disjoint hn' _ this
    have hwE := notWaiting_takeAll (t := t) (Members.fp pre m) e hw
    simp only [Members.locks_cons, orderedTryBody]
    by_cases hal : ∀ p ∈ l.2 m, avail pol e p = true
    · have hal' : ∀ p ∈ l.2 m, avail pol (takeAll t (Members.fp pre m) e) p = true := by
        intro p hp; rw [avail_takeAll _ _ _ (hdisj p hp)]; exact hal p hp
      rw [solo_call_done _ _ _ _ _ _ (hl.try_ok m _ hwE hnl hal')]
      simp only [if_true]
      have := ih (pre ++ [l]) (by simpa using hd) (by simpa using hn)
        (by
          intro p hp
          rw [Members.fp_append] at hp
          rcases List.mem_append.1 hp with h | h
          · exact hpre p h
          · simp only [Members.fp_cons, Members.fp_nil, List.append_nil] at h; exact hal p h)
      simp only [List.length_append, List.length_singleton, List.append_assoc, List.singleton_append,
        Members.fp_append, Members.fp_cons, Members.fp_nil, List.append_nil, takeAll_append] at this
      rw [this]
      have hall : (l.2 m).all (avail pol e) = true := List.all_eq_true.2 hal
      have hall2 : (Members.fp (l :: ls) m).all (avail pol e) = (Members.fp ls m).all (avail pol e) := by
        rw [Members.fp_cons, List.all_append, hall, Bool.true_and]
      rw [hall2]
      simp only [Members.fp_append, Members.fp_cons, takeAll_append]
    · have hal' : ¬ ∀ p ∈ l.2 m, avail pol (takeAll t (Members.fp pre m) e) p = true := by
        intro h; apply hal; intro p hp
        rw [← avail_takeAll (t := t) _ _ _ (hdisj p hp)]; exact h p hp
      rw [solo_call_done _ _ _ _ _ _ (hl.try_no m _ hwE hnl hal')]
      simp only [Bool.false_eq_true, if_false]
      have htake : (Members.locks (pre ++ l :: ls)).take pre.length = Members.locks pre := by
        simp [Members.locks, List.map_append, List.take_left']
      have hpd : pre.Det pol t := fun q hq => hd q (List.mem_append_left _ hq)
      have hnp : (Fp.ids (Members.fp pre m)).Nodup := (List.nodup_append.1 hn').1
      rw [htake, solo_call_done _ _ _ _ _ _ (det_unlockAll pre hpd m _), relAll_takeAll (pol := pol) _ _ hnp hw hpre]
      have hall : (l.2 m).all (avail pol e) = false := by
        cases h : (l.2 m).all (avail pol e)
        · rfl
        · exact absurd (List.all_eq_true.1 h) hal
      simp [solo, Members.fp_cons, List.all_append, hall]

theorem det_ordered (ms : Members) (hm : ms.Det pol t) :
    DetLock pol t (orderedLock (Members.locks ms)) (Members.fp ms) where
  try_ok m e hw hn ha := by
    have := det_tryBody (pol := pol) (t := t) m e hw ms [] (by simpa using hm) (by simpa using hn) (by simp)
    simp only [List.nil_append, List.length_nil, Members.fp_nil, takeAll_nil, List.all_eq_true.2 ha, if_true] at this
    exact solo_handle_done _ _ _ _ _ _ this
  try_no m e hw hn ha := by
    have := det_tryBody (pol := pol) (t := t) m e hw ms [] (by simpa using hm) (by simpa using hn) (by simp)
    have hall : (Members.fp ms m).all (avail pol e) = false := by
      cases h : (Members.fp ms m).all (avail pol e)
      · rfl
      · exact absurd (List.all_eq_true.1 h) ha
    simp only [List.nil_append, List.length_nil, Members.fp_nil, takeAll_nil, hall, Bool.false_eq_true, if_false] at this
    exact solo_handle_done _ _ _ _ _ _ this
  rel m e := det_unlockAll ms hm m e

theorem det_retry (fuel : Nat) (ms : Members) (hm : ms.Det pol t) :
    DetLock pol t (retryLock fuel (Members.locks ms)) (Members.fp ms) where
  try_ok m e hw hn ha := by
    have h := (det_ordered (pol := pol) (t := t) ms hm).try_ok m e hw hn ha
    show solo pol t (retryTry m (Members.locks ms)) e = _
    unfold retryTry
    split
    · rename_i h0
      have : ms = [] := by cases ms <;> simp_all [Members.locks]
      subst this; simp [solo]
    · rw [retryTryBody_eq]; exact h
  try_no m e hw hn ha := by
    have h := (det_ordered (pol := pol) (t := t) ms hm).try_no m e hw hn ha
    show solo pol t (retryTry m (Members.locks ms)) e = _
    unfold retryTry
    split
    · rename_i h0
      have : ms = [] := by cases ms <;> simp_all [Members.locks]
      subst this; exact absurd (by simp) ha
    · rw [retryTryBody_eq]; exact h
  rel m e := det_unlockAll ms hm m e

/-! ### every shape -/

theorem Members.Det.append {a b : Members} (ha : a.Det pol t) (hb : b.Det pol t) : Members.Det pol t (a ++ b) := by
  intro p hp
  rcases List.mem_append.1 hp with h | h
  · exact ha p h
  · exact hb p h

theorem ptrsM_sort_det {ps : List Ptr} (h : (ptrsM ps).Det pol t) : (ptrsM (sortPtrs ps)).Det pol t := by
  intro q hq
  simp only [ptrsM, List.mem_map] at hq
  obtain ⟨p, hp, rfl⟩ := hq
  have : p ∈ ps := (List.mergeSort_perm ps _).mem_iff.1 hp
  exact h _ (List.mem_map_of_mem this)

mutual
/-- everything `get_ptrs` hands to an enclosing collection is deterministic in this sense -/
theorem getPtrs_det (W : World) : ∀ S : Shape, (ptrsM (getPtrs W S)).Det pol t
  | .mutex x => by
    intro q hq
    simp only [getPtrs, ptrsM_cons, ptrsM_nil, List.mem_singleton] at hq
    subst hq; exact det_mutexLeaf x
  | .rwlock x => by
    intro q hq
    simp only [getPtrs, ptrsM_cons, ptrsM_nil, List.mem_singleton] at hq
    subst hq; exact det_rwLeaf x
  | .seq ss => by simpa [getPtrs] using getPtrsL_det W ss
  | .poisonable _ s => by simpa [getPtrs] using getPtrs_det W s
  | .boxed s => by simpa [getPtrs] using ptrsM_sort_det (getPtrs_det W s)
  | .refc s => by simpa [getPtrs] using ptrsM_sort_det (getPtrs_det W s)
  | .retry s => by simpa [getPtrs] using getPtrs_det W s
  | .owned a s => by
    intro q hq
    simp only [getPtrs, ptrsM_cons, ptrsM_nil, List.mem_singleton] at hq
    subst hq
    have := det_ordered (pol := pol) (t := t) (ptrsM (getPtrs W s)) (getPtrs_det W s)
    rw [ptrsM_locks, ptrsM_fp] at this
    exact this
theorem getPtrsL_det (W : World) : ∀ ss : List Shape, (ptrsM (getPtrsL W ss)).Det pol t
  | [] => by intro q hq; simp [getPtrsL] at hq
  | s :: ss => by
    simp only [getPtrsL, ptrsM_append]
    exact (getPtrs_det W s).append (getPtrsL_det W ss)
end

/-- **Every lockable shape is deterministic**: run alone, its `try_*` is a function of the
table, whatever the kind, size, arrangement and nesting. -/
theorem toRaw_det (W : World) : ∀ S : Shape, lockable S = true → DetLock pol t (toRaw W S) (shapeFp W S)
  | .mutex x, _ => det_mutexLeaf x
  | .rwlock x, _ => det_rwLeaf x
  | .seq _, h => by simp [lockable] at h
  | .poisonable _ s, h => by
    have := toRaw_det W s (by simpa [lockable] using h)
    simpa [toRaw, toRaw?, shapeFp] using this
  | .boxed s, _ => by
    have := det_ordered (pol := pol) (t := t) _ (ptrsM_sort_det (getPtrs_det W s))
    rw [ptrsM_locks] at this
    simpa [toRaw, toRaw?, shapeFp] using this
  | .refc s, _ => by
    have := det_ordered (pol := pol) (t := t) _ (ptrsM_sort_det (getPtrs_det W s))
    rw [ptrsM_locks] at this
    simpa [toRaw, toRaw?, shapeFp] using this
  | .retry s, _ => by
    have := det_retry (pol := pol) (t := t) W.fuel _ (getPtrs_det W s)
    rw [ptrsM_locks] at this
    simpa [toRaw, toRaw?, shapeFp] using this
  | .owned _ s, _ => by
    have := det_ordered (pol := pol) (t := t) _ (getPtrs_det W s)
    rw [ptrsM_locks] at this
    simpa [toRaw, toRaw?, shapeFp] using this

end HLV
