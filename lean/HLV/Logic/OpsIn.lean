/-
  HLV.Logic.OpsIn — "this program only issues operations of kind P", for every algorithm and
  every shape; and the frame rule it gives: a specification that does not care about the
  operations in P is not disturbed by such a program.
-/
import HLV.Logic.Wp
import HLV.Model.Api
namespace HLV
open Prog

variable {ε ε₁ ε₂ α β : Type}

/-- every operation the program can ever issue satisfies `P` -/
inductive OpsIn (P : Op → Prop) : Prog ε α → Prop
  | done (a : α) : OpsIn P (.done a)
  | unwind (e : ε) : OpsIn P (.unwind e)
  | spin : OpsIn P .spin
  | abort : OpsIn P .abort
  | op (o : Op) (k : Resp → Prog ε α) : P o → (∀ r, OpsIn P (k r)) → OpsIn P (.op o k)

theorem OpsIn.bindX {P : Op → Prop} {p : Prog ε₁ β} {h : ε₁ → Prog ε₂ α} {k : β → Prog ε₂ α}
    (hp : OpsIn P p) (hh : ∀ e, OpsIn P (h e)) (hk : ∀ b, OpsIn P (k b)) : OpsIn P (p.bindX h k) := by
  induction hp with
  | done a => exact hk a
  | unwind e => exact hh e
  | spin => exact .spin
  | abort => exact .abort
  | op o c ho _ ih => exact .op o _ ho ih

theorem OpsIn.bind {P : Op → Prop} {p : Prog ε β} {k : β → Prog ε α}
    (hp : OpsIn P p) (hk : ∀ b, OpsIn P (k b)) : OpsIn P (p.bind k) :=
  hp.bindX (fun e => .unwind e) hk

theorem OpsIn.call {P : Op → Prop} {cells : ε} {callee : Prog ε₁ β} {k : β → Prog ε α}
    (hp : OpsIn P callee) (hk : ∀ b, OpsIn P (k b)) : OpsIn P (Prog.call cells callee k) :=
  hp.bindX (fun _ => .unwind cells) hk

theorem OpsIn.handle {P : Op → Prop} {outer : ε₂} {body : Prog ε₁ α} {c : ε₁ → Prog Unit Unit}
    (hb : OpsIn P body) (hc : ∀ e, OpsIn P (c e)) : OpsIn P (Prog.handle outer body c) :=
  hb.bindX (fun e => (hc e).bindX (fun _ => .unwind outer) (fun _ => .unwind outer)) (fun a => .done a)

theorem OpsIn.mono {P Q : Op → Prop} {p : Prog ε α} (h : ∀ o, P o → Q o) (hp : OpsIn P p) : OpsIn Q p := by
  induction hp with
  | done a => exact .done a
  | unwind e => exact .unwind e
  | spin => exact .spin
  | abort => exact .abort
  | op o c ho _ ih => exact .op o _ (h o ho) ih

/-- **Frame rule.** If the specification has no obligation for, and its ghost is not changed by,
the operations in `P`, a program issuing only such operations satisfies any postcondition
that holds of the unchanged ghost. -/
theorem wp_of_opsIn {G : Type} (S : Spec G) (P : Op → Prop) {p : Prog ε α}
    (hp : OpsIn P p) (hpre : ∀ g o, P o → S.pre g o) (hupd : ∀ g o r, P o → S.upd g o r = g)
    (Q : α → G → Prop) (E : ε → G → Prop) (g : G) (hQ : ∀ a, Q a g) (hE : ∀ e, E e g) :
    wp S p Q E g := by
  induction hp with
  | done a => exact hQ a
  | unwind e => exact hE e
  | spin => trivial
  | abort => trivial
  | op o c ho _ ih =>
    refine ⟨hpre g o ho, fun r _ => ?_⟩
    rw [hupd g o r ho]
    exact ih r

/-! ### the algorithms only issue lock operations -/

def isLockOp : Op → Prop
  | .acq _ _ _ => True
  | .rel _ _ => True
  | .kill _ => True
  | _ => False

/-- all four methods of a trait object only issue lock operations -/
structure LockOnly (L : RawLockM) : Prop where
  acq : ∀ m, OpsIn isLockOp (L.acq m)
  try_ : ∀ m, OpsIn isLockOp (L.try_ m)
  rel : ∀ m, OpsIn isLockOp (L.rel m)
  kill : OpsIn isLockOp L.kill

theorem lockOnly_rwLeaf (x : LockId) : LockOnly (rwLeaf x) where
  acq m := .op _ _ trivial fun r => by cases r <;> first | exact .done _ | exact .unwind _
  try_ m := .op _ _ trivial fun r => by cases r <;> first | exact .done _ | exact .unwind _
  rel m := .op _ _ trivial fun r => by cases r <;> first | exact .done _ | exact .unwind _
  kill := .op _ _ trivial fun _ => .done _

theorem lockOnly_mutexLeaf (x : LockId) : LockOnly (mutexLeaf x) where
  acq _ := (lockOnly_rwLeaf x).acq .excl
  try_ _ := (lockOnly_rwLeaf x).try_ .excl
  rel _ := (lockOnly_rwLeaf x).rel .excl
  kill := (lockOnly_rwLeaf x).kill

def AllLockOnly (ls : List RawLockM) : Prop := ∀ l ∈ ls, LockOnly l

theorem AllLockOnly.tail {l} {ls : List RawLockM} (h : AllLockOnly (l :: ls)) : AllLockOnly ls :=
  fun q hq => h q (List.mem_cons_of_mem _ hq)
theorem AllLockOnly.head {l} {ls : List RawLockM} (h : AllLockOnly (l :: ls)) : LockOnly l :=
  h l List.mem_cons_self
theorem AllLockOnly.take {ls : List RawLockM} (h : AllLockOnly ls) (k : Nat) : AllLockOnly (ls.take k) :=
  fun q hq => h q (List.mem_of_mem_take hq)
theorem AllLockOnly.getD {ls : List RawLockM} (h : AllLockOnly ls) (i : Nat) : LockOnly (ls.getD i default) := by
  rw [List.getD_eq_getElem?_getD]
  cases hi : ls[i]? with
  | none =>
    exact ⟨fun _ => .done _, fun _ => .done _, fun _ => .done _, .done _⟩
  | some l => exact h l (List.mem_of_getElem? hi)

theorem unlockAllFrom_lockOnly (m : Mode) (ls : List RawLockM) (h : AllLockOnly ls) (p : Bool) :
    OpsIn isLockOp (unlockAllFrom m ls p) := by
  induction ls generalizing p with
  | nil => simp only [unlockAllFrom]; split <;> first | exact .unwind _ | exact .done _
  | cons l ls ih =>
    simp only [unlockAllFrom]
    exact (h.head.rel m).bindX (fun _ => ih h.tail true) (fun _ => ih h.tail p)

theorem recover_lockOnly (m : Mode) (ls : List RawLockM) (h : AllLockOnly ls) :
    OpsIn isLockOp (recover m ls) := unlockAllFrom_lockOnly m ls h false

theorem orderedAcqBody_lockOnly (m : Mode) (ls : List RawLockM) (h : AllLockOnly ls) (k : Nat) :
    OpsIn isLockOp (orderedAcqBody m ls k) := by
  induction ls generalizing k with
  | nil => exact .done _
  | cons l ls ih => exact (h.head.acq m).call (fun _ => ih h.tail _)

theorem orderedTryBody_lockOnly (m : Mode) (all ls : List RawLockM) (ha : AllLockOnly all)
    (h : AllLockOnly ls) (i k : Nat) : OpsIn isLockOp (orderedTryBody m all ls i k) := by
  induction ls generalizing i k with
  | nil => exact .done _
  | cons l ls ih =>
    simp only [orderedTryBody]
    refine (h.head.try_ m).call (fun b => ?_)
    cases b
    · exact (unlockAllFrom_lockOnly m _ (ha.take i) false).call (fun _ => .done _)
    · exact ih h.tail _ _

theorem retryTryBody_lockOnly (m : Mode) (all ls : List RawLockM) (ha : AllLockOnly all)
    (h : AllLockOnly ls) (i k : Nat) : OpsIn isLockOp (retryTryBody m all ls i k) := by
  induction ls generalizing i k with
  | nil => exact .done _
  | cons l ls ih =>
    simp only [retryTryBody]
    refine (h.head.try_ m).call (fun b => ?_)
    cases b
    · exact (recover_lockOnly m _ (ha.take i)).call (fun _ => .done _)
    · exact ih h.tail _ _

theorem retryInner_lockOnly (m : Mode) (all ls : List RawLockM) (ha : AllLockOnly all)
    (h : AllLockOnly ls) (i : Nat) (c : RetryCells) : OpsIn isLockOp (retryInner m all ls i c) := by
  induction ls generalizing i c with
  | nil => exact .done _
  | cons l ls ih =>
    simp only [retryInner]
    split
    · exact ih h.tail _ _
    · refine (h.head.try_ m).call (fun b => ?_)
      cases b
      · simp only [Bool.false_eq_true, if_false]
        refine (recover_lockOnly m _ (ha.take i)).call (fun _ => ?_)
        split
        · exact ((ha.getD _).rel m).call (fun _ => .done _)
        · exact .done _
      · exact ih h.tail _ _

theorem retryOuter_lockOnly (m : Mode) (all : List RawLockM) (ha : AllLockOnly all) (fuel : Nat)
    (c : RetryCells) : OpsIn isLockOp (retryOuter m all fuel c) := by
  induction fuel generalizing c with
  | zero => exact .spin
  | succ fuel ih =>
    simp only [retryOuter]
    refine ((ha.getD _).acq m).call (fun _ => ?_)
    refine (retryInner_lockOnly m all all ha ha 0 _).bind (fun r => ?_)
    cases r with
    | none => exact .done _
    | some i => exact ih _

theorem killAll_lockOnly (ls : List RawLockM) (h : AllLockOnly ls) : OpsIn isLockOp (killAll ls) := by
  induction ls with
  | nil => exact .done _
  | cons l ls ih => exact h.head.kill.bind (fun _ => ih h.tail)

theorem lockOnly_ordered (ls : List RawLockM) (h : AllLockOnly ls) : LockOnly (orderedLock ls) where
  acq m := (orderedAcqBody_lockOnly m ls h 0).handle (fun k => recover_lockOnly m _ (h.take k))
  try_ m := (orderedTryBody_lockOnly m ls ls h h 0 0).handle (fun k => recover_lockOnly m _ (h.take k))
  rel m := unlockAllFrom_lockOnly m ls h false
  kill := killAll_lockOnly ls h

theorem lockOnly_retry (fuel : Nat) (ls : List RawLockM) (h : AllLockOnly ls) :
    LockOnly (retryLock fuel ls) where
  acq m := by
    simp only [retryLock, retryAcq]
    split
    · exact .done _
    · refine (retryOuter_lockOnly m ls h fuel _).handle (fun c => ?_)
      simp only [retryCatch]
      apply recover_lockOnly
      split
      · intro q hq
        rcases List.mem_append.1 hq with hq | hq
        · exact h.take _ q hq
        · simp only [List.mem_singleton] at hq; subst hq; exact h.getD _
      · exact h.take _
  try_ m := by
    simp only [retryLock, retryTry]
    split
    · exact .done _
    · exact (retryTryBody_lockOnly m ls ls h h 0 0).handle (fun k => recover_lockOnly m _ (h.take k))
  rel m := unlockAllFrom_lockOnly m ls h false
  kill := killAll_lockOnly ls h

mutual
theorem getPtrs_lockOnly (W : World) : ∀ S : Shape, AllLockOnly ((getPtrs W S).map (·.lock))
  | .mutex x => by
    intro l hl; simp only [getPtrs, List.map_cons, List.map_nil, List.mem_singleton] at hl
    subst hl; exact lockOnly_mutexLeaf x
  | .rwlock x => by
    intro l hl; simp only [getPtrs, List.map_cons, List.map_nil, List.mem_singleton] at hl
    subst hl; exact lockOnly_rwLeaf x
  | .seq ss => by simpa [getPtrs] using getPtrsL_lockOnly W ss
  | .poisonable _ s => by simpa [getPtrs] using getPtrs_lockOnly W s
  | .boxed s => by
    intro l hl
    simp only [getPtrs, List.mem_map] at hl
    obtain ⟨p, hp, rfl⟩ := hl
    exact getPtrs_lockOnly W s _ (List.mem_map_of_mem ((List.mergeSort_perm _ _).mem_iff.1 hp))
  | .refc s => by
    intro l hl
    simp only [getPtrs, List.mem_map] at hl
    obtain ⟨p, hp, rfl⟩ := hl
    exact getPtrs_lockOnly W s _ (List.mem_map_of_mem ((List.mergeSort_perm _ _).mem_iff.1 hp))
  | .retry s => by simpa [getPtrs] using getPtrs_lockOnly W s
  | .owned a s => by
    intro l hl; simp only [getPtrs, List.map_cons, List.map_nil, List.mem_singleton] at hl
    subst hl; exact lockOnly_ordered _ (getPtrs_lockOnly W s)
theorem getPtrsL_lockOnly (W : World) : ∀ ss : List Shape, AllLockOnly ((getPtrsL W ss).map (·.lock))
  | [] => by intro l hl; simp [getPtrsL] at hl
  | s :: ss => by
    intro l hl
    simp only [getPtrsL, List.map_append, List.mem_append] at hl
    rcases hl with hl | hl
    · exact getPtrs_lockOnly W s l hl
    · exact getPtrsL_lockOnly W ss l hl
end

theorem sorted_lockOnly (W : World) (s : Shape) : AllLockOnly ((sortPtrs (getPtrs W s)).map (·.lock)) := by
  intro l hl
  simp only [List.mem_map] at hl
  obtain ⟨p, hp, rfl⟩ := hl
  exact getPtrs_lockOnly W s _ (List.mem_map_of_mem ((List.mergeSort_perm _ _).mem_iff.1 hp))

/-- **Acquiring, trying and releasing any shape only ever issues lock operations** (no key,
poison, data or marker operation hides inside the algorithms). -/
theorem toRaw_lockOnly (W : World) : ∀ S : Shape, LockOnly (toRaw W S)
  | .mutex x => lockOnly_mutexLeaf x
  | .rwlock x => lockOnly_rwLeaf x
  | .seq _ => ⟨fun _ => .done _, fun _ => .done _, fun _ => .done _, .done _⟩
  | .poisonable _ s => by simpa [toRaw, toRaw?] using toRaw_lockOnly W s
  | .boxed s => by simpa [toRaw, toRaw?] using lockOnly_ordered _ (sorted_lockOnly W s)
  | .refc s => by simpa [toRaw, toRaw?] using lockOnly_ordered _ (sorted_lockOnly W s)
  | .retry s => by simpa [toRaw, toRaw?] using lockOnly_retry W.fuel _ (getPtrs_lockOnly W s)
  | .owned _ s => by simpa [toRaw, toRaw?] using lockOnly_ordered _ (getPtrs_lockOnly W s)

end HLV
