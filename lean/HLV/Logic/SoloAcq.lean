/-
  HLV.Logic.SoloAcq — the deterministic reading of the *blocking* acquisitions: one thread alone
  against the raw-lock table, other threads' holds frozen, no faults.

  * every member (leaf, owned group): if the table grants its whole footprint the acquisition
    returns with exactly the footprint taken; otherwise the thread ends up waiting, holding only a
    proper prefix of that member's own footprint (`DetAcq`);
  * a sorting / owned collection: the same over the concatenated footprint;
  * a retrying collection: if everything is available it completes (first round); otherwise it
    ends up waiting inside the blocking acquisition of the first unavailable member with every
    other member released — for leaf members: empty-handed, the table exactly as it was.
-/
import HLV.Logic.Solo
namespace HLV

open Prog

variable {pol : Policy} {t : Tid}

/-- `e'` records the same holds, flags and data as `e` (a blocked writer may have been registered
as waiting under the writer-preferring policy) -/
def SameHolds (e e' : Env) : Prop :=
  (∀ x, (e'.locks x).writer = (e.locks x).writer ∧ (e'.locks x).readers = (e.locks x).readers ∧
        (e'.locks x).killed = (e.locks x).killed ∧ (e'.locks x).value = (e.locks x).value) ∧
  e'.keyFlag = e.keyFlag ∧ e'.poison = e.poison

theorem SameHolds.refl (e : Env) : SameHolds e e := ⟨fun _ => ⟨rfl, rfl, rfl, rfl⟩, rfl, rfl⟩

/-- no lock of the footprint has been killed by an earlier fault -/
def Calm (e : Env) (fp : Fp) : Prop := ∀ p ∈ fp, (e.locks p.1).killed = false

theorem solo_call_stuck {ε ε' α β : Type} (cells : ε) (callee : Prog ε' β) (k : β → Prog ε α) (e e' : Env)
    (h : solo pol t callee e = .stuck e') : solo pol t (call cells callee k) e = .stuck e' := by
  simp [call, solo_bindX, h]

theorem solo_handle_stuck {ε ε' α : Type} (outer : ε') (body : Prog ε α) (c : ε → Prog Unit Unit) (e e' : Env)
    (h : solo pol t body e = .stuck e') : solo pol t (handle outer body c) e = .stuck e' := by
  simp [handle, solo_bindX, h]

theorem solo_bind_done {ε α β : Type} (p : Prog ε β) (k : β → Prog ε α) (e e' : Env) (b : β)
    (h : solo pol t p e = .done b e') : solo pol t (Prog.bind p k) e = solo pol t (k b) e' := by
  simp [Prog.bind, solo_bindX, h]

theorem solo_bind_stuck {ε α β : Type} (p : Prog ε β) (k : β → Prog ε α) (e e' : Env)
    (h : solo pol t p e = .stuck e') : solo pol t (Prog.bind p k) e = .stuck e' := by
  simp [Prog.bind, solo_bindX, h]

/-- deterministic contract of a blocking acquisition -/
structure DetAcq (pol : Policy) (t : Tid) (L : RawLockM) (fp : FpFun) : Prop where
  acq_ok : ∀ m e, NotWaiting t e → (Fp.ids (fp m)).Nodup → (∀ p ∈ fp m, avail pol e p = true) →
    solo pol t (L.acq m) e = .done () (takeAll t (fp m) e)
  acq_stuck : ∀ m e, NotWaiting t e → (Fp.ids (fp m)).Nodup → Calm e (fp m) →
    ¬ (∀ p ∈ fp m, avail pol e p = true) →
    ∃ pre e', pre <+: fp m ∧ pre.length < (fp m).length ∧ (∀ p ∈ pre, avail pol e p = true) ∧
      solo pol t (L.acq m) e = .stuck e' ∧ SameHolds (takeAll t pre e) e'

/-- the table after a blocking acquisition was refused (registration of a waiting writer) -/
def blockedEnv (pol : Policy) (e : Env) (t : Tid) (m : Mode) (x : LockId) : Env :=
  match pol, m with
  | .writerPref, .excl =>
    if (e.locks x).waitW.contains t then e
    else e.setLock x { (e.locks x) with waitW := t :: (e.locks x).waitW }
  | _, _ => e

theorem sameHolds_blockedEnv (e : Env) (m : Mode) (x : LockId) : SameHolds e (blockedEnv pol e t m x) := by
  unfold blockedEnv
  split
  · split
    · exact SameHolds.refl e
    · refine ⟨fun y => ?_, rfl, rfl⟩
      by_cases h : y = x
      · subst h; simp [Env.setLock]
      · simp [Env.setLock, h]
  · exact SameHolds.refl e

theorem detAcq_rwLeaf (x : LockId) : DetAcq pol t (rwLeaf x) (fun m => [(x, m)]) where
  acq_ok m e _ _ ha := by
    have := ha (x, m) (List.mem_singleton.2 rfl)
    simp only [avail, Bool.and_eq_true, Bool.not_eq_true'] at this
    simp [rwLeaf, solo, Env.step, this.1, this.2, takeAll, Env.take1]
  acq_stuck m e _ _ hc ha := by
    have hk : (e.locks x).killed = false := hc (x, m) (List.mem_singleton.2 rfl)
    have hg : grantable pol (e.locks x) m = false := by
      cases h : grantable pol (e.locks x) m
      · rfl
      · exact absurd (fun p hp => by rw [List.mem_singleton.1 hp]; simp [avail, hk, h]) ha
    refine ⟨[], blockedEnv pol e t m x, List.nil_prefix, by simp, by simp, ?_, sameHolds_blockedEnv e m x⟩
    cases pol <;> cases m <;> simp [rwLeaf, solo, Env.step, hk, hg, blockedEnv]

theorem detAcq_mutexLeaf (x : LockId) : DetAcq pol t (mutexLeaf x) (fun _ => [(x, .excl)]) where
  acq_ok _ e hw hn ha := (detAcq_rwLeaf (pol := pol) (t := t) x).acq_ok .excl e hw hn ha
  acq_stuck _ e hw hn hc ha := (detAcq_rwLeaf (pol := pol) (t := t) x).acq_stuck .excl e hw hn hc ha

def Members.DetA (pol : Policy) (t : Tid) (ms : Members) : Prop := ∀ p ∈ ms, DetAcq pol t p.1 p.2

theorem calm_takeAll (fp a : Fp) (e : Env) (hd : ∀ p ∈ fp, p.1 ∉ Fp.ids a) (hc : Calm e fp) :
    Calm (takeAll t a e) fp := by
  intro p hp
  rw [takeAll_locks_notin _ _ _ (hd p hp)]
  exact hc p hp

/-- what a blocking acquisition that cannot complete looks like: waiting, holding a proper
prefix `pre` of the footprint `fp`, the rest of the table as it was -/
def StuckWith (pol : Policy) (t : Tid) (e : Env) (fp : Fp) {ε α : Type} (r : Out ε α) : Prop :=
  ∃ pre e', pre <+: fp ∧ pre.length < fp.length ∧ (∀ p ∈ pre, avail pol e p = true) ∧
    r = .stuck e' ∧ SameHolds (takeAll t pre e) e'

/-- the loop of `ordered_write/read` -/
theorem det_acqBody (m : Mode) (e : Env) (hw : NotWaiting t e) :
    ∀ (ls pre : Members) (k : Nat), (pre ++ ls).DetA pol t → (Fp.ids (Members.fp (pre ++ ls) m)).Nodup →
      Calm e (Members.fp (pre ++ ls) m) → (∀ p ∈ Members.fp pre m, avail pol e p = true) →
      ((∀ p ∈ Members.fp ls m, avail pol e p = true) →
        solo pol t (orderedAcqBody m (Members.locks ls) k) (takeAll t (Members.fp pre m) e) =
          .done () (takeAll t (Members.fp (pre ++ ls) m) e)) ∧
      (¬ (∀ p ∈ Members.fp ls m, avail pol e p = true) →
        StuckWith pol t e (Members.fp (pre ++ ls) m)
          (solo pol t (orderedAcqBody m (Members.locks ls) k) (takeAll t (Members.fp pre m) e))) := by
  intro ls
  induction ls with
  | nil =>
    intro pre k _ _ _ _
    refine ⟨fun _ => by simp [orderedAcqBody, solo], fun h => absurd (by simp) h⟩
  | cons l ls ih =>
    intro pre k hd hn hc hpre
    have hl : DetAcq pol t l.1 l.2 := hd l (by simp)
    have hn' := hn
    rw [Members.fp_append, Members.fp_cons, Fp.ids_append, Fp.ids_append] at hn'
    have hnl : (Fp.ids (l.2 m)).Nodup := (List.nodup_append.1 (List.nodup_append.1 hn').2.1).1
    have hdisj : ∀ p ∈ l.2 m, p.1 ∉ Fp.ids (Members.fp pre m) := by
      intro p hp
      have : p.1 ∈ Fp.ids (l.2 m) ++ Fp.ids (Members.fp ls m) :=
        List.mem_append_left _ (List.mem_map_of_mem hp)
      exact nodup_append_disjoint hn' _ this
    have hwE := notWaiting_takeAll (t := t) (Members.fp pre m) e hw
    have hcl : Calm e (l.2 m) := fun p hp => hc p (by
      rw [Members.fp_append, Members.fp_cons]; exact List.mem_append_right _ (List.mem_append_left _ hp))
    simp only [Members.locks_cons, orderedAcqBody]
    by_cases hal : ∀ p ∈ l.2 m, avail pol e p = true
    · have hal' : ∀ p ∈ l.2 m, avail pol (takeAll t (Members.fp pre m) e) p = true := by
        intro p hp; rw [avail_takeAll _ _ _ (hdisj p hp)]; exact hal p hp
      rw [solo_call_done _ _ _ _ _ _ (hl.acq_ok m _ hwE hnl hal')]
      have hpre' : ∀ p ∈ Members.fp (pre ++ [l]) m, avail pol e p = true := by
        intro p hp
        rw [Members.fp_append] at hp
        rcases List.mem_append.1 hp with h | h
        · exact hpre p h
        · simp only [Members.fp_cons, Members.fp_nil, List.append_nil] at h; exact hal p h
      have := ih (pre ++ [l]) (k + 1) (by simpa using hd) (by simpa using hn) (by simpa using hc) hpre'
      simp only [List.append_assoc, List.singleton_append, Members.fp_append, Members.fp_cons,
        Members.fp_nil, List.append_nil, takeAll_append] at this
      refine ⟨fun hall => ?_, fun hnall => ?_⟩
      · have h2 : ∀ p ∈ Members.fp ls m, avail pol e p = true := fun p hp =>
          hall p (by rw [Members.fp_cons]; exact List.mem_append_right _ hp)
        simpa [Members.fp_append, Members.fp_cons, takeAll_append] using this.1 h2
      · have h2 : ¬ ∀ p ∈ Members.fp ls m, avail pol e p = true := by
          intro h; apply hnall; intro p hp
          rw [Members.fp_cons] at hp
          rcases List.mem_append.1 hp with h' | h'
          · exact hal p h'
          · exact h p h'
        simpa [Members.fp_append, Members.fp_cons, takeAll_append] using this.2 h2
    · have hal' : ¬ ∀ p ∈ l.2 m, avail pol (takeAll t (Members.fp pre m) e) p = true := by
        intro h; apply hal; intro p hp
        rw [← avail_takeAll (t := t) _ _ _ (hdisj p hp)]; exact h p hp
      have hcE : Calm (takeAll t (Members.fp pre m) e) (l.2 m) := calm_takeAll _ _ _ hdisj hcl
      obtain ⟨prel, e', hpx, hlen, hav, hst, hsame⟩ := hl.acq_stuck m _ hwE hnl hcE hal'
      refine ⟨fun hall => absurd (fun p hp => hall p (by rw [Members.fp_cons]; exact List.mem_append_left _ hp)) hal,
        fun _ => ?_⟩
      refine ⟨Members.fp pre m ++ prel, e', ?_, ?_, ?_, ?_, ?_⟩
      · rw [Members.fp_append, Members.fp_cons]
        obtain ⟨r, hr⟩ := hpx
        exact ⟨r ++ Members.fp ls m, by rw [← hr]; simp [List.append_assoc]⟩
      · rw [Members.fp_append, Members.fp_cons]; simp only [List.length_append]; omega
      · intro p hp
        rcases List.mem_append.1 hp with h | h
        · exact hpre p h
        · have hin : p ∈ l.2 m := by obtain ⟨r, hr⟩ := hpx; rw [← hr]; exact List.mem_append_left _ h
          rw [← avail_takeAll (t := t) _ _ _ (hdisj p hin)]; exact hav p h
      · exact solo_call_stuck _ _ _ _ _ hst
      · rw [takeAll_append]; exact hsame

theorem detAcq_ordered (ms : Members) (hm : ms.DetA pol t) :
    DetAcq pol t (orderedLock (Members.locks ms)) (Members.fp ms) where
  acq_ok m e hw hn ha := by
    have hcalm : Calm e (Members.fp ms m) := fun p hp => by
      have := ha p hp
      simp only [avail, Bool.and_eq_true, Bool.not_eq_true'] at this
      exact this.1
    have := (det_acqBody (pol := pol) (t := t) m e hw ms [] 0 (by simpa using hm) (by simpa using hn)
      (by simpa using hcalm) (by simp)).1 ha
    simp only [List.nil_append, Members.fp_nil, takeAll_nil] at this
    exact solo_handle_done _ _ _ _ _ _ this
  acq_stuck m e hw hn hc ha := by
    obtain ⟨pre, e', h1, h2, h3, h4, h5⟩ := (det_acqBody (pol := pol) (t := t) m e hw ms [] 0 (by simpa using hm)
      (by simpa using hn) (by simpa using hc) (by simp)).2 ha
    simp only [List.nil_append, Members.fp_nil, takeAll_nil] at h1 h2 h4
    exact ⟨pre, e', h1, h2, h3, solo_handle_stuck _ _ _ _ _ h4, h5⟩

/-! ### the retrying collection -/

/-- index of the first member whose footprint the table does not grant entirely -/
def firstBad (pol : Policy) (e : Env) (m : Mode) : Members → Nat
  | [] => 0
  | l :: ls => if (l.2 m).all (avail pol e) then 1 + firstBad pol e m ls else 0

theorem firstBad_spec (e : Env) (m : Mode) : ∀ ls : Members, ¬ (∀ p ∈ Members.fp ls m, avail pol e p = true) →
    ∃ h : firstBad pol e m ls < ls.length, ¬ (∀ p ∈ (ls[firstBad pol e m ls]).2 m, avail pol e p = true)
  | [], h => absurd (by simp) h
  | l :: ls, h => by
    by_cases hl : (l.2 m).all (avail pol e) = true
    · have h' : ¬ (∀ p ∈ Members.fp ls m, avail pol e p = true) := by
        intro h2; apply h; intro p hp
        rw [Members.fp_cons] at hp
        rcases List.mem_append.1 hp with a | a
        · exact List.all_eq_true.1 hl p a
        · exact h2 p a
      obtain ⟨h1, h2⟩ := firstBad_spec e m ls h'
      have hfb : firstBad pol e m (l :: ls) = firstBad pol e m ls + 1 := by
        simp [firstBad, hl, Nat.add_comm]
      refine ⟨by rw [hfb]; simp; omega, ?_⟩
      simp only [hfb, List.getElem_cons_succ]
      exact h2
    · have hfb : firstBad pol e m (l :: ls) = 0 := by simp [firstBad, hl]
      refine ⟨by rw [hfb]; simp, ?_⟩
      simp only [hfb, List.getElem_cons_zero]
      intro h2; exact hl (List.all_eq_true.2 h2)

theorem firstBad_spec' (e : Env) (m : Mode) (ls : Members) (h : ¬ (∀ p ∈ Members.fp ls m, avail pol e p = true)) :
    ∃ j, j = firstBad pol e m ls ∧ ∃ h : j < ls.length, ¬ (∀ p ∈ (ls[j]).2 m, avail pol e p = true) := by
  obtain ⟨h1, h2⟩ := firstBad_spec (pol := pol) e m ls h
  exact ⟨_, rfl, h1, h2⟩

/-- the inner loop of retry's `raw_write/raw_read` in the first round (`first_index = 0`),
from member 1 on: all the remaining members are tried; at the first refusal everything is
released and the index is returned -/
theorem det_retryInner0 (m : Mode) (e : Env) (hw : NotWaiting t e) :
    ∀ (ls pre : Members) (c : RetryCells), pre ≠ [] → c.firstIndex = 0 → (pre ++ ls).Det pol t →
      (Fp.ids (Members.fp (pre ++ ls) m)).Nodup → (∀ p ∈ Members.fp pre m, avail pol e p = true) →
      solo pol t (retryInner m (Members.locks (pre ++ ls)) (Members.locks ls) pre.length c)
          (takeAll t (Members.fp pre m) e) =
        if (Members.fp ls m).all (avail pol e) then .done none (takeAll t (Members.fp (pre ++ ls) m) e)
        else .done (some (pre.length + firstBad pol e m ls)) e := by
  intro ls
  induction ls with
  | nil => intro pre c _ _ _ _ _; simp [retryInner, solo]
  | cons l ls ih =>
    intro pre c hne hc0 hd hn hpre
    have hl : DetLock pol t l.1 l.2 := hd l (by simp)
    have hn' := hn
    rw [Members.fp_append, Members.fp_cons, Fp.ids_append, Fp.ids_append] at hn'
    have hnl : (Fp.ids (l.2 m)).Nodup := (List.nodup_append.1 (List.nodup_append.1 hn').2.1).1
    have hdisj : ∀ p ∈ l.2 m, p.1 ∉ Fp.ids (Members.fp pre m) := by
      intro p hp
      have : p.1 ∈ Fp.ids (l.2 m) ++ Fp.ids (Members.fp ls m) :=
        List.mem_append_left _ (List.mem_map_of_mem hp)
      exact nodup_append_disjoint hn' _ this
    have hwE := notWaiting_takeAll (t := t) (Members.fp pre m) e hw
    have hpos : pre.length ≠ c.firstIndex := by
      rw [hc0]; intro h; exact hne (List.eq_nil_of_length_eq_zero h)
    simp only [Members.locks_cons, retryInner, hpos, if_false]
    by_cases hal : ∀ p ∈ l.2 m, avail pol e p = true
    · have hal' : ∀ p ∈ l.2 m, avail pol (takeAll t (Members.fp pre m) e) p = true := by
        intro p hp; rw [avail_takeAll _ _ _ (hdisj p hp)]; exact hal p hp
      rw [solo_call_done _ _ _ _ _ _ (hl.try_ok m _ hwE hnl hal')]
      simp only [if_true]
      have := ih (pre ++ [l]) { c with locked := pre.length + 1 } (by simp) hc0 (by simpa using hd)
        (by simpa using hn)
        (by
          intro p hp
          rw [Members.fp_append] at hp
          rcases List.mem_append.1 hp with h | h
          · exact hpre p h
          · simp only [Members.fp_cons, Members.fp_nil, List.append_nil] at h; exact hal p h)
      simp only [List.length_append, List.length_singleton, List.append_assoc, List.singleton_append,
        Members.fp_append, Members.fp_cons, Members.fp_nil, List.append_nil, takeAll_append] at this
      rw [this]
      have hall : (l.2 m).all (avail pol e) = true := List.all_eq_true.2 hal
      have hall2 : (Members.fp (l :: ls) m).all (avail pol e) = (Members.fp ls m).all (avail pol e) := by
        rw [Members.fp_cons, List.all_append, hall, Bool.true_and]
      rw [hall2]
      simp only [Members.fp_append, Members.fp_cons, takeAll_append, firstBad, hall, if_true]
      split
      · rfl
      · congr 2; omega
    · have hal' : ¬ ∀ p ∈ l.2 m, avail pol (takeAll t (Members.fp pre m) e) p = true := by
        intro h; apply hal; intro p hp
        rw [← avail_takeAll (t := t) _ _ _ (hdisj p hp)]; exact h p hp
      rw [solo_call_done _ _ _ _ _ _ (hl.try_no m _ hwE hnl hal')]
      simp only [Bool.false_eq_true, if_false]
      have htake : (Members.locks (pre ++ l :: ls)).take pre.length = Members.locks pre := by
        simp [Members.locks, List.map_append, List.take_left']
      have hpd : pre.Det pol t := fun q hq => hd q (List.mem_append_left _ hq)
      have hnp : (Fp.ids (Members.fp pre m)).Nodup := (List.nodup_append.1 hn').1
      have hfl : decide (c.firstIndex ≥ pre.length) = false := by
        rw [hc0]; simp; exact hne
      rw [htake]
      unfold recover
      rw [solo_call_done _ _ _ _ _ _ (det_unlockAll pre hpd m _), relAll_takeAll (pol := pol) _ _ hnp hw hpre]
      have hall : (l.2 m).all (avail pol e) = false := by
        cases h : (l.2 m).all (avail pol e)
        · rfl
        · exact absurd (List.all_eq_true.1 h) hal
      simp [solo, Members.fp_cons, List.all_append, hall, hfl, firstBad]

theorem Members.fp_sublist_of_mem {m : Mode} : ∀ {ms : Members} {l : RawLockM × FpFun}, l ∈ ms →
    (l.2 m).Sublist (Members.fp ms m)
  | [], _, h => by cases h
  | a :: ms, l, h => by
    rw [Members.fp_cons]
    rcases List.mem_cons.1 h with rfl | h
    · exact List.sublist_append_left _ _
    · exact (Members.fp_sublist_of_mem h).trans (List.sublist_append_right _ _)

/-- **Retrying acquisition, run alone against a frozen table** (fuel ≥ 2 rounds): if the table
grants every member it completes with exactly the footprint taken; otherwise it ends up waiting
inside the blocking acquisition of one member `l`, holding at most a proper prefix of *that
member's own* footprint (nothing at all when `l` is a leaf) — every other member released, the
rest of the table as it was. -/
theorem det_retry_acq (fuel : Nat) (ms : Members) (hd : ms.Det pol t) (ha : ms.DetA pol t)
    (m : Mode) (e : Env) (hw : NotWaiting t e) (hn : (Fp.ids (Members.fp ms m)).Nodup)
    (hc : Calm e (Members.fp ms m)) :
    ((∀ p ∈ Members.fp ms m, avail pol e p = true) →
      solo pol t (retryAcq m (fuel + 2) (Members.locks ms)) e = .done () (takeAll t (Members.fp ms m) e)) ∧
    (¬ (∀ p ∈ Members.fp ms m, avail pol e p = true) →
      ∃ l ∈ ms, StuckWith pol t e (l.2 m) (solo pol t (retryAcq m (fuel + 2) (Members.locks ms)) e)) := by
  cases ms with
  | nil =>
    refine ⟨fun _ => by simp [retryAcq, solo], fun h => absurd (by simp) h⟩
  | cons l0 rest =>
    have hne : (Members.locks (l0 :: rest)).isEmpty = false := by simp [Members.locks]
    have hl0 : DetAcq pol t l0.1 l0.2 := ha l0 (by simp)
    have hn' := hn
    rw [Members.fp_cons, Fp.ids_append] at hn'
    have hn0 : (Fp.ids (l0.2 m)).Nodup := (List.nodup_append.1 hn').1
    have hc0 : Calm e (l0.2 m) := fun p hp => hc p (by rw [Members.fp_cons]; exact List.mem_append_left _ hp)
    have hget0 : (Members.locks (l0 :: rest)).getD 0 default = l0.1 := rfl
    -- the body of the first round
    by_cases hav0 : ∀ p ∈ l0.2 m, avail pol e p = true
    · -- member 0 is taken; the others are tried
      have hinner := det_retryInner0 (pol := pol) (t := t) m e hw rest [l0]
        { firstIndex := 0, firstLocked := true, locked := 0 } (by simp) rfl (by simpa using hd)
        (by simpa using hn) (by simpa [Members.fp_cons] using hav0)
      simp only [List.length_singleton, List.singleton_append, Members.fp_cons, Members.fp_nil,
        List.append_nil] at hinner
      have hstep : ∀ f : Nat, solo pol t (retryOuter m (Members.locks (l0 :: rest)) (f + 1) {}) e =
          solo pol t (Prog.bind (retryInner m (Members.locks (l0 :: rest)) (Members.locks rest) 1
              { firstIndex := 0, firstLocked := true, locked := 0 }) fun r =>
            match r with
            | none => done ()
            | some i => retryOuter m (Members.locks (l0 :: rest)) f
                { firstIndex := i, firstLocked := false, locked := 0 })
            (takeAll t (l0.2 m) e) := by
        intro f
        simp only [retryOuter]
        have h0 : (Members.locks (l0 :: rest)).getD ({} : RetryCells).firstIndex default = l0.1 := rfl
        rw [h0, solo_call_done _ _ _ _ _ _ (hl0.acq_ok m e hw hn0 hav0)]
        simp [Members.locks_cons, retryInner]
        rfl
      refine ⟨fun hall => ?_, fun hnall => ?_⟩
      · have hrest : (Members.fp rest m).all (avail pol e) = true :=
          List.all_eq_true.2 fun p hp => hall p (by rw [Members.fp_cons]; exact List.mem_append_right _ hp)
        rw [hrest] at hinner
        simp only [if_true] at hinner
        have : solo pol t (retryOuter m (Members.locks (l0 :: rest)) (fuel + 2) {}) e =
            .done () (takeAll t (Members.fp (l0 :: rest) m) e) := by
          rw [hstep (fuel + 1), solo_bind_done _ _ _ _ _ hinner]
          simp [solo, Members.fp_cons]
        simp only [retryAcq, hne, Bool.false_eq_true, if_false]
        exact solo_handle_done _ _ _ _ _ _ this
      · have hrestN : ¬ ∀ p ∈ Members.fp rest m, avail pol e p = true := by
          intro h; apply hnall; intro p hp
          rw [Members.fp_cons] at hp
          rcases List.mem_append.1 hp with a | a
          · exact hav0 p a
          · exact h p a
        have hrest : (Members.fp rest m).all (avail pol e) = false := by
          cases h : (Members.fp rest m).all (avail pol e)
          · rfl
          · exact absurd (List.all_eq_true.1 h) hrestN
        rw [hrest] at hinner
        simp only [Bool.false_eq_true, if_false] at hinner
        obtain ⟨j, hj, hlt, hbad⟩ := firstBad_spec' (pol := pol) e m rest hrestN
        -- second round: block on the member that refused
        rw [← hj] at hinner
        have hmem : rest[j] ∈ l0 :: rest := List.mem_cons_of_mem _ (List.getElem_mem hlt)
        have hlj : DetAcq pol t (rest[j]).1 (rest[j]).2 := ha _ hmem
        have hsubl := Members.fp_sublist_of_mem (m := m) hmem
        have hsub : ∀ p ∈ (rest[j]).2 m, p ∈ Members.fp (l0 :: rest) m := fun p hp => hsubl.subset hp
        have hnj : (Fp.ids ((rest[j]).2 m)).Nodup := List.Sublist.nodup (hsubl.map (fun (p : LockId × Mode) => p.1)) hn
        have hcj : Calm e ((rest[j]).2 m) := fun p hp => hc p (hsub p hp)
        obtain ⟨pre, e', h1, h2, h3, h4, h5⟩ := hlj.acq_stuck m e hw hnj hcj hbad
        have hgetj : (Members.locks (l0 :: rest)).getD (1 + j) default = (rest[j]).1 := by
          have : (Members.locks (l0 :: rest)).getD (1 + j) default = (Members.locks rest).getD j default := by
            simp [Members.locks, Nat.add_comm 1 j]
          rw [this, Members.locks_getD]
          simp [List.getD_eq_getElem?_getD, List.getElem?_eq_getElem hlt]
        have : solo pol t (retryOuter m (Members.locks (l0 :: rest)) (fuel + 2) {}) e = .stuck e' := by
          rw [hstep (fuel + 1), solo_bind_done _ _ _ _ _ hinner]
          simp only [retryOuter]
          have hg : (Members.locks (l0 :: rest)).getD
              ({ firstIndex := 1 + j, firstLocked := false, locked := 0 } : RetryCells).firstIndex default
              = (rest[j]).1 := hgetj
          rw [hg]
          exact solo_call_stuck _ _ _ _ _ h4
        refine ⟨rest[j], hmem, pre, e', h1, h2, h3, ?_, h5⟩
        simp only [retryAcq, hne, Bool.false_eq_true, if_false]
        exact solo_handle_stuck _ _ _ _ _ this
    · -- member 0 itself is not available: the thread waits for it holding nothing else
      obtain ⟨pre, e', h1, h2, h3, h4, h5⟩ := hl0.acq_stuck m e hw hn0 hc0 hav0
      refine ⟨fun hall => absurd (fun p hp => hall p (by rw [Members.fp_cons]; exact List.mem_append_left _ hp)) hav0,
        fun _ => ⟨l0, by simp, pre, e', h1, h2, h3, ?_, h5⟩⟩
      have : solo pol t (retryOuter m (Members.locks (l0 :: rest)) (fuel + 2) {}) e = .stuck e' := by
        simp only [retryOuter]
        have h0 : (Members.locks (l0 :: rest)).getD ({} : RetryCells).firstIndex default = l0.1 := rfl
        rw [h0]
        exact solo_call_stuck _ _ _ _ _ h4
      simp only [retryAcq, hne, Bool.false_eq_true, if_false]
      exact solo_handle_stuck _ _ _ _ _ this

/-! ### every shape -/

theorem Members.DetA.append {a b : Members} (ha : a.DetA pol t) (hb : b.DetA pol t) : Members.DetA pol t (a ++ b) := by
  intro p hp
  rcases List.mem_append.1 hp with h | h
  · exact ha p h
  · exact hb p h

theorem ptrsM_sort_detA {ps : List Ptr} (h : (ptrsM ps).DetA pol t) : (ptrsM (sortPtrs ps)).DetA pol t := by
  intro q hq
  simp only [ptrsM, List.mem_map] at hq
  obtain ⟨p, hp, rfl⟩ := hq
  have : p ∈ ps := (List.mergeSort_perm ps _).mem_iff.1 hp
  exact h _ (List.mem_map_of_mem this)

mutual
theorem getPtrs_detA (W : World) : ∀ S : Shape, (ptrsM (getPtrs W S)).DetA pol t
  | .mutex x => by
    intro q hq
    simp only [getPtrs, ptrsM_cons, ptrsM_nil, List.mem_singleton] at hq
    subst hq; exact detAcq_mutexLeaf x
  | .rwlock x => by
    intro q hq
    simp only [getPtrs, ptrsM_cons, ptrsM_nil, List.mem_singleton] at hq
    subst hq; exact detAcq_rwLeaf x
  | .seq ss => by simpa [getPtrs] using getPtrsL_detA W ss
  | .poisonable _ s => by simpa [getPtrs] using getPtrs_detA W s
  | .boxed s => by simpa [getPtrs] using ptrsM_sort_detA (getPtrs_detA W s)
  | .refc s => by simpa [getPtrs] using ptrsM_sort_detA (getPtrs_detA W s)
  | .retry s => by simpa [getPtrs] using getPtrs_detA W s
  | .owned a s => by
    intro q hq
    simp only [getPtrs, ptrsM_cons, ptrsM_nil, List.mem_singleton] at hq
    subst hq
    have := detAcq_ordered (pol := pol) (t := t) (ptrsM (getPtrs W s)) (getPtrs_detA W s)
    rw [ptrsM_locks, ptrsM_fp] at this
    exact this
theorem getPtrsL_detA (W : World) : ∀ ss : List Shape, (ptrsM (getPtrsL W ss)).DetA pol t
  | [] => by intro q hq; simp [getPtrsL] at hq
  | s :: ss => by
    simp only [getPtrsL, ptrsM_append]
    exact (getPtrs_detA W s).append (getPtrsL_detA W ss)
end

/-- the shape's own blocking acquisition goes through its members in one fixed order (leaves,
sorting and owned collections, wrappers around them; not the retrying collection) -/
def inOrder : Shape → Bool
  | .mutex _ => true
  | .rwlock _ => true
  | .seq _ => false
  | .poisonable _ s => inOrder s
  | .boxed _ => true
  | .refc _ => true
  | .retry _ => false
  | .owned _ _ => true

theorem toRaw_detAcq (W : World) : ∀ S : Shape, inOrder S = true → DetAcq pol t (toRaw W S) (shapeFp W S)
  | .mutex x, _ => detAcq_mutexLeaf x
  | .rwlock x, _ => detAcq_rwLeaf x
  | .seq _, h => by simp [inOrder] at h
  | .poisonable _ s, h => by
    have := toRaw_detAcq W s (by simpa [inOrder] using h)
    simpa [toRaw, toRaw?, shapeFp] using this
  | .boxed s, _ => by
    have := detAcq_ordered (pol := pol) (t := t) _ (ptrsM_sort_detA (getPtrs_detA W s))
    rw [ptrsM_locks] at this
    simpa [toRaw, toRaw?, shapeFp] using this
  | .refc s, _ => by
    have := detAcq_ordered (pol := pol) (t := t) _ (ptrsM_sort_detA (getPtrs_detA W s))
    rw [ptrsM_locks] at this
    simpa [toRaw, toRaw?, shapeFp] using this
  | .retry s, h => by simp [inOrder] at h
  | .owned _ s, _ => by
    have := detAcq_ordered (pol := pol) (t := t) _ (getPtrs_detA W s)
    rw [ptrsM_locks] at this
    simpa [toRaw, toRaw?, shapeFp] using this

theorem lockable_of_inOrder : ∀ S : Shape, inOrder S = true → lockable S = true
  | .mutex _, _ => rfl
  | .rwlock _, _ => rfl
  | .seq _, h => by simp [inOrder] at h
  | .poisonable _ s, h => by simpa [lockable] using lockable_of_inOrder s (by simpa [inOrder] using h)
  | .boxed _, _ => rfl
  | .refc _, _ => rfl
  | .retry _, h => by simp [inOrder] at h
  | .owned _ _, _ => rfl

end HLV
