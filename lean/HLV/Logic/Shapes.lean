/-
  HLV.Logic.Shapes — every lockable shape, of any size and nesting depth, satisfies the lock
  contract `IsLock` with the footprint computed from `get_ptrs` (structural induction).
-/
import HLV.Logic.Contracts
namespace HLV

variable {n : Nat} {ro : RankOpt}

def ptrsM (ps : List Ptr) : Members := ps.map fun p => (p.lock, p.fp)

@[simp] theorem ptrsM_nil : ptrsM [] = [] := rfl
@[simp] theorem ptrsM_cons (p : Ptr) (ps : List Ptr) : ptrsM (p :: ps) = (p.lock, p.fp) :: ptrsM ps := rfl
theorem ptrsM_append (a b : List Ptr) : ptrsM (a ++ b) = ptrsM a ++ ptrsM b := by simp [ptrsM]
theorem ptrsM_locks (ps : List Ptr) : Members.locks (ptrsM ps) = ps.map (·.lock) := by
  simp [ptrsM, Members.locks, List.map_map, Function.comp_def]
theorem ptrsM_fp (ps : List Ptr) : Members.fp (ptrsM ps) = fun m => ps.flatMap (·.fp m) := by
  funext m
  induction ps with
  | nil => rfl
  | cons p ps ih => simp [Members.fp_cons, ih]

theorem Members.Ok.append {a b : Members} (ha : a.Ok n ro) (hb : b.Ok n ro) : Members.Ok n ro (a ++ b) := by
  intro p hp
  rcases List.mem_append.1 hp with h | h
  · exact ha p h
  · exact hb p h

theorem ptrsM_sort_ok {ps : List Ptr} (h : (ptrsM ps).Ok n ro) : (ptrsM (sortPtrs ps)).Ok n ro := by
  intro q hq
  simp only [ptrsM, List.mem_map] at hq
  obtain ⟨p, hp, rfl⟩ := hq
  have : p ∈ ps := (List.mergeSort_perm ps _).mem_iff.1 hp
  exact h _ (List.mem_map_of_mem this)

mutual
/-- Rank validity of what `get_ptrs` returns (vacuous without a rank): every owned unit's
interior (listing order of its units) is strictly rank-increasing. -/
def PtrsOK (ro : RankOpt) (W : World) : Shape → Prop
  | .mutex _ => True
  | .rwlock _ => True
  | .seq ss => PtrsOKL ro W ss
  | .poisonable _ s => PtrsOK ro W s
  | .boxed s => PtrsOK ro W s
  | .refc s => PtrsOK ro W s
  | .retry s => PtrsOK ro W s
  | .owned _ s => PtrsOK ro W s ∧ ∀ m, Members.Chain ro (ptrsM (getPtrs W s)) m
def PtrsOKL (ro : RankOpt) (W : World) : List Shape → Prop
  | [] => True
  | s :: ss => PtrsOK ro W s ∧ PtrsOKL ro W ss
end

/-- Rank validity of a shape that is locked through its own `RawLock` impl: in addition the
acquisition order of a sorting collection (its address-sorted units) is strictly
rank-increasing. Nothing is required of a retrying collection's listing. -/
def ShapeOK (ro : RankOpt) (W : World) : Shape → Prop
  | .mutex _ => True
  | .rwlock _ => True
  | .seq _ => True
  | .poisonable _ s => ShapeOK ro W s
  | .boxed s => PtrsOK ro W s ∧ ∀ m, Members.Chain ro (ptrsM (sortPtrs (getPtrs W s))) m
  | .refc s => PtrsOK ro W s ∧ ∀ m, Members.Chain ro (ptrsM (sortPtrs (getPtrs W s))) m
  | .retry s => PtrsOK ro W s
  | .owned _ s => PtrsOK ro W s ∧ ∀ m, Members.Chain ro (ptrsM (getPtrs W s)) m

theorem chain_none (ms : Members) (m : Mode) : Members.Chain none ms m := by
  unfold Members.Chain
  induction ms with
  | nil => exact List.Pairwise.nil
  | cons p ms ih => exact List.pairwise_cons.2 ⟨fun _ _ => trivial, ih⟩

mutual
theorem ptrsOK_none (W : World) : ∀ S : Shape, PtrsOK none W S
  | .mutex _ => trivial
  | .rwlock _ => trivial
  | .seq ss => by simpa [PtrsOK] using ptrsOKL_none W ss
  | .poisonable _ s => by simpa [PtrsOK] using ptrsOK_none W s
  | .boxed s => by simpa [PtrsOK] using ptrsOK_none W s
  | .refc s => by simpa [PtrsOK] using ptrsOK_none W s
  | .retry s => by simpa [PtrsOK] using ptrsOK_none W s
  | .owned _ s => ⟨ptrsOK_none W s, fun m => chain_none _ m⟩
theorem ptrsOKL_none (W : World) : ∀ ss : List Shape, PtrsOKL none W ss
  | [] => trivial
  | s :: ss => ⟨ptrsOK_none W s, ptrsOKL_none W ss⟩
end

theorem shapeOK_none (W : World) : ∀ S : Shape, ShapeOK none W S
  | .mutex _ => trivial
  | .rwlock _ => trivial
  | .seq _ => trivial
  | .poisonable _ s => by simpa [ShapeOK] using shapeOK_none W s
  | .boxed s => ⟨ptrsOK_none W s, fun m => chain_none _ m⟩
  | .refc s => ⟨ptrsOK_none W s, fun m => chain_none _ m⟩
  | .retry s => ptrsOK_none W s
  | .owned _ s => ⟨ptrsOK_none W s, fun m => chain_none _ m⟩

mutual
/-- Everything `get_ptrs` hands to an enclosing collection behaves like a lock. -/
theorem getPtrs_ok (W : World) : ∀ S : Shape, PtrsOK ro W S → (ptrsM (getPtrs W S)).Ok n ro
  | .mutex x, _ => by
    intro q hq
    simp only [getPtrs, ptrsM_cons, ptrsM_nil, List.mem_singleton] at hq
    subst hq
    exact isLock_mutexLeaf x
  | .rwlock x, _ => by
    intro q hq
    simp only [getPtrs, ptrsM_cons, ptrsM_nil, List.mem_singleton] at hq
    subst hq
    exact isLock_rwLeaf x
  | .seq ss, h => by simpa [getPtrs] using getPtrsL_ok W ss (by simpa [PtrsOK] using h)
  | .poisonable _ s, h => by simpa [getPtrs] using getPtrs_ok W s (by simpa [PtrsOK] using h)
  | .boxed s, h => by simpa [getPtrs] using ptrsM_sort_ok (getPtrs_ok W s (by simpa [PtrsOK] using h))
  | .refc s, h => by simpa [getPtrs] using ptrsM_sort_ok (getPtrs_ok W s (by simpa [PtrsOK] using h))
  | .retry s, h => by simpa [getPtrs] using getPtrs_ok W s (by simpa [PtrsOK] using h)
  | .owned a s, h => by
    intro q hq
    simp only [getPtrs, ptrsM_cons, ptrsM_nil, List.mem_singleton] at hq
    subst hq
    have := isLock_ordered (n := n) (ro := ro) (ptrsM (getPtrs W s)) (getPtrs_ok W s h.1) h.2
    rw [ptrsM_locks, ptrsM_fp] at this
    exact this
theorem getPtrsL_ok (W : World) : ∀ ss : List Shape, PtrsOKL ro W ss → (ptrsM (getPtrsL W ss)).Ok n ro
  | [], _ => by intro q hq; simp [getPtrsL] at hq
  | s :: ss, h => by
    simp only [getPtrsL, ptrsM_append]
    exact (getPtrs_ok W s h.1).append (getPtrsL_ok W ss h.2)
end

/-- The footprint of the shape's own `RawLock` impl. -/
def shapeFp (W : World) : Shape → FpFun
  | .mutex x => fun _ => [(x, .excl)]
  | .rwlock x => fun m => [(x, m)]
  | .seq _ => fun _ => []
  | .poisonable _ s => shapeFp W s
  | .boxed s => Members.fp (ptrsM (sortPtrs (getPtrs W s)))
  | .refc s => Members.fp (ptrsM (sortPtrs (getPtrs W s)))
  | .retry s => Members.fp (ptrsM (getPtrs W s))
  | .owned _ s => Members.fp (ptrsM (getPtrs W s))

/-- The shape's type implements `RawLock` (plain containers do not). -/
def lockable : Shape → Bool
  | .seq _ => false
  | .poisonable _ s => lockable s
  | _ => true

/-- **Every lockable shape is a lock**: any kind, any size, any nesting, any mode, any answers. -/
theorem toRaw_isLock (W : World) : ∀ S : Shape, lockable S = true → ShapeOK ro W S →
    IsLock n ro (toRaw W S) (shapeFp W S)
  | .mutex x, _, _ => isLock_mutexLeaf x
  | .rwlock x, _, _ => isLock_rwLeaf x
  | .seq _, h, _ => by simp [lockable] at h
  | .poisonable _ s, h, hk => by
    have := toRaw_isLock W s (by simpa [lockable] using h) (by simpa [ShapeOK] using hk)
    simpa [toRaw, toRaw?, shapeFp] using this
  | .boxed s, _, hk => by
    have := isLock_ordered (n := n) (ro := ro) _ (ptrsM_sort_ok (getPtrs_ok W s hk.1)) hk.2
    rw [ptrsM_locks] at this
    simpa [toRaw, toRaw?, shapeFp] using this
  | .refc s, _, hk => by
    have := isLock_ordered (n := n) (ro := ro) _ (ptrsM_sort_ok (getPtrs_ok W s hk.1)) hk.2
    rw [ptrsM_locks] at this
    simpa [toRaw, toRaw?, shapeFp] using this
  | .retry s, _, hk => by
    have := isLock_retry (n := n) (ro := ro) W.fuel _ (getPtrs_ok W s hk)
    rw [ptrsM_locks] at this
    simpa [toRaw, toRaw?, shapeFp] using this
  | .owned _ s, _, hk => by
    have := isLock_ordered (n := n) (ro := ro) _ (getPtrs_ok W s hk.1) hk.2
    rw [ptrsM_locks] at this
    simpa [toRaw, toRaw?, shapeFp] using this

/-! ### the footprint is exactly the leaf locks, each once (C04) -/

theorem sortPtrs_fp_perm (ps : List Ptr) (m : Mode) :
    (Members.fp (ptrsM (sortPtrs ps)) m).Perm (Members.fp (ptrsM ps) m) := by
  rw [ptrsM_fp, ptrsM_fp]
  exact List.Perm.flatMap_right _ (List.mergeSort_perm ps _)

mutual
theorem getPtrs_fp_perm (W : World) (m : Mode) :
    ∀ S : Shape, (Members.fp (ptrsM (getPtrs W S)) m).Perm (holdsOf S m)
  | .mutex x => by simp [getPtrs, holdsOf, Members.fp]
  | .rwlock x => by simp [getPtrs, holdsOf, Members.fp]
  | .seq ss => by simpa [getPtrs, holdsOf] using getPtrsL_fp_perm W m ss
  | .poisonable _ s => by simpa [getPtrs, holdsOf] using getPtrs_fp_perm W m s
  | .boxed s => by
    simp only [getPtrs, holdsOf]
    exact (sortPtrs_fp_perm _ m).trans (getPtrs_fp_perm W m s)
  | .refc s => by
    simp only [getPtrs, holdsOf]
    exact (sortPtrs_fp_perm _ m).trans (getPtrs_fp_perm W m s)
  | .retry s => by simpa [getPtrs, holdsOf] using getPtrs_fp_perm W m s
  | .owned a s => by
    have := getPtrs_fp_perm W m s
    rw [ptrsM_fp] at this
    simpa [getPtrs, holdsOf, Members.fp] using this
theorem getPtrsL_fp_perm (W : World) (m : Mode) :
    ∀ ss : List Shape, (Members.fp (ptrsM (getPtrsL W ss)) m).Perm (holdsOfL ss m)
  | [] => by simp [getPtrsL, holdsOfL, Members.fp]
  | s :: ss => by
    simp only [getPtrsL, holdsOfL, ptrsM_append, Members.fp_append]
    exact (getPtrs_fp_perm W m s).append (getPtrsL_fp_perm W m ss)
end

/-- For every lockable shape the set of holds an acquisition obtains is a permutation of the
declared leaves — each leaf exactly once, whatever the kind, arrangement and nesting. -/
theorem shapeFp_perm (W : World) (m : Mode) : ∀ S : Shape, lockable S = true →
    (shapeFp W S m).Perm (holdsOf S m)
  | .mutex x, _ => by simp [shapeFp, holdsOf]
  | .rwlock x, _ => by simp [shapeFp, holdsOf]
  | .seq _, h => by simp [lockable] at h
  | .poisonable _ s, h => by
    simpa [shapeFp, holdsOf] using shapeFp_perm W m s (by simpa [lockable] using h)
  | .boxed s, _ => by
    simp only [shapeFp, holdsOf]
    exact (sortPtrs_fp_perm _ m).trans (getPtrs_fp_perm W m s)
  | .refc s, _ => by
    simp only [shapeFp, holdsOf]
    exact (sortPtrs_fp_perm _ m).trans (getPtrs_fp_perm W m s)
  | .retry s, _ => by simpa [shapeFp, holdsOf] using getPtrs_fp_perm W m s
  | .owned _ s, _ => by simpa [shapeFp, holdsOf] using getPtrs_fp_perm W m s

/-- holds are counted, so permuted footprints are the same ghost state -/
theorem Held.plus_perm (h : Held) {a b : Fp} (p : a.Perm b) : h.plus a = h.plus b := by
  funext y m; simp [Held.plus, p.count_eq]
theorem Held.minus_perm (h : Held) {a b : Fp} (p : a.Perm b) : h.minus a = h.minus b := by
  funext y m; simp [Held.minus, p.count_eq]
theorem Held.Covers.perm {h : Held} {a b : Fp} (p : a.Perm b) (c : h.Covers a) : h.Covers b := by
  intro y m; rw [← p.count_eq]; exact c y m

end HLV
