/-
  HLV.Logic.Kill — theorems about the kill-flag protocol at statement granularity
  (`Model/Kill.lean`), for any number of threads and every schedule.
-/
import HLV.Model.Kill
namespace HLV.Kill

theorem pc_setPc (s : St) (t u : Nat) (p : Pc) :
    (s.setPc t p).pc u = if u = t ∧ t < s.pcs.length then p else s.pc u := by
  unfold St.pc St.setPc
  simp only [List.getD_eq_getElem?_getD]
  by_cases h : u = t
  · subst h
    by_cases hl : u < s.pcs.length
    · simp [hl]
    · simp [hl]
  · have : ¬ (u = t ∧ t < s.pcs.length) := fun hh => h hh.1
    simp only [this, if_false]
    rw [List.getElem?_set_ne (Ne.symm h)]

theorem lt_of_pc_ne_unwound (s : St) (t : Nat) (h : s.pc t ≠ .unwound) : t < s.pcs.length := by
  rcases Nat.lt_or_ge t s.pcs.length with hl | hl
  · exact hl
  · exfalso; apply h
    unfold St.pc
    simp [List.getD_eq_getElem?_getD, List.getElem?_eq_none hl]

@[simp] theorem setPc_killed (s : St) (t : Nat) (p : Pc) : (s.setPc t p).killed = s.killed := rfl
@[simp] theorem setPc_writer (s : St) (t : Nat) (p : Pc) : (s.setPc t p).writer = s.writer := rfl
@[simp] theorem setPc_readers (s : St) (t : Nat) (p : Pc) : (s.setPc t p).readers = s.readers := rfl
@[simp] theorem take_pcs (s : St) (t : Nat) (m : Md) : (s.take t m).pcs = s.pcs := by cases m <;> rfl
@[simp] theorem give_pcs (s : St) (t : Nat) (m : Md) : (s.give t m).pcs = s.pcs := by cases m <;> rfl
@[simp] theorem take_killed (s : St) (t : Nat) (m : Md) : (s.take t m).killed = s.killed := by cases m <;> rfl
@[simp] theorem give_killed (s : St) (t : Nat) (m : Md) : (s.give t m).killed = s.killed := by cases m <;> rfl

/-- every enabled step, spelled out -/
inductive Step (rt : Bool) (s : St) (t : Nat) : St → Prop
  | startRefused : s.pc t = .idle → s.killed = true → Step rt s t (s.setPc t .refused)
  | startTested (tr m) : s.pc t = .idle → s.killed = false → Step rt s t (s.setPc t (.tested tr m))
  | rawFault (tr m) : s.pc t = .tested tr m → Step rt s t (s.setPc t .recover)
  | rawLocked (tr m) : s.pc t = .tested tr m → s.free m = true → rt = true →
      Step rt s t ((s.take t m).setPc t (.locked tr m))
  | rawGranted (tr m) : s.pc t = .tested tr m → s.free m = true → rt = false →
      Step rt s t ((s.take t m).setPc t (.holding m))
  | rawBusy (m) : s.pc t = .tested true m → s.free m = false → Step rt s t (s.setPc t .busy)
  | retestRefused (tr m) : s.pc t = .locked tr m → s.killed = true → Step rt s t ((s.give t m).setPc t .refused)
  | retestGranted (tr m) : s.pc t = .locked tr m → s.killed = false → Step rt s t (s.setPc t (.holding m))
  | releaseOk (m) : s.pc t = .holding m → Step rt s t ((s.give t m).setPc t .idle)
  | releaseFault (m) : s.pc t = .holding m → Step rt s t ((s.give t m).setPc t .recover)
  | store : s.pc t = .recover → Step rt s t (({ s with killed := true } : St).setPc t .unwound)
  | again : (s.pc t = .refused ∨ s.pc t = .busy) → Step rt s t (s.setPc t .idle)

theorem step_spec (rt : Bool) (s s' : St) (t : Nat) (a : Act) (h : step rt s t a = some s') : Step rt s t s' := by
  cases a <;> simp only [step] at h <;> cases hp : s.pc t <;> rw [hp] at h <;> dsimp only at h <;>
    (try (cases h; done))
  · -- start
    simp only [Option.some.injEq] at h; subst h
    by_cases hk : s.killed = true
    · rw [if_pos hk]; exact .startRefused hp hk
    · rw [if_neg hk]; exact .startTested _ _ hp (by simpa using hk)
  · -- raw
    rename_i fault tr m
    cases fault
    · simp only [Bool.false_eq_true, if_false] at h
      by_cases hf : s.free m = true
      · rw [if_pos hf] at h; simp only [Option.some.injEq] at h; subst h
        cases rt
        · simp only [Bool.false_eq_true, if_false]; exact .rawGranted tr m hp hf rfl
        · simp only [if_true]; exact .rawLocked tr m hp hf rfl
      · rw [if_neg hf] at h
        cases tr
        · simp at h
        · simp only [if_true, Option.some.injEq] at h; subst h; exact .rawBusy m hp (by simpa using hf)
    · simp only [if_true, Option.some.injEq] at h; subst h; exact .rawFault tr m hp
  · -- retest
    simp only [Option.some.injEq] at h; subst h
    by_cases hk : s.killed = true
    · rw [if_pos hk]; exact .retestRefused _ _ hp hk
    · rw [if_neg hk]; exact .retestGranted _ _ hp (by simpa using hk)
  · -- release
    rename_i fault m
    simp only [Option.some.injEq] at h; subst h
    cases fault
    · simp only [Bool.false_eq_true, if_false]; exact .releaseOk m hp
    · simp only [if_true]; exact .releaseFault m hp
  · simp only [Option.some.injEq] at h; subst h; exact .store hp
  · simp only [Option.some.injEq] at h; subst h; exact .again (.inl hp)
  · simp only [Option.some.injEq] at h; subst h; exact .again (.inr hp)

/-- the flag is never lowered -/
theorem step_killed_mono (rt : Bool) (s s' : St) (t : Nat) (a : Act) (h : step rt s t a = some s')
    (hk : s.killed = true) : s'.killed = true := by
  cases step_spec rt s s' t a h <;> simp [hk]

theorem run_killed_mono (rt : Bool) : ∀ (sched : List (Nat × Act)) (s : St), s.killed = true →
    (run rt s sched).killed = true
  | [], _, h => h
  | (t, a) :: rest, s, h => by
    simp only [run]
    cases hs : step rt s t a with
    | none => exact run_killed_mono rt rest s h
    | some s' => exact run_killed_mono rt rest s' (step_killed_mono rt s s' t a hs h)

theorem run_append (rt : Bool) : ∀ (p q : List (Nat × Act)) (s : St), run rt s (p ++ q) = run rt (run rt s p) q
  | [], _, _ => rfl
  | (t, a) :: rest, q, s => by
    simp only [List.cons_append, run]
    cases step rt s t a <;> exact run_append rt rest q _

theorem pc_set' (s s0 : St) (t u : Nat) (p : Pc) (h0 : s0.pcs = s.pcs) (hne : s.pc t ≠ .unwound) :
    (s0.setPc t p).pc u = if u = t then p else s.pc u := by
  rw [pc_setPc, h0]
  have hl := lt_of_pc_ne_unwound s t hne
  by_cases hu : u = t
  · simp [hu, hl]
  · simp only [hu, false_and, if_false]; unfold St.pc; rw [h0]

/-- a step of thread `t` changes only `t`'s program counter -/
theorem step_pc_other (rt : Bool) (s s' : St) (t u : Nat) (a : Act) (h : step rt s t a = some s') (hu : u ≠ t) :
    s'.pc u = s.pc u := by
  have key : ∀ (s0 : St) (p : Pc), s0.pcs = s.pcs → (s0.setPc t p).pc u = s.pc u := by
    intro s0 p h0
    rw [pc_setPc]; simp only [hu, false_and, if_false]; unfold St.pc; rw [h0]
  cases step_spec rt s s' t a h <;> exact key _ _ (by simp)

/-- **With the second test, a guard is handed out only while the flag is down.** -/
theorem grant_needs_unkilled (s s' : St) (t u : Nat) (a : Act) (h : step true s t a = some s')
    (hg : grants s s' u = true) : s.killed = false := by
  simp only [grants, Bool.and_eq_true, Bool.not_eq_true'] at hg
  obtain ⟨h1, h2⟩ := hg
  by_cases hu : u = t
  · subst hu
    have hpc : s.pc u ≠ .unwound → ∀ (s0 : St) (p : Pc), s0.pcs = s.pcs → (s0.setPc u p).pc u = p := by
      intro hne s0 p h0; rw [pc_set' s s0 u u p h0 hne]; simp
    cases step_spec true s s' u a h with
    | retestGranted tr m hp hk => exact hk
    | rawGranted tr m hp hh hrt => cases hrt
    | startTested tr m hp hk => exact hk
    | startRefused hp hk => rw [hpc (by rw [hp]; simp) _ _ rfl] at h2; cases h2
    | rawFault tr m hp => rw [hpc (by rw [hp]; simp) _ _ rfl] at h2; cases h2
    | rawLocked tr m hp hh hrt => rw [hpc (by rw [hp]; simp) _ _ (by simp)] at h2; cases h2
    | rawBusy m hp hh => rw [hpc (by rw [hp]; simp) _ _ rfl] at h2; cases h2
    | retestRefused tr m hp hk => rw [hpc (by rw [hp]; simp) _ _ (by simp)] at h2; cases h2
    | releaseOk m hp => rw [hp] at h1; cases h1
    | releaseFault m hp => rw [hp] at h1; cases h1
    | store hp => (have hh := hpc (by rw [hp]; simp); simp [hh, Pc.isHolding] at h2)
    | again hp => rw [hpc (by rcases hp with hp | hp <;> rw [hp] <;> simp) _ _ rfl] at h2; cases h2
  · rw [step_pc_other true s s' t u a h hu, h1] at h2
    cases h2

/-- **Once the flag is up, no schedule ever hands out a guard again**: whatever has run (`p`),
if the flag is up afterwards, no further step of any thread grants a guard to anybody. -/
theorem no_guard_once_flag_is_up (s0 : St) (p : List (Nat × Act)) (t u : Nat) (a : Act) (s' : St)
    (hk : (run true s0 p).killed = true) (h : step true (run true s0 p) t a = some s') :
    grants (run true s0 p) s' u = false := by
  cases hg : grants (run true s0 p) s' u with
  | false => rfl
  | true => rw [grant_needs_unkilled _ _ t u a h hg] at hk; cases hk

/-- thread `t` owns the raw lock in mode `m`: it has a guard, or is between the raw acquire and the second test -/
def owns (s : St) (t : Nat) (m : Md) : Prop := s.pc t = .holding m ∨ ∃ tr, s.pc t = .locked tr m

/-- the protocol's bookkeeping agrees with the raw lock -/
structure Inv (s : St) : Prop where
  wr : ∀ t, owns s t .x ↔ s.writer = some t
  rd : ∀ t, owns s t .s ↔ t ∈ s.readers
  nd : s.readers.Nodup
  ex : s.writer.isSome = true → s.readers = []

theorem inv_init (n : Nat) : Inv (init n) := by
  have hpc : ∀ t, (init n).pc t = .idle ∨ (init n).pc t = .unwound := by
    intro t
    unfold St.pc init
    simp only [List.getD_eq_getElem?_getD]
    by_cases h : t < n
    · left; simp [h]
    · right; simp [h]
  have hno : ∀ t m, ¬ owns (init n) t m := by
    intro t m h
    rcases h with h | ⟨tr, h⟩ <;> rcases hpc t with h' | h' <;> rw [h'] at h <;> cases h
  exact ⟨fun t => ⟨fun h => absurd h (hno t _), fun h => by simp [init] at h⟩,
         fun t => ⟨fun h => absurd h (hno t _), fun h => by simp [init] at h⟩,
         by simp [init], fun _ => rfl⟩

/-- `owns` after a step that only moves `t`'s counter to a non-owning value -/
theorem owns_set_other (s s0 : St) (t u : Nat) (p : Pc) (m : Md) (h0 : s0.pcs = s.pcs) (hne : s.pc t ≠ .unwound)
    (hu : u ≠ t) : owns (s0.setPc t p) u m ↔ owns s u m := by
  unfold owns
  rw [pc_set' s s0 t u p h0 hne]
  simp [hu]

theorem owns_set_self (s s0 : St) (t : Nat) (p : Pc) (m : Md) (h0 : s0.pcs = s.pcs) (hne : s.pc t ≠ .unwound) :
    owns (s0.setPc t p) t m ↔ (p = .holding m ∨ ∃ tr, p = .locked tr m) := by
  unfold owns
  rw [pc_set' s s0 t t p h0 hne]
  simp

theorem not_owns_of_pc (s : St) (t : Nat) (m : Md) (p : Pc) (hp : s.pc t = p)
    (h1 : ∀ m', p ≠ .holding m') (h2 : ∀ tr m', p ≠ .locked tr m') : ¬ owns s t m := by
  rintro (h | ⟨tr, h⟩)
  · exact h1 m (hp ▸ h)
  · exact h2 tr m (hp ▸ h)

/-- steps that neither take nor give the raw lock, moving `t` between non-owning counters -/
theorem inv_neutral (s : St) (t : Nat) (p q : Pc) (hi : Inv s) (hp : s.pc t = p) (hpu : p ≠ .unwound)
    (hp1 : ∀ m', p ≠ .holding m') (hp2 : ∀ tr m', p ≠ .locked tr m')
    (hq1 : ∀ m', q ≠ .holding m') (hq2 : ∀ tr m', q ≠ .locked tr m') : Inv (s.setPc t q) := by
  have hne : s.pc t ≠ .unwound := by rw [hp]; exact hpu
  have hold : ∀ m, ¬ owns s t m := fun m => not_owns_of_pc s t m p hp hp1 hp2
  have hnew : ∀ m, ¬ owns (s.setPc t q) t m := by
    intro m h
    rw [owns_set_self s s t q m rfl hne] at h
    rcases h with h | ⟨tr, h⟩
    · exact hq1 m h
    · exact hq2 tr m h
  have key : ∀ u m, owns (s.setPc t q) u m ↔ owns s u m := by
    intro u m
    by_cases hu : u = t
    · subst hu; exact ⟨fun h => absurd h (hnew m), fun h => absurd h (hold m)⟩
    · exact owns_set_other s s t u q m rfl hne hu
  exact ⟨fun u => by rw [key]; exact hi.wr u, fun u => by rw [key]; exact hi.rd u, hi.nd, hi.ex⟩

/-- the raw lock is taken in mode `m` by a thread that owned nothing; its new counter is an owning one -/
theorem inv_take (s : St) (t : Nat) (m : Md) (p0 p : Pc) (hi : Inv s) (hp : s.pc t = p0) (hpu : p0 ≠ .unwound)
    (hp1 : ∀ m', p0 ≠ .holding m') (hp2 : ∀ tr m', p0 ≠ .locked tr m')
    (hf : s.free m = true) (hP : p = .holding m ∨ ∃ tr, p = .locked tr m) : Inv ((s.take t m).setPc t p) := by
  have hne : s.pc t ≠ .unwound := by rw [hp]; exact hpu
  have hold : ∀ m', ¬ owns s t m' := fun m' => not_owns_of_pc s t m' _ hp hp1 hp2
  have hself : ∀ m', owns ((s.take t m).setPc t p) t m' ↔ m' = m := by
    intro m'
    rw [owns_set_self s (s.take t m) t p m' (by simp) hne]
    constructor
    · rintro (h | ⟨_, h⟩) <;> rcases hP with h' | ⟨_, h'⟩ <;> rw [h'] at h <;> cases h <;> rfl
    · intro h; subst h
      rcases hP with h' | ⟨tr, h'⟩
      · exact .inl h'
      · exact .inr ⟨tr, h'⟩
  have hoth : ∀ u m', u ≠ t → (owns ((s.take t m).setPc t p) u m' ↔ owns s u m') :=
    fun u m' hu => owns_set_other s (s.take t m) t u p m' (by simp) hne hu
  cases m with
  | x =>
    simp only [St.free, Bool.and_eq_true, Option.isNone_iff_eq_none, List.isEmpty_iff] at hf
    refine ⟨fun u => ?_, fun u => ?_, ?_, ?_⟩
    · by_cases hu : u = t
      · subst hu; rw [hself]; simp [St.take]
      · rw [hoth u .x hu]
        simp only [St.take, setPc_writer]
        constructor
        · intro h; have := (hi.wr u).1 h; rw [hf.1] at this; cases this
        · intro h; simp only [Option.some.injEq] at h; exact absurd h.symm hu
    · by_cases hu : u = t
      · subst hu; rw [hself]; simp [St.take, hf.2]
      · rw [hoth u .s hu]; simp only [St.take, setPc_readers]; exact hi.rd u
    · simp [St.take, hf.2]
    · intro _; simp [St.take, hf.2]
  | s =>
    simp only [St.free, Option.isNone_iff_eq_none] at hf
    have hnot : t ∉ s.readers := fun hm => hold .s ((hi.rd t).2 hm)
    refine ⟨fun u => ?_, fun u => ?_, ?_, ?_⟩
    · by_cases hu : u = t
      · subst hu; rw [hself]; simp [St.take, hf]
      · rw [hoth u .x hu]; simp only [St.take, setPc_writer]; exact hi.wr u
    · by_cases hu : u = t
      · subst hu; rw [hself]; simp [St.take]
      · rw [hoth u .s hu]
        simp only [St.take, setPc_readers, List.mem_cons]
        rw [hi.rd u]
        constructor
        · exact fun h => .inr h
        · rintro (h | h)
          · exact absurd h hu
          · exact h
    · simp only [St.take, setPc_readers, List.nodup_cons]; exact ⟨hnot, hi.nd⟩
    · intro hw; simp [St.take, hf] at hw

/-- the raw lock is given back in mode `m` by its owner; its new counter is a non-owning one -/
theorem inv_give (s : St) (t : Nat) (m : Md) (q : Pc) (hi : Inv s) (hown : owns s t m)
    (hq1 : ∀ m', q ≠ .holding m') (hq2 : ∀ tr m', q ≠ .locked tr m') : Inv ((s.give t m).setPc t q) := by
  have hne : s.pc t ≠ .unwound := by
    rcases hown with h | ⟨_, h⟩ <;> rw [h] <;> simp
  have hself : ∀ m', ¬ owns ((s.give t m).setPc t q) t m' := by
    intro m' h
    rw [owns_set_self s (s.give t m) t q m' (by simp) hne] at h
    rcases h with h | ⟨tr, h⟩
    · exact hq1 m' h
    · exact hq2 tr m' h
  have hoth : ∀ u m', u ≠ t → (owns ((s.give t m).setPc t q) u m' ↔ owns s u m') :=
    fun u m' hu => owns_set_other s (s.give t m) t u q m' (by simp) hne hu
  have hother_mode : ∀ m', m' ≠ m → ¬ owns s t m' := by
    intro m' hm h
    rcases hown with h1 | ⟨_, h1⟩ <;> rcases h with h2 | ⟨_, h2⟩ <;> rw [h1] at h2 <;> cases h2 <;> exact hm rfl
  cases m with
  | x =>
    have hw : s.writer = some t := (hi.wr t).1 hown
    refine ⟨fun u => ?_, fun u => ?_, ?_, ?_⟩
    · by_cases hu : u = t
      · subst hu; simp only [St.give, setPc_writer]
        exact ⟨fun h => absurd h (hself _), fun h => by cases h⟩
      · rw [hoth u .x hu]; simp only [St.give, setPc_writer]
        constructor
        · intro h; have := (hi.wr u).1 h; rw [hw] at this; simp only [Option.some.injEq] at this; exact absurd this.symm hu
        · intro h; cases h
    · by_cases hu : u = t
      · subst hu; simp only [St.give, setPc_readers]
        constructor
        · intro h; exact absurd h (hself _)
        · intro h; exact absurd ((hi.rd u).2 h) (hother_mode .s (by simp))
      · rw [hoth u .s hu]; simp only [St.give, setPc_readers]; exact hi.rd u
    · simp only [St.give, setPc_readers]; exact hi.nd
    · intro h; simp [St.give] at h
  | s =>
    have hm : t ∈ s.readers := (hi.rd t).1 hown
    refine ⟨fun u => ?_, fun u => ?_, ?_, ?_⟩
    · by_cases hu : u = t
      · subst hu; simp only [St.give, setPc_writer]
        constructor
        · intro h; exact absurd h (hself _)
        · intro h; exact absurd ((hi.wr u).2 h) (hother_mode .x (by simp))
      · rw [hoth u .x hu]; simp only [St.give, setPc_writer]; exact hi.wr u
    · by_cases hu : u = t
      · subst hu; simp only [St.give, setPc_readers]
        constructor
        · intro h; exact absurd h (hself _)
        · intro h; exact absurd h (by rw [hi.nd.mem_erase_iff]; simp)
      · rw [hoth u .s hu]; simp only [St.give, setPc_readers]
        rw [hi.rd u, hi.nd.mem_erase_iff]
        simp [hu]
    · simp only [St.give, setPc_readers]; exact hi.nd.erase _
    · intro hw
      simp only [St.give, setPc_writer] at hw
      have := hi.ex hw
      rw [this] at hm; cases hm

theorem inv_step (rt : Bool) (s s' : St) (t : Nat) (a : Act) (hi : Inv s) (h : step rt s t a = some s') : Inv s' := by
  cases step_spec rt s s' t a h with
  | startRefused hp hk => exact inv_neutral s t _ _ hi hp (by simp) (by simp) (by simp) (by simp) (by simp)
  | startTested tr m hp hk => exact inv_neutral s t _ _ hi hp (by simp) (by simp) (by simp) (by simp) (by simp)
  | rawFault tr m hp => exact inv_neutral s t _ _ hi hp (by simp) (by simp) (by simp) (by simp) (by simp)
  | rawBusy m hp hh => exact inv_neutral s t _ _ hi hp (by simp) (by simp) (by simp) (by simp) (by simp)
  | store hp =>
    have := inv_neutral s t .recover .unwound hi hp (by simp) (by simp) (by simp) (by simp) (by simp)
    exact ⟨this.wr, this.rd, this.nd, this.ex⟩
  | again hp =>
    rcases hp with hp | hp
    · exact inv_neutral s t _ _ hi hp (by simp) (by simp) (by simp) (by simp) (by simp)
    · exact inv_neutral s t _ _ hi hp (by simp) (by simp) (by simp) (by simp) (by simp)
  | retestGranted tr m hp hk =>
    -- locked → holding: still the owner, in the same mode
    have hne : s.pc t ≠ .unwound := by rw [hp]; simp
    have key : ∀ u m', owns (s.setPc t (.holding m)) u m' ↔ owns s u m' := by
      intro u m'
      by_cases hu : u = t
      · subst hu
        rw [owns_set_self s s u _ m' rfl hne]
        unfold owns; rw [hp]
        constructor
        · rintro (h | ⟨_, h⟩)
          · cases h; exact .inr ⟨tr, rfl⟩
          · cases h
        · rintro (h | ⟨_, h⟩)
          · cases h
          · cases h; exact .inl rfl
      · exact owns_set_other s s t u _ m' rfl hne hu
    exact ⟨fun u => by rw [key]; exact hi.wr u, fun u => by rw [key]; exact hi.rd u, hi.nd, hi.ex⟩
  | rawLocked tr m hp hf hrt => exact inv_take s t m _ _ hi hp (by simp) (by simp) (by simp) hf (.inr ⟨tr, rfl⟩)
  | rawGranted tr m hp hf hrt => exact inv_take s t m _ _ hi hp (by simp) (by simp) (by simp) hf (.inl rfl)
  | retestRefused tr m hp hk => exact inv_give s t m _ hi (.inr ⟨tr, hp⟩) (by simp) (by simp)
  | releaseOk m hp => exact inv_give s t m _ hi (.inl hp) (by simp) (by simp)
  | releaseFault m hp => exact inv_give s t m _ hi (.inl hp) (by simp) (by simp)

theorem inv_run (rt : Bool) : ∀ (sched : List (Nat × Act)) (s : St), Inv s → Inv (run rt s sched)
  | [], _, h => h
  | (t, a) :: rest, s, h => by
    simp only [run]
    cases hs : step rt s t a with
    | none => exact inv_run rt rest s h
    | some s' => exact inv_run rt rest s' (inv_step rt s s' t a h hs)

/-- **The protocol keeps exclusion**: along every schedule a thread with an exclusive guard is the
only thread with any guard (several shared guards may coexist); a refusal after the second test has
given the raw lock back. -/
theorem exclusion (rt : Bool) (n : Nat) (sched : List (Nat × Act)) (t u : Nat) (m : Md)
    (ht : (run rt (init n) sched).pc t = .holding .x) (hu : (run rt (init n) sched).pc u = .holding m) : t = u := by
  have hi := inv_run rt sched (init n) (inv_init n)
  have h1 := (hi.wr t).1 (.inl ht)
  cases m with
  | x =>
    have h2 := (hi.wr u).1 (.inl hu)
    rw [h1] at h2
    exact Option.some.inj h2
  | s =>
    have h2 := (hi.rd u).1 (.inl hu)
    rw [hi.ex (by rw [h1]; rfl)] at h2
    cases h2

end HLV.Kill
