/-
  HLV.Logic.Kill — theorems about the kill-flag protocol at statement granularity
  (`Model/Kill.lean`), for any number of threads and every schedule.
-/
import HLV.Model.Kill
namespace HLV.Kill

theorem pc_setPc (s : St) (t u : Nat) (p : Pc) :
    (s.setPc t p).pc u = if u = t ∧ t < s.pcs.length then p else s.pc u := by
  unfold St.pc St.setPc
  simp only [List.getD_eq_getElem?_getD]
  by_cases h : u = t
  · subst h
    by_cases hl : u < s.pcs.length
    · simp [hl]
    · simp [hl]
  · have : ¬ (u = t ∧ t < s.pcs.length) := fun hh => h hh.1
    simp only [this, if_false]
    rw [List.getElem?_set_ne (Ne.symm h)]

theorem lt_of_pc_ne_unwound (s : St) (t : Nat) (h : s.pc t ≠ .unwound) : t < s.pcs.length := by
  rcases Nat.lt_or_ge t s.pcs.length with hl | hl
  · exact hl
  · exfalso; apply h
    unfold St.pc
    simp [List.getD_eq_getElem?_getD, List.getElem?_eq_none hl]

@[simp] theorem setPc_killed (s : St) (t : Nat) (p : Pc) : (s.setPc t p).killed = s.killed := rfl
@[simp] theorem setPc_holder (s : St) (t : Nat) (p : Pc) : (s.setPc t p).holder = s.holder := rfl

/-- every enabled step, spelled out: the new state is the old one with `t`'s counter set, the
holder and the flag changed as listed -/
inductive Step (rt : Bool) (s : St) (t : Nat) : St → Prop
  | startRefused : s.pc t = .idle → s.killed = true → Step rt s t (s.setPc t .refused)
  | startTested (tr) : s.pc t = .idle → s.killed = false → Step rt s t (s.setPc t (.tested tr))
  | rawFault (tr) : s.pc t = .tested tr → Step rt s t (s.setPc t .recover)
  | rawLocked (tr) : s.pc t = .tested tr → s.holder = none → rt = true →
      Step rt s t (({ s with holder := some t } : St).setPc t (.locked tr))
  | rawGranted (tr) : s.pc t = .tested tr → s.holder = none → rt = false →
      Step rt s t (({ s with holder := some t } : St).setPc t .holding)
  | rawBusy (v) : s.pc t = .tested true → s.holder = some v → Step rt s t (s.setPc t .busy)
  | retestRefused (tr) : s.pc t = .locked tr → s.killed = true →
      Step rt s t (({ s with holder := none } : St).setPc t .refused)
  | retestGranted (tr) : s.pc t = .locked tr → s.killed = false → Step rt s t (s.setPc t .holding)
  | releaseOk : s.pc t = .holding → Step rt s t (({ s with holder := none } : St).setPc t .idle)
  | releaseFault : s.pc t = .holding → Step rt s t (({ s with holder := none } : St).setPc t .recover)
  | store : s.pc t = .recover → Step rt s t (({ s with killed := true } : St).setPc t .unwound)
  | again : (s.pc t = .refused ∨ s.pc t = .busy) → Step rt s t (s.setPc t .idle)

theorem step_spec (rt : Bool) (s s' : St) (t : Nat) (a : Act) (h : step rt s t a = some s') : Step rt s t s' := by
  cases a <;> simp only [step] at h <;> cases hp : s.pc t <;> rw [hp] at h <;> dsimp only at h <;>
    (try (cases h; done))
  · -- start
    simp only [Option.some.injEq] at h; subst h
    by_cases hk : s.killed = true
    · rw [if_pos hk]; exact .startRefused hp hk
    · rw [if_neg hk]; exact .startTested _ hp (by simpa using hk)
  · -- raw
    rename_i fault tr
    cases fault
    · simp only [Bool.false_eq_true, if_false] at h
      cases hh : s.holder with
      | none =>
        rw [hh] at h; simp only [Option.some.injEq] at h; subst h
        cases rt
        · simp only [Bool.false_eq_true, if_false]; exact .rawGranted tr hp hh rfl
        · simp only [if_true]; exact .rawLocked tr hp hh rfl
      | some v =>
        rw [hh] at h; dsimp only at h
        cases tr
        · simp at h
        · simp only [if_true, Option.some.injEq] at h; subst h; exact .rawBusy v hp hh
    · simp only [if_true, Option.some.injEq] at h; subst h; exact .rawFault tr hp
  · -- retest
    simp only [Option.some.injEq] at h; subst h
    by_cases hk : s.killed = true
    · rw [if_pos hk]; exact .retestRefused _ hp hk
    · rw [if_neg hk]; exact .retestGranted _ hp (by simpa using hk)
  · -- release
    rename_i fault
    simp only [Option.some.injEq] at h; subst h
    cases fault
    · simp only [Bool.false_eq_true, if_false]; exact .releaseOk hp
    · simp only [if_true]; exact .releaseFault hp
  · simp only [Option.some.injEq] at h; subst h; exact .store hp
  · simp only [Option.some.injEq] at h; subst h; exact .again (.inl hp)
  · simp only [Option.some.injEq] at h; subst h; exact .again (.inr hp)

/-- the flag is never lowered -/
theorem step_killed_mono (rt : Bool) (s s' : St) (t : Nat) (a : Act) (h : step rt s t a = some s')
    (hk : s.killed = true) : s'.killed = true := by
  cases step_spec rt s s' t a h <;> simp [hk]

theorem run_killed_mono (rt : Bool) : ∀ (sched : List (Nat × Act)) (s : St), s.killed = true →
    (run rt s sched).killed = true
  | [], _, h => h
  | (t, a) :: rest, s, h => by
    simp only [run]
    cases hs : step rt s t a with
    | none => exact run_killed_mono rt rest s h
    | some s' => exact run_killed_mono rt rest s' (step_killed_mono rt s s' t a hs h)

theorem run_append (rt : Bool) : ∀ (p q : List (Nat × Act)) (s : St), run rt s (p ++ q) = run rt (run rt s p) q
  | [], _, _ => rfl
  | (t, a) :: rest, q, s => by
    simp only [List.cons_append, run]
    cases step rt s t a <;> exact run_append rt rest q _

/-- a step of thread `t` changes only `t`'s program counter -/
theorem step_pc_other (rt : Bool) (s s' : St) (t u : Nat) (a : Act) (h : step rt s t a = some s') (hu : u ≠ t) :
    s'.pc u = s.pc u := by
  have key : ∀ (s0 : St) (p : Pc), s0.pcs = s.pcs → (s0.setPc t p).pc u = s.pc u := by
    intro s0 p h0
    rw [pc_setPc]; simp only [hu, false_and, if_false]; unfold St.pc; rw [h0]
  cases step_spec rt s s' t a h <;> exact key _ _ rfl

/-- the stepping thread's new counter -/
theorem pc_self (s s0 : St) (t : Nat) (p : Pc) (h0 : s0.pcs = s.pcs) (hne : s.pc t ≠ .unwound) :
    (s0.setPc t p).pc t = p := by
  rw [pc_setPc, h0]; simp [lt_of_pc_ne_unwound s t hne]

/-- **With the second test, a guard is handed out only while the flag is down.** -/
theorem grant_needs_unkilled (s s' : St) (t u : Nat) (a : Act) (h : step true s t a = some s')
    (hg : grants s s' u = true) : s.killed = false := by
  simp only [grants, Bool.and_eq_true, bne_iff_ne, ne_eq, beq_iff_eq] at hg
  obtain ⟨h1, h2⟩ := hg
  by_cases hu : u = t
  · subst hu
    cases step_spec true s s' u a h with
    | retestGranted tr hp hk => exact hk
    | rawGranted tr hp hh hrt => cases hrt
    | startRefused hp hk => (have hl := lt_of_pc_ne_unwound s u (by rw [hp]; simp); simp [pc_setPc, hl] at h2)
    | startTested tr hp hk => exact hk
    | rawFault tr hp => (have hl := lt_of_pc_ne_unwound s u (by rw [hp]; simp); simp [pc_setPc, hl] at h2)
    | rawLocked tr hp hh hrt => (have hl := lt_of_pc_ne_unwound s u (by rw [hp]; simp); simp [pc_setPc, hl] at h2)
    | rawBusy v hp hh => (have hl := lt_of_pc_ne_unwound s u (by rw [hp]; simp); simp [pc_setPc, hl] at h2)
    | retestRefused tr hp hk => (have hl := lt_of_pc_ne_unwound s u (by rw [hp]; simp); simp [pc_setPc, hl] at h2)
    | releaseOk hp => exact absurd hp h1
    | releaseFault hp => exact absurd hp h1
    | store hp => (have hl := lt_of_pc_ne_unwound s u (by rw [hp]; simp); simp [pc_setPc, hl] at h2)
    | again hp => (have hl := lt_of_pc_ne_unwound s u (by rcases hp with hp | hp <;> rw [hp] <;> simp); simp [pc_setPc, hl] at h2)
  · rw [step_pc_other true s s' t u a h hu] at h2
    exact absurd h2 h1

/-- **Once the flag is up, no schedule ever hands out a guard again**: whatever has run (`p`),
if the flag is up afterwards, no further step of any thread grants a guard to anybody. -/
theorem no_guard_once_flag_is_up (s0 : St) (p : List (Nat × Act)) (t u : Nat) (a : Act) (s' : St)
    (hk : (run true s0 p).killed = true) (h : step true (run true s0 p) t a = some s') :
    grants (run true s0 p) s' u = false := by
  cases hg : grants (run true s0 p) s' u with
  | false => rfl
  | true => rw [grant_needs_unkilled _ _ t u a h hg] at hk; cases hk

/-- the protocol's bookkeeping: the raw lock is held exactly by the thread that is between a
successful raw acquire and its release / refusal -/
def Inv (s : St) : Prop :=
  ∀ t, (s.pc t = .holding ∨ ∃ tr, s.pc t = .locked tr) ↔ s.holder = some t

theorem inv_init (n : Nat) : Inv (init n) := by
  intro t
  have : (init n).pc t = .idle ∨ (init n).pc t = .unwound := by
    unfold St.pc init
    simp only [List.getD_eq_getElem?_getD]
    by_cases h : t < n
    · left; simp [h]
    · right; simp [h]
  constructor
  · rintro (h | ⟨tr, h⟩) <;> rcases this with h' | h' <;> rw [h'] at h <;> cases h
  · intro h; simp [init] at h


theorem pc_set' (s s0 : St) (t u : Nat) (p : Pc) (h0 : s0.pcs = s.pcs) (hne : s.pc t ≠ .unwound) :
    (s0.setPc t p).pc u = if u = t then p else s.pc u := by
  rw [pc_setPc, h0]
  have hl := lt_of_pc_ne_unwound s t hne
  by_cases hu : u = t
  · simp [hu, hl]
  · simp only [hu, false_and, if_false]; unfold St.pc; rw [h0]

theorem inv_step (rt : Bool) (s s' : St) (t : Nat) (a : Act) (hi : Inv s) (h : step rt s t a = some s') : Inv s' := by
  intro u
  have hiu := hi u
  have hit := hi t
  have hpc : s.pc t ≠ .unwound → ∀ (s0 : St) (p : Pc), s0.pcs = s.pcs →
      (s0.setPc t p).pc u = if u = t then p else s.pc u := fun hne s0 p h0 => pc_set' s s0 t u p h0 hne
  cases step_spec rt s s' t a h with
  | startRefused hp hk | startTested tr hp hk | rawFault tr hp | rawBusy v hp hh | again hp =>
    have hpc' := hpc (by first | (rw [hp]; simp) | (rcases hp with hp | hp <;> rw [hp] <;> simp))
    simp only [hpc']
    simp only [setPc_holder]
    by_cases hu : u = t
    · subst hu
      simp only [if_true]
      constructor
      · rintro (h | ⟨_, h⟩) <;> cases h
      · intro hh'
        have := hiu.2 hh'
        first
          | (rw [hp] at this; rcases this with h | ⟨_, h⟩ <;> cases h)
          | (rcases hp with hp | hp <;> rw [hp] at this <;> rcases this with h | ⟨_, h⟩ <;> cases h)
    · simp only [hu, if_false]; exact hiu
  | rawLocked tr hp hh hrt | rawGranted tr hp hh hrt =>
    have hpc' := hpc (by rw [hp]; simp)
    simp only [hpc']
    simp only [setPc_holder]
    by_cases hu : u = t
    · subst hu; simp
    · simp only [hu, if_false]
      constructor
      · intro hx; have := hiu.1 hx; rw [hh] at this; cases this
      · intro hx; exfalso; simp only [Option.some.injEq] at hx; exact hu hx.symm
  | retestGranted tr hp hk =>
    have hpc' := hpc (by rw [hp]; simp)
    simp only [hpc']
    simp only [setPc_holder]
    by_cases hu : u = t
    · subst hu; simp only [if_true]
      constructor
      · intro _; exact hiu.1 (.inr ⟨tr, hp⟩)
      · intro _; first | exact .inl rfl | exact .inl trivial
    · simp only [hu, if_false]; exact hiu
  | retestRefused tr hp hk | releaseOk hp | releaseFault hp =>
    have hpc' := hpc (by rw [hp]; simp)
    simp only [hpc']
    simp only [setPc_holder]
    have hht : s.holder = some t := hit.1 (by first | exact .inr ⟨_, hp⟩ | exact .inl hp)
    by_cases hu : u = t
    · subst hu; simp only [if_true]
      constructor
      · rintro (h | ⟨_, h⟩) <;> cases h
      · intro hx; cases hx
    · simp only [hu, if_false]
      constructor
      · intro hx; have := hiu.1 hx; rw [hht] at this; simp only [Option.some.injEq] at this; exact absurd this.symm hu
      · intro hx; cases hx
  | store hp =>
    have hpc' := hpc (by rw [hp]; simp)
    simp only [hpc']
    simp only [setPc_holder]
    by_cases hu : u = t
    · subst hu; simp only [if_true]
      constructor
      · rintro (h | ⟨_, h⟩) <;> cases h
      · intro hx; have := hiu.2 hx; rw [hp] at this; rcases this with h | ⟨_, h⟩ <;> cases h
    · simp only [hu, if_false]; exact hiu

theorem inv_run (rt : Bool) : ∀ (sched : List (Nat × Act)) (s : St), Inv s → Inv (run rt s sched)
  | [], _, h => h
  | (t, a) :: rest, s, h => by
    simp only [run]
    cases hs : step rt s t a with
    | none => exact inv_run rt rest s h
    | some s' => exact inv_run rt rest s' (inv_step rt s s' t a h hs)

/-- **The protocol keeps exclusion**: in every state any schedule reaches, at most one thread owns
the raw lock (has a guard, or is between the raw acquire and the second test), and it is the
recorded holder; a refusal after the second test has given the raw lock back. -/
theorem exclusion (rt : Bool) (n : Nat) (sched : List (Nat × Act)) (t u : Nat)
    (ht : (run rt (init n) sched).pc t = .holding) (hu : (run rt (init n) sched).pc u = .holding) : t = u := by
  have hi := inv_run rt sched (init n) (inv_init n)
  have h1 := (hi t).1 (.inl ht)
  have h2 := (hi u).1 (.inl hu)
  rw [h1] at h2
  exact Option.some.inj h2

end HLV.Kill
