/-
  HLV.Logic.ParSound — the executable replay used for the T2 correspondence (`Model/Par.lean`)
  really is an execution of the interleaving semantics `Sys.step` that `C01_deadlock_free` and
  the system invariant are about: every turn of a thread is a finite sequence of `Sys.step`s
  of that thread, so every state the replay goes through is `Reachable`.
-/
import HLV.Model.Par
namespace HLV

/-- the system a replay state stands for: thread `t` still has to run `thr[t]` -/
def ParSt.toSys (s : ParSt) : Sys :=
  { env := s.env
    thr := fun t => match s.thr[t]? with
      | some p => Prog.bind p fun _ => .done ()
      | none => .done () }

theorem reachable_trans {pol : Policy} {a b c : Sys} (h1 : Reachable pol a b) (h2 : Reachable pol b c) :
    Reachable pol a c := by
  induction h2 with
  | init => exact h1
  | step t _ hs ih => exact .step t ih hs

theorem toSys_set (s : ParSt) (t : Tid) (ht : t < s.thr.length) (e : Env) (p : Prog Unit UserSt)
    (tr : List String) (st : List Bool) :
    ({ s with env := e, trace := tr, thr := s.thr.set t p, started := st } : ParSt).toSys =
      { env := e, thr := fun u => if u = t then (Prog.bind p fun _ => .done ()) else s.toSys.thr u } := by
  simp only [ParSt.toSys]
  congr 1
  funext u
  by_cases hu : u = t
  · subst hu; simp [List.getElem?_set_self ht]
  · simp [hu, List.getElem?_set_ne (Ne.symm hu)]

/-- the thread-local operations of a turn are steps of the semantics -/
theorem runLocal_reachable (t : Tid) : ∀ (f : Nat) (s : ParSt) (ht : t < s.thr.length) (e : Env) (tr : List String)
    (p : Prog Unit UserSt) (st : List Bool),
    Reachable .readerPref
      ({ s with env := e, trace := tr, thr := s.thr.set t p, started := st } : ParSt).toSys
      ({ s with
          env := (runLocal t f e tr p).1, trace := (runLocal t f e tr p).2.1,
          thr := s.thr.set t (runLocal t f e tr p).2.2, started := st } : ParSt).toSys := by
  intro f
  induction f with
  | zero => intro s ht e tr p st; exact .init
  | succ f ih =>
    intro s ht e tr p st
    cases p with
    | done a => exact .init
    | unwind c => exact .init
    | spin => exact .init
    | abort => exact .init
    | op o k =>
      simp only [runLocal]
      by_cases hs : isSched e o = true
      · simp only [hs, if_true]; exact .init
      · simp only [hs, Bool.false_eq_true, if_false]
        cases hst : e.step .readerPref t o false with
        | blocked e' => simp only; exact .init
        | stepped r e' ev =>
          simp only
          refine reachable_trans (Reachable.step t .init ?_) (ih s ht e' (logT t ev tr) (k r) st)
          rw [toSys_set s t ht, toSys_set s t ht]
          simp only [Sys.step, if_true, Prog.bind, Prog.bindX, hst]
          congr 2
          funext u
          by_cases hu : u = t <;> simp [hu]

/-- **Every turn of the T2 replay is a run of the interleaving semantics.** -/
theorem turn_reachable (s s' : ParSt) (t : Tid) (ht : t < s.thr.length) (h : s.turn t = .ok s') :
    Reachable .readerPref s.toSys s'.toSys := by
  have hself : s.toSys =
      ({ s with
          env := s.env, trace := s.trace, thr := s.thr.set t (s.thr.getD t (.done {})),
          started := s.started } : ParSt).toSys := by
    have : s.thr.set t (s.thr.getD t (.done {})) = s.thr := by
      apply List.ext_getElem?
      intro i
      by_cases hi : i = t
      · subst hi; simp [List.getElem?_set_self ht, List.getD_eq_getElem?_getD, List.getElem?_eq_getElem ht]
      · simp [List.getElem?_set_ne (Ne.symm hi)]
    rw [this]
  unfold ParSt.turn at h
  split at h
  · -- first turn: the thread's local prefix
    simp only [Except.ok.injEq] at h
    subst h
    rw [hself]
    exact runLocal_reachable t localFuel s ht s.env s.trace _ _
  · dsimp only at h
    cases hp : s.thr.getD t (.done {}) with
    | op o k =>
      rw [hp] at h
      simp only at h
      split at h
      · cases hst : s.env.step .readerPref t o false with
        | blocked e' => simp [hst] at h
        | stepped r e' ev =>
          simp only [hst, Except.ok.injEq] at h
          subst h
          have h1 : Reachable .readerPref s.toSys
              ({ s with
                  env := e', trace := logT t ev s.trace, thr := s.thr.set t (k r),
                  started := s.started } : ParSt).toSys := by
            refine Reachable.step t .init ?_
            rw [hself, toSys_set s t ht, toSys_set s t ht]
            simp only [Sys.step, if_true, hp, Prog.bind, Prog.bindX, hst]
            congr 2
            funext u
            by_cases hu : u = t <;> simp [hu]
          exact reachable_trans h1 (runLocal_reachable t localFuel s ht e' _ (k r) s.started)
      · cases h
    | done a => rw [hp] at h; cases h
    | unwind c => rw [hp] at h; cases h
    | spin => rw [hp] at h; cases h
    | abort => rw [hp] at h; cases h

theorem turn_length (s s' : ParSt) (t : Tid) (h : s.turn t = .ok s') : s'.thr.length = s.thr.length := by
  unfold ParSt.turn at h
  split at h
  · simp only [Except.ok.injEq] at h; subst h; simp
  · dsimp only at h
    cases hp : s.thr.getD t (.done {}) with
    | op o k =>
      rw [hp] at h
      simp only at h
      split at h
      · cases hst : s.env.step .readerPref t o false with
        | blocked e' => simp [hst] at h
        | stepped r e' ev => simp only [hst, Except.ok.injEq] at h; subst h; simp
      · cases h
    | done a => rw [hp] at h; cases h
    | unwind c => rw [hp] at h; cases h
    | spin => rw [hp] at h; cases h
    | abort => rw [hp] at h; cases h

/-- a turn of a thread that does not exist is refused by the replay -/
theorem turn_lt (s s' : ParSt) (t : Tid) (hst : s.started.length = s.thr.length)
    (h : s.turn t = .ok s') : t < s.thr.length := by
  rcases Nat.lt_or_ge t s.thr.length with hlt | hge
  · exact hlt
  · exfalso
    unfold ParSt.turn at h
    have h1 : s.started[t]? = none := List.getElem?_eq_none (by omega)
    have h2 : s.thr[t]? = none := List.getElem?_eq_none hge
    simp [List.getD_eq_getElem?_getD, h1, h2] at h

theorem turn_started_length (s s' : ParSt) (t : Tid) (h : s.turn t = .ok s') :
    s'.started.length = s.started.length := by
  unfold ParSt.turn at h
  split at h
  · simp only [Except.ok.injEq] at h; subst h; simp
  · dsimp only at h
    cases hp : s.thr.getD t (.done {}) with
    | op o k =>
      rw [hp] at h
      simp only at h
      split at h
      · cases hst : s.env.step .readerPref t o false with
        | blocked e' => simp [hst] at h
        | stepped r e' ev => simp only [hst, Except.ok.injEq] at h; subst h; rfl
      · cases h
    | done a => rw [hp] at h; cases h
    | unwind c => rw [hp] at h; cases h
    | spin => rw [hp] at h; cases h
    | abort => rw [hp] at h; cases h

/-- **The whole replay of a schedule is a run of the interleaving semantics.** -/
theorem runSched_reachable : ∀ (sched : List Nat) (s s' : ParSt), s.started.length = s.thr.length →
    s.runSched sched = .ok s' → Reachable .readerPref s.toSys s'.toSys
  | [], s, s', _, h => by
    simp only [ParSt.runSched, Except.ok.injEq] at h; subst h; exact .init
  | t :: ts, s, s', hl, h => by
    simp only [ParSt.runSched] at h
    cases ht : s.turn t with
    | error e => rw [ht] at h; cases h
    | ok s1 =>
      rw [ht] at h
      have hlt := turn_lt s s1 t hl ht
      have h1 := turn_reachable s s1 t hlt ht
      have hl1 : s1.started.length = s1.thr.length := by
        rw [turn_started_length s s1 t ht, turn_length s s1 t ht, hl]
      exact reachable_trans h1 (runSched_reachable ts s1 s' hl1 h)

end HLV
