/-
  HLV.Logic.OrderOwned — the rank discipline for collections that contain *owned groups*.

  An `OwnedLockCollection` is one indivisible unit of an enclosing sorting collection: it is sorted
  by the address of the collection object and its members are then taken in its own listing
  order. A rank function fits a shape (`FitOut`) when it is "unit address, then position inside
  the unit": `rank x / M` is the address of the unit `x` belongs to (its own address for a lock
  outside every owned group), and inside an owned group the ranks increase along the group's
  acquisition order. For such a rank every shape accepted by its checked constructors obeys the
  rank discipline (`shapeOK_rank`) — with `Logic/Deadlock.lean` this extends deadlock freedom
  to programs that mix owned groups, nested in any way, into sorting collections.
-/
import HLV.Logic.Order
namespace HLV

variable (W : World) (M : Nat) (rank : LockId → Nat)

mutual
/-- inside owned groups the ranks increase along the acquisition order of the group -/
def FitInside : Shape → Prop
  | .mutex _ => True
  | .rwlock _ => True
  | .seq ss => FitInsideL ss
  | .poisonable _ s => FitInside s
  | .boxed s => FitInside s
  | .refc s => FitInside s
  | .retry s => FitInside s
  | .owned _ s =>
    (∀ m, (((getPtrs W s).flatMap (·.fp m)).map fun k => rank k.1).Pairwise (· < ·)) ∧ FitInside s
def FitInsideL : List Shape → Prop
  | [] => True
  | s :: ss => FitInside s ∧ FitInsideL ss
end

mutual
/-- the rank is "address of the unit, then position in the unit" -/
def FitOut : Shape → Prop
  | .mutex x => rank x / M = W.addr x
  | .rwlock x => rank x / M = W.addr x
  | .seq ss => FitOutL ss
  | .poisonable _ s => FitOut s
  | .boxed s => FitOut s
  | .refc s => FitOut s
  | .retry s => FitOut s
  | .owned a s =>
    (∀ m, ∀ k ∈ (getPtrs W s).flatMap (·.fp m), rank k.1 / M = a) ∧ FitInside W rank (.owned a s)
def FitOutL : List Shape → Prop
  | [] => True
  | s :: ss => FitOut s ∧ FitOutL ss
end

variable {W M rank}

mutual
theorem fitInside_of_fitOut : ∀ S : Shape, FitOut W M rank S → FitInside W rank S
  | .mutex _, _ => trivial
  | .rwlock _, _ => trivial
  | .seq ss, h => by simpa [FitInside] using fitInsideL_of_fitOutL ss (by simpa [FitOut] using h)
  | .poisonable _ s, h => by simpa [FitInside] using fitInside_of_fitOut s (by simpa [FitOut] using h)
  | .boxed s, h => by simpa [FitInside] using fitInside_of_fitOut s (by simpa [FitOut] using h)
  | .refc s, h => by simpa [FitInside] using fitInside_of_fitOut s (by simpa [FitOut] using h)
  | .retry s, h => by simpa [FitInside] using fitInside_of_fitOut s (by simpa [FitOut] using h)
  | .owned _ _, h => by
    simp only [FitOut] at h
    exact h.2
theorem fitInsideL_of_fitOutL : ∀ ss : List Shape, FitOutL W M rank ss → FitInsideL W rank ss
  | [], _ => trivial
  | s :: ss, h => by
    simp only [FitOutL] at h
    exact ⟨fitInside_of_fitOut s h.1, fitInsideL_of_fitOutL ss h.2⟩
end

/-- ranks increasing along the concatenated footprints ⇒ the members form a rank chain -/
theorem chain_of_flat_incr (m : Mode) : ∀ ps : List Ptr,
    (((ps.flatMap (·.fp m)).map fun k => rank k.1).Pairwise (· < ·)) →
    Members.Chain (some rank) (ptrsM ps) m
  | [], _ => List.Pairwise.nil
  | p :: ps, h => by
    simp only [List.flatMap_cons, List.map_append, List.pairwise_append] at h
    obtain ⟨_, hrest, hcross⟩ := h
    unfold Members.Chain
    rw [ptrsM_cons, List.pairwise_cons]
    refine ⟨?_, chain_of_flat_incr m ps hrest⟩
    intro q hq
    simp only [ptrsM, List.mem_map] at hq
    obtain ⟨r, hr, rfl⟩ := hq
    intro x hx y hy
    apply hcross (rank x.1) (List.mem_map.2 ⟨x, hx, rfl⟩) (rank y.1)
    exact List.mem_map.2 ⟨y, List.mem_flatMap.2 ⟨r, hr, hy⟩, rfl⟩

mutual
theorem ptrsOK_of_fitInside : ∀ S : Shape, FitInside W rank S → PtrsOK (some rank) W S
  | .mutex _, _ => trivial
  | .rwlock _, _ => trivial
  | .seq ss, h => by simpa [PtrsOK] using ptrsOKL_of_fitInsideL ss (by simpa [FitInside] using h)
  | .poisonable _ s, h => by simpa [PtrsOK] using ptrsOK_of_fitInside s (by simpa [FitInside] using h)
  | .boxed s, h => by simpa [PtrsOK] using ptrsOK_of_fitInside s (by simpa [FitInside] using h)
  | .refc s, h => by simpa [PtrsOK] using ptrsOK_of_fitInside s (by simpa [FitInside] using h)
  | .retry s, h => by simpa [PtrsOK] using ptrsOK_of_fitInside s (by simpa [FitInside] using h)
  | .owned _ s, h => by
    simp only [FitInside] at h
    exact ⟨ptrsOK_of_fitInside s h.2, fun m => chain_of_flat_incr m _ (h.1 m)⟩
theorem ptrsOKL_of_fitInsideL : ∀ ss : List Shape, FitInsideL W rank ss → PtrsOKL (some rank) W ss
  | [], _ => trivial
  | s :: ss, h => by
    simp only [FitInsideL] at h
    exact ⟨ptrsOK_of_fitInside s h.1, ptrsOKL_of_fitInsideL ss h.2⟩
end

/-- every unit `get_ptrs` hands out lies in one rank band: the band of its address -/
def UnitFit (W : World) (M : Nat) (rank : LockId → Nat) (ps : List Ptr) : Prop :=
  ∀ p ∈ ps, ∀ m, ∀ k ∈ p.fp m, rank k.1 / M = p.addr

mutual
theorem getPtrs_unitFit : ∀ S : Shape, FitOut W M rank S → UnitFit W M rank (getPtrs W S)
  | .mutex x, h => by
    intro p hp m k hk
    simp only [getPtrs, List.mem_singleton] at hp
    subst hp
    simp only [List.mem_singleton] at hk
    subst hk
    simpa [FitOut] using h
  | .rwlock x, h => by
    intro p hp m k hk
    simp only [getPtrs, List.mem_singleton] at hp
    subst hp
    simp only [List.mem_singleton] at hk
    subst hk
    simpa [FitOut] using h
  | .seq ss, h => by simpa [getPtrs] using getPtrsL_unitFit ss (by simpa [FitOut] using h)
  | .poisonable _ s, h => by simpa [getPtrs] using getPtrs_unitFit s (by simpa [FitOut] using h)
  | .boxed s, h => by
    intro p hp
    simp only [getPtrs, sortPtrs_mem] at hp
    exact getPtrs_unitFit s (by simpa [FitOut] using h) p hp
  | .refc s, h => by
    intro p hp
    simp only [getPtrs, sortPtrs_mem] at hp
    exact getPtrs_unitFit s (by simpa [FitOut] using h) p hp
  | .retry s, h => by simpa [getPtrs] using getPtrs_unitFit s (by simpa [FitOut] using h)
  | .owned a s, h => by
    intro p hp m k hk
    simp only [getPtrs, List.mem_singleton] at hp
    subst hp
    simp only [FitOut] at h
    exact h.1 m k hk
theorem getPtrsL_unitFit : ∀ ss : List Shape, FitOutL W M rank ss → UnitFit W M rank (getPtrsL W ss)
  | [], _ => by intro p hp; simp [getPtrsL] at hp
  | s :: ss, h => by
    simp only [FitOutL] at h
    intro p hp
    simp only [getPtrsL, List.mem_append] at hp
    rcases hp with hp | hp
    · exact getPtrs_unitFit s h.1 p hp
    · exact getPtrsL_unitFit ss h.2 p hp
end

/-- the address-sorted list of units in distinct rank bands is a rank chain -/
theorem sortPtrs_chain_units (hM : 0 < M) (ps : List Ptr) (hu : UnitFit W M rank ps)
    (hnd : (ps.map (·.addr)).Nodup) (m : Mode) :
    Members.Chain (some rank) (ptrsM (sortPtrs ps)) m := by
  unfold Members.Chain ptrsM
  rw [List.pairwise_map]
  have hs := sortPtrs_strict ps hnd
  have hmem : ∀ p ∈ sortPtrs ps, p ∈ ps := fun p hp => sortPtrs_mem.1 hp
  have hall : ∀ l : List Ptr, (∀ p ∈ l, p ∈ ps) → (l.Pairwise fun p q => p.addr < q.addr) →
      l.Pairwise fun p q => p ∈ ps ∧ q ∈ ps ∧ p.addr < q.addr := by
    intro l
    induction l with
    | nil => intro _ _; exact List.Pairwise.nil
    | cons a l ih =>
      intro hm hp
      have hp' := List.pairwise_cons.1 hp
      refine List.pairwise_cons.2 ⟨fun b hb => ⟨hm a List.mem_cons_self, hm b (List.mem_cons_of_mem _ hb), hp'.1 b hb⟩, ?_⟩
      exact ih (fun p hp => hm p (List.mem_cons_of_mem _ hp)) hp'.2
  refine (hall _ hmem hs).imp ?_
  intro p q ⟨hp, hq, hlt⟩ x hx y hy
  have h1 := hu p hp m x hx
  have h2 := hu q hq m y hy
  show rank x.1 < rank y.1
  apply Classical.byContradiction
  intro hcon
  have hle : rank y.1 ≤ rank x.1 := Nat.le_of_not_lt hcon
  have := Nat.div_le_div_right (c := M) hle
  omega

/-- **Valid shapes with owned groups obey the rank discipline** for every rank that is "unit
address, then position inside the unit". -/
theorem shapeOK_rank (hM : 0 < M) : ∀ S : Shape, FitOut W M rank S → Valid W S → ShapeOK (some rank) W S
  | .mutex _, _, _ => trivial
  | .rwlock _, _, _ => trivial
  | .seq _, _, _ => trivial
  | .poisonable _ s, h, hv => by
    simpa [ShapeOK] using shapeOK_rank hM s (by simpa [FitOut] using h) (by simpa [Valid] using hv)
  | .boxed s, h, hv => by
    have h' : FitOut W M rank s := by simpa [FitOut] using h
    exact ⟨ptrsOK_of_fitInside s (fitInside_of_fitOut s h'),
      fun m => sortPtrs_chain_units hM _ (getPtrs_unitFit s h') hv.2 m⟩
  | .refc s, h, hv => by
    have h' : FitOut W M rank s := by simpa [FitOut] using h
    exact ⟨ptrsOK_of_fitInside s (fitInside_of_fitOut s h'),
      fun m => sortPtrs_chain_units hM _ (getPtrs_unitFit s h') hv.2 m⟩
  | .retry s, h, _ => by
    have h' : FitOut W M rank s := by simpa [FitOut] using h
    exact ptrsOK_of_fitInside s (fitInside_of_fitOut s h')
  | .owned a s, h, _ => by
    have hi : FitInside W rank (.owned a s) := by simp only [FitOut] at h; exact h.2
    simp only [FitInside] at hi
    exact ⟨ptrsOK_of_fitInside s hi.2, fun m => chain_of_flat_incr m _ (hi.1 m)⟩

end HLV
