/-
  HLV.Logic.Key — the key discipline (C06): a specification whose ghost is the thread-local key
  flag, answered deterministically (test-and-set), and the refinement invariant between the flag
  and the key tokens the client program owns.
-/
import HLV.Logic.OpsIn
namespace HLV
open Prog

variable {ε α : Type}

structure KG where
  flag : Bool := false      -- `KEY.is_locked` of this thread
  leaked : Bool := false    -- a key token (bare, or inside a guard) was leaked with `mem::forget`
  deriving Repr, DecidableEq

def keyPre (g : KG) : Op → Prop
  | .keyDrop => g.flag = true               -- only an existing key is dropped
  | .keyForget => g.flag = true
  | .mark k => k = mkGotKey → False         -- `ThreadKey::get()` never succeeds inside a hold
  | _ => True

/-- `ThreadKey::get` is a test-and-set of the flag; everything else may answer anything
(other threads, refusals, raw-lock faults: the key discipline must not depend on them). -/
def keyAdm (g : KG) : Op → Resp → Prop
  | .keyGet, r => (r = .ok ∧ g.flag = false) ∨ (r = .no ∧ g.flag = true)
  | _, _ => True

def keyUpd (g : KG) : Op → Resp → KG
  | .keyGet, .ok => { g with flag := true }
  | .keyDrop, _ => { g with flag := false }
  | .keyForget, _ => { g with leaked := true }
  | _, _ => g

def KeySpec : Spec KG := { pre := keyPre, adm := keyAdm, upd := keyUpd }

/-- operations the key specification ignores -/
def nonKeyOp : Op → Prop
  | .keyGet => False
  | .keyDrop => False
  | .keyForget => False
  | .mark k => k ≠ mkGotKey
  | _ => True

theorem nonKey_of_lock {o : Op} (h : isLockOp o) : nonKeyOp o := by
  cases o <;> first | trivial | exact absurd h id

theorem key_frame {p : Prog ε α} (hp : OpsIn nonKeyOp p) (Q : α → KG → Prop) (E : ε → KG → Prop)
    (g : KG) (hQ : ∀ a, Q a g) (hE : ∀ e, E e g) : wp KeySpec p Q E g := by
  apply wp_of_opsIn KeySpec nonKeyOp hp _ _ Q E g hQ hE
  · intro g o ho
    cases o <;> first | trivial | exact absurd ho id | (intro h; exact absurd h ho)
  · intro g o r ho
    cases o <;> first | rfl | exact absurd ho id | (cases r <;> rfl)

theorem readPoison_nonKey (ps : List PoisonId) (b : Bool) : OpsIn nonKeyOp (readPoison ps b) := by
  induction ps generalizing b with
  | nil => exact .done _
  | cons p ps ih => exact .op _ _ trivial (fun _ => ih _)

theorem guardDropO_nonKey (m : Mode) (items : List GuardItem) (pk : Bool) :
    OpsIn nonKeyOp (guardDropO m items pk) := by
  induction items generalizing pk with
  | nil => exact .done _
  | cons it items ih =>
    cases it with
    | poisonRef p =>
      simp only [guardDropO]
      exact .op _ _ trivial (fun _ => ih _)
    | leaf x isM =>
      simp only [guardDropO]
      refine .op _ _ trivial (fun r => ?_)
      cases r
      · exact ih _
      · exact ih _
      · show OpsIn nonKeyOp (if pk then Prog.abort else guardDropO m items true)
        split
        · exact .abort
        · exact ih _

theorem guardDrop_nonKey (m : Mode) (items : List GuardItem) (pk : Bool) :
    OpsIn nonKeyOp (guardDrop m items pk) := by
  induction items generalizing pk with
  | nil => exact .done _
  | cons it items ih =>
    cases it with
    | poisonRef p =>
      simp only [guardDrop]
      split
      · exact .op _ _ trivial (fun _ => ih _)
      · exact ih _
    | leaf x isM =>
      simp only [guardDrop]
      refine .op _ _ trivial (fun r => ?_)
      cases r
      · exact ih _
      · exact ih _
      · show OpsIn nonKeyOp (if pk then Prog.abort else guardDrop m items true)
        split
        · exact .abort
        · exact ih _

theorem guardDropN_nonKey (outer : Bool) (m : Mode) (items : List GuardItem) :
    OpsIn nonKeyOp (guardDropN outer m items) := by
  unfold guardDropN
  split
  · exact guardDropO_nonKey _ _ _
  · exact guardDrop_nonKey _ _ _

theorem debugLeaf_nonKey (x : LockId) (m : Mode) (b : Nat) : OpsIn nonKeyOp (debugLeaf x m b) := by
  unfold debugLeaf
  refine .op _ _ trivial (fun r => ?_)
  cases r
  · refine .op _ _ trivial (fun _ => ?_)
    split
    · refine .op _ _ (by show (_ : Nat) ≠ _; decide) (fun _ => .op _ _ trivial (fun r' => ?_))
      cases r' <;> first | exact .abort | exact .unwind _
    · refine .op _ _ trivial (fun r' => ?_)
      cases r' <;> dsimp only <;> first | exact .unwind _ | (split <;> first | exact .done _ | exact .op _ _ (by show (_ : Nat) ≠ _; decide) (fun _ => .unwind _))
  · exact .done _
  · exact .unwind _

mutual
theorem debugFmt_nonKey (b : Option LockId) : ∀ S : Shape, OpsIn nonKeyOp (debugFmt b S)
  | .mutex x => by simpa [debugFmt] using debugLeaf_nonKey x .excl _
  | .rwlock x => by simpa [debugFmt] using debugLeaf_nonKey x .shared _
  | .seq ss => by simpa [debugFmt] using debugFmtL_nonKey b ss
  | .poisonable _ s => by simpa [debugFmt] using debugFmt_nonKey b s
  | .boxed _ => by simp only [debugFmt]; exact .done _
  | .refc s => by simpa [debugFmt] using debugFmt_nonKey b s
  | .retry s => by simpa [debugFmt] using debugFmt_nonKey b s
  | .owned _ s => by simpa [debugFmt] using debugFmt_nonKey b s
theorem debugFmtL_nonKey (b : Option LockId) : ∀ ss : List Shape, OpsIn nonKeyOp (debugFmtL b ss)
  | [] => by simp only [debugFmtL]; exact .done _
  | s :: ss => by
    simp only [debugFmtL]
    exact (debugFmt_nonKey b s).bind (fun _ => debugFmtL_nonKey b ss)
end

theorem lock_nonKey (W : World) (S : Shape) :
    (∀ m, OpsIn nonKeyOp ((toRaw W S).acq m)) ∧ (∀ m, OpsIn nonKeyOp ((toRaw W S).try_ m)) ∧
    (∀ m, OpsIn nonKeyOp ((toRaw W S).rel m)) :=
  ⟨fun m => ((toRaw_lockOnly W S).acq m).mono (fun _ => nonKey_of_lock),
   fun m => ((toRaw_lockOnly W S).try_ m).mono (fun _ => nonKey_of_lock),
   fun m => ((toRaw_lockOnly W S).rel m).mono (fun _ => nonKey_of_lock)⟩

/-- a concrete mark that is not `mkGotKey` -/
macro "nkm" : tactic => `(tactic| (show (_ : Nat) ≠ _; first | decide | (split <;> decide)))

/-! ### single operations under `KeySpec` -/

theorem kwp_ign (o : Op) (c : Resp → Prog ε α) (Q : α → KG → Prop) (E : ε → KG → Prop) (g : KG)
    (ho : nonKeyOp o) (h : ∀ r, wp KeySpec (c r) Q E g) : wp KeySpec (.op o c) Q E g := by
  refine ⟨?_, fun r _ => ?_⟩
  · cases o <;> first | trivial | exact absurd ho id | (intro h'; exact absurd h' ho)
  · have : keyUpd g o r = g := by
      cases o <;> first | rfl | exact absurd ho id | (cases r <;> rfl)
    show wp KeySpec (c r) Q E (keyUpd g o r)
    rw [this]; exact h r

theorem kwp_keyDrop (c : Resp → Prog ε α) (Q : α → KG → Prop) (E : ε → KG → Prop) (g : KG)
    (hf : g.flag = true) (h : ∀ r, wp KeySpec (c r) Q E { g with flag := false }) :
    wp KeySpec (.op .keyDrop c) Q E g :=
  ⟨hf, fun r _ => h r⟩

theorem kwp_keyForget (c : Resp → Prog ε α) (Q : α → KG → Prop) (E : ε → KG → Prop) (g : KG)
    (hf : g.flag = true) (h : ∀ r, wp KeySpec (c r) Q E { g with leaked := true }) :
    wp KeySpec (.op .keyForget c) Q E g :=
  ⟨hf, fun r _ => h r⟩

/-- `ThreadKey::get()`: succeeds exactly when the flag is clear -/
theorem kwp_keyGet (c : Resp → Prog ε α) (Q : α → KG → Prop) (E : ε → KG → Prop) (g : KG)
    (hok : g.flag = false → wp KeySpec (c .ok) Q E { g with flag := true })
    (hno : g.flag = true → wp KeySpec (c .no) Q E g) :
    wp KeySpec (.op .keyGet c) Q E g := by
  refine ⟨trivial, fun r hr => ?_⟩
  rcases hr with ⟨rfl, hf⟩ | ⟨rfl, hf⟩
  · exact hok hf
  · exact hno hf

/-! ### sessions under `KeySpec` -/

/-- during a call that took the thread's key: the flag is set and nothing was leaked -/
def InCall (g : KG) : Prop := g.flag = true ∧ g.leaked = false

/-- the refinement invariant between key tokens owned by the program and the flag -/
def KeyInv (u : UserSt) (g : KG) : Prop :=
  u.keys ≤ 1 ∧ (g.leaked = true → u.keys = 0) ∧ (g.flag = true ↔ (u.keys = 1 ∨ g.leaked = true))

theorem bodySteps_key (C : Ctx) (S : Shape) (body : List BodyStep) (g : KG) (hg : g.flag = true)
    (Q : Unit → KG → Prop) (E : Unit → KG → Prop) (hQ : Q () g) (hE : E () g) :
    wp KeySpec (bodySteps C S body) Q E g := by
  induction body with
  | nil => exact hQ
  | cons b body ih =>
    cases b with
    | write pos v => exact kwp_ign _ _ _ _ _ trivial (fun _ => ih)
    | read pos => exact kwp_ign _ _ _ _ _ trivial (fun _ => ih)
    | dbg c bomb =>
      simp only [bodySteps]
      refine kwp_ign _ _ _ _ _ (by nkm) (fun _ => ?_)
      rw [wp_bindX]
      apply key_frame (debugFmt_nonKey _ _)
      · intro _; exact kwp_ign _ _ _ _ _ (by nkm) (fun _ => ih)
      · intro _; exact kwp_ign _ _ _ _ _ (by nkm) (fun _ => hE)
    | getKey =>
      simp only [bodySteps]
      apply kwp_keyGet
      · intro hf; rw [hg] at hf; cases hf
      · intro _; exact kwp_ign _ _ _ _ _ (by nkm) (fun _ => ih)
    | isPoisoned c =>
      simp only [bodySteps]
      split
      · refine kwp_ign _ _ _ _ _ trivial (fun r => ?_)
        exact kwp_ign _ _ _ _ _ (by nkm) (fun _ => ih)
      · exact ih
    | clearPoison c =>
      simp only [bodySteps]
      split
      · exact kwp_ign _ _ _ _ _ trivial (fun _ => ih)
      · exact ih

theorem keyInv_dropped {u' : UserSt} {g : KG} (hu : u'.keys = 0) (hl : g.leaked = false) :
    KeyInv u' { g with flag := false } := by
  refine ⟨by omega, fun h => hu, ?_⟩
  simp [hu, hl]

theorem keyInv_returned {u' : UserSt} {g : KG} (hu : u'.keys = 0) (hg : InCall g) :
    KeyInv { u' with keys := u'.keys + 1 } g := by
  refine ⟨by simp [hu], (fun h => by rw [hg.2] at h; cases h), ?_⟩
  simp [hu, hg.1]

theorem keyInv_forgot {u' : UserSt} {g : KG} (hu : u'.keys = 0) (hg : InCall g) :
    KeyInv u' { g with leaked := true } := by
  refine ⟨by omega, fun _ => hu, ?_⟩
  simp [hg.1]

/-- outcome marks are < 20 -/
macro "out20" : tactic =>
  `(tactic| (simp only [mkOutOk, mkOutPoisoned, mkOutPanic, mkOutWouldBlock, mkOutNoKey]; (repeat' split) <;> omega))

/-- end of a call that consumed the key: drop it, hand the API boundary marks out -/
theorem key_finish (out : Nat) (u' : UserSt) (g : KG) (Q : Nat × UserSt → KG → Prop)
    (ho : out < 20) (hu : u'.keys = 0) (hg : InCall g)
    (hQ : ∀ (r : Nat × UserSt) (g' : KG), r.1 < 20 → KeyInv r.2 g' → Q r g') :
    wp KeySpec (op .keyDrop fun _ => op (.mark mkKeyBack) fun _ => done (out, u')) Q (fun (_ : Unit) (_ : KG) => True) g :=
  kwp_keyDrop _ _ _ _ hg.1 (fun _ => kwp_ign _ _ _ _ _ (by nkm) (fun _ => hQ _ _ ho (keyInv_dropped hu hg.2)))

theorem guardPhase_key (C : Ctx) (S : Shape) (ses : Session) (u' : UserSt) (g : KG)
    (Q : Nat × UserSt → KG → Prop)
    (hu : u'.keys = 0) (hg : InCall g)
    (hQ : ∀ (r : Nat × UserSt) (g' : KG), r.1 < 20 → KeyInv r.2 g' → Q r g') :
    wp KeySpec (guardPhase C S ses u') Q (fun (_ : Unit) (_ : KG) => True) g := by
  unfold guardPhase
  rw [wp_bind]
  apply key_frame (readPoison_nonKey _ _) _ _ _ _ (fun _ => trivial)
  intro poisoned
  refine kwp_ign _ _ _ _ _ (by nkm) (fun _ => ?_)
  have hafter : wp KeySpec
      (Prog.bind (guardDrop ses.mode (guardItems S) true) fun _ =>
        op .keyDrop fun _ => op (.mark mkKeyBack) fun _ => done (mkOutPanic, u')) Q (fun (_ : Unit) (_ : KG) => True) g := by
    rw [wp_bind]
    apply key_frame (guardDrop_nonKey _ _ _) _ _ _ _ (fun _ => trivial)
    intro _
    exact key_finish _ u' g Q (by out20) hu hg hQ
  rw [wp_bindX]
  apply bodySteps_key C S ses.body g hg.1
  · cases ses.exit with
    | forget =>
      exact kwp_keyForget _ _ _ _ hg.1 (fun _ => hQ _ _ (by out20) (keyInv_forgot hu hg))
    | panic => exact kwp_ign _ _ _ _ _ (by nkm) (fun _ => hafter)
    | unlock =>
      simp only []
      rw [wp_bind]
      apply key_frame (guardDropN_nonKey _ _ _) _ _ _ _ (fun _ => trivial)
      intro panicked
      split
      · exact key_finish _ u' g Q (by out20) hu hg hQ
      · exact kwp_ign _ _ _ _ _ (by nkm) (fun _ => hQ _ _ (by out20) (keyInv_returned hu hg))
    | drop =>
      simp only []
      rw [wp_bind]
      apply key_frame (guardDropN_nonKey _ _ _) _ _ _ _ (fun _ => trivial)
      intro panicked
      exact key_finish _ u' g Q (by out20) hu hg hQ
    | ret =>
      simp only []
      rw [wp_bind]
      apply key_frame (guardDropN_nonKey _ _ _) _ _ _ _ (fun _ => trivial)
      intro panicked
      exact key_finish _ u' g Q (by out20) hu hg hQ
  · exact hafter

theorem inCall_of_inv {u : UserSt} {g : KG} (hi : KeyInv u g) (hk : u.keys ≠ 0) :
    u.keys = 1 ∧ InCall g := by
  obtain ⟨h1, h2, h3⟩ := hi
  have hk1 : u.keys = 1 := by omega
  refine ⟨hk1, h3.2 (Or.inl hk1), ?_⟩
  cases hl : g.leaked with
  | false => rfl
  | true => have := h2 hl; omega

theorem guardSession_key (C : Ctx) (S : Shape) (ses : Session) (u : UserSt) (g : KG)
    (Q : Nat × UserSt → KG → Prop)
    (hi : KeyInv u g) (hk : u.keys ≠ 0)
    (hQ : ∀ (r : Nat × UserSt) (g' : KG), r.1 < 20 → KeyInv r.2 g' → Q r g') :
    wp KeySpec (guardSession C S ses u) Q (fun (_ : Unit) (_ : KG) => True) g := by
  obtain ⟨hk1, hg⟩ := inCall_of_inv hi hk
  have hu : ({ u with keys := u.keys - 1 } : UserSt).keys = 0 := by simp [hk1]
  obtain ⟨hacq, htry, _⟩ := lock_nonKey C.W S
  unfold guardSession
  -- the acquisition itself panicked: the key (a by-value parameter) is dropped
  have hunw : wp KeySpec
      (op .keyDrop fun _ => op (.mark mkEndCall) fun _ => op (.mark mkKeyBack) fun _ =>
        done (mkOutPanic, ({ u with keys := u.keys - 1 } : UserSt))) Q (fun (_ : Unit) (_ : KG) => True) g :=
    kwp_keyDrop _ _ _ _ hg.1 (fun _ => kwp_ign _ _ _ _ _ (by nkm) (fun _ =>
      kwp_ign _ _ _ _ _ (by nkm) (fun _ => hQ _ _ (by out20) (keyInv_dropped hu hg.2))))
  split
  · refine kwp_ign _ _ _ _ _ (by nkm) (fun _ => ?_)
    rw [wp_bindX]
    apply key_frame (htry _)
    · intro b
      cases b
      · simp only [Bool.false_eq_true, if_false]
        exact kwp_ign _ _ _ _ _ (by nkm) (fun _ => kwp_ign _ _ _ _ _ (by nkm) (fun _ => hQ _ _ (by out20) hi))
      · exact guardPhase_key C S ses _ g Q hu hg hQ
    · intro _; exact hunw
  · refine kwp_ign _ _ _ _ _ (by nkm) (fun _ => ?_)
    rw [wp_bindX]
    apply key_frame (hacq _)
    · intro _; exact guardPhase_key C S ses _ g Q hu hg hQ
    · intro _; exact hunw

/-- what a scoped call leaves: with an owned key the token is gone and the flag clear, with a
lent key nothing changed -/
def ScopedEnd (ses : Session) (u u' : UserSt) (g g' : KG) : Prop :=
  match ses.key with
  | .owned => u'.keys = 0 ∧ g' = { g with flag := false }
  | .lent => u' = u ∧ g' = g

theorem scopedSessionWith_key (C : Ctx) (S : Shape) (ses : Session) (u u' : UserSt) (g : KG)
    (Q : Nat × UserSt → KG → Prop)
    (hi : KeyInv u g) (hk : u.keys ≠ 0)
    (huo : ses.key = .owned → u'.keys = 0) (hul : ses.key = .lent → u' = u)
    (hQ : ∀ (r : Nat × UserSt) (g' : KG), r.1 < 20 → KeyInv r.2 g' → Q r g') :
    wp KeySpec (scopedSessionWith C S ses u u') Q (fun (_ : Unit) (_ : KG) => True) g := by
  obtain ⟨hk1, hg⟩ := inCall_of_inv hi hk
  obtain ⟨hacq, htry, hrel⟩ := lock_nonKey C.W S
  -- ending the call, in either key style
  have hend : ∀ (cont : Prog Unit (Nat × UserSt)),
      (∀ g', (ses.key = .owned → g' = { g with flag := false }) → (ses.key = .lent → g' = g) →
        wp KeySpec cont Q (fun (_ : Unit) (_ : KG) => True) g') →
      wp KeySpec (dropKeyIf ses.key cont) Q (fun (_ : Unit) (_ : KG) => True) g := by
    intro cont h
    unfold dropKeyIf
    cases hks : ses.key with
    | owned => exact kwp_keyDrop _ _ _ _ hg.1 (fun _ => h _ (fun _ => rfl) (fun h' => by rw [hks] at h'; cases h'))
    | lent => exact h _ (fun h' => by rw [hks] at h'; cases h') (fun _ => rfl)
  have hfin : ∀ (out : Nat) (g' : KG), out < 20 → (ses.key = .owned → g' = { g with flag := false }) →
      (ses.key = .lent → g' = g) →
      wp KeySpec (op (.mark mkEndCall) fun _ => op (.mark mkKeyBack) fun _ => done (out, u')) Q (fun (_ : Unit) (_ : KG) => True) g' := by
    intro out g' hout ho hl
    refine kwp_ign _ _ _ _ _ (by nkm) (fun _ => kwp_ign _ _ _ _ _ (by nkm) (fun _ => hQ _ _ hout ?_))
    cases hks : ses.key with
    | owned =>
      rw [ho hks]
      exact keyInv_dropped (huo hks) hg.2
    | lent =>
      rw [hl hks, hul hks]; exact hi
  have hunw : wp KeySpec (scopedUnwound ses u') Q (fun (_ : Unit) (_ : KG) => True) g := by
    unfold scopedUnwound
    exact hend _ (fun g' a b => hfin _ g' (by out20) a b)
  have hheld : wp KeySpec (scopedHeld C S ses u') Q (fun (_ : Unit) (_ : KG) => True) g := by
    unfold scopedHeld
    rw [wp_bind]
    apply key_frame (readPoison_nonKey _ _) _ _ _ _ (fun _ => trivial)
    intro poisoned
    refine kwp_ign _ _ _ _ _ (by nkm) (fun _ => ?_)
    rw [wp_bindX, wp_handle, wp_bind]
    have hhandler : wp KeySpec
        (match isPoisonableTop S with
          | some p => op (.poisonSet p) fun _ => (toRaw C.W S).rel ses.mode
          | none => (toRaw C.W S).rel ses.mode)
        (fun _ g'' => wp KeySpec (scopedUnwound ses u') Q (fun (_ : Unit) (_ : KG) => True) g'')
        (fun _ g'' => wp KeySpec (scopedUnwound ses u') Q (fun (_ : Unit) (_ : KG) => True) g'') g := by
      split
      · exact kwp_ign _ _ _ _ _ trivial (fun _ => key_frame (hrel _) _ _ _ (fun _ => hunw) (fun _ => hunw))
      · exact key_frame (hrel _) _ _ _ (fun _ => hunw) (fun _ => hunw)
    apply bodySteps_key C S ses.body g hg.1
    · cases ses.exit with
      | panic =>
        refine kwp_ign _ _ _ _ _ (by nkm) (fun _ => ?_)
        exact hhandler
      | forget | drop | unlock | ret =>
        simp only [wp_done]
        rw [wp_bindX]
        apply key_frame (hrel _)
        · intro _; exact hend _ (fun g' a b => hfin _ g' (by out20) a b)
        · intro _; exact hunw
    · exact hhandler
  unfold scopedSessionWith
  split
  · refine kwp_ign _ _ _ _ _ (by nkm) (fun _ => ?_)
    rw [wp_bindX]
    apply key_frame (htry _)
    · intro b
      cases b
      · simp only [Bool.false_eq_true, if_false]
        exact kwp_ign _ _ _ _ _ (by nkm) (fun _ => kwp_ign _ _ _ _ _ (by nkm) (fun _ => hQ _ _ (by out20) hi))
      · exact hheld
    · intro _; exact hunw
  · refine kwp_ign _ _ _ _ _ (by nkm) (fun _ => ?_)
    rw [wp_bindX]
    apply key_frame (hacq _)
    · intro _; exact hheld
    · intro _; exact hunw

theorem scopedSession_key (C : Ctx) (S : Shape) (ses : Session) (u : UserSt) (g : KG)
    (Q : Nat × UserSt → KG → Prop)
    (hi : KeyInv u g) (hk : u.keys ≠ 0)
    (hQ : ∀ (r : Nat × UserSt) (g' : KG), r.1 < 20 → KeyInv r.2 g' → Q r g') :
    wp KeySpec (scopedSession C S ses u) Q (fun (_ : Unit) (_ : KG) => True) g := by
  obtain ⟨hk1, _⟩ := inCall_of_inv hi hk
  unfold scopedSession
  apply scopedSessionWith_key C S ses u _ g Q hi hk _ _ hQ
  · intro h; simp [h, hk1]
  · intro h; simp [h]

/-! ### statements and programs -/

theorem session_key (C : Ctx) (ses : Session) (u : UserSt) (g : KG) (Q : Nat × UserSt → KG → Prop)
    (hi : KeyInv u g)
    (hQ : ∀ (r : Nat × UserSt) (g' : KG), r.1 < 20 → KeyInv r.2 g' → Q r g') :
    wp KeySpec (session C ses u) Q (fun (_ : Unit) (_ : KG) => True) g := by
  unfold session
  split
  · exact hQ _ _ (by out20) hi
  · rename_i hk
    split
    · exact guardSession_key C _ ses u g Q hi hk hQ
    · exact guardSession_key C _ ses u g Q hi hk hQ
    · exact scopedSession_key C _ ses u g Q hi hk hQ
    · exact scopedSession_key C _ ses u g Q hi hk hQ

theorem kwp_out (k : Nat) (u : UserSt) (g : KG) (Q : UserSt → KG → Prop) (hk : k < 20) (hQ : Q u g) :
    wp KeySpec (op (.mark k) fun _ => done u) Q (fun (_ : Unit) (_ : KG) => True) g :=
  kwp_ign _ _ _ _ _ (by show k ≠ mkGotKey; simp only [mkGotKey]; omega) (fun _ => hQ)

/-- **Key refinement, one statement**: the invariant between the key tokens the program owns
and the thread's flag is preserved by every statement on every answer sequence. -/
theorem stmt_key (C : Ctx) (st : Stmt) (u : UserSt) (g : KG) (Q : UserSt → KG → Prop)
    (hi : KeyInv u g) (hQ : ∀ (u' : UserSt) (g' : KG), KeyInv u' g' → Q u' g') :
    wp KeySpec (stmt C st u) Q (fun (_ : Unit) (_ : KG) => True) g := by
  cases st with
  | ses ses =>
    simp only [stmt]
    rw [wp_bind]
    apply session_key C ses u g _ hi
    intro r g' hr h
    obtain ⟨out, u'⟩ := r
    exact kwp_out out u' g' Q hr (hQ _ _ h)
  | get =>
    simp only [stmt]
    obtain ⟨h1, h2, h3⟩ := hi
    apply kwp_keyGet
    · intro hf
      -- the flag is clear: no token exists, the new one is the only one
      have hk0 : u.keys = 0 := by
        rcases Nat.eq_zero_or_pos u.keys with h | h
        · exact h
        · have : g.flag = true := h3.2 (Or.inl (by omega))
          rw [hf] at this; cases this
      have hl : g.leaked = false := by
        cases hl : g.leaked with
        | false => rfl
        | true => have := h3.2 (Or.inr hl); rw [hf] at this; cases this
      apply kwp_out _ _ _ Q (by decide)
      apply hQ
      refine ⟨by simp [hk0], (fun h => by simp only [] at h; rw [hl] at h; cases h), ?_⟩
      simp [hk0]
    · intro _
      exact kwp_out _ _ _ Q (by decide) (hQ _ _ ⟨h1, h2, h3⟩)
  | dropKey =>
    simp only [stmt]
    split
    · exact kwp_out _ _ _ Q (by decide) (hQ _ _ hi)
    · rename_i hk
      obtain ⟨hk1, hg⟩ := inCall_of_inv hi hk
      refine kwp_keyDrop _ _ _ _ hg.1 (fun _ => kwp_out _ _ _ Q (by decide) (hQ _ _ ?_))
      exact keyInv_dropped (by simp [hk1]) hg.2
  | forgetKey =>
    simp only [stmt]
    split
    · exact kwp_out _ _ _ Q (by decide) (hQ _ _ hi)
    · rename_i hk
      obtain ⟨hk1, hg⟩ := inCall_of_inv hi hk
      refine kwp_keyForget _ _ _ _ hg.1 (fun _ => kwp_out _ _ _ Q (by decide) (hQ _ _ ?_))
      exact keyInv_forgot (by simp [hk1]) hg
  | dbg c bomb =>
    simp only [stmt]
    refine kwp_ign _ _ _ _ _ (by nkm) (fun _ => ?_)
    rw [wp_bindX]
    apply key_frame (debugFmt_nonKey _ _)
    · intro _; exact kwp_ign _ _ _ _ _ (by nkm) (fun _ => kwp_out _ _ _ Q (by decide) (hQ _ _ hi))
    · intro _; exact kwp_ign _ _ _ _ _ (by nkm) (fun _ => kwp_out _ _ _ Q (by decide) (hQ _ _ hi))
  | isPoisoned c =>
    simp only [stmt]
    split
    · exact kwp_ign _ _ _ _ _ trivial (fun r => kwp_out _ _ _ Q (by split <;> decide) (hQ _ _ hi))
    · exact kwp_out _ _ _ Q (by decide) (hQ _ _ hi)
  | clearPoison c =>
    simp only [stmt]
    split
    · exact kwp_ign _ _ _ _ _ trivial (fun r => kwp_out _ _ _ Q (by decide) (hQ _ _ hi))
    · exact kwp_out _ _ _ Q (by decide) (hQ _ _ hi)
  | tryNew kind s =>
    simp only [stmt]
    exact kwp_out _ _ _ Q (by simp only [mkOutOk, mkOutWouldBlock]; (repeat' split) <;> omega) (hQ _ _ hi)

/-- **Key refinement, whole programs.** -/
theorem program_key (C : Ctx) (prog : List Stmt) (u : UserSt) (g : KG) (Q : UserSt → KG → Prop)
    (hi : KeyInv u g) (hQ : ∀ (u' : UserSt) (g' : KG), KeyInv u' g' → Q u' g') :
    wp KeySpec (program C prog u) Q (fun (_ : Unit) (_ : KG) => True) g := by
  induction prog generalizing u g with
  | nil => exact hQ u g hi
  | cons st prog ih =>
    simp only [program]
    rw [wp_bind]
    exact stmt_key C st u g _ hi (fun u' g' h => ih u' g' h)

end HLV
