/-
  HLV.Logic.Poison — poisoning (C10): a specification whose ghost is the poison flags (read
  deterministically) and the number of panics seen so far (panicking answers of any operation,
  and user panics, which the model marks with `mkUserPanic`).
-/
import HLV.Logic.OpsIn
namespace HLV
open Prog

variable {ε α : Type}

structure PG where
  flag : PoisonId → Bool := fun _ => false
  panics : Nat := 0

def PG.set (g : PG) (p : PoisonId) (b : Bool) : PG :=
  { g with flag := fun q => if q = p then b else g.flag q }

/-- soundness obligation: a poison flag is only ever set after some panic -/
def poisonPre (g : PG) : Op → Prop
  | .poisonSet _ => 0 < g.panics
  | _ => True

/-- `is_poisoned()` reads the flag; lock operations may answer anything (other threads,
refusals, faults); only lock operations can panic -/
def poisonAdm (g : PG) : Op → Resp → Prop
  | .poisonGet p, r => r = (if g.flag p then .ok else .no)
  | .acq _ _ _, _ => True
  | .rel _ _, _ => True
  | .keyGet, r => r ≠ .panic
  | _, r => r = .ok

def poisonUpd (g : PG) : Op → Resp → PG
  | .poisonSet p, _ => g.set p true
  | .poisonClear p, _ => g.set p false
  | .poisonGet _, _ => g
  | .mark k, _ => if k = mkUserPanic then { g with panics := g.panics + 1 } else g
  | _, .panic => { g with panics := g.panics + 1 }
  | _, _ => g

def PoisonSpec : Spec PG := { pre := poisonPre, adm := poisonAdm, upd := poisonUpd }

/-- `g'` is `g` after more panics and possibly more poisoning, but no clearing -/
def PG.Le (g g' : PG) : Prop := g.panics ≤ g'.panics ∧ ∀ p, g.flag p = true → g'.flag p = true

theorem PG.Le.refl (g : PG) : g.Le g := ⟨Nat.le_refl _, fun _ h => h⟩
theorem PG.Le.trans {a b c : PG} (h1 : a.Le b) (h2 : b.Le c) : a.Le c :=
  ⟨Nat.le_trans h1.1 h2.1, fun p h => h2.2 p (h1.2 p h)⟩

/-- the weaker order kept by user code inside a hold, which may also *clear* flags
(`clear_poison` while a guard is alive): only the panic counter is monotone -/
def PG.LeP (g g' : PG) : Prop := g.panics ≤ g'.panics
theorem PG.Le.p {a b : PG} (h : a.Le b) : a.LeP b := h.1
theorem PG.LeP.refl (g : PG) : g.LeP g := Nat.le_refl _
theorem PG.LeP.trans {a b c : PG} (h1 : a.LeP b) (h2 : b.Le c) : a.LeP c := Nat.le_trans h1 h2.1
theorem PG.LeP.transP {a b c : PG} (h1 : a.LeP b) (h2 : b.LeP c) : a.LeP c := Nat.le_trans h1 h2
theorem PG.Le.transP {a b c : PG} (h1 : a.Le b) (h2 : b.LeP c) : a.LeP c := Nat.le_trans h1.1 h2

/-- operations that cannot set or clear a flag (they may count as a panic) -/
def nonPoisonOp : Op → Prop
  | .poisonSet _ => False
  | .poisonClear _ => False
  | _ => True

theorem nonPoison_of_lock {o : Op} (h : isLockOp o) : nonPoisonOp o := by
  cases o <;> first | trivial | exact absurd h id

theorem poisonUpd_le (g : PG) (o : Op) (r : Resp) (ho : nonPoisonOp o) : g.Le (poisonUpd g o r) := by
  cases o <;> cases r <;>
    first
    | exact absurd ho id
    | exact PG.Le.refl g
    | exact ⟨Nat.le_succ _, fun _ h => h⟩
    | (simp only [poisonUpd]; split <;> first | exact PG.Le.refl g | exact ⟨Nat.le_succ _, fun _ h => h⟩)

/-- Frame rule for programs that never touch a poison flag: flags only grow along `Le`; if the
program unwinds and contains no user-panic mark and … we only need monotonicity here. -/
theorem poison_frame {p : Prog ε α} (hp : OpsIn nonPoisonOp p) (Q : α → PG → Prop) (E : ε → PG → Prop)
    (g : PG) (hQ : ∀ a g', g.Le g' → Q a g') (hE : ∀ e g', g.Le g' → E e g') :
    wp PoisonSpec p Q E g := by
  induction hp generalizing g with
  | done a => exact hQ a g (PG.Le.refl g)
  | unwind e => exact hE e g (PG.Le.refl g)
  | spin => trivial
  | abort => trivial
  | op o c ho _ ih =>
    refine ⟨?_, fun r _ => ?_⟩
    · cases o <;> first | trivial | exact absurd ho id
    · have hle := poisonUpd_le g o r ho
      exact ih r _ (fun a g' h => hQ a g' (hle.trans h)) (fun e g' h => hE e g' (hle.trans h))

theorem lock_nonPoison (W : World) (S : Shape) :
    (∀ m, OpsIn nonPoisonOp ((toRaw W S).acq m)) ∧ (∀ m, OpsIn nonPoisonOp ((toRaw W S).try_ m)) ∧
    (∀ m, OpsIn nonPoisonOp ((toRaw W S).rel m)) :=
  ⟨fun m => ((toRaw_lockOnly W S).acq m).mono (fun _ => nonPoison_of_lock),
   fun m => ((toRaw_lockOnly W S).try_ m).mono (fun _ => nonPoison_of_lock),
   fun m => ((toRaw_lockOnly W S).rel m).mono (fun _ => nonPoison_of_lock)⟩

/-! ### single operations -/

/-- an operation that touches no flag: continue with a ghost that is `Le`-above; if it answered
with a panic, `panics` is positive afterwards -/
theorem pwp_ign (o : Op) (c : Resp → Prog ε α) (Q : α → PG → Prop) (E : ε → PG → Prop) (g : PG)
    (ho : nonPoisonOp o)
    (h : ∀ r g', poisonAdm g o r → g.Le g' → (r = .panic → 0 < g'.panics) → wp PoisonSpec (c r) Q E g') :
    wp PoisonSpec (.op o c) Q E g := by
  refine ⟨?_, fun r hr => ?_⟩
  · cases o <;> first | trivial | exact absurd ho id
  · apply h r _ hr (poisonUpd_le g o r ho)
    intro hp
    subst hp
    cases o <;>
      first
      | exact absurd ho id
      | exact Nat.succ_pos _
      | (exfalso; revert hr; simp only [PoisonSpec, poisonAdm]; split <;> intro h' <;> cases h')
      | (exfalso; revert hr; simp only [PoisonSpec, poisonAdm]; intro h'; first | cases h' | exact h' rfl)

/-- post-conditions used below: the ghost only grew; after an unwind a panic has been counted -/
def Grew (g : PG) : α → PG → Prop := fun _ g' => g.Le g'
def GrewP (g : PG) : ε → PG → Prop := fun _ g' => g.Le g' ∧ 0 < g'.panics

/-- the user-panic mark counts as a panic -/
theorem pwp_userPanic (c : Resp → Prog ε α) (Q : α → PG → Prop) (E : ε → PG → Prop) (g : PG)
    (h : ∀ g', g.Le g' → 0 < g'.panics → wp PoisonSpec (c .ok) Q E g') :
    wp PoisonSpec (.op (.mark mkUserPanic) c) Q E g := by
  refine ⟨trivial, fun r hr => ?_⟩
  have : r = .ok := hr
  subst this
  exact h _ ⟨Nat.le_succ _, fun _ h => h⟩ (Nat.succ_pos _)

theorem debugLeaf_poison (x : LockId) (m : Mode) (b : Nat) (g : PG) :
    wp PoisonSpec (debugLeaf x m b) (Grew g) (GrewP (ε := Unit) g) g := by
  unfold debugLeaf
  apply pwp_ign _ _ _ _ _ (by trivial)
  intro r g1 _ hle hp
  cases r with
  | ok =>
    apply pwp_ign _ _ _ _ _ (by trivial)
    intro r2 g2 _ hle2 _
    split
    · apply pwp_userPanic
      intro g2' hle2' hp2'
      apply pwp_ign _ _ _ _ _ (by trivial)
      intro r3 g3 _ hle3 hp3
      cases r3 with
      | panic => trivial
      | ok => exact ⟨((hle.trans hle2).trans hle2').trans hle3, Nat.lt_of_lt_of_le hp2' hle3.1⟩
      | no => exact ⟨((hle.trans hle2).trans hle2').trans hle3, Nat.lt_of_lt_of_le hp2' hle3.1⟩
    · apply pwp_ign _ _ _ _ _ (by trivial)
      intro r3 g3 _ hle3 hp3
      cases r3 with
      | panic => exact ⟨(hle.trans hle2).trans hle3, hp3 rfl⟩
      | ok =>
        dsimp only
        split
        · apply pwp_userPanic
          intro g4 hle4 hp4
          exact ⟨((hle.trans hle2).trans hle3).trans hle4, hp4⟩
        · exact (hle.trans hle2).trans hle3
      | no =>
        dsimp only
        split
        · apply pwp_userPanic
          intro g4 hle4 hp4
          exact ⟨((hle.trans hle2).trans hle3).trans hle4, hp4⟩
        · exact (hle.trans hle2).trans hle3
  | no => exact hle
  | panic => exact ⟨hle, hp rfl⟩

theorem wp_grew_mono {p : Prog Unit Unit} {g g0 : PG} (hle : g0.Le g)
    (h : wp PoisonSpec p (Grew g) (GrewP (ε := Unit) g) g) :
    wp PoisonSpec p (Grew g0) (GrewP (ε := Unit) g0) g :=
  wp_mono PoisonSpec p h (fun _ _ a => hle.trans a) (fun _ _ a => ⟨hle.trans a.1, a.2⟩)

mutual
theorem debugFmt_poison (b : Option LockId) : ∀ (S : Shape) (g : PG),
    wp PoisonSpec (debugFmt b S) (Grew g) (GrewP (ε := Unit) g) g
  | .mutex x, g => by simpa [debugFmt] using debugLeaf_poison x .excl _ g
  | .rwlock x, g => by simpa [debugFmt] using debugLeaf_poison x .shared _ g
  | .seq ss, g => by simpa [debugFmt] using debugFmtL_poison b ss g
  | .poisonable _ s, g => by simpa [debugFmt] using debugFmt_poison b s g
  | .boxed _, g => by simp only [debugFmt]; exact PG.Le.refl g
  | .refc s, g => by simpa [debugFmt] using debugFmt_poison b s g
  | .retry s, g => by simpa [debugFmt] using debugFmt_poison b s g
  | .owned _ s, g => by simpa [debugFmt] using debugFmt_poison b s g
theorem debugFmtL_poison (b : Option LockId) : ∀ (ss : List Shape) (g : PG),
    wp PoisonSpec (debugFmtL b ss) (Grew g) (GrewP (ε := Unit) g) g
  | [], g => by simp only [debugFmtL]; exact PG.Le.refl g
  | s :: ss, g => by
    simp only [debugFmtL]
    rw [wp_bind]
    refine wp_mono PoisonSpec _ (debugFmt_poison b s g) ?_ (fun _ _ h => h)
    intro _ g1 hle
    exact wp_grew_mono hle (debugFmtL_poison b ss g1)
end

/-- post-conditions for user code inside a hold (may clear flags) -/
def GrewB (g : PG) : α → PG → Prop := fun _ g' => g.LeP g'
def GrewBP (g : PG) : ε → PG → Prop := fun _ g' => g.LeP g' ∧ 0 < g'.panics

theorem wp_grewB_mono {p : Prog Unit Unit} {g g0 : PG} (hle : g0.LeP g)
    (h : wp PoisonSpec p (GrewB g) (GrewBP (ε := Unit) g) g) :
    wp PoisonSpec p (GrewB g0) (GrewBP (ε := Unit) g0) g :=
  wp_mono PoisonSpec p h (fun _ _ a => hle.transP a) (fun _ _ a => ⟨hle.transP a.1, a.2⟩)

theorem bodySteps_poison (C : Ctx) (S : Shape) (body : List BodyStep) (g : PG) :
    wp PoisonSpec (bodySteps C S body) (GrewB g) (GrewBP (ε := Unit) g) g := by
  induction body generalizing g with
  | nil => exact PG.LeP.refl g
  | cons b body ih =>
    have step : ∀ (o : Op), nonPoisonOp o → ∀ (c : Resp → Prog Unit Unit),
        (∀ r g1, g.Le g1 → wp PoisonSpec (c r) (GrewB g1) (GrewBP (ε := Unit) g1) g1) →
        wp PoisonSpec (.op o c) (GrewB g) (GrewBP (ε := Unit) g) g := by
      intro o ho c h
      apply pwp_ign _ _ _ _ _ ho
      intro r g1 _ hle _
      exact wp_grewB_mono hle.p (h r g1 hle)
    cases b with
    | write pos v => exact step _ (by trivial) _ (fun _ g1 _ => ih g1)
    | read pos => exact step _ (by trivial) _ (fun _ g1 _ => ih g1)
    | dbg c bomb =>
      simp only [bodySteps]
      apply step _ (by trivial)
      intro _ g1 _
      rw [wp_bindX]
      refine wp_mono PoisonSpec _ (debugFmt_poison _ _ g1) ?_ ?_
      · intro _ g2 hle
        apply pwp_ign _ _ _ _ _ (by trivial)
        intro _ g3 _ hle3 _
        exact wp_grewB_mono (hle.trans hle3).p (ih g3)
      · intro _ g2 ⟨hle, hp⟩
        apply pwp_ign _ _ _ _ _ (by trivial)
        intro _ g3 _ hle3 _
        exact ⟨(hle.trans hle3).p, Nat.lt_of_lt_of_le hp hle3.1⟩
    | getKey =>
      simp only [bodySteps]
      apply step _ (by trivial)
      intro r g1 _
      cases r with
      | ok =>
        apply pwp_ign _ _ _ _ _ (by trivial)
        intro _ g2 _ hle2 _
        apply pwp_ign _ _ _ _ _ (by trivial)
        intro _ g3 _ hle3 _
        exact wp_grewB_mono (hle2.trans hle3).p (ih g3)
      | no =>
        apply pwp_ign _ _ _ _ _ (by trivial)
        intro _ g2 _ hle2 _
        exact wp_grewB_mono hle2.p (ih g2)
      | panic =>
        apply pwp_ign _ _ _ _ _ (by trivial)
        intro _ g2 _ hle2 _
        exact wp_grewB_mono hle2.p (ih g2)
    | isPoisoned c =>
      simp only [bodySteps]
      split
      · apply step _ (by trivial)
        intro r g1 _
        apply pwp_ign _ _ _ _ _ (by trivial)
        intro _ g2 _ hle2 _
        exact wp_grewB_mono hle2.p (ih g2)
      · exact ih g
    | clearPoison c =>
      simp only [bodySteps]
      split
      · refine ⟨trivial, fun r _ => ?_⟩
        exact wp_grewB_mono (g0 := g) (Nat.le_refl _) (ih _)
      · exact ih g

/-- the `PoisonRef`s inside a guard -/
def poisonRefsOf : List GuardItem → List PoisonId
  | [] => []
  | .poisonRef p :: gs => p :: poisonRefsOf gs
  | .leaf _ _ :: gs => poisonRefsOf gs

/-- Dropping a guard: flags are set only while a panic is being unwound (`pk`), which requires
that a panic has been counted; dropped while unwinding, *every* `PoisonRef` inside sets its
flag (C10 completeness for guards, of any shape). -/
theorem guardDrop_poison (m : Mode) (items : List GuardItem) (pk : Bool) (g : PG)
    (hp : pk = true → 0 < g.panics) :
    wp PoisonSpec (guardDrop m items pk)
      (fun _ g' => g.Le g' ∧ (pk = true → ∀ p ∈ poisonRefsOf items, g'.flag p = true))
      (fun (_ : Unit) _ => True) g := by
  induction items generalizing g pk with
  | nil => exact ⟨PG.Le.refl g, fun _ p hp' => by cases hp'⟩
  | cons it items ih =>
    cases it with
    | poisonRef p =>
      simp only [guardDrop]
      split
      · rename_i hpk
        refine ⟨hp hpk, fun r _ => ?_⟩
        have hle : g.Le (g.set p true) := ⟨Nat.le_refl _, fun q hq => by
          simp only [PG.set]; split <;> simp_all⟩
        have hset : (g.set p true).flag p = true := by simp [PG.set]
        refine wp_mono PoisonSpec _ (ih pk (g.set p true) (fun h => hp h)) ?_ (fun _ _ h => h)
        intro _ g' ⟨hle', hall⟩
        refine ⟨hle.trans hle', fun _ q hq => ?_⟩
        simp only [poisonRefsOf, List.mem_cons] at hq
        rcases hq with rfl | hq
        · exact hle'.2 _ hset
        · exact hall hpk q hq
      · rename_i hpk
        refine wp_mono PoisonSpec _ (ih pk g hp) ?_ (fun _ _ h => h)
        intro _ g' ⟨hle', _⟩
        exact ⟨hle', fun h => absurd h hpk⟩
    | leaf x isM =>
      simp only [guardDrop]
      apply pwp_ign _ _ _ _ _ (by trivial)
      intro r g1 _ hle hpan
      have hp1 : pk = true → 0 < g1.panics := fun h => Nat.lt_of_lt_of_le (hp h) hle.1
      cases r with
      | panic =>
        show wp PoisonSpec (if pk then Prog.abort else guardDrop m items true) _ _ g1
        split
        · trivial
        · rename_i hpk
          refine wp_mono PoisonSpec _ (ih true g1 (fun _ => hpan rfl)) ?_ (fun _ _ h => h)
          intro _ g' ⟨hle', _⟩
          exact ⟨hle.trans hle', fun h => absurd h hpk⟩
      | ok =>
        refine wp_mono PoisonSpec _ (ih pk g1 hp1) ?_ (fun _ _ h => h)
        intro _ g' ⟨hle', hall⟩
        exact ⟨hle.trans hle', fun h q hq => hall h q (by simpa [poisonRefsOf] using hq)⟩
      | no =>
        refine wp_mono PoisonSpec _ (ih pk g1 hp1) ?_ (fun _ _ h => h)
        intro _ g' ⟨hle', hall⟩
        exact ⟨hle.trans hle', fun h q hq => hall h q (by simpa [poisonRefsOf] using hq)⟩

mutual
theorem poisonRefs_guardItems : ∀ S : Shape, poisonRefsOf (guardItems S) = poisonIds S
  | .mutex x => by simp [guardItems, poisonRefsOf, poisonIds]
  | .rwlock x => by simp [guardItems, poisonRefsOf, poisonIds]
  | .seq ss => by simpa [guardItems, poisonIds] using poisonRefs_guardItemsL ss
  | .poisonable p s => by simpa [guardItems, poisonIds, poisonRefsOf] using poisonRefs_guardItems s
  | .boxed s => by simpa [guardItems, poisonIds] using poisonRefs_guardItems s
  | .refc s => by simpa [guardItems, poisonIds] using poisonRefs_guardItems s
  | .retry s => by simpa [guardItems, poisonIds] using poisonRefs_guardItems s
  | .owned _ s => by simpa [guardItems, poisonIds] using poisonRefs_guardItems s
theorem poisonRefs_guardItemsL : ∀ ss : List Shape, poisonRefsOf (guardItemsL ss) = poisonIdsL ss
  | [] => by simp [guardItemsL, poisonRefsOf, poisonIdsL]
  | s :: ss => by
    have happ : ∀ a b : List GuardItem, poisonRefsOf (a ++ b) = poisonRefsOf a ++ poisonRefsOf b := by
      intro a b
      induction a with
      | nil => rfl
      | cons x a ih => cases x <;> simp [poisonRefsOf, ih]
    simp only [guardItemsL, poisonIdsL, happ]
    rw [poisonRefs_guardItems s, poisonRefs_guardItemsL ss]
end

theorem readPoison_nonPoison (ps : List PoisonId) (b : Bool) : OpsIn nonPoisonOp (readPoison ps b) := by
  induction ps generalizing b with
  | nil => exact .done _
  | cons p ps ih => exact .op _ _ trivial (fun _ => ih _)

/-! ### sessions -/

/-- **Guards poison on panic (C10, completeness for guards of any collection or wrapper).**
After a successful guard-API acquisition of shape `S`: whatever the body does and however the
guard goes away, flags are only set after a panic; and if the body panics (user panic) every
`Poisonable` inside `S` — the wrapper itself or any member of a collection — ends up poisoned. -/
theorem guardPhase_poison (C : Ctx) (hout : C.outer = false) (S : Shape) (ses : Session) (u' : UserSt) (g : PG)
    (Q : Nat × UserSt → PG → Prop)
    (hQ : ∀ (r : Nat × UserSt) (g' : PG), g.LeP g' →
      (ses.exit = .panic → ∀ p ∈ poisonIds S, g'.flag p = true) → Q r g') :
    wp PoisonSpec (guardPhase C S ses u') Q (fun (_ : Unit) _ => True) g := by
  unfold guardPhase
  simp only [guardDropN, hout, Bool.false_eq_true, if_false]
  rw [wp_bind]
  refine poison_frame (readPoison_nonPoison _ _) _ _ _ ?_ (fun _ _ _ => trivial)
  intro poisoned g0 hle0
  apply pwp_ign _ _ _ _ _ (by trivial)
  intro _ g1 _ hle1 _
  have hg1 : g.Le g1 := hle0.trans hle1
  -- dropping the guard while unwinding, then the key
  have hafter : ∀ (g2 : PG), g.LeP g2 → 0 < g2.panics →
      wp PoisonSpec
        (Prog.bind (guardDrop ses.mode (guardItems S) true) fun _ =>
          op .keyDrop fun _ => op (.mark mkKeyBack) fun _ => done (mkOutPanic, u')) Q
        (fun (_ : Unit) _ => True) g2 := by
    intro g2 hle2 hp2
    rw [wp_bind]
    refine wp_mono PoisonSpec _ (guardDrop_poison ses.mode (guardItems S) true g2 (fun _ => hp2)) ?_
      (fun _ _ h => h)
    intro _ g3 ⟨hle3, hall⟩
    apply pwp_ign _ _ _ _ _ (by trivial)
    intro _ g4 _ hle4 _
    apply pwp_ign _ _ _ _ _ (by trivial)
    intro _ g5 _ hle5 _
    apply hQ _ _ (((hle2.trans hle3).trans hle4).trans hle5)
    intro _ p hp
    rw [← poisonRefs_guardItems] at hp
    exact hle5.2 p (hle4.2 p (hall rfl p hp))
  -- dropping the guard normally, then finishing with continuation `k`
  have hdrop : ∀ (g2 : PG) (k : Bool → Prog Unit (Nat × UserSt)), g.LeP g2 → ses.exit ≠ .panic →
      (∀ b g3, g2.Le g3 → wp PoisonSpec (k b) Q (fun (_ : Unit) _ => True) g3) →
      wp PoisonSpec (Prog.bind (guardDrop ses.mode (guardItems S) false) k) Q
        (fun (_ : Unit) _ => True) g2 := by
    intro g2 k _ _ hk
    rw [wp_bind]
    refine wp_mono PoisonSpec _ (guardDrop_poison ses.mode (guardItems S) false g2 (fun h => by cases h)) ?_
      (fun _ _ h => h)
    intro b g3 ⟨hle3, _⟩
    exact hk b g3 hle3
  have hfin : ∀ (r : Nat × UserSt) (g2 : PG), g.LeP g2 → ses.exit ≠ .panic → Q r g2 :=
    fun r g2 hle hne => hQ r g2 hle (fun h => absurd h hne)
  rw [wp_bindX]
  refine wp_mono PoisonSpec _ (bodySteps_poison C S ses.body g1) ?_ ?_
  · intro _ g2 hle2
    have hg2 : g.LeP g2 := hg1.transP hle2
    cases hexit : ses.exit with
    | forget =>
      apply pwp_ign _ _ _ _ _ (by trivial)
      intro _ g3 _ hle3 _
      exact hfin _ _ (hg2.trans hle3) (by rw [hexit]; decide)
    | panic =>
      apply pwp_userPanic
      intro g3 hle3 hp3
      exact hafter g3 (hg2.trans hle3) hp3
    | unlock =>
      apply hdrop g2 _ hg2 (by rw [hexit]; decide)
      intro b g3 hle3
      split
      · apply pwp_ign _ _ _ _ _ (by trivial)
        intro _ g4 _ hle4 _
        apply pwp_ign _ _ _ _ _ (by trivial)
        intro _ g5 _ hle5 _
        exact hfin _ _ (((hg2.trans hle3).trans hle4).trans hle5) (by rw [hexit]; decide)
      · apply pwp_ign _ _ _ _ _ (by trivial)
        intro _ g4 _ hle4 _
        exact hfin _ _ ((hg2.trans hle3).trans hle4) (by rw [hexit]; decide)
    | drop =>
      apply hdrop g2 _ hg2 (by rw [hexit]; decide)
      intro b g3 hle3
      apply pwp_ign _ _ _ _ _ (by trivial)
      intro _ g4 _ hle4 _
      apply pwp_ign _ _ _ _ _ (by trivial)
      intro _ g5 _ hle5 _
      exact hfin _ _ (((hg2.trans hle3).trans hle4).trans hle5) (by rw [hexit]; decide)
    | ret =>
      apply hdrop g2 _ hg2 (by rw [hexit]; decide)
      intro b g3 hle3
      apply pwp_ign _ _ _ _ _ (by trivial)
      intro _ g4 _ hle4 _
      apply pwp_ign _ _ _ _ _ (by trivial)
      intro _ g5 _ hle5 _
      exact hfin _ _ (((hg2.trans hle3).trans hle4).trans hle5) (by rw [hexit]; decide)
  · intro _ g2 ⟨hle2, hp2⟩
    exact hafter g2 (hg1.transP hle2) hp2

theorem dropKeyIf_poison (k : KeyStyle) (cont : Prog Unit α) (Q : α → PG → Prop) (g : PG)
    (h : ∀ g', g.Le g' → wp PoisonSpec cont Q (fun (_ : Unit) _ => True) g') :
    wp PoisonSpec (dropKeyIf k cont) Q (fun (_ : Unit) _ => True) g := by
  unfold dropKeyIf
  split
  · apply pwp_ign _ _ _ _ _ (by trivial)
    intro _ g' _ hle _
    exact h g' hle
  · exact h g (PG.Le.refl g)

/-- two marks and a result -/
theorem endMarks_poison (r : Nat × UserSt) (Q : Nat × UserSt → PG → Prop) (g : PG)
    (h : ∀ g', g.Le g' → Q r g') :
    wp PoisonSpec (op (.mark mkEndCall) fun _ => op (.mark mkKeyBack) fun _ => done r) Q
      (fun (_ : Unit) _ => True) g := by
  apply pwp_ign _ _ _ _ _ (by trivial)
  intro _ g1 _ hle1 _
  apply pwp_ign _ _ _ _ _ (by trivial)
  intro _ g2 _ hle2 _
  exact h g2 (hle1.trans hle2)

theorem scopedUnwound_poison (ses : Session) (u' : UserSt) (Q : Nat × UserSt → PG → Prop) (g : PG)
    (h : ∀ r g', g.Le g' → Q r g') :
    wp PoisonSpec (scopedUnwound ses u') Q (fun (_ : Unit) _ => True) g := by
  unfold scopedUnwound
  apply dropKeyIf_poison
  intro g1 hle1
  exact endMarks_poison _ Q g1 (fun g2 hle2 => h _ g2 (hle1.trans hle2))

/-- **Own scoped closures poison on panic**; for a collection's scoped closure the flags of
`Poisonable` members are *not* set (finding D5: only the top-level wrapper's handler poisons). -/
theorem scopedHeld_poison (C : Ctx) (S : Shape) (ses : Session) (u' : UserSt) (g : PG)
    (Q : Nat × UserSt → PG → Prop)
    (hQ : ∀ (r : Nat × UserSt) (g' : PG), g.LeP g' →
      (ses.exit = .panic → ∀ p, isPoisonableTop S = some p → g'.flag p = true) → Q r g') :
    wp PoisonSpec (scopedHeld C S ses u') Q (fun (_ : Unit) _ => True) g := by
  obtain ⟨_, _, hrel⟩ := lock_nonPoison C.W S
  unfold scopedHeld
  rw [wp_bind]
  refine poison_frame (readPoison_nonPoison _ _) _ _ _ ?_ (fun _ _ _ => trivial)
  intro poisoned g0 hle0
  apply pwp_ign _ _ _ _ _ (by trivial)
  intro _ g1 _ hle1 _
  have hg1 : g.Le g1 := hle0.trans hle1
  -- the unwind handler, entered after a panic has been counted: poison (wrapper only), release
  have hhandler : ∀ (g2 : PG), g.LeP g2 → 0 < g2.panics →
      wp PoisonSpec
        (match isPoisonableTop S with
          | some p => op (.poisonSet p) fun _ => (toRaw C.W S).rel ses.mode
          | none => (toRaw C.W S).rel ses.mode)
        (fun _ g'' => wp PoisonSpec (scopedUnwound ses u') Q (fun (_ : Unit) _ => True) g'')
        (fun _ g'' => wp PoisonSpec (scopedUnwound ses u') Q (fun (_ : Unit) _ => True) g'') g2 := by
    intro g2 hle2 hp2
    split
    · rename_i p hp
      refine ⟨hp2, fun r _ => ?_⟩
      have hset : (g2.set p true).flag p = true := by simp [PG.set]
      have hle' : g2.Le (g2.set p true) := ⟨Nat.le_refl _, fun q hq => by
        simp only [PG.set]; split <;> simp_all⟩
      have hdone : ∀ g3, (g2.set p true).Le g3 →
          wp PoisonSpec (scopedUnwound ses u') Q (fun (_ : Unit) _ => True) g3 := by
        intro g3 hle3
        apply scopedUnwound_poison
        intro r g4 hle4
        apply hQ r g4 (((hle2.trans hle').trans hle3).trans hle4)
        intro _ q hq
        rw [hp] at hq
        cases hq
        exact hle4.2 _ (hle3.2 _ hset)
      exact poison_frame (hrel _) _ _ _ (fun _ g3 h => hdone g3 h) (fun _ g3 h => hdone g3 h)
    · rename_i hnone
      have hdone : ∀ g3, g2.Le g3 →
          wp PoisonSpec (scopedUnwound ses u') Q (fun (_ : Unit) _ => True) g3 := by
        intro g3 hle3
        apply scopedUnwound_poison
        intro r g4 hle4
        apply hQ r g4 ((hle2.trans hle3).trans hle4)
        intro _ q hq
        rw [hnone] at hq
        cases hq
      exact poison_frame (hrel _) _ _ _ (fun _ g3 h => hdone g3 h) (fun _ g3 h => hdone g3 h)
  have hfin : ∀ (r : Nat × UserSt) (g2 : PG), g.LeP g2 → ses.exit ≠ .panic → Q r g2 :=
    fun r g2 hle hne => hQ r g2 hle (fun h => absurd h hne)
  rw [wp_bindX, wp_handle, wp_bind]
  refine wp_mono PoisonSpec _ (bodySteps_poison C S ses.body g1) ?_ ?_
  · intro _ g2 hle2
    have hg2 : g.LeP g2 := hg1.transP hle2
    cases hexit : ses.exit with
    | panic =>
      apply pwp_userPanic
      intro g3 hle3 hp3
      simp only [wp_unwind]
      exact hhandler g3 (hg2.trans hle3) hp3
    | forget | drop | unlock | ret =>
      have hne : ses.exit ≠ .panic := by rw [hexit]; decide
      simp only [wp_done]
      have hunw : ∀ g3, g2.Le g3 → wp PoisonSpec (scopedUnwound ses u') Q (fun (_ : Unit) _ => True) g3 :=
        fun g3 hle3 => scopedUnwound_poison _ _ _ _ (fun r g4 hle4 => hfin r g4 ((hg2.trans hle3).trans hle4) hne)
      rw [wp_bindX]
      refine poison_frame (hrel _) _ _ _ ?_ (fun _ g3 h => hunw g3 h)
      intro _ g3 hle3
      apply dropKeyIf_poison
      intro g4 hle4
      exact endMarks_poison _ Q g4 (fun g5 hle5 => hfin _ g5 (((hg2.trans hle3).trans hle4).trans hle5) hne)
  · intro _ g2 ⟨hle2, hp2⟩
    exact hhandler g2 (hg1.transP hle2) hp2

/-- every session obeys the soundness obligation (flags only after a panic) -/
theorem session_poison (C : Ctx) (hout : C.outer = false) (ses : Session) (u : UserSt) (g : PG) (Q : Nat × UserSt → PG → Prop)
    (hQ : ∀ r g', g.LeP g' → Q r g') :
    wp PoisonSpec (session C ses u) Q (fun (_ : Unit) _ => True) g := by
  obtain ⟨hacq, htry, _⟩ := lock_nonPoison C.W (C.shape ses.coll)
  have hphase : ∀ u' g1, g.Le g1 →
      wp PoisonSpec (guardPhase C (C.shape ses.coll) ses u') Q (fun (_ : Unit) _ => True) g1 :=
    fun u' g1 hle => guardPhase_poison C hout _ ses u' g1 Q (fun r g' h _ => hQ r g' (hle.transP h))
  have hheld : ∀ u' g1, g.Le g1 →
      wp PoisonSpec (scopedHeld C (C.shape ses.coll) ses u') Q (fun (_ : Unit) _ => True) g1 :=
    fun u' g1 hle => scopedHeld_poison C _ ses u' g1 Q (fun r g' h _ => hQ r g' (hle.transP h))
  have hunwG : ∀ (u' : UserSt) g1, g.Le g1 →
      wp PoisonSpec (op .keyDrop fun _ => op (.mark mkEndCall) fun _ => op (.mark mkKeyBack) fun _ =>
        done (mkOutPanic, u')) Q (fun (_ : Unit) _ => True) g1 := by
    intro u' g1 hle
    apply pwp_ign _ _ _ _ _ (by trivial)
    intro _ g2 _ hle2 _
    exact endMarks_poison _ Q g2 (fun g3 hle3 => hQ _ g3 ((hle.trans hle2).trans hle3).p)
  have hguard : wp PoisonSpec (guardSession C (C.shape ses.coll) ses u) Q (fun (_ : Unit) _ => True) g := by
    unfold guardSession
    split
    · apply pwp_ign _ _ _ _ _ (by trivial)
      intro _ g1 _ hle1 _
      rw [wp_bindX]
      refine poison_frame (htry _) _ _ _ ?_ (fun _ g2 hle2 => hunwG _ g2 (hle1.trans hle2))
      intro b g2 hle2
      cases b
      · simp only [Bool.false_eq_true, if_false]
        exact endMarks_poison _ Q g2 (fun g3 hle3 => hQ _ g3 ((hle1.trans hle2).trans hle3).p)
      · exact hphase _ g2 (hle1.trans hle2)
    · apply pwp_ign _ _ _ _ _ (by trivial)
      intro _ g1 _ hle1 _
      rw [wp_bindX]
      exact poison_frame (hacq _) _ _ _ (fun _ g2 hle2 => hphase _ g2 (hle1.trans hle2))
        (fun _ g2 hle2 => hunwG _ g2 (hle1.trans hle2))
  have hscoped : wp PoisonSpec (scopedSession C (C.shape ses.coll) ses u) Q (fun (_ : Unit) _ => True) g := by
    unfold scopedSession scopedSessionWith
    split
    · apply pwp_ign _ _ _ _ _ (by trivial)
      intro _ g1 _ hle1 _
      rw [wp_bindX]
      refine poison_frame (htry _) _ _ _ ?_
        (fun _ g2 hle2 => scopedUnwound_poison _ _ _ _ (fun r g3 hle3 => hQ r g3 ((hle1.trans hle2).trans hle3).p))
      intro b g2 hle2
      cases b
      · simp only [Bool.false_eq_true, if_false]
        exact endMarks_poison _ Q g2 (fun g3 hle3 => hQ _ g3 ((hle1.trans hle2).trans hle3).p)
      · exact hheld _ g2 (hle1.trans hle2)
    · apply pwp_ign _ _ _ _ _ (by trivial)
      intro _ g1 _ hle1 _
      rw [wp_bindX]
      exact poison_frame (hacq _) _ _ _ (fun _ g2 hle2 => hheld _ g2 (hle1.trans hle2))
        (fun _ g2 hle2 => scopedUnwound_poison _ _ _ _ (fun r g3 hle3 => hQ r g3 ((hle1.trans hle2).trans hle3).p))
  unfold session
  split
  · exact hQ _ g (PG.LeP.refl g)
  · split
    · exact hguard
    · exact hguard
    · exact hscoped
    · exact hscoped

theorem stmt_poison (C : Ctx) (hout : C.outer = false) (st : Stmt) (u : UserSt) (g : PG) :
    wp PoisonSpec (stmt C st u) (fun _ _ => True) (fun (_ : Unit) _ => True) g := by
  have hmark : ∀ (k : Nat) (u' : UserSt) (g' : PG), k ≠ mkUserPanic ∨ True →
      wp PoisonSpec (op (.mark k) fun _ => done u') (fun _ _ => True) (fun (_ : Unit) _ => True) g' :=
    fun k u' g' _ => pwp_ign _ _ _ _ _ (by trivial) (fun _ _ _ _ _ => trivial)
  cases st with
  | ses ses =>
    simp only [stmt]
    rw [wp_bind]
    apply session_poison C hout ses u g
    intro r g' _
    exact hmark _ _ _ (Or.inr trivial)
  | get =>
    simp only [stmt]
    apply pwp_ign _ _ _ _ _ (by trivial)
    intro r g' _ _ _
    cases r <;> exact hmark _ _ _ (Or.inr trivial)
  | dropKey =>
    simp only [stmt]
    split
    · exact hmark _ _ _ (Or.inr trivial)
    · exact pwp_ign _ _ _ _ _ (by trivial) (fun _ _ _ _ _ => hmark _ _ _ (Or.inr trivial))
  | forgetKey =>
    simp only [stmt]
    split
    · exact hmark _ _ _ (Or.inr trivial)
    · exact pwp_ign _ _ _ _ _ (by trivial) (fun _ _ _ _ _ => hmark _ _ _ (Or.inr trivial))
  | dbg c bomb =>
    simp only [stmt]
    apply pwp_ign _ _ _ _ _ (by trivial)
    intro _ g1 _ _ _
    rw [wp_bindX]
    refine wp_mono PoisonSpec _ (debugFmt_poison _ _ g1) ?_ ?_
    · intro _ g2 _
      exact pwp_ign _ _ _ _ _ (by trivial) (fun _ _ _ _ _ => hmark _ _ _ (Or.inr trivial))
    · intro _ g2 _
      exact pwp_ign _ _ _ _ _ (by trivial) (fun _ _ _ _ _ => hmark _ _ _ (Or.inr trivial))
  | isPoisoned c =>
    simp only [stmt]
    split
    · exact pwp_ign _ _ _ _ _ (by trivial) (fun _ _ _ _ _ => hmark _ _ _ (Or.inr trivial))
    · exact hmark _ _ _ (Or.inr trivial)
  | clearPoison c =>
    simp only [stmt]
    split
    · exact ⟨trivial, fun _ _ => hmark _ _ _ (Or.inr trivial)⟩
    · exact hmark _ _ _ (Or.inr trivial)
  | tryNew kind s =>
    simp only [stmt]
    exact hmark _ _ _ (Or.inr trivial)

theorem program_poison (C : Ctx) (hout : C.outer = false) (prog : List Stmt) (u : UserSt) (g : PG) :
    wp PoisonSpec (program C prog u) (fun _ _ => True) (fun (_ : Unit) _ => True) g := by
  induction prog generalizing u g with
  | nil => trivial
  | cons st prog ih =>
    simp only [program]
    rw [wp_bind]
    exact wp_mono PoisonSpec _ (stmt_poison C hout st u g) (fun u' g' _ => ih u' g') (fun _ _ h => h)

end HLV
