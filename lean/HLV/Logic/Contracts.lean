/-
  HLV.Logic.Contracts — one contract per algorithm, for every list of members, every mode,
  every admissible answer sequence (at most `n` panicking answers, `n` arbitrary).

  `IsLock n ro L fp`: the `RawLock` methods of `L` behave like a lock with footprint `fp`:
  * `acq`: returns with exactly `fp m` added to the holds, or unwinds with the holds as before;
  * `try_`: same, or returns `false` with the ghost state unchanged;
  * `rel`: needs `fp m` held; afterwards (returning *or unwinding*) `fp m` is no longer held.
  All three only ever release what is held, never block inside a non-blocking API and never
  kill a lock (these are the `pre` obligations of `HoldSpec`).
-/
import HLV.Logic.Hold
namespace HLV
open Prog

abbrev FpFun := Mode → Fp

structure IsLock (n : Nat) (ro : RankOpt) (L : RawLockM) (fp : FpFun) : Prop where
  acq : ∀ (m : Mode) (g : HG) (Q : Unit → HG → Prop) (E : Unit → HG → Prop),
    g.depth = 0 → LowFp ro g.held (fp m) →
    Q () { g with held := g.held.plus (fp m) } →
    (∀ g' : HG, g'.held = g.held → g'.depth = g.depth → g.panics < g'.panics → E () g') →
    wp (HoldSpec n ro) (L.acq m) Q E g
  try_ : ∀ (m : Mode) (g : HG) (Q : Bool → HG → Prop) (E : Unit → HG → Prop),
    Q true { g with held := g.held.plus (fp m) } →
    Q false g →
    (∀ g' : HG, g'.held = g.held → g'.depth = g.depth → g.panics < g'.panics → E () g') →
    wp (HoldSpec n ro) (L.try_ m) Q E g
  rel : ∀ (m : Mode) (g : HG) (Q : Unit → HG → Prop) (E : Unit → HG → Prop),
    g.held.Covers (fp m) →
    Q () { g with held := g.held.minus (fp m) } →
    (∀ g' : HG, g'.held = g.held.minus (fp m) → g'.depth = g.depth → g.panics < g'.panics →
      E () g') →
    wp (HoldSpec n ro) (L.rel m) Q E g

variable {n : Nat} {ro : RankOpt}

theorem isLock_rwLeaf (x : LockId) : IsLock n ro (rwLeaf x) (fun m => [(x, m)]) where
  acq m g Q E hb hl hQ hE :=
    rwLeaf_acq n ro x m Q E g hb (hl (x, m) (by simp)) hQ (fun _ => hE _ rfl rfl (by simp))
  try_ m g Q E hQ hN hE :=
    rwLeaf_try n ro x m Q E g hQ hN (fun _ => hE _ rfl rfl (by simp))
  rel m g Q E hc hQ hE :=
    rwLeaf_rel n ro x m Q E g hc.pos hQ (fun _ => hE _ rfl rfl (by simp))

theorem isLock_mutexLeaf (x : LockId) : IsLock n ro (mutexLeaf x) (fun _ => [(x, .excl)]) where
  acq _ g Q E hb hl hQ hE := (isLock_rwLeaf (n := n) (ro := ro) x).acq .excl g Q E hb hl hQ hE
  try_ _ g Q E hQ hN hE := (isLock_rwLeaf (n := n) (ro := ro) x).try_ .excl g Q E hQ hN hE
  rel _ g Q E hc hQ hE := (isLock_rwLeaf (n := n) (ro := ro) x).rel .excl g Q E hc hQ hE

/-- members: trait objects paired with their footprints -/
abbrev Members := List (RawLockM × FpFun)

def Members.locks (ms : Members) : List RawLockM := ms.map (·.1)
def Members.fp (ms : Members) : FpFun := fun m => ms.flatMap (fun p => p.2 m)
def Members.Ok (n : Nat) (ro : RankOpt) (ms : Members) : Prop := ∀ p ∈ ms, IsLock n ro p.1 p.2

/-- the members' footprints are rank-increasing along the list (no obligation without a rank) -/
def Members.Chain (ro : RankOpt) (ms : Members) (m : Mode) : Prop :=
  ms.Pairwise fun p q => FpBelow ro (p.2 m) (q.2 m)

@[simp] theorem Members.fp_nil (m : Mode) : Members.fp [] m = [] := rfl
@[simp] theorem Members.fp_cons (p : RawLockM × FpFun) (ms : Members) (m : Mode) :
    Members.fp (p :: ms) m = p.2 m ++ Members.fp ms m := by
  simp [Members.fp]
theorem Members.fp_append (a b : Members) (m : Mode) :
    Members.fp (a ++ b) m = Members.fp a m ++ Members.fp b m := by
  simp [Members.fp]
@[simp] theorem Members.locks_nil : Members.locks [] = [] := rfl
@[simp] theorem Members.locks_cons (p : RawLockM × FpFun) (ms : Members) :
    Members.locks (p :: ms) = p.1 :: Members.locks ms := rfl
theorem Members.locks_take (ms : Members) (k : Nat) :
    Members.locks (ms.take k) = (Members.locks ms).take k := by
  simp [Members.locks, List.map_take]
theorem Members.Ok.tail {p} {ms : Members} (h : Members.Ok n ro (p :: ms)) : Members.Ok n ro ms :=
  fun q hq => h q (List.mem_cons_of_mem _ hq)
theorem Members.Ok.head {p} {ms : Members} (h : Members.Ok n ro (p :: ms)) : IsLock n ro p.1 p.2 :=
  h p (List.mem_cons_self)
theorem Members.Ok.take {ms : Members} (h : Members.Ok n ro ms) (k : Nat) : Members.Ok n ro (ms.take k) :=
  fun q hq => h q (List.mem_of_mem_take hq)

/-! ### `unlock_all_*` -/

theorem unlockAllFrom_spec (ms : Members) (hm : ms.Ok n ro) (m : Mode) (pend : Bool) (g : HG)
    (Q : Unit → HG → Prop) (E : Unit → HG → Prop)
    (hc : g.held.Covers (ms.fp m))
    (hQ : pend = false → Q () { g with held := g.held.minus (ms.fp m) })
    (hE : ∀ g' : HG, g'.held = g.held.minus (ms.fp m) → g'.depth = g.depth →
      ((pend = true ∧ g.panics ≤ g'.panics) ∨ g.panics < g'.panics) → E () g') :
    wp (HoldSpec n ro) (unlockAllFrom m ms.locks pend) Q E g := by
  induction ms generalizing g pend with
  | nil =>
    cases pend
    · simpa [unlockAllFrom, Held.minus_nil] using hQ rfl
    · simp only [Members.locks_nil, unlockAllFrom, if_true, wp_unwind]
      exact hE g (by simp [Held.minus_nil]) rfl (Or.inl ⟨rfl, Nat.le_refl _⟩)
  | cons p ms ih =>
    simp only [Members.locks_cons, unlockAllFrom]
    rw [wp_bindX]
    rw [Members.fp_cons] at hc
    obtain ⟨hc1, hc2⟩ := hc.append
    apply hm.head.rel m g _ _ hc1
    · -- this unlock returned
      apply ih hm.tail pend _ hc2
      · intro hp
        have := hQ hp
        simpa [Members.fp_cons, Held.minus_append] using this
      · intro g' h1 h2 h3
        apply hE g' _ h2 h3
        simp [h1, Members.fp_cons, Held.minus_append]
    · -- this unlock panicked: keep going, remember the panic
      intro g1 h1 h2 h3
      apply ih hm.tail true g1 (by rw [h1]; exact hc2)
      · intro h; cases h
      · intro g' h1' h2' h3'
        apply hE g' _ (by rw [h2', h2])
        · right
          rcases h3' with ⟨_, h⟩ | h <;> omega
        · simp [h1', h1, Members.fp_cons, Held.minus_append]

theorem unlockAll_spec (ms : Members) (hm : ms.Ok n ro) (m : Mode) (g : HG)
    (Q : Unit → HG → Prop) (E : Unit → HG → Prop)
    (hc : g.held.Covers (ms.fp m))
    (hQ : Q () { g with held := g.held.minus (ms.fp m) })
    (hE : ∀ g' : HG, g'.held = g.held.minus (ms.fp m) → g'.depth = g.depth →
      g.panics < g'.panics → E () g') :
    wp (HoldSpec n ro) (unlockAll m ms.locks) Q E g := by
  apply unlockAllFrom_spec ms hm m false g Q E hc (fun _ => hQ)
  intro g' h1 h2 h3
  rcases h3 with ⟨h, _⟩ | h
  · cases h
  · exact hE g' h1 h2 h

/-! ### `ordered_write/read` -/

theorem orderedAcqBody_spec (ms : Members) (hm : ms.Ok n ro) (m : Mode) (locked : Nat) (g : HG)
    (Q : Unit → HG → Prop) (E : Nat → HG → Prop)
    (hb : g.depth = 0) (hch : Members.Chain ro ms m) (hlow : LowFp ro g.held (ms.fp m))
    (hQ : Q () { g with held := g.held.plus (ms.fp m) })
    (hE : ∀ (j : Nat) (g' : HG), j ≤ ms.length →
      g'.held = g.held.plus (Members.fp (ms.take j) m) → g'.depth = g.depth →
      g.panics < g'.panics → E (locked + j) g') :
    wp (HoldSpec n ro) (orderedAcqBody m ms.locks locked) Q E g := by
  induction ms generalizing g locked with
  | nil => simpa [orderedAcqBody, Held.plus_nil] using hQ
  | cons p ms ih =>
    simp only [Members.locks_cons, orderedAcqBody]
    rw [wp_call]
    have hch' := List.pairwise_cons.1 hch
    apply hm.head.acq m g _ _ hb (hlow.mono (by intro k hk; simp [Members.fp_cons, hk]))
    · refine ih hm.tail (locked + 1) { g with held := g.held.plus (p.2 m) } hb hch'.2 ?_ ?_ ?_
      · apply LowFp.plus (hlow.mono (by intro k hk; simp [Members.fp_cons, hk]))
        cases ro with
        | none => trivial
        | some rank =>
          intro x hx y hy
          simp only [Members.fp, List.mem_flatMap] at hy
          obtain ⟨q, hq, hyq⟩ := hy
          exact hch'.1 q hq x hx y hyq
      · simpa [Members.fp_cons, Held.plus_append] using hQ
      · intro j g' hj h1 h2 h3
        have := hE (j + 1) g' (by simpa using hj)
          (by rw [h1]; simp [Members.fp_cons, Held.plus_append]) h2 h3
        simpa [Nat.add_assoc, Nat.add_comm 1 j] using this
    · intro g' h1 h2 h3
      simpa using hE 0 g' (Nat.zero_le _) (by simp [h1, Held.plus_nil]) h2 h3

/-- after a failed or panicked acquisition of a prefix, `recover` brings the holds back -/
theorem recover_prefix (ms : Members) (hm : ms.Ok n ro) (m : Mode) (c : Nat) (h₀ : Held) (g' : HG)
    (E : Unit → HG → Prop) (p₀ : Nat)
    (h1 : g'.held = h₀.plus (Members.fp (ms.take c) m)) (h3 : p₀ < g'.panics)
    (hE : ∀ g'' : HG, g''.held = h₀ → g''.depth = g'.depth → p₀ < g''.panics → E () g'') :
    wp (HoldSpec n ro) (recover m (List.take c ms.locks)) (fun _ g'' => E () g'') (fun _ g'' => E () g'') g' := by
  simp only [recover]
  rw [← Members.locks_take]
  have hcov : g'.held.Covers (Members.fp (ms.take c) m) := by rw [h1]; exact Held.covers_plus _ _
  apply unlockAll_spec (ms.take c) (hm.take c) m g' _ _ hcov
  · refine hE _ ?_ rfl h3
    show g'.held.minus _ = h₀
    rw [h1, Held.minus_plus]
  · intro g'' h1' h2' h3'
    refine hE g'' ?_ h2' (by omega)
    rw [h1', h1, Held.minus_plus]

theorem isLock_ordered_acq (ms : Members) (hm : ms.Ok n ro) (m : Mode) (g : HG)
    (Q : Unit → HG → Prop) (E : Unit → HG → Prop)
    (hb : g.depth = 0) (hch : Members.Chain ro ms m) (hlow : LowFp ro g.held (ms.fp m))
    (hQ : Q () { g with held := g.held.plus (ms.fp m) })
    (hE : ∀ g' : HG, g'.held = g.held → g'.depth = g.depth → g.panics < g'.panics → E () g') :
    wp (HoldSpec n ro) (orderedAcq m ms.locks) Q E g := by
  unfold orderedAcq
  rw [wp_handle]
  apply orderedAcqBody_spec ms hm m 0 g _ _ hb hch hlow hQ
  intro j g' hj h1 h2 h3
  simp only [Nat.zero_add]
  apply recover_prefix ms hm m j g.held g' E g.panics h1 h3
  intro g'' a b c
  exact hE g'' a (by rw [b, h2]) c

/-! ### `ordered_try_write/read` (and the retrying collection's `raw_try_*`, same shape) -/

theorem orderedTryBody_spec (ms₁ ms₂ : Members) (hm : Members.Ok n ro (ms₁ ++ ms₂)) (m : Mode)
    (h₀ : Held) (g : HG) (Q : Bool → HG → Prop) (E : Nat → HG → Prop)
    (hg : g.held = h₀.plus (Members.fp ms₁ m))
    (hQt : Q true { g with held := h₀.plus (Members.fp (ms₁ ++ ms₂) m) })
    (hQf : Q false { g with held := h₀ })
    (hE : ∀ (c : Nat) (g' : HG), c ≤ (ms₁ ++ ms₂).length →
      g'.held = h₀.plus (Members.fp ((ms₁ ++ ms₂).take c) m) → g'.depth = g.depth →
      g.panics < g'.panics → E c g') :
    wp (HoldSpec n ro)
      (orderedTryBody m (Members.locks (ms₁ ++ ms₂)) ms₂.locks ms₁.length ms₁.length) Q E g := by
  induction ms₂ generalizing ms₁ g with
  | nil =>
    simp only [Members.locks_nil, orderedTryBody, wp_done]
    have : { g with held := h₀.plus (Members.fp (ms₁ ++ []) m) } = g := by
      cases g; simp only [List.append_nil] at hg ⊢; simp_all
    rw [this] at hQt
    exact hQt
  | cons p ms₂ ih =>
    simp only [Members.locks_cons, orderedTryBody]
    rw [wp_call]
    have hp : IsLock n ro p.1 p.2 := hm p (by simp)
    apply hp.try_ m g
    · -- acquired: continue with ms₁ ++ [p]
      have hlen : (ms₁ ++ [p]).length = ms₁.length + 1 := by simp
      have happ : ms₁ ++ p :: ms₂ = (ms₁ ++ [p]) ++ ms₂ := by simp
      simp only [if_true]
      rw [happ, ← hlen]
      refine ih (ms₁ ++ [p]) (by rw [← happ]; exact hm)
        { g with held := g.held.plus (p.2 m) } ?_ ?_ ?_ ?_
      · show g.held.plus (p.2 m) = _
        rw [hg, Members.fp_append, Held.plus_append]
        simp [Members.fp]
      · rw [← happ]; exact hQt
      · exact hQf
      · intro c g' hc h1 h2 h3
        exact hE c g' (by rw [happ]; exact hc) (by rw [happ]; exact h1) h2 h3
    · -- refused: roll back `&locks[0..i]`
      simp only [Bool.false_eq_true, if_false]
      rw [wp_call]
      have htake : (Members.locks (ms₁ ++ p :: ms₂)).take ms₁.length = ms₁.locks := by
        simp [Members.locks, List.map_append]
      rw [htake]
      have hm₁ : Members.Ok n ro ms₁ := fun q hq => hm q (by simp [hq])
      apply unlockAll_spec ms₁ hm₁ m g _ _ (by rw [hg]; exact Held.covers_plus _ _)
      · simp only [wp_done]
        have : g.held.minus (Members.fp ms₁ m) = h₀ := by rw [hg, Held.minus_plus]
        rw [this]; exact hQf
      · intro g' h1 h2 h3
        refine hE 0 g' (Nat.zero_le _) ?_ h2 h3
        rw [h1, hg, Held.minus_plus]; simp [Held.plus_nil]
    · -- the try itself panicked: cells say `ms₁.length` are locked
      intro g' h1 h2 h3
      refine hE ms₁.length g' (by simp) ?_ h2 h3
      rw [h1, hg]; simp

theorem isLock_ordered_try (ms : Members) (hm : ms.Ok n ro) (m : Mode) (g : HG)
    (Q : Bool → HG → Prop) (E : Unit → HG → Prop)
    (hQt : Q true { g with held := g.held.plus (ms.fp m) })
    (hQf : Q false g)
    (hE : ∀ g' : HG, g'.held = g.held → g'.depth = g.depth → g.panics < g'.panics → E () g') :
    wp (HoldSpec n ro) (orderedTry m ms.locks) Q E g := by
  unfold orderedTry
  rw [wp_handle]
  have := orderedTryBody_spec (n := n) (ro := ro) [] ms (by simpa using hm) m g.held g Q
    (fun e g' => wp (HoldSpec n ro) (recover m (List.take e ms.locks))
      (fun _ g'' => E () g'') (fun _ g'' => E () g'') g')
    (by simp [Held.plus_nil]) (by simpa using hQt) (by simpa using hQf)
  simp only [List.nil_append, List.length_nil] at this
  apply this
  intro c g' hc h1 h2 h3
  apply recover_prefix ms hm m c g.held g' E g.panics h1 h3
  intro g'' a b c
  exact hE g'' a (by rw [b, h2]) c

theorem isLock_ordered (ms : Members) (hm : ms.Ok n ro) (hch : ∀ m, Members.Chain ro ms m) :
    IsLock n ro (orderedLock ms.locks) ms.fp where
  acq m g Q E hb hl hQ hE := isLock_ordered_acq ms hm m g Q E hb (hch m) hl hQ hE
  try_ m g Q E hQ hN hE := isLock_ordered_try ms hm m g Q E hQ hN hE
  rel m g Q E hc hQ hE := unlockAll_spec ms hm m g Q E hc hQ hE

/-! ### the retrying collection -/

theorem retryTryBody_eq (m : Mode) (all ls : List RawLockM) (i locked : Nat) :
    retryTryBody m all ls i locked = orderedTryBody m all ls i locked := by
  induction ls generalizing i locked with
  | nil => rfl
  | cons l ls ih =>
    simp only [retryTryBody, orderedTryBody, recover]
    congr 1
    funext b
    cases b <;> simp [ih]

theorem isLock_retry_try (ms : Members) (hm : ms.Ok n ro) (m : Mode) (g : HG)
    (Q : Bool → HG → Prop) (E : Unit → HG → Prop)
    (hQt : Q true { g with held := g.held.plus (ms.fp m) })
    (hQf : Q false g)
    (hE : ∀ g' : HG, g'.held = g.held → g'.depth = g.depth → g.panics < g'.panics → E () g') :
    wp (HoldSpec n ro) (retryTry m ms.locks) Q E g := by
  unfold retryTry
  split
  · -- empty collection: `return true`
    rename_i he
    have : ms = [] := by
      cases ms with
      | nil => rfl
      | cons p ms => simp [Members.locks] at he
    subst this
    simpa [Held.plus_nil] using hQt
  · rw [retryTryBody_eq]
    exact isLock_ordered_try ms hm m g Q E hQt hQf hE

/-- what the unwind handler of the retrying `raw_write/raw_read` believes is held -/
def retryHeld (ms : Members) (c : RetryCells) : Members :=
  ms.take c.locked ++
    (if c.firstLocked && decide (c.firstIndex ≥ c.locked) then [ms.getD c.firstIndex default] else [])

theorem Members.locks_getD (ms : Members) (i : Nat) :
    ms.locks.getD i default = (ms.getD i default).1 := by
  simp only [Members.locks, List.getD_eq_getElem?_getD, List.getElem?_map]
  cases ms[i]? <;> rfl

theorem Members.getD_mem (ms : Members) (i : Nat) (h : i < ms.length) : ms.getD i default ∈ ms := by
  simp only [List.getD_eq_getElem?_getD, List.getElem?_eq_getElem h, Option.getD_some]
  exact List.getElem_mem h

theorem retryCatch_eq (m : Mode) (ms : Members) (c : RetryCells) :
    retryCatch m ms.locks c = recover m (Members.locks (retryHeld ms c)) := by
  unfold retryCatch retryHeld
  by_cases h : (c.firstLocked && decide (c.firstIndex ≥ c.locked)) = true
  · simp [h, Members.locks, List.map_take, List.getD_eq_getElem?_getD,
      List.getElem?_map]
    cases ms[c.firstIndex]? <;> rfl
  · simp [h, Members.locks, List.map_take]

/-- the handler's belief is released, whatever happens -/
theorem retryCatch_spec (ms : Members) (hm : ms.Ok n ro) (m : Mode) (c : RetryCells) (h₀ : Held)
    (g' : HG) (E : Unit → HG → Prop) (p₀ : Nat)
    (hfi : c.firstIndex < ms.length)
    (h1 : g'.held = h₀.plus (Members.fp (retryHeld ms c) m)) (h3 : p₀ < g'.panics)
    (hE : ∀ g'' : HG, g''.held = h₀ → g''.depth = g'.depth → p₀ < g''.panics → E () g'') :
    wp (HoldSpec n ro) (retryCatch m ms.locks c) (fun _ g'' => E () g'') (fun _ g'' => E () g'') g' := by
  rw [retryCatch_eq]
  simp only [recover]
  have hok : Members.Ok n ro (retryHeld ms c) := by
    intro q hq
    simp only [retryHeld, List.mem_append] at hq
    rcases hq with hq | hq
    · exact hm q (List.mem_of_mem_take hq)
    · split at hq
      · simp only [List.mem_singleton] at hq
        subst hq
        exact hm _ (Members.getD_mem ms _ hfi)
      · cases hq
  have hcov : g'.held.Covers (Members.fp (retryHeld ms c) m) := by rw [h1]; exact Held.covers_plus _ _
  apply unlockAll_spec _ hok m g' _ _ hcov
  · refine hE _ ?_ rfl h3
    show g'.held.minus _ = h₀
    rw [h1, Held.minus_plus]
  · intro g'' h1' h2' h3'
    refine hE g'' ?_ h2' (by omega)
    rw [h1', h1, Held.minus_plus]

/-- At loop index `i = pre.length` the handler's belief is: everything before `i`, plus the
blocking-locked member if it lies at or after `i`. -/
theorem retryHeld_at (all : Members) (c : RetryCells) (i : Nat) (m : Mode)
    (hfi : c.firstIndex < all.length) (hfl : c.firstLocked = true)
    (hlk : c.locked = i ∨ (c.firstIndex + 1 = i ∧ c.locked = c.firstIndex)) :
    Members.fp (retryHeld all c) m =
      Members.fp (all.take i) m ++
        Members.fp (if c.firstIndex ≥ i then [all.getD c.firstIndex default] else []) m := by
  rcases hlk with h | ⟨h1, h2⟩
  · simp [retryHeld, hfl, h, Members.fp_append]
  · have hlt : ¬ (c.firstIndex ≥ i) := by omega
    have : retryHeld all c = all.take i := by
      simp only [retryHeld, hfl, h2, Bool.true_and, Nat.le_refl, ge_iff_le, decide_true, if_true]
      rw [← h1]
      simp only [List.getD_eq_getElem?_getD, List.getElem?_eq_getElem hfi, Option.getD_some]
      exact List.take_append_getElem hfi
    rw [this]; simp [hlt]

theorem retryInner_spec (pre suf : Members) (hm : Members.Ok n ro (pre ++ suf)) (m : Mode) (h₀ : Held)
    (c : RetryCells) (g : HG) (Q : Option Nat → HG → Prop) (E : RetryCells → HG → Prop)
    (hfi : c.firstIndex < (pre ++ suf).length)
    (hfl : c.firstLocked = true)
    (hlk : c.locked = pre.length ∨ (c.firstIndex + 1 = pre.length ∧ c.locked = c.firstIndex))
    (hg : g.held = h₀.plus (Members.fp (retryHeld (pre ++ suf) c) m))
    (hQn : Q none { g with held := h₀.plus (Members.fp (pre ++ suf) m) })
    (hQs : ∀ i, i < (pre ++ suf).length → Q (some i) { g with held := h₀ })
    (hE : ∀ (c' : RetryCells) (g' : HG), c'.firstIndex < (pre ++ suf).length →
       g'.held = h₀.plus (Members.fp (retryHeld (pre ++ suf) c') m) → g'.depth = g.depth →
       g.panics < g'.panics → E c' g') :
    wp (HoldSpec n ro) (retryInner m (Members.locks (pre ++ suf)) suf.locks pre.length c) Q E g := by
  induction suf generalizing pre c g with
  | nil =>
    simp only [Members.locks_nil, retryInner, wp_done]
    have hest := retryHeld_at (pre ++ []) c pre.length m hfi hfl hlk
    have hlt : ¬ (c.firstIndex ≥ pre.length) := by simp at hfi; omega
    simp only [hlt, if_false, Members.fp_nil, List.append_nil, List.take_length] at hest
    have : { g with held := h₀.plus (Members.fp (pre ++ []) m) } = g := by
      cases g; simp only [List.append_nil] at hg hest ⊢; simp_all
    rw [this] at hQn
    exact hQn
  | cons p suf ih =>
    have happ : pre ++ p :: suf = (pre ++ [p]) ++ suf := by simp
    have hlen : (pre ++ [p]).length = pre.length + 1 := by simp
    have hest := retryHeld_at (pre ++ p :: suf) c pre.length m hfi hfl hlk
    have htake : (pre ++ p :: suf).take pre.length = pre := by simp
    rw [htake] at hest
    simp only [Members.locks_cons, retryInner]
    split
    · -- this is the member that was locked by the blocking call: skip it
      rename_i hi
      rw [happ, ← hlen]
      refine ih (pre ++ [p]) (by rw [← happ]; exact hm) c g (by rw [← happ]; exact hfi) hfl ?_
        (by rw [← happ]; exact hg) (by rw [← happ]; exact hQn)
        (by rw [← happ]; exact hQs) (by rw [← happ]; exact hE)
      right
      rw [hlen]
      rcases hlk with h | ⟨h1, h2⟩ <;> omega
    · rename_i hi
      rw [wp_call]
      have hp : IsLock n ro p.1 p.2 := hm p (by simp)
      apply hp.try_ m g
      · -- acquired
        simp only [if_true]
        rw [happ, ← hlen]
        refine ih (pre ++ [p]) (by rw [← happ]; exact hm) { c with locked := (pre ++ [p]).length }
          { g with held := g.held.plus (p.2 m) } (by rw [← happ]; exact hfi) hfl
          (Or.inl rfl) ?_ (by rw [← happ]; exact hQn)
          (by rw [← happ]; exact hQs) (by rw [← happ]; exact hE)
        show g.held.plus (p.2 m) = _
        rw [hg, hest, ← happ]
        have hiff : (c.firstIndex ≥ pre.length + 1) ↔ (c.firstIndex ≥ pre.length) := by
          constructor <;> intro h <;> omega
        have htk : (pre ++ p :: suf).take (pre.length + 1) = pre ++ [p] := by
          rw [happ, ← hlen, List.take_left']
          rfl
        simp only [retryHeld, hfl, Bool.true_and, hlen, htk, decide_eq_true_eq, hiff]
        funext y mm
        simp only [Held.plus, Members.fp_append, List.count_append, Members.fp_cons, Members.fp_nil,
          List.append_nil]
        omega
      · -- refused: roll the round back
        simp only [Bool.false_eq_true, if_false]
        rw [wp_call]
        have htakeL : (Members.locks (pre ++ p :: suf)).take pre.length = pre.locks := by
          simp [Members.locks, List.map_append]
        simp only [recover]
        rw [htakeL]
        have hm₁ : Members.Ok n ro pre := fun q hq => hm q (by simp [hq])
        have hcov : g.held.Covers (Members.fp pre m) := by
          rw [hg, hest]; exact Held.covers_plus_append_left _ _ _
        have hafter : g.held.minus (Members.fp pre m) =
            h₀.plus (Members.fp (if c.firstIndex ≥ pre.length then
              [(pre ++ p :: suf).getD c.firstIndex default] else []) m) := by
          rw [hg, hest, Held.plus_minus_left]
        have hc1 : retryHeld (pre ++ p :: suf)
              { c with locked := 0, firstLocked := decide (c.firstIndex ≥ pre.length) } =
            (if c.firstIndex ≥ pre.length then [(pre ++ p :: suf).getD c.firstIndex default] else []) := by
          by_cases h : c.firstIndex ≥ pre.length <;> simp [retryHeld, h]
        apply unlockAll_spec pre hm₁ m g _ _ hcov
        · by_cases hge : c.firstIndex ≥ pre.length
          · -- the blocking-locked member is still held: release it too
            simp only [hge, decide_true, if_true]
            rw [wp_call, Members.locks_getD]
            have hq : IsLock n ro ((pre ++ p :: suf).getD c.firstIndex default).1
                ((pre ++ p :: suf).getD c.firstIndex default).2 :=
              hm _ (Members.getD_mem _ _ hfi)
            simp only [hge, if_true, Members.fp_cons, Members.fp_nil, List.append_nil] at hafter
            apply hq.rel m
            · show (g.held.minus (Members.fp pre m)).Covers _
              rw [hafter]; exact Held.covers_plus _ _
            · simp only [wp_done]
              have : (g.held.minus (Members.fp pre m)).minus
                  (((pre ++ p :: suf).getD c.firstIndex default).2 m) = h₀ := by
                rw [hafter, Held.minus_plus]
              rw [this]
              exact hQs pre.length (by simp)
            · intro g' h1 h2 h3
              refine hE { c with locked := 0, firstLocked := false } g' hfi ?_ h2 h3
              rw [h1]
              show (g.held.minus (Members.fp pre m)).minus _ = _
              rw [hafter, Held.minus_plus]
              simp [retryHeld, Held.plus_nil]
          · simp only [hge, decide_false, Bool.false_eq_true, if_false, wp_done]
            simp only [hge, if_false, Members.fp_nil, Held.plus_nil] at hafter
            rw [hafter]
            exact hQs pre.length (by simp)
        · intro g' h1 h2 h3
          refine hE _ g' hfi ?_ h2 h3
          rw [h1, hafter, hc1]
      · -- the try panicked
        intro g' h1 h2 h3
        exact hE c g' hfi (by rw [h1, hg]) h2 h3

theorem retryOuter_spec (all : Members) (hm : all.Ok n ro) (m : Mode) (h₀ : Held) (fuel : Nat)
    (c : RetryCells) (g : HG) (Q : Unit → HG → Prop) (E : RetryCells → HG → Prop)
    (hb : g.depth = 0) (hlow : LowFp ro h₀ (all.fp m))
    (hfi : c.firstIndex < all.length) (hfl : c.firstLocked = false) (hlk : c.locked = 0)
    (hg : g.held = h₀)
    (hQ : Q () { g with held := h₀.plus (all.fp m) })
    (hE : ∀ (c' : RetryCells) (g' : HG), c'.firstIndex < all.length →
       g'.held = h₀.plus (Members.fp (retryHeld all c') m) → g'.depth = g.depth →
       g.panics < g'.panics → E c' g') :
    wp (HoldSpec n ro) (retryOuter m all.locks fuel c) Q E g := by
  induction fuel generalizing c g with
  | zero => simp [retryOuter]
  | succ fuel ih =>
    simp only [retryOuter]
    rw [wp_call, Members.locks_getD]
    have hq : IsLock n ro (all.getD c.firstIndex default).1 (all.getD c.firstIndex default).2 :=
      hm _ (Members.getD_mem _ _ hfi)
    have hmem := Members.getD_mem all c.firstIndex hfi
    apply hq.acq m g _ _ hb (by
      rw [hg]
      exact hlow.mono (fun k hk => by
        simp only [Members.fp, List.mem_flatMap]
        exact ⟨_, hmem, hk⟩))
    · -- the blocking acquisition returned: try all the others
      rw [wp_bind]
      have h1 : retryHeld all { c with firstLocked := true } = [all.getD c.firstIndex default] := by
        simp [retryHeld, hlk]
      have := retryInner_spec (n := n) (ro := ro) [] all (by simpa using hm) m h₀ { c with firstLocked := true }
        { g with held := g.held.plus ((all.getD c.firstIndex default).2 m) }
        (fun r g' => wp (HoldSpec n ro)
          (match r with
            | none => Prog.done ()
            | some i => retryOuter m all.locks fuel { firstIndex := i, firstLocked := false, locked := 0 })
          Q E g') E
        (by simpa using hfi) rfl (Or.inl (by simpa using hlk))
        (by
          show g.held.plus _ = _
          rw [List.nil_append, h1, hg]; simp [Members.fp])
      simp only [List.nil_append, List.length_nil] at this
      apply this
      · simpa using hQ
      · intro i hi
        refine ih { firstIndex := i, firstLocked := false, locked := 0 } _ hb hi rfl rfl rfl ?_ ?_
        · exact hQ
        · exact hE
      · exact hE
    · -- the blocking acquisition panicked
      intro g' h1 h2 h3
      refine hE c g' hfi ?_ h2 h3
      rw [h1, hg]
      simp [retryHeld, hfl, hlk, Held.plus_nil]

theorem isLock_retry_acq (fuel : Nat) (ms : Members) (hm : ms.Ok n ro) (m : Mode) (g : HG)
    (Q : Unit → HG → Prop) (E : Unit → HG → Prop)
    (hb : g.depth = 0) (hlow : LowFp ro g.held (ms.fp m))
    (hQ : Q () { g with held := g.held.plus (ms.fp m) })
    (hE : ∀ g' : HG, g'.held = g.held → g'.depth = g.depth → g.panics < g'.panics → E () g') :
    wp (HoldSpec n ro) (retryAcq m fuel ms.locks) Q E g := by
  unfold retryAcq
  split
  · rename_i he
    have : ms = [] := by
      cases ms with
      | nil => rfl
      | cons p ms => simp [Members.locks] at he
    subst this
    simpa [Held.plus_nil] using hQ
  · rename_i he
    have hne : 0 < ms.length := by
      cases ms with
      | nil => simp [Members.locks] at he
      | cons p ms => simp
    rw [wp_handle]
    apply retryOuter_spec ms hm m g.held fuel {} g _ _ hb hlow hne rfl rfl rfl hQ
    intro c' g' hfi h1 h2 h3
    apply retryCatch_spec ms hm m c' g.held g' E g.panics hfi h1 h3
    intro g'' a b c
    exact hE g'' a (by rw [b, h2]) c

theorem isLock_retry (fuel : Nat) (ms : Members) (hm : ms.Ok n ro) :
    IsLock n ro (retryLock fuel ms.locks) ms.fp where
  acq m g Q E hb hl hQ hE := isLock_retry_acq fuel ms hm m g Q E hb hl hQ hE
  try_ m g Q E hQ hN hE := isLock_retry_try ms hm m g Q E hQ hN hE
  rel m g Q E hc hQ hE := unlockAll_spec ms hm m g Q E hc hQ hE

end HLV
