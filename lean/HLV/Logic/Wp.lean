/-
  HLV.Logic.Wp — a weakest-precondition calculus over `Prog`, generic in a *specification*:
  what the program must guarantee before each operation (`pre`), which answers the
  environment may give (`adm`), and how a ghost state evolves (`upd`).

  `wp S p Q E g` says: started with ghost `g`, whatever admissible answers the environment
  gives, `p` only issues operations whose `pre` holds, and if it returns `a` (unwinds with
  `e`) in ghost `g'` then `Q a g'` (`E e g'`). `spin` (still running) and `abort` (process
  gone) impose nothing further.
-/
import HLV.Model.Prog
namespace HLV

structure Spec (G : Type) where
  pre : G → Op → Prop
  adm : G → Op → Resp → Prop
  upd : G → Op → Resp → G

variable {G : Type} {ε ε₁ ε₂ α β : Type}

def wp (S : Spec G) : Prog ε α → (α → G → Prop) → (ε → G → Prop) → G → Prop
  | .done a, Q, _, g => Q a g
  | .unwind e, _, E, g => E e g
  | .spin, _, _, _ => True
  | .abort, _, _, _ => True
  | .op o k, Q, E, g => S.pre g o ∧ ∀ r, S.adm g o r → wp S (k r) Q E (S.upd g o r)

@[simp] theorem wp_done (S : Spec G) (a : α) (Q : α → G → Prop) (E : ε → G → Prop) (g : G) :
    wp S (.done a : Prog ε α) Q E g = Q a g := rfl
@[simp] theorem wp_unwind (S : Spec G) (e : ε) (Q : α → G → Prop) (E : ε → G → Prop) (g : G) :
    wp S (.unwind e : Prog ε α) Q E g = E e g := rfl
@[simp] theorem wp_spin (S : Spec G) (Q : α → G → Prop) (E : ε → G → Prop) (g : G) :
    wp S (.spin : Prog ε α) Q E g = True := rfl
@[simp] theorem wp_abort (S : Spec G) (Q : α → G → Prop) (E : ε → G → Prop) (g : G) :
    wp S (.abort : Prog ε α) Q E g = True := rfl
@[simp] theorem wp_op (S : Spec G) (o : Op) (k : Resp → Prog ε α) (Q : α → G → Prop)
    (E : ε → G → Prop) (g : G) :
    wp S (.op o k) Q E g = (S.pre g o ∧ ∀ r, S.adm g o r → wp S (k r) Q E (S.upd g o r)) := rfl

theorem wp_mono (S : Spec G) (p : Prog ε α) {Q Q' : α → G → Prop} {E E' : ε → G → Prop} {g : G}
    (h : wp S p Q E g) (hQ : ∀ a g, Q a g → Q' a g) (hE : ∀ e g, E e g → E' e g) :
    wp S p Q' E' g := by
  induction p generalizing g with
  | done a => exact hQ _ _ h
  | unwind e => exact hE _ _ h
  | spin => trivial
  | abort => trivial
  | op o k ih => exact ⟨h.1, fun r hr => ih r (h.2 r hr)⟩

theorem wp_bindX (S : Spec G) (p : Prog ε₁ β) (h : ε₁ → Prog ε₂ α) (k : β → Prog ε₂ α)
    (Q : α → G → Prop) (E : ε₂ → G → Prop) (g : G) :
    wp S (p.bindX h k) Q E g ↔
      wp S p (fun b g' => wp S (k b) Q E g') (fun e g' => wp S (h e) Q E g') g := by
  induction p generalizing g with
  | done a => simp [Prog.bindX]
  | unwind e => simp [Prog.bindX]
  | spin => simp [Prog.bindX]
  | abort => simp [Prog.bindX]
  | op o c ih =>
    simp only [Prog.bindX, wp_op]
    constructor
    · intro ⟨h1, h2⟩; exact ⟨h1, fun r hr => (ih r _).1 (h2 r hr)⟩
    · intro ⟨h1, h2⟩; exact ⟨h1, fun r hr => (ih r _).2 (h2 r hr)⟩

theorem wp_bind (S : Spec G) (p : Prog ε β) (k : β → Prog ε α)
    (Q : α → G → Prop) (E : ε → G → Prop) (g : G) :
    wp S (p.bind k) Q E g ↔ wp S p (fun b g' => wp S (k b) Q E g') E g := by
  unfold Prog.bind
  rw [wp_bindX]
  rfl

theorem wp_call (S : Spec G) (cells : ε) (callee : Prog ε₁ β) (k : β → Prog ε α)
    (Q : α → G → Prop) (E : ε → G → Prop) (g : G) :
    wp S (Prog.call cells callee k) Q E g ↔
      wp S callee (fun b g' => wp S (k b) Q E g') (fun _ g' => E cells g') g := by
  unfold Prog.call
  rw [wp_bindX]
  rfl

theorem wp_handle (S : Spec G) (outer : ε₂) (body : Prog ε₁ α) (c : ε₁ → Prog Unit Unit)
    (Q : α → G → Prop) (E : ε₂ → G → Prop) (g : G) :
    wp S (Prog.handle outer body c) Q E g ↔
      wp S body Q (fun e g' => wp S (c e) (fun _ g'' => E outer g'') (fun _ g'' => E outer g'') g') g := by
  unfold Prog.handle
  rw [wp_bindX]
  constructor <;> intro h <;> refine wp_mono S body h (fun _ _ x => x) ?_ <;> intro e g' h'
  · rw [wp_bindX] at h'; exact h'
  · rw [wp_bindX]; exact h'

theorem wp_duringUnwind (S : Spec G) (e : ε) (cleanup : Prog Unit Unit)
    (Q : α → G → Prop) (E : ε → G → Prop) (g : G) :
    wp S (Prog.duringUnwind (α := α) e cleanup) Q E g ↔
      wp S cleanup (fun _ g' => E e g') (fun _ _ => True) g := by
  unfold Prog.duringUnwind
  rw [wp_bindX]
  rfl

/-! ### paths: the finite executions of a program, and soundness of `wp` for them -/

inductive Outcome (ε α : Type)
  | ret (a : α) | unwound (e : ε) | spinning | aborted | running

/-- `Path p tr out`: the program can perform the operation/answer sequence `tr` and then be in
state `out` (`running` = stopped observing in the middle). -/
inductive Path : Prog ε α → List (Op × Resp) → Outcome ε α → Prop
  | done (a : α) : Path (.done a) [] (.ret a)
  | unwind (e : ε) : Path (.unwind e) [] (.unwound e)
  | spin : Path .spin [] .spinning
  | abort : Path .abort [] .aborted
  | stop (p : Prog ε α) : Path p [] .running
  | step (o : Op) (k : Resp → Prog ε α) (r : Resp) {tr out} :
      Path (k r) tr out → Path (.op o k) ((o, r) :: tr) out

/-- A trace is acceptable from ghost `g`: as long as the answers were admissible, every
operation satisfied its precondition. -/
def TraceOK (S : Spec G) : G → List (Op × Resp) → Prop
  | _, [] => True
  | g, (o, r) :: tr => S.pre g o ∧ (S.adm g o r → TraceOK S (S.upd g o r) tr)

def ghostAfter (S : Spec G) : G → List (Op × Resp) → G
  | g, [] => g
  | g, (o, r) :: tr => ghostAfter S (S.upd g o r) tr

def Admissible (S : Spec G) : G → List (Op × Resp) → Prop
  | _, [] => True
  | g, (o, r) :: tr => S.adm g o r ∧ Admissible S (S.upd g o r) tr

def Outcome.post (Q : α → G → Prop) (E : ε → G → Prop) : Outcome ε α → G → Prop
  | .ret a, g => Q a g
  | .unwound e, g => E e g
  | _, _ => True

theorem wp_sound (S : Spec G) {p : Prog ε α} {Q : α → G → Prop} {E : ε → G → Prop} {g : G}
    {tr : List (Op × Resp)} {out : Outcome ε α}
    (h : wp S p Q E g) (hp : Path p tr out) :
    TraceOK S g tr ∧
    (Admissible S g tr → out.post Q E (ghostAfter S g tr)) := by
  induction hp generalizing g with
  | done a => exact ⟨trivial, fun _ => h⟩
  | unwind e => exact ⟨trivial, fun _ => h⟩
  | spin => exact ⟨trivial, fun _ => trivial⟩
  | abort => exact ⟨trivial, fun _ => trivial⟩
  | stop p => exact ⟨trivial, fun _ => trivial⟩
  | step o k r _ ih =>
    obtain ⟨h1, h2⟩ := h
    refine ⟨⟨h1, fun hr => (ih (h2 r hr)).1⟩, fun ha => ?_⟩
    exact (ih (h2 r ha.1)).2 ha.2

end HLV
