/-
  HLV.Logic.Deadlock — the system invariant tying the threads' ghost states to the raw-lock
  table, its preservation by every step of every thread, and the progress argument: no
  reachable state has every running thread waiting for a lock (C01), under both wake policies;
  plus the mutual-exclusion consequences (C02).
-/
import HLV.Model.Conc
import HLV.Logic.Hold
namespace HLV

/-- The system invariant: every thread's remaining code obeys the hold + rank discipline from
its ghost state, and the ghost states are exactly what the table says. -/
structure SysInv (ro : RankOpt) (N : Nat) (s : Sys) (H : Tid → HG) : Prop where
  code : ∀ t, wp (HoldSpec 0 ro) (s.thr t) (fun _ g => g.held = Held.empty) (fun _ _ => False) (H t)
  alive : ∀ x, (s.env.locks x).killed = false
  excl : ∀ x t, (H t).held x .excl = if (s.env.locks x).writer = some t then 1 else 0
  shared : ∀ x t, (H t).held x .shared = (s.env.locks x).readers.count t
  waiters : ∀ x t, t ∈ (s.env.locks x).waitW → ∃ k, s.thr t = .op (.acq .excl true x) k
  waitNodup : ∀ x, (s.env.locks x).waitW.Nodup
  idle : ∀ t, N ≤ t → s.thr t = .done ()

theorem held_add_same (h : Held) (x : LockId) (m : Mode) : (h.add x m) x m = h x m + 1 := by
  simp [Held.add, Held.plus]
theorem held_add_other (h : Held) (x y : LockId) (m m' : Mode) (hne : ¬ (y = x ∧ m' = m)) :
    (h.add x m) y m' = h y m' := by
  simp only [Held.add, Held.plus, List.count_cons, List.count_nil, Nat.zero_add]
  have : ((x, m) == (y, m')) = false := by
    simp only [beq_eq_false_iff_ne, ne_eq, Prod.mk.injEq]
    intro ⟨a, b⟩; exact hne ⟨a.symm, b.symm⟩
  simp [this]
theorem held_sub_same (h : Held) (x : LockId) (m : Mode) : (h.sub x m) x m = h x m - 1 := by
  simp [Held.sub, Held.minus]
theorem held_sub_other (h : Held) (x y : LockId) (m m' : Mode) (hne : ¬ (y = x ∧ m' = m)) :
    (h.sub x m) y m' = h y m' := by
  simp only [Held.sub, Held.minus, List.count_cons, List.count_nil, Nat.zero_add]
  have : ((x, m) == (y, m')) = false := by
    simp only [beq_eq_false_iff_ne, ne_eq, Prod.mk.injEq]
    intro ⟨a, b⟩; exact hne ⟨a.symm, b.symm⟩
  simp [this]

/-- the ghost update never touches `held` for operations other than a granted acquisition or a
release -/
theorem holdUpd_held_other (g : HG) (o : Op) (r : Resp)
    (ho : (∀ m b x, o = .acq m b x → r ≠ .ok) ∧ (∀ m x, o ≠ .rel m x)) : (holdUpd g o r).held = g.held := by
  cases o <;> cases r <;> simp_all [holdUpd] <;> (repeat' split) <;> rfl

/-- what the table answers to a non-lock operation: it steps, the lock table is untouched, and
the answer is admissible for the fault-free hold specification -/
theorem nonlock_step (pol : Policy) (e : Env) (t : Tid) (o : Op) (g : HG) (ro : RankOpt)
    (hnl : (∀ m b x, o ≠ .acq m b x) ∧ (∀ m x, o ≠ .rel m x) ∧ (∀ x, o ≠ .kill x))
    (hpre : holdPre ro g o) :
    ∃ r e' ev, e.step pol t o false = .stepped r e' ev ∧
      (∀ x, (e'.locks x).writer = (e.locks x).writer ∧ (e'.locks x).readers = (e.locks x).readers ∧
            (e'.locks x).waitW = (e.locks x).waitW ∧ (e'.locks x).killed = (e.locks x).killed) ∧
      holdAdm 0 g o r := by
  cases o with
  | acq m b x => exact absurd rfl (hnl.1 m b x)
  | rel m x => exact absurd rfl (hnl.2.1 m x)
  | kill x => exact absurd rfl (hnl.2.2 x)
  | access x w =>
    cases w with
    | none => exact ⟨.ok, _, _, rfl, fun _ => ⟨rfl, rfl, rfl, rfl⟩, rfl⟩
    | some v =>
      refine ⟨.ok, _, _, rfl, fun y => ?_, rfl⟩
      by_cases h : y = x
      · subst h; simp [Env.setLock]
      · simp [Env.setLock, h]
  | keyGet =>
    simp only [Env.step]
    split
    · exact ⟨.no, _, _, rfl, fun _ => ⟨rfl, rfl, rfl, rfl⟩, by simp [holdAdm]⟩
    · exact ⟨.ok, _, _, rfl, fun _ => ⟨rfl, rfl, rfl, rfl⟩, by simp [holdAdm]⟩
  | keyDrop => exact ⟨.ok, _, _, rfl, fun _ => ⟨rfl, rfl, rfl, rfl⟩, rfl⟩
  | keyForget => exact ⟨.ok, _, _, rfl, fun _ => ⟨rfl, rfl, rfl, rfl⟩, rfl⟩
  | poisonSet p => exact ⟨.ok, _, _, rfl, fun _ => ⟨rfl, rfl, rfl, rfl⟩, rfl⟩
  | poisonClear p => exact ⟨.ok, _, _, rfl, fun _ => ⟨rfl, rfl, rfl, rfl⟩, rfl⟩
  | poisonGet p =>
    refine ⟨_, _, _, rfl, fun _ => ⟨rfl, rfl, rfl, rfl⟩, ?_⟩
    simp only [holdAdm]; split <;> simp
  | mark k => exact ⟨.ok, _, _, rfl, fun _ => ⟨rfl, rfl, rfl, rfl⟩, rfl⟩

/-- what the table does with a blocking acquisition it cannot grant: the thread stays where it
is; under the writer-preferring policy a writer registers itself as waiting (once) -/
theorem blocked_acq_env (pol : Policy) (e : Env) (t : Tid) (m : Mode) (x : LockId)
    (hk : (e.locks x).killed = false) (hg : ¬ grantable pol (e.locks x) m = true) :
    ∃ e', e.step pol t (.acq m true x) false = .blocked e' ∧
      (e' = e ∨ (m = .excl ∧ ¬ t ∈ (e.locks x).waitW ∧
        e' = e.setLock x { e.locks x with waitW := t :: (e.locks x).waitW })) := by
  have hg' : grantable pol (e.locks x) m = false := by
    cases h : grantable pol (e.locks x) m
    · rfl
    · exact absurd h hg
  cases pol <;> cases m
  · exact ⟨e, by simp [Env.step, hk, hg'], Or.inl rfl⟩
  · exact ⟨e, by simp [Env.step, hk, hg'], Or.inl rfl⟩
  · exact ⟨e, by simp [Env.step, hk, hg'], Or.inl rfl⟩
  · by_cases hc : t ∈ (e.locks x).waitW
    · exact ⟨e, by simp [Env.step, hk, hg', hc], Or.inl rfl⟩
    · exact ⟨_, by simp [Env.step, hk, hg', hc], Or.inr ⟨rfl, hc, rfl⟩⟩

variable {ro : RankOpt} {rank : LockId → Nat} {N : Nat}

/-- a thread registered as a waiting writer is sitting at that very blocking acquisition -/
theorem SysInv.not_waiting {s : Sys} {H : Tid → HG} (hi : SysInv ro N s H) {t : Tid} {o : Op}
    {k : Resp → Prog Unit Unit} (hc : s.thr t = .op o k) {y : LockId}
    (hy : t ∈ (s.env.locks y).waitW) : o = .acq .excl true y := by
  obtain ⟨k', hk'⟩ := hi.waiters y t hy
  rw [hc] at hk'
  cases hk'
  rfl

/-- **Preservation.** Every step of every thread, under either policy, keeps the invariant. -/
theorem SysInv.step (pol : Policy) {s s' : Sys} {H : Tid → HG} (hi : SysInv ro N s H) (t : Tid)
    (hs : s.step pol t = some s') : ∃ H', SysInv ro N s' H' := by
  unfold Sys.step at hs
  cases hc : s.thr t with
  | done a => rw [hc] at hs; cases hs
  | unwind e => rw [hc] at hs; cases hs
  | spin => rw [hc] at hs; cases hs
  | abort => rw [hc] at hs; cases hs
  | op o k =>
    rw [hc] at hs
    simp only at hs
    have hw := hi.code t
    rw [hc] at hw
    obtain ⟨hpre, hcont⟩ := hw
    have hlt : t < N := by
      rcases Nat.lt_or_ge t N with h | h
      · exact h
      · have := hi.idle t h; rw [hc] at this; cases this
    -- generic reconstruction of the invariant after a step that answered `r` with table `e'`
    -- such that holders/waiters are as described by the new ghost
    by_cases hlock : (∃ m b x, o = .acq m b x) ∨ (∃ m x, o = .rel m x) ∨ (∃ x, o = .kill x)
    · rcases hlock with ⟨m, b, x, rfl⟩ | ⟨m, x, rfl⟩ | ⟨x, rfl⟩
      · ---------------------------------------------------------------- acquisition
        have hk := hi.alive x
        by_cases hg : grantable pol (s.env.locks x) m = true
        · -- granted
          simp only [Env.step, hk, Bool.false_eq_true, if_false, hg, if_true] at hs
          cases hs
          have hadm : holdAdm 0 (H t) (.acq m b x) .ok := by
            cases b <;> simp [holdAdm]
          have hk' := hcont .ok hadm
          refine ⟨fun u => if u = t then holdUpd (H t) (.acq m b x) .ok else H u, ?_⟩
          have hfree : m = .excl → (s.env.locks x).writer = none ∧ (s.env.locks x).readers = [] := by
            intro hm; subst hm
            simp only [grantable, LockSt.free, Bool.and_eq_true, Option.isNone_iff_eq_none,
              List.isEmpty_iff] at hg
            exact hg
          have hnow : m = .shared → (s.env.locks x).writer = none := by
            intro hm; subst hm
            simp only [grantable, Bool.and_eq_true, Option.isNone_iff_eq_none] at hg
            exact hg.1
          constructor
          · intro u
            by_cases hu : u = t
            · subst hu; simp only [if_true]; exact hk'
            · simpa [hu] using hi.code u
          · intro y
            by_cases hy : y = x
            · subst hy; simp only [Env.setLock, if_true]; cases m <;> simpa [LockSt.take] using hi.alive y
            · simpa [Env.setLock, hy] using hi.alive y
          · intro y u
            by_cases hu : u = t
            · subst hu
              simp only [if_true, holdUpd]
              by_cases hy : y = x
              · subst hy
                cases m with
                | excl =>
                  rw [held_add_same, hi.excl y u, (hfree rfl).1]
                  simp [Env.setLock, LockSt.take]
                | shared =>
                  rw [held_add_other _ _ _ _ _ (by simp), hi.excl y u]
                  simp [Env.setLock, LockSt.take]
              · rw [held_add_other _ _ _ _ _ (by simp [hy]), hi.excl y u]
                simp [Env.setLock, hy]
            · simp only [hu, if_false]
              rw [hi.excl y u]
              by_cases hy : y = x
              · subst hy
                cases m with
                | excl =>
                  have := (hfree rfl).1
                  simp [Env.setLock, LockSt.take, this, Ne.symm hu]
                | shared => simp [Env.setLock, LockSt.take]
              · simp [Env.setLock, hy]
          · intro y u
            by_cases hu : u = t
            · subst hu
              simp only [if_true, holdUpd]
              by_cases hy : y = x
              · subst hy
                cases m with
                | excl =>
                  rw [held_add_other _ _ _ _ _ (by simp), hi.shared y u]
                  simp [Env.setLock, LockSt.take]
                | shared =>
                  rw [held_add_same, hi.shared y u]
                  simp [Env.setLock, LockSt.take]
              · rw [held_add_other _ _ _ _ _ (by simp [hy]), hi.shared y u]
                simp [Env.setLock, hy]
            · simp only [hu, if_false]
              rw [hi.shared y u]
              by_cases hy : y = x
              · subst hy
                cases m with
                | excl => simp [Env.setLock, LockSt.take]
                | shared => simp [Env.setLock, LockSt.take, List.count_cons_of_ne (Ne.symm hu)]
              · simp [Env.setLock, hy]
          · intro y u hmem
            have hold : u ∈ (s.env.locks y).waitW ∧ (y = x → m = .excl → u ≠ t) := by
              by_cases hy : y = x
              · subst hy
                cases m with
                | excl =>
                  simp only [Env.setLock, if_true, LockSt.take] at hmem
                  have := (List.Nodup.mem_erase_iff (hi.waitNodup y)).1 hmem
                  exact ⟨this.2, fun _ _ => this.1⟩
                | shared =>
                  simp only [Env.setLock, if_true, LockSt.take] at hmem
                  exact ⟨hmem, fun _ h => by cases h⟩
              · simp only [Env.setLock, hy, if_false] at hmem
                exact ⟨hmem, fun h => absurd h hy⟩
            obtain ⟨k', hk'⟩ := hi.waiters y u hold.1
            by_cases hu : u = t
            · subst hu
              have := hi.not_waiting hc hold.1
              cases this
              exact absurd rfl (hold.2 rfl rfl)
            · exact ⟨k', by simp [hu, hk']⟩
          · intro y
            by_cases hy : y = x
            · subst hy
              simp only [Env.setLock, if_true]
              cases m with
              | excl => exact (hi.waitNodup y).erase t
              | shared => exact hi.waitNodup y
            · simpa [Env.setLock, hy] using hi.waitNodup y
          · intro u hu
            have hne : u ≠ t := fun h => by rw [h] at hu; exact absurd hlt (Nat.not_lt.2 hu)
            simpa [hne] using hi.idle u hu
        · -- not granted
          cases b with
          | false =>
            -- a refused try: nothing changes but the thread's code
            simp only [Env.step, hk, Bool.false_eq_true, if_false, hg] at hs
            cases hs
            have hadm : holdAdm 0 (H t) (.acq m false x) .no := by simp [holdAdm]
            have hk' := hcont .no hadm
            refine ⟨fun u => if u = t then holdUpd (H t) (.acq m false x) .no else H u, ?_⟩
            have hsame : (holdUpd (H t) (.acq m false x) .no).held = (H t).held := by
              simp [holdUpd]
            constructor
            · intro u
              by_cases hu : u = t
              · subst hu; simp only [if_true]; exact hk'
              · simpa [hu] using hi.code u
            · exact hi.alive
            · intro y u
              by_cases hu : u = t
              · subst hu; simp only [if_true, hsame]; exact hi.excl y u
              · simp only [hu, if_false]; exact hi.excl y u
            · intro y u
              by_cases hu : u = t
              · subst hu; simp only [if_true, hsame]; exact hi.shared y u
              · simp only [hu, if_false]; exact hi.shared y u
            · intro y u hmem
              obtain ⟨k', hk'⟩ := hi.waiters y u hmem
              by_cases hu : u = t
              · subst hu
                have := hi.not_waiting hc hmem
                cases this
              · exact ⟨k', by simp [hu, hk']⟩
            · exact hi.waitNodup
            · intro u hu
              have hne : u ≠ t := fun h => by rw [h] at hu; exact absurd hlt (Nat.not_lt.2 hu)
              simpa [hne] using hi.idle u hu
          | true =>
            -- blocked: at most the registration of a waiting writer changes
            obtain ⟨e', he', hcase⟩ := blocked_acq_env pol s.env t m x hk hg
            rw [he'] at hs
            cases hs
            refine ⟨H, ?_⟩
            rcases hcase with rfl | ⟨rfl, hnot, rfl⟩
            · exact ⟨hi.code, hi.alive, hi.excl, hi.shared, hi.waiters, hi.waitNodup, hi.idle⟩
            · constructor
              · exact hi.code
              · intro y
                by_cases hy : y = x
                · subst hy; simpa [Env.setLock] using hi.alive y
                · simpa [Env.setLock, hy] using hi.alive y
              · intro y u
                rw [hi.excl y u]
                by_cases hy : y = x
                · subst hy; simp [Env.setLock]
                · simp [Env.setLock, hy]
              · intro y u
                rw [hi.shared y u]
                by_cases hy : y = x
                · subst hy; simp [Env.setLock]
                · simp [Env.setLock, hy]
              · intro y u hmem
                by_cases hy : y = x
                · subst hy
                  simp only [Env.setLock, if_true, List.mem_cons] at hmem
                  rcases hmem with rfl | h
                  · exact ⟨k, hc⟩
                  · exact hi.waiters y u h
                · simp only [Env.setLock, hy, if_false] at hmem
                  exact hi.waiters y u hmem
              · intro y
                by_cases hy : y = x
                · subst hy
                  simp only [Env.setLock, if_true]
                  exact List.nodup_cons.2 ⟨hnot, hi.waitNodup y⟩
                · simpa [Env.setLock, hy] using hi.waitNodup y
              · exact hi.idle
      · ---------------------------------------------------------------- release
        simp only [Env.step, Bool.false_eq_true, if_false] at hs
        cases hs
        have hadm : holdAdm 0 (H t) (.rel m x) .ok := by simp [holdAdm]
        have hk' := hcont .ok hadm
        have hheld : 0 < (H t).held x m := hpre
        refine ⟨fun u => if u = t then holdUpd (H t) (.rel m x) .ok else H u, ?_⟩
        have hnw : ∀ y, t ∉ (s.env.locks y).waitW := by
          intro y hy
          have := hi.not_waiting hc hy
          cases this
        constructor
        · intro u
          by_cases hu : u = t
          · subst hu; simp only [if_true]; exact hk'
          · simpa [hu] using hi.code u
        · intro y
          by_cases hy : y = x
          · subst hy; simp only [Env.setLock, if_true]; cases m <;> simpa [LockSt.release] using hi.alive y
          · simpa [Env.setLock, hy] using hi.alive y
        · intro y u
          by_cases hu : u = t
          · subst hu
            simp only [if_true, holdUpd]
            by_cases hy : y = x
            · subst hy
              cases m with
              | excl =>
                have hw : (s.env.locks y).writer = some u := by
                  have := hi.excl y u
                  rw [this] at hheld
                  split at hheld
                  · assumption
                  · exact absurd hheld (Nat.lt_irrefl 0)
                rw [held_sub_same, hi.excl y u]
                simp [Env.setLock, LockSt.release, hw]
              | shared =>
                rw [held_sub_other _ _ _ _ _ (by simp), hi.excl y u]
                simp [Env.setLock, LockSt.release]
            · rw [held_sub_other _ _ _ _ _ (by simp [hy]), hi.excl y u]
              simp [Env.setLock, hy]
          · simp only [hu, if_false]
            rw [hi.excl y u]
            by_cases hy : y = x
            · subst hy
              cases m with
              | excl =>
                -- the releasing thread was the writer, so `u` was not
                have hw : (s.env.locks y).writer = some t := by
                  have := hi.excl y t
                  rw [this] at hheld
                  split at hheld
                  · assumption
                  · exact absurd hheld (Nat.lt_irrefl 0)
                simp [Env.setLock, LockSt.release, hw, Ne.symm hu]
              | shared => simp [Env.setLock, LockSt.release]
            · simp [Env.setLock, hy]
        · intro y u
          by_cases hu : u = t
          · subst hu
            simp only [if_true, holdUpd]
            by_cases hy : y = x
            · subst hy
              cases m with
              | excl =>
                rw [held_sub_other _ _ _ _ _ (by simp), hi.shared y u]
                simp [Env.setLock, LockSt.release]
              | shared =>
                rw [held_sub_same, hi.shared y u]
                simp [Env.setLock, LockSt.release, List.count_erase_self]
            · rw [held_sub_other _ _ _ _ _ (by simp [hy]), hi.shared y u]
              simp [Env.setLock, hy]
          · simp only [hu, if_false]
            rw [hi.shared y u]
            by_cases hy : y = x
            · subst hy
              cases m with
              | excl => simp [Env.setLock, LockSt.release]
              | shared => simp [Env.setLock, LockSt.release, List.count_erase_of_ne hu]
            · simp [Env.setLock, hy]
        · intro y u hmem
          have hold : u ∈ (s.env.locks y).waitW := by
            by_cases hy : y = x
            · subst hy; simp only [Env.setLock, if_true] at hmem; cases m <;> simpa [LockSt.release] using hmem
            · simpa [Env.setLock, hy] using hmem
          obtain ⟨k', hk'⟩ := hi.waiters y u hold
          have hu : u ≠ t := fun h => hnw y (h ▸ hold)
          exact ⟨k', by simp [hu, hk']⟩
        · intro y
          by_cases hy : y = x
          · subst hy; simp only [Env.setLock, if_true]; cases m <;> simpa [LockSt.release] using hi.waitNodup y
          · simpa [Env.setLock, hy] using hi.waitNodup y
        · intro u hu
          have hne : u ≠ t := fun h => by rw [h] at hu; exact absurd hlt (Nat.not_lt.2 hu)
          simpa [hne] using hi.idle u hu
      · exact absurd hpre id
    · ---------------------------------------------------------------- any other operation
      have hnl : (∀ m b x, o ≠ .acq m b x) ∧ (∀ m x, o ≠ .rel m x) ∧ (∀ x, o ≠ .kill x) :=
        ⟨fun m b x h => hlock (Or.inl ⟨m, b, x, h⟩), fun m x h => hlock (Or.inr (Or.inl ⟨m, x, h⟩)),
         fun x h => hlock (Or.inr (Or.inr ⟨x, h⟩))⟩
      obtain ⟨r, e', ev, hstep, hsame, hadm⟩ := nonlock_step pol s.env t o (H t) ro hnl hpre
      rw [hstep] at hs
      cases hs
      have hk' := hcont r hadm
      have hheld : (holdUpd (H t) o r).held = (H t).held :=
        holdUpd_held_other _ _ _ ⟨fun m b x h => absurd h (hnl.1 m b x), hnl.2.1⟩
      have hnw : ∀ y, t ∉ (s.env.locks y).waitW := by
        intro y hy
        have := hi.not_waiting hc hy
        exact hnl.1 _ _ _ this
      refine ⟨fun u => if u = t then holdUpd (H t) o r else H u, ?_⟩
      constructor
      · intro u
        by_cases hu : u = t
        · subst hu; simp only [if_true]; exact hk'
        · simpa [hu] using hi.code u
      · intro y; rw [(hsame y).2.2.2]; exact hi.alive y
      · intro y u
        rw [(hsame y).1]
        by_cases hu : u = t
        · subst hu; simp only [if_true, hheld]; exact hi.excl y u
        · simp only [hu, if_false]; exact hi.excl y u
      · intro y u
        rw [(hsame y).2.1]
        by_cases hu : u = t
        · subst hu; simp only [if_true, hheld]; exact hi.shared y u
        · simp only [hu, if_false]; exact hi.shared y u
      · intro y u hmem
        rw [(hsame y).2.2.1] at hmem
        obtain ⟨k', hk'⟩ := hi.waiters y u hmem
        have hu : u ≠ t := fun h => hnw y (h ▸ hmem)
        exact ⟨k', by simp [hu, hk']⟩
      · intro y; rw [(hsame y).2.2.1]; exact hi.waitNodup y
      · intro u hu
        have hne : u ≠ t := fun h => by rw [h] at hu; exact absurd hlt (Nat.not_lt.2 hu)
        simpa [hne] using hi.idle u hu

/-- every reachable state satisfies the invariant -/
theorem reachable_inv (pol : Policy) {init s : Sys} {H₀ : Tid → HG} (h0 : SysInv ro N init H₀)
    (hr : Reachable pol init s) : ∃ H, SysInv ro N s H := by
  induction hr with
  | init => exact ⟨H₀, h0⟩
  | step t _ hs ih =>
    obtain ⟨H, hi⟩ := ih
    exact hi.step pol t hs

/-- only a blocking acquisition can be refused a step -/
theorem step_blocked_is_acq (pol : Policy) (e : Env) (t : Tid) (o : Op) (e' : Env)
    (h : e.step pol t o false = .blocked e') : ∃ m x, o = .acq m true x := by
  cases o with
  | acq m b x =>
    cases b with
    | true => exact ⟨m, x, rfl⟩
    | false =>
      simp only [Env.step] at h
      split at h
      · cases h
      · simp only [Bool.false_eq_true, if_false] at h
        split at h <;> cases h
  | rel m x => simp [Env.step] at h
  | kill x => simp [Env.step] at h
  | access x w => cases w <;> simp [Env.step] at h
  | keyGet => simp only [Env.step] at h; split at h <;> cases h
  | keyDrop => simp [Env.step] at h
  | keyForget => simp [Env.step] at h
  | poisonSet p => simp [Env.step] at h
  | poisonClear p => simp [Env.step] at h
  | poisonGet p => simp [Env.step] at h
  | mark k => simp [Env.step] at h

theorem blocked_not_grantable (pol : Policy) (e : Env) (t : Tid) (m : Mode) (x : LockId) (e' : Env)
    (hk : (e.locks x).killed = false) (h : e.step pol t (.acq m true x) false = .blocked e') :
    grantable pol (e.locks x) m = false := by
  cases hg : grantable pol (e.locks x) m
  · rfl
  · simp [Env.step, hk, hg] at h

def maxUpTo (f : Nat → Nat) : Nat → Nat
  | 0 => 0
  | n + 1 => max (maxUpTo f n) (f n)

theorem le_maxUpTo (f : Nat → Nat) (n t : Nat) (h : t < n) : f t ≤ maxUpTo f n := by
  induction n with
  | zero => omega
  | succ n ih =>
    simp only [maxUpTo]
    rcases Nat.lt_succ_iff_lt_or_eq.1 h with h' | rfl
    · have := ih h'; omega
    · omega

/-- the rank of the lock a thread is about to block on (0 if it is not at a blocking acquisition) -/
def tgtRank (rank : LockId → Nat) (s : Sys) (t : Tid) : Nat :=
  match s.thr t with
  | .op (.acq _ true x) _ => rank x
  | _ => 0

/-- **Progress (C01).** In a state satisfying the invariant, in which no thread has exhausted
its retry fuel or died, if some thread is still running then some running thread is not
waiting for a lock — for any number of threads and under either wake policy. -/
theorem no_deadlock (pol : Policy) {s : Sys} {H : Tid → HG} (hi : SysInv (some rank) N s H)
    (hns : ∀ t, s.thr t ≠ .spin ∧ s.thr t ≠ .abort)
    (hrun : ∃ t, s.running t) : ∃ t, s.running t ∧ ¬ s.blocked pol t := by
  apply Classical.byContradiction
  intro hcon
  have hall : ∀ t, s.running t → s.blocked pol t := by
    intro t ht
    apply Classical.byContradiction
    intro hb
    exact hcon ⟨t, ht, hb⟩
  -- the shape of a blocked thread
  have hshape : ∀ t, s.blocked pol t → ∃ m x k e', s.thr t = .op (.acq m true x) k ∧
      s.env.step pol t (.acq m true x) false = .blocked e' ∧ t < N := by
    intro t ⟨o, k, e', hc, hs⟩
    obtain ⟨m, x, rfl⟩ := step_blocked_is_acq pol _ _ _ _ hs
    refine ⟨m, x, k, e', hc, hs, ?_⟩
    rcases Nat.lt_or_ge t N with h | h
    · exact h
    · have := hi.idle t h; rw [hc] at this; cases this
  -- whoever holds a lock is a running thread, hence (by assumption) blocked, on a higher rank
  have hholder : ∀ (t' : Tid) (x : LockId) (m' : Mode), 0 < (H t').held x m' →
      ∃ m'' x'' k'', s.thr t' = .op (.acq m'' true x'') k'' ∧ rank x < rank x'' ∧ t' < N := by
    intro t' x m' hpos
    have hcode := hi.code t'
    cases hc : s.thr t' with
    | done a =>
      rw [hc] at hcode
      have : (H t').held = Held.empty := hcode
      rw [this] at hpos
      exact absurd hpos (Nat.lt_irrefl 0)
    | unwind e => rw [hc] at hcode; exact absurd hcode id
    | spin => exact absurd hc (hns t').1
    | abort => exact absurd hc (hns t').2
    | op o k =>
      obtain ⟨m'', x'', k'', e', hc', _, hlt⟩ := hshape t' (hall t' ⟨o, k, hc⟩)
      rw [hc'] at hcode
      have hlow : Low (some rank) (H t').held x'' := hcode.1.2
      exact ⟨m'', x'', k'', hc.symm.trans hc', hlow x m' hpos, hlt⟩
  -- a blocked thread's lock is held by somebody
  have hheld : ∀ t m x k e', s.thr t = .op (.acq m true x) k →
      s.env.step pol t (.acq m true x) false = .blocked e' → ∃ t' m', 0 < (H t').held x m' := by
    intro t m x k e' hc hs
    have hng := blocked_not_grantable pol _ _ _ _ _ (hi.alive x) hs
    -- "not free" gives a holder
    have hnotfree : (s.env.locks x).free = false → ∃ t' m', 0 < (H t').held x m' := by
      intro hf
      simp only [LockSt.free, Bool.and_eq_false_iff, Option.isNone_eq_false_iff, List.isEmpty_eq_false_iff] at hf
      rcases hf with hw | hr
      · obtain ⟨w, hw⟩ := Option.isSome_iff_exists.1 hw
        exact ⟨w, .excl, by rw [hi.excl x w, hw]; simp⟩
      · obtain ⟨r, hr⟩ := List.exists_mem_of_ne_nil _ hr
        exact ⟨r, .shared, by rw [hi.shared x r]; exact List.count_pos_iff.2 hr⟩
    cases m with
    | excl => exact hnotfree (by simpa [grantable] using hng)
    | shared =>
      simp only [grantable, Bool.and_eq_false_iff, Option.isNone_eq_false_iff] at hng
      rcases hng with hw | hp
      · obtain ⟨w, hw⟩ := Option.isSome_iff_exists.1 hw
        exact ⟨w, .excl, by rw [hi.excl x w, hw]; simp⟩
      · -- writer-preferring: a registered writer is waiting; it is blocked too, so the lock is not free
        cases pol with
        | readerPref => simp at hp
        | writerPref =>
          simp only [List.isEmpty_eq_false_iff] at hp
          obtain ⟨w, hw⟩ := List.exists_mem_of_ne_nil _ hp
          obtain ⟨kw, hcw⟩ := hi.waiters x w hw
          obtain ⟨mw, xw, kw', ew, hcw', hsw, _⟩ := hshape w (hall w ⟨_, _, hcw⟩)
          rw [hcw] at hcw'
          cases hcw'
          have := blocked_not_grantable .writerPref _ _ _ _ _ (hi.alive x) hsw
          exact hnotfree (by simpa [grantable] using this)
  -- descend on (bound - rank of the awaited lock)
  let B := maxUpTo (tgtRank rank s) N + 1
  have hbound : ∀ t m x k, s.thr t = .op (.acq m true x) k → t < N → rank x < B := by
    intro t m x k hc hlt
    have := le_maxUpTo (tgtRank rank s) N t hlt
    have ht : tgtRank rank s t = rank x := by simp [tgtRank, hc]
    show rank x < maxUpTo (tgtRank rank s) N + 1
    omega
  have hdesc : ∀ d, ∀ t m x k e', s.thr t = .op (.acq m true x) k →
      s.env.step pol t (.acq m true x) false = .blocked e' → t < N → B - rank x ≤ d → False := by
    intro d
    induction d with
    | zero =>
      intro t m x k e' hc hs hlt hd
      have := hbound t m x k hc hlt
      omega
    | succ d ih =>
      intro t m x k e' hc hs hlt hd
      obtain ⟨t', m', hpos⟩ := hheld t m x k e' hc hs
      obtain ⟨m'', x'', k'', hc'', hrk, hlt'⟩ := hholder t' x m' hpos
      obtain ⟨m3, x3, k3, e3, hc3, hs3, _⟩ := hshape t' (hall t' ⟨_, _, hc''⟩)
      rw [hc''] at hc3
      cases hc3
      have := hbound t' m'' x'' k'' hc'' hlt'
      exact ih t' m'' x'' k'' e3 hc'' hs3 hlt' (by omega)
  obtain ⟨t, ht⟩ := hrun
  obtain ⟨m, x, k, e', hc, hs, hlt⟩ := hshape t (hall t ht)
  exact hdesc (B - rank x) t m x k e' hc hs hlt (Nat.le_refl _)

end HLV
