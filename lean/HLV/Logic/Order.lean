/-
  HLV.Logic.Order — addresses as ranks: sorting collections acquire in one order (C08), valid
  flat shapes satisfy the rank discipline with rank = address (thread-local half of C01),
  retrying collections block only empty-handed (C09).
-/
import HLV.Logic.Sessions
namespace HLV

variable {n : Nat}

mutual
/-- no `OwnedLockCollection` anywhere inside: every unit seen by a collection is a leaf lock -/
def noOwned : Shape → Bool
  | .mutex _ => true
  | .rwlock _ => true
  | .seq ss => noOwnedL ss
  | .poisonable _ s => noOwned s
  | .boxed s => noOwned s
  | .refc s => noOwned s
  | .retry s => noOwned s
  | .owned _ _ => false
def noOwnedL : List Shape → Bool
  | [] => true
  | s :: ss => noOwned s && noOwnedL ss
end

mutual
/-- Constructor validity: every checked collection inside was accepted by `try_new`, i.e. no two
of the units it sees have the same address. -/
def Valid (W : World) : Shape → Prop
  | .mutex _ => True
  | .rwlock _ => True
  | .seq ss => ValidL W ss
  | .poisonable _ s => Valid W s
  | .boxed s => Valid W s ∧ ((getPtrs W s).map (·.addr)).Nodup
  | .refc s => Valid W s ∧ ((getPtrs W s).map (·.addr)).Nodup
  | .retry s => Valid W s ∧ ((getPtrs W s).map (·.addr)).Nodup
  | .owned _ s => Valid W s
def ValidL (W : World) : List Shape → Prop
  | [] => True
  | s :: ss => Valid W s ∧ ValidL W ss
end

/-- a `get_ptrs` entry that is a single leaf lock at that lock's address -/
def Ptr.IsLeaf (W : World) (p : Ptr) : Prop :=
  ∃ x, p.addr = W.addr x ∧ ∀ m, ∃ m', p.fp m = [(x, m')]

theorem sortPtrs_mem {ps : List Ptr} {p : Ptr} : p ∈ sortPtrs ps ↔ p ∈ ps :=
  (List.mergeSort_perm ps _).mem_iff

mutual
theorem getPtrs_leaves (W : World) : ∀ S : Shape, noOwned S = true → ∀ p ∈ getPtrs W S, p.IsLeaf W
  | .mutex x, _ => by
    intro p hp; simp only [getPtrs, List.mem_singleton] at hp; subst hp
    exact ⟨x, rfl, fun _ => ⟨_, rfl⟩⟩
  | .rwlock x, _ => by
    intro p hp; simp only [getPtrs, List.mem_singleton] at hp; subst hp
    exact ⟨x, rfl, fun m => ⟨m, rfl⟩⟩
  | .seq ss, h => by simpa [getPtrs] using getPtrsL_leaves W ss (by simpa [noOwned] using h)
  | .poisonable _ s, h => by simpa [getPtrs] using getPtrs_leaves W s (by simpa [noOwned] using h)
  | .boxed s, h => by
    intro p hp; simp only [getPtrs, sortPtrs_mem] at hp
    exact getPtrs_leaves W s (by simpa [noOwned] using h) p hp
  | .refc s, h => by
    intro p hp; simp only [getPtrs, sortPtrs_mem] at hp
    exact getPtrs_leaves W s (by simpa [noOwned] using h) p hp
  | .retry s, h => by simpa [getPtrs] using getPtrs_leaves W s (by simpa [noOwned] using h)
  | .owned _ _, h => by simp [noOwned] at h
theorem getPtrsL_leaves (W : World) : ∀ ss : List Shape, noOwnedL ss = true →
    ∀ p ∈ getPtrsL W ss, p.IsLeaf W
  | [], _ => by intro p hp; simp [getPtrsL] at hp
  | s :: ss, h => by
    have h' : noOwned s = true ∧ noOwnedL ss = true := by simpa [noOwnedL] using h
    intro p hp
    simp only [getPtrsL, List.mem_append] at hp
    rcases hp with hp | hp
    · exact getPtrs_leaves W s h'.1 p hp
    · exact getPtrsL_leaves W ss h'.2 p hp
end

mutual
theorem ptrsOK_noOwned (ro : RankOpt) (W : World) : ∀ S : Shape, noOwned S = true → PtrsOK ro W S
  | .mutex _, _ => trivial
  | .rwlock _, _ => trivial
  | .seq ss, h => by simpa [PtrsOK] using ptrsOKL_noOwned ro W ss (by simpa [noOwned] using h)
  | .poisonable _ s, h => by simpa [PtrsOK] using ptrsOK_noOwned ro W s (by simpa [noOwned] using h)
  | .boxed s, h => by simpa [PtrsOK] using ptrsOK_noOwned ro W s (by simpa [noOwned] using h)
  | .refc s, h => by simpa [PtrsOK] using ptrsOK_noOwned ro W s (by simpa [noOwned] using h)
  | .retry s, h => by simpa [PtrsOK] using ptrsOK_noOwned ro W s (by simpa [noOwned] using h)
  | .owned _ _, h => by simp [noOwned] at h
theorem ptrsOKL_noOwned (ro : RankOpt) (W : World) : ∀ ss : List Shape, noOwnedL ss = true → PtrsOKL ro W ss
  | [], _ => trivial
  | s :: ss, h => by
    have h' : noOwned s = true ∧ noOwnedL ss = true := by simpa [noOwnedL] using h
    exact ⟨ptrsOK_noOwned ro W s h'.1, ptrsOKL_noOwned ro W ss h'.2⟩
end

/-- **The sorted list of a duplicate-free collection is strictly increasing in address**, for
any length and any listing order. -/
theorem sortPtrs_strict (ps : List Ptr) (hnd : (ps.map (·.addr)).Nodup) :
    (sortPtrs ps).Pairwise fun p q => p.addr < q.addr := by
  have hle : (sortPtrs ps).Pairwise fun p q => p.addr ≤ q.addr := by
    have := List.pairwise_mergeSort (le := fun (a b : Ptr) => decide (a.addr ≤ b.addr))
      (fun a b c h1 h2 => by simp only [decide_eq_true_eq] at *; omega)
      (fun a b => by simp only [Bool.or_eq_true, decide_eq_true_eq]; omega) ps
    exact this.imp (by intro a b h; simpa using h)
  have hne : (sortPtrs ps).Pairwise fun p q => p.addr ≠ q.addr := by
    have h1 : ps.Pairwise fun p q => p.addr ≠ q.addr := List.pairwise_map.1 hnd
    exact (List.Perm.pairwise_iff (fun h => Ne.symm h) (List.mergeSort_perm ps _)).2 h1
  exact List.Pairwise.imp₂ (fun a b h1 h2 => by omega) hle hne

/-- … hence its units form a rank chain for rank = address, when the units are leaves. -/
theorem sortPtrs_chain (W : World) (ps : List Ptr) (hl : ∀ p ∈ ps, p.IsLeaf W)
    (hnd : (ps.map (·.addr)).Nodup) (m : Mode) :
    Members.Chain (some W.addr) (ptrsM (sortPtrs ps)) m := by
  unfold Members.Chain ptrsM
  rw [List.pairwise_map]
  have hs := sortPtrs_strict ps hnd
  have hmem : ∀ p ∈ sortPtrs ps, p.IsLeaf W := fun p hp => hl p (sortPtrs_mem.1 hp)
  -- strengthen the pairwise statement with membership, then use the leaf shape of both sides
  have : (sortPtrs ps).Pairwise fun p q => p.IsLeaf W ∧ q.IsLeaf W ∧ p.addr < q.addr := by
    have hall : ∀ l : List Ptr, (∀ p ∈ l, p.IsLeaf W) → (l.Pairwise fun p q => p.addr < q.addr) →
        l.Pairwise fun p q => p.IsLeaf W ∧ q.IsLeaf W ∧ p.addr < q.addr := by
      intro l
      induction l with
      | nil => intro _ _; exact List.Pairwise.nil
      | cons a l ih =>
        intro hm hp
        have hp' := List.pairwise_cons.1 hp
        refine List.pairwise_cons.2 ⟨fun b hb => ⟨hm a List.mem_cons_self, hm b (List.mem_cons_of_mem _ hb), hp'.1 b hb⟩, ?_⟩
        exact ih (fun p hp => hm p (List.mem_cons_of_mem _ hp)) hp'.2
    exact hall _ hmem hs
  refine this.imp ?_
  intro p q ⟨⟨x, hxa, hxf⟩, ⟨y, hya, hyf⟩, hlt⟩
  intro a ha b hb
  obtain ⟨mx, hmx⟩ := hxf m
  obtain ⟨my, hmy⟩ := hyf m
  simp only [hmx, List.mem_singleton] at ha
  simp only [hmy, List.mem_singleton] at hb
  subst ha; subst hb
  show W.addr x < W.addr y
  rw [← hxa, ← hya]; exact hlt

/-- **Valid flat shapes obey the rank discipline with rank = address.** -/
theorem shapeOK_addr (W : World) : ∀ S : Shape, noOwned S = true → Valid W S → ShapeOK (some W.addr) W S
  | .mutex _, _, _ => trivial
  | .rwlock _, _, _ => trivial
  | .seq _, _, _ => trivial
  | .poisonable _ s, h, hv => by
    simpa [ShapeOK] using shapeOK_addr W s (by simpa [noOwned] using h) (by simpa [Valid] using hv)
  | .boxed s, h, hv => by
    have h' : noOwned s = true := by simpa [noOwned] using h
    exact ⟨ptrsOK_noOwned _ W s h', fun m => sortPtrs_chain W _ (getPtrs_leaves W s h') hv.2 m⟩
  | .refc s, h, hv => by
    have h' : noOwned s = true := by simpa [noOwned] using h
    exact ⟨ptrsOK_noOwned _ W s h', fun m => sortPtrs_chain W _ (getPtrs_leaves W s h') hv.2 m⟩
  | .retry s, h, _ => ptrsOK_noOwned _ W s (by simpa [noOwned] using h)
  | .owned _ _, h, _ => by simp [noOwned] at h

end HLV
