/-
  HLV.Logic.Sessions — the API level: guards, Debug, closures, the four API flavours on every
  lockable kind, statements and whole client programs, all under `HoldSpec n`.
-/
import HLV.Logic.Shapes
namespace HLV
open Prog

variable {n : Nat} {ro : RankOpt} {ε α : Type}

/-! ### single operations -/

theorem wp_mark (k : Nat) (c : Resp → Prog ε α) (Q : α → HG → Prop) (E : ε → HG → Prop) (g : HG)
    (hpre : (k = mkKeyBack ∨ k = mkBeginBlocking ∨ k = mkBeginTry) → ∀ x m, g.held x m = 0)
    (h : wp (HoldSpec n ro) (c .ok) Q E (holdUpd g (.mark k) .ok)) :
    wp (HoldSpec n ro) (.op (.mark k) c) Q E g := by
  refine ⟨hpre, fun r hr => ?_⟩
  have : r = .ok := hr
  subst this
  exact h

theorem wp_nop (o : Op) (c : Resp → Prog ε α) (Q : α → HG → Prop) (E : ε → HG → Prop) (g : HG)
    (ho : o = .keyDrop ∨ o = .keyForget ∨ (∃ p, o = .poisonSet p) ∨ (∃ p, o = .poisonClear p))
    (h : wp (HoldSpec n ro) (c .ok) Q E g) :
    wp (HoldSpec n ro) (.op o c) Q E g := by
  rcases ho with rfl | rfl | ⟨p, rfl⟩ | ⟨p, rfl⟩ <;>
  · refine ⟨trivial, fun r hr => ?_⟩
    have : r = .ok := hr
    subst this
    exact h

theorem wp_probe (o : Op) (c : Resp → Prog ε α) (Q : α → HG → Prop) (E : ε → HG → Prop) (g : HG)
    (ho : o = .keyGet ∨ ∃ p, o = .poisonGet p)
    (h : ∀ r, r ≠ .panic → wp (HoldSpec n ro) (c r) Q E g) :
    wp (HoldSpec n ro) (.op o c) Q E g := by
  rcases ho with rfl | ⟨p, rfl⟩
  · exact ⟨trivial, fun r hr => h r hr⟩
  · exact ⟨trivial, fun r hr => h r hr⟩

/-! ### `guard()` / `data_mut()` reading poison flags -/

theorem readPoison_spec (ps : List PoisonId) (b : Bool) (Q : Bool → HG → Prop) (E : Unit → HG → Prop)
    (g : HG) (h : ∀ b', Q b' g) : wp (HoldSpec n ro) (readPoison ps b) Q E g := by
  induction ps generalizing b with
  | nil => exact h b
  | cons p ps ih =>
    simp only [readPoison]
    exact wp_probe _ _ _ _ _ (Or.inr ⟨p, rfl⟩) (fun r _ => ih _)

/-! ### dropping a guard -/

def itemsFp (m : Mode) : List GuardItem → Fp
  | [] => []
  | .leaf x isMutex :: gs => (x, if isMutex then .excl else m) :: itemsFp m gs
  | .poisonRef _ :: gs => itemsFp m gs

theorem itemsFp_append (m : Mode) (a b : List GuardItem) :
    itemsFp m (a ++ b) = itemsFp m a ++ itemsFp m b := by
  induction a with
  | nil => rfl
  | cons x a ih => cases x <;> simp [itemsFp, ih]

mutual
theorem itemsFp_guardItems (m : Mode) : ∀ S : Shape, itemsFp m (guardItems S) = holdsOf S m
  | .mutex x => by simp [guardItems, itemsFp, holdsOf]
  | .rwlock x => by simp [guardItems, itemsFp, holdsOf]
  | .seq ss => by simpa [guardItems, holdsOf] using itemsFp_guardItemsL m ss
  | .poisonable p s => by simpa [guardItems, holdsOf, itemsFp] using itemsFp_guardItems m s
  | .boxed s => by simpa [guardItems, holdsOf] using itemsFp_guardItems m s
  | .refc s => by simpa [guardItems, holdsOf] using itemsFp_guardItems m s
  | .retry s => by simpa [guardItems, holdsOf] using itemsFp_guardItems m s
  | .owned _ s => by simpa [guardItems, holdsOf] using itemsFp_guardItems m s
theorem itemsFp_guardItemsL (m : Mode) : ∀ ss : List Shape, itemsFp m (guardItemsL ss) = holdsOfL ss m
  | [] => by simp [guardItemsL, itemsFp, holdsOfL]
  | s :: ss => by
    simp only [guardItemsL, holdsOfL, itemsFp_append]
    rw [itemsFp_guardItems m s, itemsFp_guardItemsL m ss]
end

/-- Dropping a guard releases exactly the leaves, each once, in its mode — whether or not a
release panics on the way, and also while unwinding. It never unwinds by itself. -/
theorem guardDrop_spec (m : Mode) (items : List GuardItem) (panicking : Bool) (g : HG)
    (Q : Bool → HG → Prop) (E : Unit → HG → Prop)
    (hc : g.held.Covers (itemsFp m items))
    (hQ : ∀ (p' : Bool) (g' : HG), g'.held = g.held.minus (itemsFp m items) → g'.depth = g.depth →
      Q p' g') :
    wp (HoldSpec n ro) (guardDrop m items panicking) Q E g := by
  induction items generalizing g panicking with
  | nil => exact hQ _ g (by simp [itemsFp, Held.minus_nil]) rfl
  | cons it items ih =>
    cases it with
    | poisonRef p =>
      simp only [guardDrop]
      split
      · exact wp_nop _ _ _ _ _ (Or.inr (Or.inr (Or.inl ⟨p, rfl⟩))) (ih _ g hc hQ)
      · exact ih _ g hc hQ
    | leaf x isMutex =>
      simp only [guardDrop]
      have hc' : g.held.Covers ([(x, if isMutex then Mode.excl else m)] ++ itemsFp m items) := hc
      obtain ⟨hc1, hc2⟩ := hc'.append
      refine ⟨hc1.pos, fun r hr => ?_⟩
      have hstep : ∀ (g1 : HG), g1.held = g.held.minus [(x, if isMutex then Mode.excl else m)] →
          g1.depth = g.depth → ∀ pk, wp (HoldSpec n ro) (guardDrop m items pk) Q E g1 := by
        intro g1 h1 h2 pk
        apply ih pk g1 (by rw [h1]; exact hc2)
        intro p' g' a b
        apply hQ p' g' _ (by rw [b, h2])
        rw [a, h1]
        show _ = g.held.minus ([(x, if isMutex then Mode.excl else m)] ++ itemsFp m items)
        rw [Held.minus_append]
      cases r with
      | ok => exact hstep _ (by rfl) (by rfl) _
      | no => exact absurd rfl hr.1
      | panic =>
        show wp (HoldSpec n ro) (if panicking then Prog.abort else guardDrop m items true) Q E _
        split
        · trivial
        · exact hstep _ (by rfl) (by rfl) _

theorem guardDropO_spec (m : Mode) (items : List GuardItem) (panicking : Bool) (g : HG)
    (Q : Bool → HG → Prop) (E : Unit → HG → Prop)
    (hc : g.held.Covers (itemsFp m items))
    (hQ : ∀ (p' : Bool) (g' : HG), g'.held = g.held.minus (itemsFp m items) → g'.depth = g.depth →
      Q p' g') :
    wp (HoldSpec n ro) (guardDropO m items panicking) Q E g := by
  induction items generalizing g panicking with
  | nil => exact hQ _ g (by simp [itemsFp, Held.minus_nil]) rfl
  | cons it items ih =>
    cases it with
    | poisonRef p =>
      simp only [guardDropO]
      exact wp_nop _ _ _ _ _ (Or.inr (Or.inr (Or.inl ⟨p, rfl⟩))) (ih _ g hc hQ)
    | leaf x isMutex =>
      simp only [guardDropO]
      have hc' : g.held.Covers ([(x, if isMutex then Mode.excl else m)] ++ itemsFp m items) := hc
      obtain ⟨hc1, hc2⟩ := hc'.append
      refine ⟨hc1.pos, fun r hr => ?_⟩
      have hstep : ∀ (g1 : HG), g1.held = g.held.minus [(x, if isMutex then Mode.excl else m)] →
          g1.depth = g.depth → ∀ pk, wp (HoldSpec n ro) (guardDropO m items pk) Q E g1 := by
        intro g1 h1 h2 pk
        apply ih pk g1 (by rw [h1]; exact hc2)
        intro p' g' a b
        apply hQ p' g' _ (by rw [b, h2])
        rw [a, h1]
        show _ = g.held.minus ([(x, if isMutex then Mode.excl else m)] ++ itemsFp m items)
        rw [Held.minus_append]
      cases r with
      | ok => exact hstep _ (by rfl) (by rfl) _
      | no => exact absurd rfl hr.1
      | panic =>
        show wp (HoldSpec n ro) (if panicking then Prog.abort else guardDropO m items true) Q E _
        split
        · trivial
        · exact hstep _ (by rfl) (by rfl) _

theorem guardDropN_spec (outer : Bool) (m : Mode) (items : List GuardItem) (g : HG)
    (Q : Bool → HG → Prop) (E : Unit → HG → Prop)
    (hc : g.held.Covers (itemsFp m items))
    (hQ : ∀ (p' : Bool) (g' : HG), g'.held = g.held.minus (itemsFp m items) → g'.depth = g.depth →
      Q p' g') :
    wp (HoldSpec n ro) (guardDropN outer m items) Q E g := by
  unfold guardDropN
  split
  · exact guardDropO_spec m items false g Q E hc hQ
  · exact guardDrop_spec m items false g Q E hc hQ

/-! ### marks -/

@[simp] theorem holdUpd_beginBlocking (g : HG) (r : Resp) : holdUpd g (.mark mkBeginBlocking) r = g := by
  simp [holdUpd, mkBeginBlocking, mkBeginTry, mkBeginNonAcq, mkEndCall, mkKeyBack, mkBody]
@[simp] theorem holdUpd_beginTry (g : HG) (r : Resp) :
    holdUpd g (.mark mkBeginTry) r = { g with depth := g.depth + 1 } := by simp [holdUpd, mkBeginBlocking, mkBeginTry, mkBeginNonAcq, mkEndCall, mkKeyBack, mkBody]
@[simp] theorem holdUpd_beginNonAcq (g : HG) (r : Resp) :
    holdUpd g (.mark mkBeginNonAcq) r = { g with depth := g.depth + 1 } := by simp [holdUpd, mkBeginBlocking, mkBeginTry, mkBeginNonAcq, mkEndCall, mkKeyBack, mkBody]
@[simp] theorem holdUpd_endCall (g : HG) (r : Resp) :
    holdUpd g (.mark mkEndCall) r = { g with depth := g.depth - 1 } := by simp [holdUpd, mkBeginBlocking, mkBeginTry, mkBeginNonAcq, mkEndCall, mkKeyBack, mkBody]
@[simp] theorem holdUpd_keyBack (g : HG) (r : Resp) : holdUpd g (.mark mkKeyBack) r = g := by
  simp [holdUpd, mkBeginBlocking, mkBeginTry, mkBeginNonAcq, mkEndCall, mkKeyBack, mkBody]
@[simp] theorem holdUpd_body (g : HG) (r : Resp) : holdUpd g (.mark mkBody) r = g := by
  simp [holdUpd, mkBeginBlocking, mkBeginTry, mkBeginNonAcq, mkEndCall, mkKeyBack, mkBody]
theorem holdUpd_other (g : HG) (k : Nat) (r : Resp) (h : 6 ≤ k) : holdUpd g (.mark k) r = g := by
  have h1 : ¬ (k = mkBeginTry ∨ k = mkBeginNonAcq) := by
    simp only [mkBeginTry, mkBeginNonAcq]; omega
  have h2 : ¬ k = mkEndCall := by simp only [mkEndCall]; omega
  simp [holdUpd, h1, h2]

/-- a mark that carries no obligation (not `keyBack`, not the start of an acquiring call) -/
theorem wp_mark' (k : Nat) (c : Resp → Prog ε α) (Q : α → HG → Prop) (E : ε → HG → Prop) (g : HG)
    (hk : k ≠ mkKeyBack ∧ k ≠ mkBeginBlocking ∧ k ≠ mkBeginTry)
    (h : wp (HoldSpec n ro) (c .ok) Q E (holdUpd g (.mark k) .ok)) :
    wp (HoldSpec n ro) (.op (.mark k) c) Q E g :=
  wp_mark k c Q E g (fun h' => by rcases h' with h' | h' | h' <;> simp_all) h

/-- the start of an acquiring call: nothing may be held -/
theorem wp_begin (k : Nat) (c : Resp → Prog ε α) (Q : α → HG → Prop) (E : ε → HG → Prop) (g : HG)
    (hh : g.held = Held.empty)
    (h : wp (HoldSpec n ro) (c .ok) Q E (holdUpd g (.mark k) .ok)) :
    wp (HoldSpec n ro) (.op (.mark k) c) Q E g :=
  wp_mark k c Q E g (fun _ x m => by rw [hh]; rfl) h

theorem wp_keyBack (c : Resp → Prog ε α) (Q : α → HG → Prop) (E : ε → HG → Prop) (g : HG)
    (hh : g.held = Held.empty)
    (h : wp (HoldSpec n ro) (c .ok) Q E g) :
    wp (HoldSpec n ro) (.op (.mark mkKeyBack) c) Q E g :=
  wp_mark mkKeyBack c Q E g (fun _ x m => by rw [hh]; rfl) (by simpa using h)

/-! ### Debug (C17): never blocks, leaves the caller's holds as it found them -/

theorem Held.add_sub (h : Held) (x : LockId) (m : Mode) : (h.add x m).sub x m = h :=
  Held.minus_plus h _

theorem debugLeaf_spec (x : LockId) (m : Mode) (b : Nat) (g : HG) (Q : Unit → HG → Prop) (E : Unit → HG → Prop)
    (hQ : ∀ g' : HG, g'.held = g.held → g'.depth = g.depth → Q () g')
    (hE : ∀ g' : HG, g'.held = g.held → g'.depth = g.depth → E () g') :
    wp (HoldSpec n ro) (debugLeaf x m b) Q E g := by
  unfold debugLeaf
  refine ⟨trivial, fun r hr => ?_⟩
  cases r with
  | no => exact hQ _ rfl rfl
  | panic => exact hE _ rfl rfl
  | ok =>
    have hpos : 0 < (g.held.add x m) x m := by simp [Held.add, Held.plus]
    refine ⟨?_, fun r1 hr1 => ?_⟩
    · cases m
      · exact Or.inr hpos
      · exact Or.inl hpos
    have : r1 = .ok := hr1
    subst this
    split
    · apply wp_mark' mkUserPanic _ _ _ _ (by decide)
      rw [holdUpd_other _ _ _ (by decide)]
      refine ⟨hpos, fun r2 hr2 => ?_⟩
      cases r2 with
      | ok => exact hE _ (Held.add_sub _ _ _) rfl
      | no => exact absurd rfl hr2.1
      | panic => trivial
    · refine ⟨hpos, fun r2 hr2 => ?_⟩
      cases r2 with
      | ok =>
        dsimp only
        split
        · apply wp_mark' mkUserPanic _ _ _ _ (by decide)
          rw [holdUpd_other _ _ _ (by decide)]
          exact hE _ (Held.add_sub _ _ _) rfl
        · exact hQ _ (Held.add_sub _ _ _) rfl
      | no => exact absurd rfl hr2.1
      | panic => exact hE _ (Held.add_sub _ _ _) rfl

mutual
theorem debugFmt_spec (b : Option LockId) : ∀ (S : Shape) (g : HG) (Q : Unit → HG → Prop) (E : Unit → HG → Prop),
    (∀ g' : HG, g'.held = g.held → g'.depth = g.depth → Q () g') →
    (∀ g' : HG, g'.held = g.held → g'.depth = g.depth → E () g') →
    wp (HoldSpec n ro) (debugFmt b S) Q E g
  | .mutex x, g, Q, E, hQ, hE => by simpa [debugFmt] using debugLeaf_spec x .excl _ g Q E hQ hE
  | .rwlock x, g, Q, E, hQ, hE => by simpa [debugFmt] using debugLeaf_spec x .shared _ g Q E hQ hE
  | .seq ss, g, Q, E, hQ, hE => by simpa [debugFmt] using debugFmtL_spec b ss g Q E hQ hE
  | .poisonable _ s, g, Q, E, hQ, hE => by simpa [debugFmt] using debugFmt_spec b s g Q E hQ hE
  | .boxed _, g, Q, E, hQ, _ => by simpa [debugFmt] using hQ g rfl rfl
  | .refc s, g, Q, E, hQ, hE => by simpa [debugFmt] using debugFmt_spec b s g Q E hQ hE
  | .retry s, g, Q, E, hQ, hE => by simpa [debugFmt] using debugFmt_spec b s g Q E hQ hE
  | .owned _ s, g, Q, E, hQ, hE => by simpa [debugFmt] using debugFmt_spec b s g Q E hQ hE
theorem debugFmtL_spec (b : Option LockId) : ∀ (ss : List Shape) (g : HG) (Q : Unit → HG → Prop) (E : Unit → HG → Prop),
    (∀ g' : HG, g'.held = g.held → g'.depth = g.depth → Q () g') →
    (∀ g' : HG, g'.held = g.held → g'.depth = g.depth → E () g') →
    wp (HoldSpec n ro) (debugFmtL b ss) Q E g
  | [], g, Q, E, hQ, _ => by simpa [debugFmtL] using hQ g rfl rfl
  | s :: ss, g, Q, E, hQ, hE => by
    simp only [debugFmtL]
    rw [wp_bind]
    apply debugFmt_spec b s g _ _
    · intro g' h1 h2
      apply debugFmtL_spec b ss g' Q E
      · intro g'' a b; exact hQ g'' (a.trans h1) (b.trans h2)
      · intro g'' a b; exact hE g'' (a.trans h1) (b.trans h2)
    · exact hE
end

/-! ### closure / guard bodies -/

mutual
theorem declLeaves_eq (m : Mode) : ∀ S : Shape, declLeaves S = (holdsOf S m).map (·.1)
  | .mutex x => by simp [declLeaves, holdsOf]
  | .rwlock x => by simp [declLeaves, holdsOf]
  | .seq ss => by simpa [declLeaves, holdsOf] using declLeavesL_eq m ss
  | .poisonable _ s => by simpa [declLeaves, holdsOf] using declLeaves_eq m s
  | .boxed s => by simpa [declLeaves, holdsOf] using declLeaves_eq m s
  | .refc s => by simpa [declLeaves, holdsOf] using declLeaves_eq m s
  | .retry s => by simpa [declLeaves, holdsOf] using declLeaves_eq m s
  | .owned _ s => by simpa [declLeaves, holdsOf] using declLeaves_eq m s
theorem declLeavesL_eq (m : Mode) : ∀ ss : List Shape, declLeavesL ss = (holdsOfL ss m).map (·.1)
  | [] => by simp [declLeavesL, holdsOfL]
  | s :: ss => by
    simp only [declLeavesL, holdsOfL, List.map_append]
    rw [declLeaves_eq m s, declLeavesL_eq m ss]
end

/-- what the type system allows a body to do with a guard / closure argument of shape `S`
taken in mode `m`: positions exist, writes only through exclusive positions -/
def stepOK (S : Shape) (m : Mode) : BodyStep → Prop
  | .write pos _ => ∃ x, (holdsOf S m)[pos]? = some (x, Mode.excl)
  | .read pos => pos < (holdsOf S m).length
  | _ => True

theorem Held.Covers.mem_pos {h : Held} {l : Fp} (hc : h.Covers l) {x : LockId} {m : Mode}
    (hm : (x, m) ∈ l) : 0 < h x m :=
  Nat.lt_of_lt_of_le (List.count_pos_iff.2 hm) (hc x m)

theorem bodySteps_spec (C : Ctx) (S : Shape) (m : Mode) (body : List BodyStep) (g : HG)
    (Q : Unit → HG → Prop) (E : Unit → HG → Prop)
    (hc : g.held.Covers (holdsOf S m))
    (hok : ∀ b ∈ body, stepOK S m b)
    (hQ : ∀ g' : HG, g'.held = g.held → g'.depth = g.depth → Q () g')
    (hE : ∀ g' : HG, g'.held = g.held → g'.depth = g.depth → E () g') :
    wp (HoldSpec n ro) (bodySteps C S body) Q E g := by
  induction body generalizing g with
  | nil => exact hQ g rfl rfl
  | cons b body ih =>
    have hrest : ∀ b' ∈ body, stepOK S m b' := fun b' hb' => hok b' (List.mem_cons_of_mem _ hb')
    have hb := hok b List.mem_cons_self
    cases b with
    | write pos v =>
      obtain ⟨x, hx⟩ := hb
      simp only [bodySteps]
      have hget : (declLeaves S).getD pos 0 = x := by
        rw [declLeaves_eq m S, List.getD_eq_getElem?_getD, List.getElem?_map, hx]; rfl
      rw [hget]
      have hmem : (x, Mode.excl) ∈ holdsOf S m := List.mem_of_getElem? hx
      refine ⟨hc.mem_pos hmem, fun r hr => ?_⟩
      have : r = .ok := hr
      subst this
      exact ih g hc hrest hQ hE
    | read pos =>
      simp only [bodySteps]
      have hlt : pos < (holdsOf S m).length := hb
      have hx : (holdsOf S m)[pos]? = some (holdsOf S m)[pos] := List.getElem?_eq_getElem hlt
      have hget : (declLeaves S).getD pos 0 = ((holdsOf S m)[pos]).1 := by
        rw [declLeaves_eq m S, List.getD_eq_getElem?_getD, List.getElem?_map, hx]; rfl
      rw [hget]
      have hmem : (holdsOf S m)[pos] ∈ holdsOf S m := List.getElem_mem hlt
      have hpos := hc.mem_pos (x := ((holdsOf S m)[pos]).1) (m := ((holdsOf S m)[pos]).2) hmem
      refine ⟨?_, fun r hr => ?_⟩
      · cases hmd : ((holdsOf S m)[pos]).2
        · right; rw [hmd] at hpos; exact hpos
        · left; rw [hmd] at hpos; exact hpos
      have : r = .ok := hr
      subst this
      exact ih g hc hrest hQ hE
    | dbg c bomb =>
      simp only [bodySteps]
      apply wp_mark' _ _ _ _ _ (by decide)
      rw [wp_bindX]
      simp only [holdUpd_beginNonAcq]
      apply debugFmt_spec
      · intro g' h1 h2
        apply wp_mark' _ _ _ _ _ (by decide)
        simp only [holdUpd_endCall]
        refine ih _ (by rw [h1]; exact hc) hrest ?_ ?_
        · intro g'' a b; exact hQ g'' (a.trans h1) (by rw [b]; simp [h2])
        · intro g'' a b; exact hE g'' (a.trans h1) (by rw [b]; simp [h2])
      · intro g' h1 h2
        apply wp_mark' _ _ _ _ _ (by decide)
        simp only [holdUpd_endCall, wp_unwind]
        exact hE _ h1 (by simp [h2])
    | getKey =>
      simp only [bodySteps]
      apply wp_probe _ _ _ _ _ (Or.inl rfl)
      intro r hr
      cases r with
      | ok =>
        apply wp_mark' _ _ _ _ _ (by decide)
        rw [holdUpd_other _ _ _ (by decide)]
        exact wp_nop _ _ _ _ _ (Or.inl rfl) (ih g hc hrest hQ hE)
      | no =>
        apply wp_mark' _ _ _ _ _ (by decide)
        rw [holdUpd_other _ _ _ (by decide)]
        exact ih g hc hrest hQ hE
      | panic => exact absurd rfl hr
    | isPoisoned c =>
      simp only [bodySteps]
      split
      · rename_i p _
        apply wp_probe _ _ _ _ _ (Or.inr ⟨p, rfl⟩)
        intro r _
        apply wp_mark' _ _ _ _ _ (by split <;> decide)
        rw [holdUpd_other _ _ _ (by split <;> decide)]
        exact ih g hc hrest hQ hE
      · exact ih g hc hrest hQ hE
    | clearPoison c =>
      simp only [bodySteps]
      split
      · rename_i p _
        exact wp_nop _ _ _ _ _ (Or.inr (Or.inr (Or.inr ⟨p, rfl⟩))) (ih g hc hrest hQ hE)
      · exact ih g hc hrest hQ hE

/-- outcome marks are ≥ 10 -/
macro "out10" : tactic =>
  `(tactic| (simp only [mkOutOk, mkOutPoisoned, mkOutPanic, mkOutWouldBlock, mkOutNoKey]; (repeat' split) <;> omega))

/-! ### sessions -/

/-- The sessions a well-typed client can write: the collection is lockable, the guard is not
leaked with `mem::forget` (C01/C05 speak about guards that are dropped), the body uses the
guard's positions as their types allow. -/
structure SesOK (ro : RankOpt) (C : Ctx) (ses : Session) : Prop where
  lockable : lockable (C.shape ses.coll) = true
  shapeOK : ShapeOK ro C.W (C.shape ses.coll)
  noForget : ses.exit ≠ .forget
  body : ∀ b ∈ ses.body, stepOK (C.shape ses.coll) ses.mode b

theorem empty_plus_minus (l : Fp) : (Held.empty.plus l).minus l = Held.empty := Held.minus_plus _ _

/-- key drop, then the API boundary: nothing is held when the key is handed back -/
theorem finish_spec (out : Nat) (u : UserSt) (dropKey : Bool) (g : HG)
    (Q : Nat × UserSt → HG → Prop) (E : Unit → HG → Prop)
    (hh : g.held = Held.empty) (hQ : Q (out, u) g) :
    wp (HoldSpec n ro)
      (if dropKey then op .keyDrop fun _ => op (.mark mkKeyBack) fun _ => done (out, u)
       else op (.mark mkKeyBack) fun _ => done (out, u)) Q E g := by
  split
  · exact wp_nop _ _ _ _ _ (Or.inl rfl) (wp_keyBack _ _ _ _ hh hQ)
  · exact wp_keyBack _ _ _ _ hh hQ

theorem guardPhase_spec (C : Ctx) (ses : Session) (u : UserSt) (g : HG)
    (Q : Nat × UserSt → HG → Prop) (E : Unit → HG → Prop)
    (hok : SesOK ro C ses)
    (hh : g.held = Held.empty.plus (holdsOf (C.shape ses.coll) ses.mode)) (hd : g.depth ≤ 1)
    (hQ : ∀ (r : Nat × UserSt) (g' : HG), 10 ≤ r.1 → g'.held = Held.empty → g'.depth = 0 → Q r g') :
    wp (HoldSpec n ro) (guardPhase C (C.shape ses.coll) ses u) Q E g := by
  unfold guardPhase
  rw [wp_bind]
  apply readPoison_spec
  intro poisoned
  apply wp_mark' _ _ _ _ _ (by decide)
  simp only [holdUpd_endCall]
  have hfp := itemsFp_guardItems ses.mode (C.shape ses.coll)
  -- dropping the guard from a state that holds exactly the leaves, then the key
  have hdrop : ∀ (pk : Bool) (g1 : HG) (k : Bool → Prog Unit (Nat × UserSt)),
      g1.held = Held.empty.plus (holdsOf (C.shape ses.coll) ses.mode) → g1.depth = 0 →
      (∀ (p' : Bool) (g2 : HG), g2.held = Held.empty → g2.depth = 0 → wp (HoldSpec n ro) (k p') Q E g2) →
      wp (HoldSpec n ro) (Prog.bind (guardDrop ses.mode (guardItems (C.shape ses.coll)) pk) k) Q E g1 := by
    intro pk g1 k h1 h2 hk
    rw [wp_bind]
    apply guardDrop_spec
    · rw [hfp, h1]; exact Held.covers_plus _ _
    · intro p' g2 a b
      apply hk p' g2 _ (by rw [b, h2])
      rw [a, hfp, h1, empty_plus_minus]
  have hdropN : ∀ (g1 : HG) (k : Bool → Prog Unit (Nat × UserSt)),
      g1.held = Held.empty.plus (holdsOf (C.shape ses.coll) ses.mode) → g1.depth = 0 →
      (∀ (p' : Bool) (g2 : HG), g2.held = Held.empty → g2.depth = 0 → wp (HoldSpec n ro) (k p') Q E g2) →
      wp (HoldSpec n ro) (Prog.bind (guardDropN C.outer ses.mode (guardItems (C.shape ses.coll))) k) Q E g1 := by
    intro g1 k h1 h2 hk
    rw [wp_bind]
    apply guardDropN_spec
    · rw [hfp, h1]; exact Held.covers_plus _ _
    · intro p' g2 a b
      apply hk p' g2 _ (by rw [b, h2])
      rw [a, hfp, h1, empty_plus_minus]
  have hafter : ∀ (g1 : HG), g1.held = Held.empty.plus (holdsOf (C.shape ses.coll) ses.mode) →
      g1.depth = 0 →
      wp (HoldSpec n ro)
        (Prog.bind (guardDrop ses.mode (guardItems (C.shape ses.coll)) true) fun _ =>
          op .keyDrop fun _ => op (.mark mkKeyBack) fun _ => done (mkOutPanic, u)) Q E g1 := by
    intro g1 h1 h2
    apply hdrop true g1 _ h1 h2
    intro p' g2 a b
    exact wp_nop _ _ _ _ _ (Or.inl rfl) (wp_keyBack _ _ _ _ a (hQ _ _ (by out10) a b))
  rw [wp_bindX]
  apply bodySteps_spec C (C.shape ses.coll) ses.mode ses.body
  · show g.held.Covers _
    rw [hh]; exact Held.covers_plus _ _
  · exact hok.body
  · intro g1 h1 h2
    have h1' : g1.held = Held.empty.plus (holdsOf (C.shape ses.coll) ses.mode) := h1.trans hh
    have h2' : g1.depth = 0 := by rw [h2]; show g.depth - 1 = 0; omega
    cases hexit : ses.exit with
    | forget => exact absurd hexit hok.noForget
    | panic =>
      apply wp_mark' _ _ _ _ _ (by decide)
      rw [holdUpd_other _ _ _ (by decide)]
      exact hafter g1 h1' h2'
    | unlock =>
      apply hdropN g1 _ h1' h2'
      intro p' g2 a b
      split
      · exact wp_nop _ _ _ _ _ (Or.inl rfl) (wp_keyBack _ _ _ _ a (hQ _ _ (by out10) a b))
      · exact wp_keyBack _ _ _ _ a (hQ _ _ (by out10) a b)
    | drop =>
      apply hdropN g1 _ h1' h2'
      intro p' g2 a b
      exact wp_nop _ _ _ _ _ (Or.inl rfl) (wp_keyBack _ _ _ _ a (hQ _ _ (by out10) a b))
    | ret =>
      apply hdropN g1 _ h1' h2'
      intro p' g2 a b
      exact wp_nop _ _ _ _ _ (Or.inl rfl) (wp_keyBack _ _ _ _ a (hQ _ _ (by out10) a b))
  · intro g1 h1 h2
    exact hafter g1 (h1.trans hh) (by rw [h2]; show g.depth - 1 = 0; omega)

theorem plus_shapeFp (C : Ctx) (S : Shape) (m : Mode) (hl : lockable S = true) :
    Held.empty.plus (shapeFp C.W S m) = Held.empty.plus (holdsOf S m) :=
  Held.plus_perm _ (shapeFp_perm C.W m S hl)

/-- the three marks that end a call which gives the key back with nothing held -/
theorem callEnd_spec (r : Nat × UserSt) (g : HG) (Q : Nat × UserSt → HG → Prop) (E : Unit → HG → Prop)
    (hr : 10 ≤ r.1) (hh : g.held = Held.empty) (hd : g.depth ≤ 1)
    (hQ : ∀ (r : Nat × UserSt) (g' : HG), 10 ≤ r.1 → g'.held = Held.empty → g'.depth = 0 → Q r g') :
    wp (HoldSpec n ro) (op (.mark mkEndCall) fun _ => op (.mark mkKeyBack) fun _ => done r) Q E g := by
  apply wp_mark' _ _ _ _ _ (by decide)
  simp only [holdUpd_endCall]
  have hh' : ({ g with depth := g.depth - 1 } : HG).held = Held.empty := hh
  apply wp_keyBack _ _ _ _ hh'
  exact hQ _ _ hr hh (by show g.depth - 1 = 0; omega)

theorem guardSession_spec (C : Ctx) (ses : Session) (u : UserSt) (g : HG)
    (Q : Nat × UserSt → HG → Prop) (E : Unit → HG → Prop)
    (hok : SesOK ro C ses) (hh : g.held = Held.empty) (hd : g.depth = 0)
    (hQ : ∀ (r : Nat × UserSt) (g' : HG), 10 ≤ r.1 → g'.held = Held.empty → g'.depth = 0 → Q r g') :
    wp (HoldSpec n ro) (guardSession C (C.shape ses.coll) ses u) Q E g := by
  have hL := toRaw_isLock (n := n) (ro := ro) C.W (C.shape ses.coll) hok.lockable hok.shapeOK
  unfold guardSession
  split
  · -- try_lock / try_read
    apply wp_begin _ _ _ _ _ hh
    simp only [holdUpd_beginTry]
    rw [wp_bindX]
    apply hL.try_
    · simp only [if_true]
      apply guardPhase_spec C ses _ _ Q E hok _ (by show g.depth + 1 ≤ 1; omega) hQ
      show g.held.plus _ = _
      rw [hh]; exact plus_shapeFp C _ _ hok.lockable
    · simp only [Bool.false_eq_true, if_false]
      exact callEnd_spec _ _ Q E (by out10) hh (by show g.depth + 1 ≤ 1; omega) hQ
    · intro g' h1 h2 _
      refine wp_nop _ _ _ _ _ (Or.inl rfl) ?_
      exact callEnd_spec _ _ Q E (by out10) (h1.trans hh) (by rw [h2]; show g.depth + 1 ≤ 1; omega) hQ
  · -- lock / read
    apply wp_begin _ _ _ _ _ hh
    simp only [holdUpd_beginBlocking]
    rw [wp_bindX]
    apply hL.acq _ _ _ _ hd (by rw [hh]; exact LowFp_empty _ _)
    · apply guardPhase_spec C ses _ _ Q E hok _ (by show g.depth ≤ 1; omega) hQ
      show g.held.plus _ = _
      rw [hh]; exact plus_shapeFp C _ _ hok.lockable
    · intro g' h1 h2 _
      refine wp_nop _ _ _ _ _ (Or.inl rfl) ?_
      exact callEnd_spec _ _ Q E (by out10) (h1.trans hh) (by rw [h2]; omega) hQ

theorem dropKeyIf_spec (k : KeyStyle) (cont : Prog Unit α) (Q : α → HG → Prop) (E : Unit → HG → Prop)
    (g : HG) (h : wp (HoldSpec n ro) cont Q E g) : wp (HoldSpec n ro) (dropKeyIf k cont) Q E g := by
  unfold dropKeyIf
  split
  · exact wp_nop _ _ _ _ _ (Or.inl rfl) h
  · exact h

theorem scopedUnwound_spec (ses : Session) (u' : UserSt) (g1 : HG)
    (Q : Nat × UserSt → HG → Prop) (E : Unit → HG → Prop)
    (a : g1.held = Held.empty) (b : g1.depth ≤ 1)
    (hQ : ∀ (r : Nat × UserSt) (g' : HG), 10 ≤ r.1 → g'.held = Held.empty → g'.depth = 0 → Q r g') :
    wp (HoldSpec n ro) (scopedUnwound ses u') Q E g1 :=
  dropKeyIf_spec _ _ _ _ _ (callEnd_spec _ g1 Q E (by out10) a b hQ)

theorem scopedHeld_spec (C : Ctx) (ses : Session) (u' : UserSt) (g1 : HG)
    (Q : Nat × UserSt → HG → Prop) (E : Unit → HG → Prop)
    (hok : SesOK ro C ses)
    (h1 : g1.held = Held.empty.plus (holdsOf (C.shape ses.coll) ses.mode)) (hd1 : g1.depth ≤ 1)
    (hQ : ∀ (r : Nat × UserSt) (g' : HG), 10 ≤ r.1 → g'.held = Held.empty → g'.depth = 0 → Q r g') :
    wp (HoldSpec n ro) (scopedHeld C (C.shape ses.coll) ses u') Q E g1 := by
  have hL := toRaw_isLock (n := n) (ro := ro) C.W (C.shape ses.coll) hok.lockable hok.shapeOK
  have hplus := plus_shapeFp C (C.shape ses.coll) ses.mode hok.lockable
  have hunw : ∀ (g2 : HG), g2.held = Held.empty → g2.depth ≤ 1 →
      wp (HoldSpec n ro) (scopedUnwound ses u') Q E g2 :=
    fun g2 a b => scopedUnwound_spec ses u' g2 Q E a b hQ
  -- releasing the whole collection from a state that holds exactly its leaves
  have hrel : ∀ (g2 : HG) (Q' : Unit → HG → Prop) (E' : Unit → HG → Prop),
      g2.held = Held.empty.plus (holdsOf (C.shape ses.coll) ses.mode) →
      (∀ g3 : HG, g3.held = Held.empty → g3.depth = g2.depth → Q' () g3) →
      (∀ g3 : HG, g3.held = Held.empty → g3.depth = g2.depth → E' () g3) →
      wp (HoldSpec n ro) ((toRaw C.W (C.shape ses.coll)).rel ses.mode) Q' E' g2 := by
    intro g2 Q' E' h2 hq he
    have hcov : g2.held.Covers (shapeFp C.W (C.shape ses.coll) ses.mode) := by
      rw [h2, ← hplus]; exact Held.covers_plus _ _
    have hmin : g2.held.minus (shapeFp C.W (C.shape ses.coll) ses.mode) = Held.empty := by
      rw [h2, ← hplus]; exact empty_plus_minus _
    apply hL.rel _ _ _ _ hcov
    · exact hq _ hmin rfl
    · intro g3 a b _
      exact he g3 (a.trans hmin) b
  -- the unwind handler of the closure: (poison,) release everything, keep unwinding
  have hhandler : ∀ (g2 : HG), g2.held = Held.empty.plus (holdsOf (C.shape ses.coll) ses.mode) →
      g2.depth ≤ 1 →
      wp (HoldSpec n ro)
        (match isPoisonableTop (C.shape ses.coll) with
          | some p => op (.poisonSet p) fun _ => (toRaw C.W (C.shape ses.coll)).rel ses.mode
          | none => (toRaw C.W (C.shape ses.coll)).rel ses.mode)
        (fun _ g'' => wp (HoldSpec n ro) (scopedUnwound ses u') Q E g'')
        (fun _ g'' => wp (HoldSpec n ro) (scopedUnwound ses u') Q E g'') g2 := by
    intro g2 a' b'
    split
    · rename_i p _
      refine wp_nop _ _ _ _ _ (Or.inr (Or.inr (Or.inl ⟨p, rfl⟩))) ?_
      apply hrel g2 _ _ a'
      · intro g3 c d; exact hunw g3 c (by rw [d]; exact b')
      · intro g3 c d; exact hunw g3 c (by rw [d]; exact b')
    · apply hrel g2 _ _ a'
      · intro g3 c d; exact hunw g3 c (by rw [d]; exact b')
      · intro g3 c d; exact hunw g3 c (by rw [d]; exact b')
  unfold scopedHeld
  rw [wp_bind]
  apply readPoison_spec
  intro poisoned
  apply wp_mark' _ _ _ _ _ (by decide)
  simp only [holdUpd_body]
  rw [wp_bindX, wp_handle, wp_bind]
  apply bodySteps_spec C (C.shape ses.coll) ses.mode ses.body
  · rw [h1]; exact Held.covers_plus _ _
  · exact hok.body
  · -- the closure body finished
    intro g2 a b
    have a' := a.trans h1
    have b' : g2.depth ≤ 1 := by rw [b]; exact hd1
    cases hexit : ses.exit with
    | panic =>
      apply wp_mark' _ _ _ _ _ (by decide)
      rw [holdUpd_other _ _ _ (by decide)]
      simp only [wp_unwind]
      exact hhandler g2 a' b'
    | forget => exact absurd hexit hok.noForget
    | drop | unlock | ret =>
      simp only [wp_done]
      rw [wp_bindX]
      apply hrel g2 _ _ a'
      · intro g3 c d
        exact dropKeyIf_spec _ _ _ _ _ (callEnd_spec _ g3 Q E (by out10) c (by rw [d]; exact b') hQ)
      · intro g3 c d
        exact hunw g3 c (by rw [d]; exact b')
  · -- the closure body unwound (a Debug inside hit a raw fault)
    intro g2 a b
    exact hhandler g2 (a.trans h1) (by rw [b]; exact hd1)

theorem scopedSession_spec (C : Ctx) (ses : Session) (u : UserSt) (g : HG)
    (Q : Nat × UserSt → HG → Prop) (E : Unit → HG → Prop)
    (hok : SesOK ro C ses) (hh : g.held = Held.empty) (hd : g.depth = 0)
    (hQ : ∀ (r : Nat × UserSt) (g' : HG), 10 ≤ r.1 → g'.held = Held.empty → g'.depth = 0 → Q r g') :
    wp (HoldSpec n ro) (scopedSession C (C.shape ses.coll) ses u) Q E g := by
  have hL := toRaw_isLock (n := n) (ro := ro) C.W (C.shape ses.coll) hok.lockable hok.shapeOK
  have hplus := plus_shapeFp C (C.shape ses.coll) ses.mode hok.lockable
  unfold scopedSession
  generalize (match ses.key with | .owned => ({ u with keys := u.keys - 1 } : UserSt) | .lent => u) = u'
  unfold scopedSessionWith
  split
  · -- scoped_try_*
    apply wp_begin _ _ _ _ _ hh
    simp only [holdUpd_beginTry]
    rw [wp_bindX]
    apply hL.try_
    · simp only [if_true]
      apply scopedHeld_spec C ses _ _ Q E hok _ (by show g.depth + 1 ≤ 1; omega) hQ
      show g.held.plus _ = _
      rw [hh]; exact hplus
    · simp only [Bool.false_eq_true, if_false]
      exact callEnd_spec _ _ Q E (by out10) hh (by show g.depth + 1 ≤ 1; omega) hQ
    · intro g' h1 h2 _
      exact scopedUnwound_spec _ _ g' Q E (h1.trans hh) (by rw [h2]; show g.depth + 1 ≤ 1; omega) hQ
  · -- scoped_lock / scoped_read
    apply wp_begin _ _ _ _ _ hh
    simp only [holdUpd_beginBlocking]
    rw [wp_bindX]
    apply hL.acq _ _ _ _ hd (by rw [hh]; exact LowFp_empty _ _)
    · apply scopedHeld_spec C ses _ _ Q E hok _ (by show g.depth ≤ 1; omega) hQ
      show g.held.plus _ = _
      rw [hh]; exact hplus
    · intro g' h1 h2 _
      exact scopedUnwound_spec _ _ g' Q E (h1.trans hh) (by rw [h2]; omega) hQ

/-! ### statements and programs -/

def StmtOK (ro : RankOpt) (C : Ctx) : Stmt → Prop
  | .ses ses => SesOK ro C ses
  | _ => True

theorem session_spec (C : Ctx) (ses : Session) (u : UserSt) (g : HG)
    (Q : Nat × UserSt → HG → Prop) (E : Unit → HG → Prop)
    (hok : SesOK ro C ses) (hh : g.held = Held.empty) (hd : g.depth = 0)
    (hQ : ∀ (r : Nat × UserSt) (g' : HG), 10 ≤ r.1 → g'.held = Held.empty → g'.depth = 0 → Q r g') :
    wp (HoldSpec n ro) (session C ses u) Q E g := by
  unfold session
  split
  · exact hQ _ g (by out10) hh hd
  · split
    · exact guardSession_spec C ses u g Q E hok hh hd hQ
    · exact guardSession_spec C ses u g Q E hok hh hd hQ
    · exact scopedSession_spec C ses u g Q E hok hh hd hQ
    · exact scopedSession_spec C ses u g Q E hok hh hd hQ

theorem wp_outMark (k : Nat) (u : UserSt) (g : HG) (Q : UserSt → HG → Prop) (E : Unit → HG → Prop)
    (hk : 6 ≤ k) (hQ : Q u g) :
    wp (HoldSpec n ro) (op (.mark k) fun _ => done u) Q E g := by
  apply wp_mark' _ _ _ _ _ (by simp only [mkKeyBack, mkBeginBlocking, mkBeginTry]; omega)
  rw [holdUpd_other _ _ _ hk]
  exact hQ

/-- Every statement of a well-typed client, from a state in which the thread holds nothing,
ends (it never unwinds: the client catches panics per statement) in a state in which the
thread holds nothing — for every answer sequence with at most `n` panicking answers. -/
theorem stmt_spec (C : Ctx) (st : Stmt) (u : UserSt) (g : HG)
    (Q : UserSt → HG → Prop) (E : Unit → HG → Prop)
    (hok : StmtOK ro C st) (hh : g.held = Held.empty) (hd : g.depth = 0)
    (hQ : ∀ (u' : UserSt) (g' : HG), g'.held = Held.empty → g'.depth = 0 → Q u' g') :
    wp (HoldSpec n ro) (stmt C st u) Q E g := by
  cases st with
  | ses ses =>
    simp only [stmt]
    rw [wp_bind]
    apply session_spec C ses u g _ _ hok hh hd
    intro r g' hr a b
    obtain ⟨out, u'⟩ := r
    exact wp_outMark out u' g' Q E (by simp only at hr; omega) (hQ _ _ a b)
  | get =>
    simp only [stmt]
    apply wp_probe _ _ _ _ _ (Or.inl rfl)
    intro r hr
    cases r with
    | ok => exact wp_outMark _ _ _ Q E (by decide) (hQ _ _ hh hd)
    | no => exact wp_outMark _ _ _ Q E (by decide) (hQ _ _ hh hd)
    | panic => exact absurd rfl hr
  | dropKey =>
    simp only [stmt]
    split
    · exact wp_outMark _ _ _ Q E (by decide) (hQ _ _ hh hd)
    · exact wp_nop _ _ _ _ _ (Or.inl rfl) (wp_outMark _ _ _ Q E (by decide) (hQ _ _ hh hd))
  | forgetKey =>
    simp only [stmt]
    split
    · exact wp_outMark _ _ _ Q E (by decide) (hQ _ _ hh hd)
    · exact wp_nop _ _ _ _ _ (Or.inr (Or.inl rfl)) (wp_outMark _ _ _ Q E (by decide) (hQ _ _ hh hd))
  | dbg c bomb =>
    simp only [stmt]
    apply wp_mark' _ _ _ _ _ (by decide)
    simp only [holdUpd_beginNonAcq]
    rw [wp_bindX]
    apply debugFmt_spec
    · intro g' a b
      apply wp_mark' _ _ _ _ _ (by decide)
      simp only [holdUpd_endCall]
      exact wp_outMark _ _ _ Q E (by decide) (hQ _ _ (a.trans hh) (by show g'.depth - 1 = 0; rw [b]; show g.depth + 1 - 1 = 0; omega))
    · intro g' a b
      apply wp_mark' _ _ _ _ _ (by decide)
      simp only [holdUpd_endCall]
      exact wp_outMark _ _ _ Q E (by decide) (hQ _ _ (a.trans hh) (by show g'.depth - 1 = 0; rw [b]; show g.depth + 1 - 1 = 0; omega))
  | isPoisoned c =>
    simp only [stmt]
    split
    · rename_i p _
      apply wp_probe _ _ _ _ _ (Or.inr ⟨p, rfl⟩)
      intro r _
      exact wp_outMark _ _ _ Q E (by split <;> decide) (hQ _ _ hh hd)
    · exact wp_outMark _ _ _ Q E (by decide) (hQ _ _ hh hd)
  | clearPoison c =>
    simp only [stmt]
    split
    · rename_i p _
      exact wp_nop _ _ _ _ _ (Or.inr (Or.inr (Or.inr ⟨p, rfl⟩))) (wp_outMark _ _ _ Q E (by decide) (hQ _ _ hh hd))
    · exact wp_outMark _ _ _ Q E (by decide) (hQ _ _ hh hd)
  | tryNew kind s =>
    simp only [stmt]
    exact wp_outMark _ _ _ Q E (by simp only [mkOutOk, mkOutWouldBlock]; (repeat' split) <;> omega) (hQ _ _ hh hd)

/-- **Whole programs.** -/
theorem program_spec (C : Ctx) (prog : List Stmt) (u : UserSt) (g : HG)
    (Q : UserSt → HG → Prop) (E : Unit → HG → Prop)
    (hok : ∀ st ∈ prog, StmtOK ro C st) (hh : g.held = Held.empty) (hd : g.depth = 0)
    (hQ : ∀ (u' : UserSt) (g' : HG), g'.held = Held.empty → g'.depth = 0 → Q u' g') :
    wp (HoldSpec n ro) (program C prog u) Q E g := by
  induction prog generalizing u g with
  | nil => exact hQ u g hh hd
  | cons st prog ih =>
    simp only [program]
    rw [wp_bind]
    apply stmt_spec C st u g _ _ (hok st List.mem_cons_self) hh hd
    intro u' g' a b
    exact ih u' g' (fun s hs => hok s (List.mem_cons_of_mem _ hs)) a b

end HLV
