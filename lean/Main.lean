import HLV.Model.Check
import HLV.Model.CheckOwn
open HLV

/-- `model`: case lines on stdin → model transcripts.
    `check <Cxx>`: alternating lines (case, transcript) on stdin → `ok` / `fail <why>` per pair. -/
partial def modelLoop (h : IO.FS.Stream) : IO Unit := do
  let line ← h.getLine
  if line.isEmpty then return ()
  let l := line.trimAscii.toString
  if l.isEmpty then modelLoop h else
  match parseCase l with
  | some c => IO.println c.run
  | none => IO.println ("?;parse-error;" ++ l)
  modelLoop h

partial def checkLoop (prop : String) (h : IO.FS.Stream) : IO Unit := do
  let l1 ← h.getLine
  if l1.isEmpty then return ()
  let l2 ← h.getLine
  match parseCase l1.trimAscii.toString, parseTranscript l2.trimAscii.toString with
  | some c, some t =>
    match checkProp prop c t with
    | none => IO.println "ok"
    | some why => IO.println s!"fail {c.id} {why}"
  | _, _ => IO.println s!"fail ? unparsable pair: {l1.trimAscii.toString} // {l2.trimAscii.toString}"
  checkLoop prop h

partial def dropsLoop (h : IO.FS.Stream) : IO Unit := do
  let l ← h.getLine
  if l.isEmpty then return ()
  match HLV.Own.checkDropsLine l.trimAscii.toString with
  | none => IO.println "ok"
  | some why => IO.println s!"fail {why}"
  dropsLoop h

def main (args : List String) : IO Unit := do
  let stdin ← IO.getStdin
  match args with
  | ["drops"] => dropsLoop stdin
  | ["check", prop] => checkLoop prop stdin
  | _ => modelLoop stdin
