import HLV.Model.Parse
open HLV

partial def loop (h : IO.FS.Stream) : IO Unit := do
  let line ← h.getLine
  if line.isEmpty then return ()
  let l := line.trimAscii.toString
  if l.isEmpty then loop h else
  match parseCase l with
  | some c => IO.println c.run
  | none => IO.println ("?;parse-error;" ++ l)
  loop h

def main : IO Unit := do loop (← IO.getStdin)
