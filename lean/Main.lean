import HLV.Model.Check
import HLV.Model.CheckOwn
import HLV.Model.Par
import HLV.Model.Kill
open HLV

/-- `model`: case lines on stdin → model transcripts.
    `check <Cxx>`: alternating lines (case, transcript) on stdin → `ok` / `fail <why>` per pair. -/
partial def modelLoop (h : IO.FS.Stream) : IO Unit := do
  let line ← h.getLine
  if line.isEmpty then return ()
  let l := line.trimAscii.toString
  if l.isEmpty then modelLoop h else
  match parseCase l with
  | some c => IO.println c.run
  | none => IO.println ("?;parse-error;" ++ l)
  modelLoop h

partial def checkLoop (prop : String) (h : IO.FS.Stream) : IO Unit := do
  let l1 ← h.getLine
  if l1.isEmpty then return ()
  let l2 ← h.getLine
  match parseCase l1.trimAscii.toString, parseTranscript l2.trimAscii.toString with
  | some c, some t =>
    match checkProp prop c t with
    | none => IO.println "ok"
    | some why => IO.println s!"fail {c.id} {why}"
  | _, _ => IO.println s!"fail ? unparsable pair: {l1.trimAscii.toString} // {l2.trimAscii.toString}"
  checkLoop prop h

partial def dropsLoop (h : IO.FS.Stream) : IO Unit := do
  let l ← h.getLine
  if l.isEmpty then return ()
  match HLV.Own.checkDropsLine l.trimAscii.toString with
  | none => IO.println "ok"
  | some why => IO.println s!"fail {why}"
  dropsLoop h

/-- `t2`: T2 case lines (with schedule) → model transcripts -/
partial def t2Loop (h : IO.FS.Stream) : IO Unit := do
  let line ← h.getLine
  if line.isEmpty then return ()
  let l := line.trimAscii.toString
  if l.isEmpty then t2Loop h else
  match parseT2 l with
  | some c => IO.println c.run
  | none => IO.println ("?;parse-error;" ++ l)
  t2Loop h

/-- `t2check <Cxx>`: alternating (T2 case, transcript of the real code) lines → `ok` / `fail <why>` -/
partial def t2CheckLoop (prop : String) (h : IO.FS.Stream) : IO Unit := do
  let cl ← h.getLine
  if cl.isEmpty then return ()
  let line ← h.getLine
  match checkT2 prop cl.trimAscii.toString line.trimAscii.toString with
  | none => IO.println "ok"
  | some why => IO.println s!"fail {why}"
  t2CheckLoop prop h

def main (args : List String) : IO Unit := do
  let stdin ← IO.getStdin
  match args with
  | ["drops"] => dropsLoop stdin
  | ["kill"] => for l in HLV.Kill.scenarioLines true do IO.println l
  | ["t2"] => t2Loop stdin
  | ["t2check", prop] => t2CheckLoop prop stdin
  | ["check", prop] => checkLoop prop stdin
  | _ => modelLoop stdin
