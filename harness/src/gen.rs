//! Case generators (exhaustive families + script DFS over the real code's decision tree).

use std::collections::BTreeMap;

use crate::case::{Api, Case, Exit, Expr, Session, Step, Stmt};
use crate::interp::{run_case, RunResult};
use crate::vraw::{Ans, Decision};

#[derive(Clone, Copy, Debug)]
pub struct Budget {
	pub refusals: usize,
	pub faults: usize,
	pub max_runs: usize,
}

/// Small deterministic PRNG (xorshift*), so that every random choice derives from VERIF_SEED.
pub struct Rng(pub u64);
impl Rng {
	pub fn next(&mut self) -> u64 {
		self.0 ^= self.0 >> 12;
		self.0 ^= self.0 << 25;
		self.0 ^= self.0 >> 27;
		self.0.wrapping_mul(0x2545F4914F6CDD1D)
	}
	pub fn below(&mut self, n: usize) -> usize {
		(self.next() % n.max(1) as u64) as usize
	}
	pub fn chance(&mut self, num: usize, den: usize) -> bool {
		self.below(den) < num
	}
}

/// Depth-first exploration of the decision tree of `base` as the *real code* unfolds it:
/// after each run, every raw operation after the last scripted one is a branching point
/// (panic instead; refusal instead of a granted `try`).
pub fn explore(base: &Case, b: Budget, sink: &mut dyn FnMut(&Case, &RunResult)) -> usize {
	let mut stack: Vec<(Vec<Decision>, usize, usize, usize)> = vec![(base.script.clone(), 0, 0, 0)];
	let mut runs = 0;
	while let Some((script, start, ref_used, fault_used)) = stack.pop() {
		if runs >= b.max_runs {
			break;
		}
		let mut c = base.clone();
		c.script = script.clone();
		c.id = format!("{}.{}", base.id, runs);
		let r = run_case(&c);
		runs += 1;
		// children, pushed in reverse so that earlier positions are explored first
		let mut kids = Vec::new();
		for (j, rec) in r.raws.iter().enumerate().skip(start) {
			if rec.scripted {
				continue;
			}
			if fault_used < b.faults {
				let mut s = script.clone();
				s.push(Decision { x: rec.x, kind: rec.kind, occ: rec.occ, ans: Ans::Panic });
				kids.push((s, j + 1, ref_used, fault_used + 1));
			}
			if ref_used < b.refusals && rec.kind.is_try() && rec.granted {
				let mut s = script.clone();
				s.push(Decision { x: rec.x, kind: rec.kind, occ: rec.occ, ans: Ans::No });
				kids.push((s, j + 1, ref_used + 1, fault_used));
			}
		}
		sink(&c, &r);
		kids.reverse();
		stack.extend(kids);
	}
	runs
}

pub fn permutations(n: usize) -> Vec<Vec<usize>> {
	fn go(cur: &mut Vec<usize>, used: &mut Vec<bool>, n: usize, out: &mut Vec<Vec<usize>>) {
		if cur.len() == n {
			out.push(cur.clone());
			return;
		}
		for i in 0..n {
			if !used[i] {
				used[i] = true;
				cur.push(i);
				go(cur, used, n, out);
				cur.pop();
				used[i] = false;
			}
		}
	}
	let mut out = Vec::new();
	go(&mut Vec::new(), &mut vec![false; n], n, &mut out);
	out
}

fn leaf(rw: bool, i: usize) -> Expr {
	if rw {
		Expr::R(i)
	} else {
		Expr::M(i)
	}
}
fn v(es: Vec<Expr>) -> Expr {
	Expr::V(es)
}
fn bx(e: Expr) -> Box<Expr> {
	Box::new(e)
}

/// A menu of collection tables over leaves `0..n`; the last collection is the one sessions use.
/// `kinds[i]` = leaf i is an RwLock. Owned collections live at odd slots, leaves at even ones.
pub fn shape_menu(n: usize, kinds: &[bool], depth: usize) -> Vec<(String, Vec<Expr>)> {
	let l = |i: usize| leaf(kinds[i], i);
	let all = || (0..n).map(l).collect::<Vec<_>>();
	let from = |k: usize| (k..n).map(l).collect::<Vec<_>>();
	let mut out: Vec<(String, Vec<Expr>)> = Vec::new();
	let hi = 2 * n + 1; // an odd slot above every leaf
	if n == 1 {
		out.push(("leaf".into(), vec![l(0)]));
		out.push(("P(leaf)".into(), vec![Expr::P(0, bx(l(0)))]));
		if depth >= 1 {
			// a Poisonable directly inside a Poisonable: the guard route poisons both, scoped_* only the outer one (D5)
			out.push(("P(P(leaf))".into(), vec![Expr::P(0, bx(Expr::P(1, bx(l(0)))))]));
		}
	}
	out.push(("B".into(), vec![Expr::B(bx(v(all())))]));
	out.push(("F".into(), vec![Expr::F(bx(v(all())))]));
	out.push(("T".into(), vec![Expr::T(bx(v(all())))]));
	out.push(("O".into(), vec![Expr::O(1, bx(v(all())))]));
	if depth >= 1 {
		out.push(("P(B)".into(), vec![Expr::P(0, bx(Expr::B(bx(v(all())))))]));
		out.push(("P(T)".into(), vec![Expr::P(0, bx(Expr::T(bx(v(all())))))]));
		out.push(("P(O)".into(), vec![Expr::P(0, bx(Expr::O(1, bx(v(all())))))]));
		for (name, mk) in [
			("B[P,..]", Expr::B as fn(Box<Expr>) -> Expr),
			("T[P,..]", Expr::T as fn(Box<Expr>) -> Expr),
			("F[P,..]", Expr::F as fn(Box<Expr>) -> Expr),
		] {
			let mut es = vec![Expr::P(0, bx(l(0)))];
			es.extend(from(1));
			out.push((name.into(), vec![mk(bx(v(es)))]));
		}
		{
			let mut es = vec![Expr::P(0, bx(l(0)))];
			es.extend(from(1));
			out.push(("O[P,..]".into(), vec![Expr::O(hi, bx(v(es.clone())))]));
			// a Poisonable around a collection that contains a Poisonable
			let mut es1 = vec![Expr::P(1, bx(l(0)))];
			es1.extend(from(1));
			out.push(("P(O[P,..])".into(), vec![Expr::P(0, bx(Expr::O(hi, bx(v(es1)))))]));
		}
	}
	if depth >= 1 && n >= 2 {
		// a retrying collection inside a sorting one contributes its leaves, and vice versa
		out.push(("B[l,T[..]]".into(), vec![Expr::B(bx(v(vec![l(0), Expr::T(bx(v(from(1))))])))]));
		out.push(("T[l,B[..]]".into(), vec![Expr::T(bx(v(vec![l(0), Expr::B(bx(v(from(1))))])))]));
		out.push(("F[l,T[..]]".into(), vec![Expr::F(bx(v(vec![l(0), Expr::T(bx(v(from(1))))])))]));
		// owned groups are units: address below / above the remaining leaves
		for (nm, a) in [("lo", 1usize), ("hi", hi)] {
			let mut es = vec![Expr::O(a, bx(v(vec![l(0)])))];
			es.extend(from(1));
			out.push((format!("B[O{nm}[l],..]"), vec![Expr::B(bx(v(es.clone())))]));
			out.push((format!("T[O{nm}[l],..]"), vec![Expr::T(bx(v(es)))]));
		}
		{
			let mut es = vec![Expr::O(hi + 2, bx(v(vec![l(0)])))];
			es.extend(from(1));
			out.push(("O[O[l],..]".into(), vec![Expr::O(1, bx(v(es)))]));
		}
		// an owned group of two leaves as a member of a retrying collection: the group is one lock for
		// the retrying algorithm and is taken in order, blocking (finding D17 when its second leaf is busy)
		if n >= 3 {
		out.push((
			"T[O[l,l],..]".into(),
			vec![Expr::T(bx(v({
				let mut es = vec![Expr::O(3, bx(v(vec![l(0), l(1)])))];
				es.extend(from(2));
				es
			})))],
		));
		}
		out.push(("B[V[..]]".into(), vec![Expr::B(bx(v(vec![v(vec![l(0)]), v(from(1))])))]));
		// a collection referenced from another one (by `&`)
		out.push((
			"c0=B;F[c0]".into(),
			vec![Expr::B(bx(v(vec![l(0)]))), Expr::F(bx(v({
				let mut es = vec![Expr::C(0)];
				es.extend(from(1));
				es
			})))],
		));
		out.push((
			"c0=T;B[c0]".into(),
			vec![Expr::T(bx(v(from(1)))), Expr::B(bx(v(vec![l(0), Expr::C(0)])))],
		));
	}
	if depth >= 2 && n >= 3 {
		out.push((
			"O[T[l,l],..]".into(),
			vec![Expr::O(1, bx(v({
				let mut es = vec![Expr::T(bx(v(vec![l(0), l(1)])))];
				es.extend(from(2));
				es
			})))],
		));
		out.push((
			"B[O[l,l],..]".into(),
			vec![Expr::B(bx(v({
				let mut es = vec![Expr::O(3, bx(v(vec![l(0), l(1)])))];
				es.extend(from(2));
				es
			})))],
		));
		out.push((
			"T[B[l,l],P(T[..])]".into(),
			vec![Expr::T(bx(v(vec![
				Expr::B(bx(v(vec![l(0), l(1)]))),
				Expr::P(0, bx(Expr::T(bx(v(from(2)))))),
			])))],
		));
		out.push((
			"B[O[O[l],l],..]".into(),
			vec![Expr::B(bx(v({
				let mut es = vec![Expr::O(3, bx(v(vec![Expr::O(hi + 2, bx(v(vec![l(0)]))), l(1)])))];
				es.extend(from(2));
				es
			})))],
		));
	}
	out
}

pub fn held_patterns(n: usize, kinds: &[bool], all: bool) -> Vec<Vec<u8>> {
	let mut out = vec![vec![b'F'; n]];
	if all {
		let mut cur = vec![Vec::new()];
		for i in 0..n {
			let mut nxt = Vec::new();
			for c in &cur {
				for h in [b'F', b'W', b'R'] {
					if h == b'R' && !kinds[i] {
						continue;
					}
					let mut c2: Vec<u8> = c.clone();
					c2.push(h);
					nxt.push(c2);
				}
			}
			cur = nxt;
		}
		out = cur;
	} else {
		for i in 0..n {
			for h in [b'W', b'R'] {
				if h == b'R' && !kinds[i] {
					continue;
				}
				let mut p = vec![b'F'; n];
				p[i] = h;
				out.push(p);
			}
		}
	}
	out
}

pub struct Stats {
	pub evaluations: usize,
	pub distinct: std::collections::HashSet<String>,
	pub nontrivial: usize,
	pub dist: BTreeMap<String, usize>,
	pub samples: Vec<String>,
}
impl Stats {
	pub fn new() -> Self {
		Stats {
			evaluations: 0,
			distinct: Default::default(),
			nontrivial: 0,
			dist: BTreeMap::new(),
			samples: Vec::new(),
		}
	}
	pub fn bump(&mut self, k: &str) {
		*self.dist.entry(k.to_string()).or_insert(0) += 1;
	}
	/// non-trivial: the transcript contains a refused try, a fault, a panic outcome, an
	/// environment release, or raw operations on >= 2 different locks
	pub fn record(&mut self, case: &Case, tr: &str) {
		self.evaluations += 1;
		let body = tr.splitn(2, ';').nth(1).unwrap_or("");
		let key = format!("{}|{}", case.text().splitn(2, ';').nth(1).unwrap_or(""), "");
		let toks: Vec<&str> = body.split(';').next().unwrap_or("").split(' ').collect();
		let refused = toks.iter().any(|t| t.ends_with('-') && (t.starts_with("TX") || t.starts_with("TS")));
		let fault = toks.iter().any(|t| t.ends_with('!'));
		let panic = toks.iter().any(|t| *t == "m13");
		let envrel = toks.iter().any(|t| t.starts_with('E'));
		let mut locks = std::collections::HashSet::new();
		for t in &toks {
			if t.len() > 2 && (t.starts_with('L') || t.starts_with('T') || t.starts_with('U')) {
				let d: String = t[2..].chars().take_while(|c| c.is_ascii_digit()).collect();
				locks.insert(d);
			}
		}
		let nt = refused || fault || panic || envrel || locks.len() >= 2;
		if self.distinct.insert(key) && nt {
			self.nontrivial += 1;
		}
		if refused {
			self.bump("with_refused_try")
		}
		if fault {
			self.bump("with_fault")
		}
		if panic {
			self.bump("with_panic_outcome")
		}
		if envrel {
			self.bump("with_env_release")
		}
		if toks.iter().any(|t| *t == "m12") {
			self.bump("with_poisoned_result")
		}
		if toks.iter().any(|t| *t == "m11") {
			self.bump("with_wouldblock")
		}
		if body.contains(";abort;") {
			self.bump("terminal_abort")
		}
		if body.contains(";selfdeadlock;") {
			self.bump("terminal_selfdeadlock")
		}
		self.bump(&format!("locks_touched_{}", locks.len().min(6)));
		if self.samples.len() < 5 && nt && (self.evaluations % 97 == 1 || self.samples.is_empty()) {
			self.samples.push(format!("{} => {}", case.text(), tr));
		}
	}
}

pub fn session(coll: usize, api: Api, write: bool, owned_key: bool, body: Vec<Step>, exit: Exit) -> Stmt {
	Stmt::Ses(Session { coll, api, write, owned_key, body, exit })
}
