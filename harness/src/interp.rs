//! Statement interpreter: runs a case's client program against the real happylock API and
//! produces the canonical transcript (same format as `HLV.Model.Parse.Case.run`).

use std::panic::{catch_unwind, AssertUnwindSafe};

use happylock::collection::LockGuard;
use happylock::lockable::RawLock;
use happylock::mutex::MutexGuard;
use happylock::poisonable::{PoisonGuard, PoisonResult, TryLockPoisonableError};
use happylock::rwlock::{RwLockReadGuard, RwLockWriteGuard};
use happylock::{Keyable, ThreadKey};

use crate::case::{Api, Built, Case, Exit, Expr, Session, Step, Stmt};
use crate::shapes::{Node, NodeData, NodeGuard, NodeRData, NodeRGuard};
use crate::vraw::{self, log, mark, Ctrl, HarnessStop, LockSt, UserPanic, VMutex, VRw, Val, CTRL};

pub fn decl_leaves(e: &Expr, colls: &[Expr], out: &mut Vec<usize>) {
	match e {
		Expr::M(i) | Expr::R(i) => out.push(*i),
		Expr::V(v) => v.iter().for_each(|e| decl_leaves(e, colls, out)),
		Expr::P(_, e)
		| Expr::B(e)
		| Expr::F(e)
		| Expr::T(e)
		| Expr::Bn(_, e)
		| Expr::Fn(e)
		| Expr::Tn(_, e)
		| Expr::O(_, e) => decl_leaves(e, colls, out),
		Expr::C(j) => decl_leaves(&colls[*j], colls, out),
	}
}

pub fn max_poison(e: &Expr, colls: &[Expr]) -> usize {
	match e {
		Expr::M(_) | Expr::R(_) => 0,
		Expr::V(v) => v.iter().map(|e| max_poison(e, colls)).max().unwrap_or(0),
		Expr::P(p, e) => (p + 1).max(max_poison(e, colls)),
		Expr::B(e) | Expr::F(e) | Expr::T(e) | Expr::Bn(_, e) | Expr::Fn(e) | Expr::Tn(_, e) | Expr::O(_, e) => {
			max_poison(e, colls)
		}
		Expr::C(j) => max_poison(&colls[*j], colls),
	}
}

enum AnyGuard<'g> {
	Mx(MutexGuard<'g, Val, VMutex>),
	Rw(RwLockWriteGuard<'g, Val, VRw>),
	Rr(RwLockReadGuard<'g, Val, VRw>),
	C(LockGuard<NodeGuard<'g>>),
	Cr(LockGuard<NodeRGuard<'g>>),
	P(PoisonGuard<'g, NodeGuard<'g>>),
	Pr(PoisonGuard<'g, NodeRGuard<'g>>),
}

trait Access {
	fn write(&mut self, pos: usize, v: u64) -> bool;
	fn read(&self, pos: usize) -> Option<u64>;
}

impl Access for AnyGuard<'_> {
	fn write(&mut self, pos: usize, v: u64) -> bool {
		let mut out = Vec::new();
		match self {
			AnyGuard::Mx(g) => out.push(&mut (**g).0),
			AnyGuard::Rw(g) => out.push(&mut (**g).0),
			AnyGuard::C(g) => g.leaves(&mut out),
			AnyGuard::P(g) => g.as_mut().leaves(&mut out),
			_ => return false,
		}
		match out.get_mut(pos) {
			Some(r) => {
				**r = v;
				true
			}
			None => false,
		}
	}
	fn read(&self, pos: usize) -> Option<u64> {
		match self {
			AnyGuard::Mx(g) => (pos == 0).then(|| (**g).0),
			AnyGuard::Rw(g) => (pos == 0).then(|| (**g).0),
			AnyGuard::Rr(g) => (pos == 0).then(|| (**g).0),
			AnyGuard::Cr(g) => {
				let mut out = Vec::new();
				g.leaves(&mut out);
				out.get(pos).map(|r| **r)
			}
			AnyGuard::Pr(g) => {
				let mut out = Vec::new();
				g.as_ref().leaves(&mut out);
				out.get(pos).map(|r| **r)
			}
			// reading through an exclusive collection guard needs `&mut` for the traversal helper;
			// handled by `read_mut`
			AnyGuard::C(_) | AnyGuard::P(_) => None,
		}
	}
}
impl AnyGuard<'_> {
	fn read_any(&mut self, pos: usize) -> Option<u64> {
		match self {
			AnyGuard::C(g) => {
				let mut out = Vec::new();
				g.leaves(&mut out);
				out.get(pos).map(|r| **r)
			}
			AnyGuard::P(g) => {
				let mut out = Vec::new();
				g.as_mut().leaves(&mut out);
				out.get(pos).map(|r| **r)
			}
			_ => self.read(pos),
		}
	}
	fn nested_poisoned(&self) -> bool {
		match self {
			AnyGuard::C(g) => g.poisoned(),
			AnyGuard::Cr(g) => g.poisoned(),
			AnyGuard::P(g) => g.as_ref().poisoned(),
			AnyGuard::Pr(g) => g.as_ref().poisoned(),
			_ => false,
		}
	}
}

enum AnyData<'a> {
	L(&'a mut u64),
	Lr(&'a u64),
	N(NodeData<'a>),
	Nr(NodeRData<'a>),
}
impl AnyData<'_> {
	fn write(&mut self, pos: usize, v: u64) -> bool {
		let mut out = Vec::new();
		match self {
			AnyData::L(d) => out.push(&mut **d),
			AnyData::N(d) => d.leaves(&mut out),
			_ => return false,
		}
		match out.get_mut(pos) {
			Some(r) => {
				**r = v;
				true
			}
			None => false,
		}
	}
	fn read_any(&mut self, pos: usize) -> Option<u64> {
		match self {
			AnyData::L(d) => (pos == 0).then(|| **d),
			AnyData::Lr(d) => (pos == 0).then(|| **d),
			AnyData::N(d) => {
				let mut out = Vec::new();
				d.leaves(&mut out);
				out.get(pos).map(|r| **r)
			}
			AnyData::Nr(d) => {
				let mut out = Vec::new();
				d.leaves(&mut out);
				out.get(pos).map(|r| **r)
			}
		}
	}
}

pub struct Runner<'c> {
	pub case: &'c Case,
	pub built: Built,
	pub keys: Vec<ThreadKey>,
	pub leaves: Vec<Vec<usize>>,
}

fn split_poison<G>(r: PoisonResult<G>) -> (G, bool) {
	match r {
		Ok(g) => (g, false),
		Err(e) => (e.into_inner(), true),
	}
}
fn split_try<'f, G>(
	r: Result<PoisonGuard<'f, G>, TryLockPoisonableError<'f, G>>,
) -> Result<(PoisonGuard<'f, G>, bool), ThreadKey> {
	match r {
		Ok(g) => Ok((g, false)),
		Err(TryLockPoisonableError::Poisoned(e)) => Ok((e.into_inner(), true)),
		Err(TryLockPoisonableError::WouldBlock(k)) => Err(k),
	}
}

macro_rules! coll_acquire {
	($c:expr, $try_:expr, $write:expr, $key:expr) => {
		match ($try_, $write) {
			(false, true) => Ok((AnyGuard::C($c.lock($key)), false)),
			(false, false) => Ok((AnyGuard::Cr($c.read($key)), false)),
			(true, true) => $c.try_lock($key).map(|g| (AnyGuard::C(g), false)),
			(true, false) => $c.try_read($key).map(|g| (AnyGuard::Cr(g), false)),
		}
	};
}

fn acquire<'a>(
	node: &'a Node,
	try_: bool,
	write: bool,
	key: ThreadKey,
) -> Result<(AnyGuard<'a>, bool), ThreadKey> {
	match node {
		Node::M(m) => {
			if try_ {
				m.try_lock(key).map(|g| (AnyGuard::Mx(g), false))
			} else {
				Ok((AnyGuard::Mx(m.lock(key)), false))
			}
		}
		Node::R(r) => match (try_, write) {
			(false, true) => Ok((AnyGuard::Rw(r.write(key)), false)),
			(false, false) => Ok((AnyGuard::Rr(r.read(key)), false)),
			(true, true) => r.try_write(key).map(|g| (AnyGuard::Rw(g), false)),
			(true, false) => r.try_read(key).map(|g| (AnyGuard::Rr(g), false)),
		},
		Node::P(p) => match (try_, write) {
			(false, true) => {
				let (g, po) = split_poison(p.lock(key));
				Ok((AnyGuard::P(g), po))
			}
			(false, false) => {
				let (g, po) = split_poison(p.read(key));
				Ok((AnyGuard::Pr(g), po))
			}
			(true, true) => split_try(p.try_lock(key)).map(|(g, po)| (AnyGuard::P(g), po)),
			(true, false) => split_try(p.try_read(key)).map(|(g, po)| (AnyGuard::Pr(g), po)),
		},
		Node::B(c) => coll_acquire!(c, try_, write, key),
		Node::F(c) => coll_acquire!(c, try_, write, key),
		Node::T(c) => coll_acquire!(c, try_, write, key),
		Node::O(c) => coll_acquire!(c, try_, write, key),
		Node::Bref(c) => coll_acquire!(c, try_, write, key),
		Node::Tref(c) => coll_acquire!(c, try_, write, key),
		Node::V(_) => panic!("sessions on bare containers are not generated"),
	}
}

fn unlock_any(g: AnyGuard<'_>, node: &Node) -> ThreadKey {
	use happylock::collection::{
		BoxedLockCollection as B, OwnedLockCollection as O, RefLockCollection as F,
		RetryingLockCollection as T,
	};
	use happylock::mutex::Mutex;
	use happylock::poisonable::Poisonable;
	use happylock::rwlock::RwLock;
	match g {
		AnyGuard::Mx(g) => Mutex::unlock(g),
		AnyGuard::Rw(g) => RwLock::unlock_write(g),
		AnyGuard::Rr(g) => RwLock::unlock_read(g),
		AnyGuard::C(g) => match node {
			Node::B(_) => B::<Node>::unlock(g),
			Node::F(_) => F::<Node>::unlock(g),
			Node::T(_) => T::<Node>::unlock(g),
			Node::Bref(_) => B::<&Node>::unlock(g),
			Node::Tref(_) => T::<&Node>::unlock(g),
			_ => O::<Node>::unlock(g),
		},
		AnyGuard::Cr(g) => match node {
			Node::B(_) => B::<Node>::unlock_read(g),
			Node::F(_) => F::<Node>::unlock_read(g),
			Node::T(_) => T::<Node>::unlock_read(g),
			Node::Bref(_) => B::<&Node>::unlock_read(g),
			Node::Tref(_) => T::<&Node>::unlock_read(g),
			_ => O::<Node>::unlock_read(g),
		},
		AnyGuard::P(g) => Poisonable::<Node>::unlock(g),
		AnyGuard::Pr(g) => Poisonable::<Node>::unlock_read(g),
	}
}

macro_rules! coll_scoped {
	($c:expr, $try_:expr, $write:expr, $key:expr, $f:expr) => {
		match ($try_, $write) {
			(false, true) => {
				$c.scoped_lock($key, |d| $f(AnyData::N(d), false));
				Ok(())
			}
			(false, false) => {
				$c.scoped_read($key, |d| $f(AnyData::Nr(d), false));
				Ok(())
			}
			(true, true) => $c.scoped_try_lock($key, |d| $f(AnyData::N(d), false)),
			(true, false) => $c.scoped_try_read($key, |d| $f(AnyData::Nr(d), false)),
		}
	};
}

/// Runs a scoped API; `Err(key)` = would block.
fn scoped<'a, K: Keyable>(
	node: &'a Node,
	try_: bool,
	write: bool,
	key: K,
	f: &(dyn Fn(AnyData<'_>, bool) + 'a),
) -> Result<(), K> {
	match node {
		Node::M(m) => {
			if try_ {
				m.scoped_try_lock(key, |d| f(AnyData::L(&mut d.0), false))
			} else {
				m.scoped_lock(key, |d| f(AnyData::L(&mut d.0), false));
				Ok(())
			}
		}
		Node::R(r) => match (try_, write) {
			(false, true) => {
				r.scoped_write(key, |d| f(AnyData::L(&mut d.0), false));
				Ok(())
			}
			(false, false) => {
				r.scoped_read(key, |d| f(AnyData::Lr(&d.0), false));
				Ok(())
			}
			(true, true) => r.scoped_try_write(key, |d| f(AnyData::L(&mut d.0), false)),
			(true, false) => r.scoped_try_read(key, |d| f(AnyData::Lr(&d.0), false)),
		},
		Node::P(p) => match (try_, write) {
			(false, true) => {
				p.scoped_lock(key, |d| {
					let (d, po) = split_poison(d);
					f(AnyData::N(d), po)
				});
				Ok(())
			}
			(false, false) => {
				p.scoped_read(key, |d| {
					let (d, po) = split_poison(d);
					f(AnyData::Nr(d), po)
				});
				Ok(())
			}
			(true, true) => p.scoped_try_lock(key, |d| {
				let (d, po) = split_poison(d);
				f(AnyData::N(d), po)
			}),
			(true, false) => p.scoped_try_read(key, |d| {
				let (d, po) = split_poison(d);
				f(AnyData::Nr(d), po)
			}),
		},
		Node::B(c) => coll_scoped!(c, try_, write, key, f),
		Node::F(c) => coll_scoped!(c, try_, write, key, f),
		Node::T(c) => coll_scoped!(c, try_, write, key, f),
		Node::O(c) => coll_scoped!(c, try_, write, key, f),
		Node::Bref(c) => coll_scoped!(c, try_, write, key, f),
		Node::Tref(c) => coll_scoped!(c, try_, write, key, f),
		Node::V(_) => panic!("sessions on bare containers are not generated"),
	}
}

fn is_stop(e: &(dyn std::any::Any + Send)) -> bool {
	e.is::<HarnessStop>()
}

impl<'c> Runner<'c> {
	fn fmt_dbg(&self, c: usize, bomb: Option<usize>) {
		mark(3);
		vraw::set_bomb(bomb);
		let r = catch_unwind(AssertUnwindSafe(|| {
			let _ = format!("{:?}", self.built.colls[c]);
		}));
		vraw::set_bomb(None);
		// a formatting error surfaces as a panic of `format!` itself (user-level panic)
		// (unless what unwinds is a raw-lock fault raised while the transient hold was released)
		if vraw::take_err_fired() {
			if let Err(e) = &r {
				if !e.is::<vraw::FaultPanic>() && !is_stop(&**e) {
					mark(7);
				}
			}
		}
		mark(4);
		if let Err(e) = r {
			std::panic::resume_unwind(e)
		}
	}

	fn top_poisonable(&self, c: usize) -> Option<&'static happylock::poisonable::Poisonable<Node>> {
		match &self.built.colls[c] {
			Node::P(p) => Some(p),
			_ => None,
		}
	}

	/// body steps shared by guard and scoped sessions; `wr`/`rd` access the held data
	fn body(
		&self,
		ses: &Session,
		wr: &mut dyn FnMut(usize, u64) -> bool,
		rd: &mut dyn FnMut(usize) -> Option<u64>,
	) {
		let lv = &self.leaves[ses.coll];
		for st in &ses.body {
			match st {
				Step::Write(pos, v) => {
					let x = lv.get(*pos).copied().unwrap_or(0);
					let bad = !vraw::holds_for_access(x, true);
					if wr(*pos, *v) {
						log(format!("w{x}={v}{}", if bad { "?" } else { "" }));
					}
				}
				Step::Read(pos) => {
					let x = lv.get(*pos).copied().unwrap_or(0);
					let bad = !vraw::holds_for_access(x, false);
					if let Some(v) = rd(*pos) {
						log(format!("r{x}={v}{}", if bad { "?" } else { "" }));
					}
				}
				Step::Dbg(c, b) => self.fmt_dbg(*c, *b),
				Step::GetKey => match ThreadKey::get() {
					Some(k) => {
						mark(20);
						drop(k)
					}
					None => mark(21),
				},
				Step::IsPoisoned(c) => {
					if let Some(p) = self.top_poisonable(*c) {
						mark(if p.is_poisoned() { 22 } else { 23 })
					}
				}
				Step::ClearPoison(c) => {
					if let Some(p) = self.top_poisonable(*c) {
						p.clear_poison();
						vraw::sample_poison();
					}
				}
			}
		}
	}

	fn session(&mut self, ses: &Session) -> Result<(), ()> {
		if self.keys.is_empty() {
			mark(14);
			return Ok(());
		}
		let try_ = matches!(ses.api, Api::Try | Api::ScopedTry);
		match ses.api {
			Api::Lock | Api::Try => {
				let key = self.keys.pop().unwrap();
				let acquired = std::cell::Cell::new(false);
				let this = &*self;
				let node = &this.built.colls[ses.coll];
				// Ok(Some(key)) = key handed back to the program; Ok(None) = key consumed
				let r = catch_unwind(AssertUnwindSafe(|| -> (u32, Option<ThreadKey>) {
					mark(if try_ { 2 } else { 1 });
					let (mut g, top_poisoned) = match acquire(node, try_, ses.write, key) {
						Ok(x) => x,
						Err(key) => {
							acquired.set(true);
							mark(4);
							mark(5);
							return (11, Some(key));
						}
					};
					acquired.set(true);
					mark(4);
					let out = if top_poisoned || g.nested_poisoned() { 12 } else { 10 };
					{
						let gp: *mut AnyGuard<'_> = &mut g;
						// two closures over the same guard, used strictly one at a time
						let mut wr = |pos: usize, v: u64| unsafe { (*gp).write(pos, v) };
						let mut rd = |pos: usize| unsafe { (*gp).read_any(pos) };
						this.body(ses, &mut wr, &mut rd);
					}
					match ses.exit {
						Exit::Forget => {
							std::mem::forget(g);
							(out, None)
						}
						Exit::Panic => {
							mark(7);
							std::panic::panic_any(UserPanic)
						}
						Exit::Unlock => {
							let k = unlock_any(g, node);
							mark(5);
							(out, Some(k))
						}
						_ => {
							drop(g);
							mark(5);
							(out, None)
						}
					}
				}));
				match r {
					Ok((out, k)) => {
						if let Some(k) = k {
							self.keys.push(k)
						}
						mark(out);
					}
					Err(e) => {
						if is_stop(&*e) {
							return Err(());
						}
						if !acquired.get() {
							mark(4);
						}
						mark(5);
						mark(13);
					}
				}
				Ok(())
			}
			Api::Scoped | Api::ScopedTry => {
				let owned = ses.owned_key;
				let key_owned = if owned { self.keys.pop() } else { None };
				let this = &*self;
				let node = &this.built.colls[ses.coll];
				let out = std::cell::Cell::new(10u32);
				let f = |mut d: AnyData<'_>, top_poisoned: bool| {
					let nested = match &d {
						AnyData::N(n) => n.poisoned(),
						AnyData::Nr(n) => n.poisoned(),
						_ => false,
					};
					if top_poisoned || nested {
						out.set(12)
					}
					mark(6);
					let dp: *mut AnyData<'_> = &mut d;
					let mut wr = |pos: usize, v: u64| unsafe { (*dp).write(pos, v) };
					let mut rd = |pos: usize| unsafe { (*dp).read_any(pos) };
					this.body(ses, &mut wr, &mut rd);
					if ses.exit == Exit::Panic {
						mark(7);
						std::panic::panic_any(UserPanic)
					}
				};
				let mut back: Option<ThreadKey> = None;
				let lent: Option<*mut ThreadKey> =
					if owned { None } else { Some(self.keys.last().unwrap() as *const _ as *mut ThreadKey) };
				let r = catch_unwind(AssertUnwindSafe(|| -> Result<(), Option<ThreadKey>> {
					mark(if try_ { 2 } else { 1 });
					if owned {
						scoped(node, try_, ses.write, key_owned.unwrap(), &f).map_err(Some)
					} else {
						// safety: the program does not touch its key vector during the call
						let k: &mut ThreadKey = unsafe { &mut *lent.unwrap() };
						scoped(node, try_, ses.write, k, &f).map_err(|_| None)
					}
				}));
				let res = match r {
					Ok(Ok(())) => out.get(),
					Ok(Err(k)) => {
						back = k;
						11
					}
					Err(e) => {
						if is_stop(&*e) {
							return Err(());
						}
						13
					}
				};
				if let Some(k) = back {
					self.keys.push(k)
				}
				mark(4);
				mark(5);
				mark(res);
				Ok(())
			}
		}
	}

	pub fn run_stmt(&mut self, s: &Stmt) -> Result<(), ()> {
		self.stmt(s)
	}

	fn stmt(&mut self, s: &Stmt) -> Result<(), ()> {
		match s {
			Stmt::Ses(ses) => return self.session(ses),
			Stmt::Get => match ThreadKey::get() {
				Some(k) => {
					self.keys.push(k);
					mark(10)
				}
				None => mark(11),
			},
			Stmt::DropKey => match self.keys.pop() {
				Some(k) => {
					drop(k);
					mark(10)
				}
				None => mark(14),
			},
			Stmt::ForgetKey => match self.keys.pop() {
				Some(k) => {
					std::mem::forget(k);
					mark(10)
				}
				None => mark(14),
			},
			Stmt::Dbg(c, b) => {
				let r = catch_unwind(AssertUnwindSafe(|| self.fmt_dbg(*c, *b)));
				match r {
					Ok(()) => mark(10),
					Err(e) => {
						if is_stop(&*e) {
							return Err(());
						}
						mark(13)
					}
				}
			}
			Stmt::IsPoisoned(c) => match self.top_poisonable(*c) {
				Some(p) => mark(if p.is_poisoned() { 12 } else { 10 }),
				None => mark(14),
			},
			Stmt::TryNew(kind, e) => {
				use happylock::collection::{BoxedLockCollection, RefLockCollection, RetryingLockCollection};
				let inner = self.case.build_expr(e, &mut self.built);
				let accepted = match kind {
					b'B' => BoxedLockCollection::try_new(inner).is_some(),
					b'F' => {
						let r: &'static Node = crate::case::leak(inner);
						RefLockCollection::try_new(r).is_some()
					}
					_ => RetryingLockCollection::try_new(inner).is_some(),
				};
				mark(if accepted { 10 } else { 11 })
			}
			Stmt::ClearPoison(c) => match self.top_poisonable(*c) {
				Some(p) => {
					p.clear_poison();
					vraw::sample_poison();
					mark(10)
				}
				None => mark(14),
			},
		}
		Ok(())
	}
}

pub struct RunResult {
	pub transcript: String,
	pub raws: Vec<vraw::RawRec>,
	pub unknown_addr: usize,
}

/// Runs one case on the current thread (which must be fresh: the key flag is thread-local).
pub fn run_case_here(case: &Case) -> RunResult {
	let built = case.build();
	let mut ctrl = Ctrl::default();
	for (x, slot) in case.addr.iter().enumerate() {
		let s = &built.slots[*slot];
		let (a, l) = (&s.m as *const _ as usize, std::mem::size_of_val(&s.m));
		ctrl.ranges.push((a, a + l, x));
		let (a, l) = (&s.r as *const _ as usize, std::mem::size_of_val(&s.r));
		ctrl.ranges.push((a, a + l, x));
	}
	ctrl.table = (0..case.n)
		.map(|x| match case.held.get(x) {
			Some(b'W') => LockSt { writer: Some(vraw::OTHER), readers: vec![] },
			Some(b'R') => LockSt { writer: None, readers: vec![vraw::OTHER] },
			_ => LockSt::default(),
		})
		.collect();
	ctrl.script = case.script.clone();
	ctrl.probe_seen = vec![false; case.n];
	CTRL.with(|c| *c.borrow_mut() = ctrl);

	let leaves = case
		.colls
		.iter()
		.map(|e| {
			let mut v = Vec::new();
			decl_leaves(e, &case.colls, &mut v);
			v
		})
		.collect();
	let np = case.colls.iter().map(|e| max_poison(e, &case.colls)).max().unwrap_or(0);
	{
		let ps: Vec<(usize, &'static happylock::poisonable::Poisonable<Node>)> = built.poisonables.clone();
		vraw::POISON_PROBE.with(|p| {
			*p.borrow_mut() = Some(Box::new(move || {
				(0..np).map(|i| ps.iter().find(|(q, _)| *q == i).map(|(_, o)| o.is_poisoned()).unwrap_or(false)).collect()
			}))
		});
		CTRL.with(|c| c.borrow_mut().seen_poison = vec![false; np]);
	}
	let mut runner = Runner { case, built, keys: Vec::new(), leaves };
	let outer = case.held.last() == Some(&b'!');
	CTRL.with(|c| c.borrow_mut().outer = outer);
	fn run_all(runner: &mut Runner<'_>, case: &Case) {
		for s in &case.prog {
			if runner.stmt(s).is_err() {
				break;
			}
			if CTRL.with(|c| c.borrow().dead.is_some()) {
				break;
			}
		}
	}
	if outer {
		// the whole program runs inside a destructor while this thread unwinds from an unrelated
		// panic (`thread::panicking()` is true throughout); inner panics are caught per statement
		struct RunOnDrop<'a, 'c>(&'a mut Runner<'c>, &'a Case);
		impl Drop for RunOnDrop<'_, '_> {
			fn drop(&mut self) {
				run_all(self.0, self.1)
			}
		}
		struct OuterPanic;
		let _ = catch_unwind(AssertUnwindSafe(|| {
			let _d = RunOnDrop(&mut runner, case);
			std::panic::panic_any(OuterPanic);
		}));
	} else {
		run_all(&mut runner, case);
	}
	let dead = CTRL.with(|c| c.borrow().dead);
	let (trace, raws, unknown_addr) = CTRL.with(|c| {
		let c = c.borrow();
		(c.trace.join(" "), c.raws.clone(), c.unknown_addr)
	});
	let transcript = match dead {
		Some(why) => {
			// the remaining keys/guards of an aborted case are leaked, never dropped
			std::mem::forget(std::mem::take(&mut runner.keys));
			format!("{};{};{};-", case.id, trace, why)
		}
		None => {
			// killed probes: a `try` that does not reach the raw lock means the lock was killed
			let mut fin = Vec::new();
			for x in 0..case.n {
				let st = CTRL.with(|c| c.borrow().table[x].text());
				let mut killed = false;
				if let Some(slot) = case.addr.get(x) {
					let s = &runner.built.slots[*slot];
					for which in 0..2 {
						CTRL.with(|c| {
							let mut c = c.borrow_mut();
							c.probe = true;
							c.probe_seen[x] = false;
						});
						unsafe {
							if which == 0 {
								RawLock::raw_try_write(&s.m);
							} else {
								RawLock::raw_try_write(&s.r);
							}
						}
						let seen = CTRL.with(|c| {
							let mut c = c.borrow_mut();
							c.probe = false;
							c.probe_seen[x]
						});
						if !seen {
							killed = true;
						}
					}
				}
				fin.push(format!("{st}{}", if killed { "k" } else { "" }));
			}
			let mut pois = String::new();
			for p in 0..np {
				let po = runner.built.poisonables.iter().find(|(q, _)| *q == p);
				pois.push(if po.map(|(_, o)| o.is_poisoned()).unwrap_or(false) { 'P' } else { '-' });
			}
			let keyflag = match ThreadKey::get() {
				Some(k) => {
					drop(k);
					'-'
				}
				None => 'K',
			};
			std::mem::forget(std::mem::take(&mut runner.keys));
			format!("{};{};done;{};{};{}", case.id, trace, fin.join(" "), pois, keyflag)
		}
	};
	RunResult { transcript, raws, unknown_addr }
}

/// Runs one case on a fresh thread.
pub fn run_case(case: &Case) -> RunResult {
	let c = case.clone();
	std::thread::Builder::new()
		.stack_size(1 << 20)
		.spawn(move || run_case_here(&c))
		.unwrap()
		.join()
		.expect("harness thread panicked")
}
