//! T2: several REAL threads run happylock programs over shared collections; a baton scheduler
//! serialises them at raw-lock operations (and at thread start), so that a run is a function
//! of its schedule, every schedule of a small program can be enumerated, and a state in which
//! every unfinished thread waits for a lock that the table does not grant is a *deadlock of the
//! real code* (thread-local keys, real unwinding, real collections; only the raw lock is ours).
//!
//! Raw-lock semantics = `HLV.Model.Env.step .readerPref`; the Lean driver replays the same
//! schedule on `Model/Conc` + `Model/Par` and must print the same transcript.

use std::sync::{Condvar, Mutex};

use crate::case::{Case, Stmt};
use crate::interp::{decl_leaves, Runner};
use crate::vraw::{Kind, LockSt};

#[derive(Clone, Copy, PartialEq, Eq, Debug)]
enum Pend {
	Start,
	Raw(Kind, usize),
}

#[derive(Default)]
struct State {
	ranges: Vec<(usize, usize, usize)>,
	table: Vec<LockSt>,
	pending: Vec<Option<Pend>>,
	done: Vec<bool>,
	turn: Option<usize>,
	trace: Vec<String>,
	dead: Option<&'static str>,
}

static ST: Mutex<Option<State>> = Mutex::new(None);
static CV: Condvar = Condvar::new();

fn with<R>(f: impl FnOnce(&mut State) -> R) -> R {
	let mut g = ST.lock().unwrap_or_else(|e| e.into_inner());
	f(g.as_mut().expect("T2 state"))
}

pub fn log(t: usize, s: String) {
	with(|st| {
		if st.dead.is_none() {
			st.trace.push(format!("{t}:{s}"))
		}
	})
}

pub fn lookup(addr: usize) -> Option<usize> {
	with(|st| st.ranges.iter().find(|r| r.0 <= addr && addr < r.1).map(|r| r.2))
}

pub fn holds_for_access(t: usize, x: usize, write: bool) -> bool {
	with(|st| {
		let l = &st.table[x];
		if write {
			l.writer == Some(t)
		} else {
			l.writer == Some(t) || l.readers.contains(&t)
		}
	})
}

fn enabled(st: &State, p: Pend) -> bool {
	match p {
		Pend::Start => true,
		Pend::Raw(k, x) => match k {
			Kind::LX => st.table[x].writer.is_none() && st.table[x].readers.is_empty(),
			Kind::LS => st.table[x].writer.is_none(),
			_ => true,
		},
	}
}

/// wait for the baton; returns false if the run was stopped (deadlock declared)
fn take_turn(t: usize, p: Pend) -> bool {
	let mut g = ST.lock().unwrap_or_else(|e| e.into_inner());
	{
		let st = g.as_mut().unwrap();
		if st.dead.is_some() {
			return false;
		}
		st.pending[t] = Some(p);
	}
	CV.notify_all();
	loop {
		let st = g.as_mut().unwrap();
		if st.dead.is_some() {
			return false;
		}
		if st.turn == Some(t) {
			return true;
		}
		g = CV.wait(g).unwrap_or_else(|e| e.into_inner());
	}
}

fn end_turn(t: usize) {
	with(|st| {
		st.pending[t] = None;
		st.turn = None;
	});
	CV.notify_all();
}

pub fn raw_op(t: usize, addr: usize, kind: Kind) -> bool {
	let Some(x) = lookup(addr) else { return true };
	if !take_turn(t, Pend::Raw(kind, x)) {
		if std::thread::panicking() {
			return true;
		}
		std::panic::panic_any(crate::vraw::HarnessStop);
	}
	let r = with(|st| {
		let excl = kind.is_excl();
		let l = &mut st.table[x];
		let grant = if excl { l.writer.is_none() && l.readers.is_empty() } else { l.writer.is_none() };
		match kind {
			Kind::LX | Kind::LS | Kind::TX | Kind::TS => {
				if grant {
					if excl {
						l.writer = Some(t)
					} else {
						l.readers.push(t)
					}
				}
				st.trace.push(format!("{t}:{}{}{}", kind.code(), x, if grant { "+" } else { "-" }));
				grant
			}
			Kind::UX | Kind::US => {
				let bad = if excl { l.writer != Some(t) } else { !l.readers.contains(&t) };
				if excl {
					l.writer = None
				} else if let Some(p) = l.readers.iter().position(|u| *u == t) {
					l.readers.remove(p);
				}
				st.trace.push(format!("{t}:{}{}+{}", kind.code(), x, if bad { "?" } else { "" }));
				true
			}
		}
	});
	end_turn(t);
	r
}

#[derive(Clone, Debug)]
pub struct T2Case {
	pub base: Case,
	pub progs: Vec<Vec<Stmt>>,
}

impl T2Case {
	pub fn text(&self, sched: &[usize]) -> String {
		let b = &self.base;
		format!(
			"{};N={};A={};C={};T={};X={}",
			b.id,
			b.n,
			b.addr.iter().map(|a| a.to_string()).collect::<Vec<_>>().join(","),
			b.colls.iter().map(|e| e.text()).collect::<Vec<_>>().join("|"),
			self.progs
				.iter()
				.map(|p| p.iter().map(|s| s.text()).collect::<Vec<_>>().join(" "))
				.collect::<Vec<_>>()
				.join(" || "),
			sched.iter().map(|t| t.to_string()).collect::<Vec<_>>().join(","),
		)
	}
	pub fn parse(line: &str) -> Option<(T2Case, Vec<usize>)> {
		let f: Vec<&str> = line.trim().split(';').collect();
		if f.len() != 6 {
			return None;
		}
		let t = f[4].strip_prefix("T=")?;
		let x = f[5].strip_prefix("X=")?;
		let fake = format!("{};{};{};{};H=;P=;S=", f[0], f[1], f[2], f[3]);
		let mut base = Case::parse(&fake)?;
		base.held = vec![b'F'; base.n];
		let progs = t
			.split("||")
			.map(|p| p.split_whitespace().map(Stmt::parse).collect::<Option<Vec<_>>>())
			.collect::<Option<Vec<_>>>()?;
		let sched = if x.is_empty() { vec![] } else { x.split(',').map(|v| v.parse().ok()).collect::<Option<Vec<_>>>()? };
		Some((T2Case { base, progs }, sched))
	}
}

pub struct T2Result {
	pub transcript: String,
	/// the granted thread at each scheduling step
	pub granted: Vec<usize>,
	/// (index chosen among the enabled threads, number of enabled threads) per step
	pub choices: Vec<(usize, usize)>,
	pub deadlock: bool,
}

/// How the scheduler picks: follow `prefix` (indices among the enabled threads, sorted by tid),
/// then always the first enabled thread — or, with `replay`, the literal thread ids.
pub enum Plan<'a> {
	Choices(&'a [usize]),
	Tids(&'a [usize]),
}

pub fn run_t2(case: &T2Case, plan: Plan<'_>) -> T2Result {
	let nt = case.progs.len();
	let built = case.base.build();
	let mut st = State::default();
	for (x, slot) in case.base.addr.iter().enumerate() {
		let s = &built.slots[*slot];
		let (a, l) = (&s.m as *const _ as usize, std::mem::size_of_val(&s.m));
		st.ranges.push((a, a + l, x));
		let (a, l) = (&s.r as *const _ as usize, std::mem::size_of_val(&s.r));
		st.ranges.push((a, a + l, x));
	}
	st.table = vec![LockSt::default(); case.base.n];
	st.pending = vec![None; nt];
	st.done = vec![false; nt];
	*ST.lock().unwrap_or_else(|e| e.into_inner()) = Some(st);

	let leaves: Vec<Vec<usize>> = case
		.base
		.colls
		.iter()
		.map(|e| {
			let mut v = Vec::new();
			decl_leaves(e, &case.base.colls, &mut v);
			v
		})
		.collect();
	let keyflags = std::sync::Arc::new(Mutex::new(vec!['?'; nt]));
	let mut handles = Vec::new();
	for t in 0..nt {
		let mut c = case.base.clone();
		c.prog = case.progs[t].clone();
		let b = built.handle();
		let lv = leaves.clone();
		let kf = keyflags.clone();
		handles.push(
			std::thread::Builder::new()
				.stack_size(1 << 20)
				.spawn(move || {
					crate::vraw::T2_TID.with(|c| c.set(Some(t)));
					let started = take_turn(t, Pend::Start);
					if started {
						end_turn(t);
						let mut runner = Runner { case: &c, built: b, keys: Vec::new(), leaves: lv };
						for s in &c.prog {
							if runner.run_stmt(s).is_err() {
								break;
							}
						}
						let k = match happylock::ThreadKey::get() {
							Some(k) => {
								drop(k);
								'-'
							}
							None => 'K',
						};
						kf.lock().unwrap()[t] = k;
						std::mem::forget(std::mem::take(&mut runner.keys));
					}
					with(|st| st.done[t] = true);
					CV.notify_all();
				})
				.unwrap(),
		);
	}

	// the scheduler
	let mut granted = Vec::new();
	let mut choices = Vec::new();
	let mut step = 0usize;
	let mut deadlock = false;
	loop {
		let mut g = ST.lock().unwrap_or_else(|e| e.into_inner());
		loop {
			let st = g.as_ref().unwrap();
			let running = (0..nt).any(|t| !st.done[t] && st.pending[t].is_none());
			if !running && st.turn.is_none() {
				break;
			}
			g = CV.wait(g).unwrap_or_else(|e| e.into_inner());
		}
		let st = g.as_mut().unwrap();
		if (0..nt).all(|t| st.done[t]) {
			break;
		}
		let en: Vec<usize> = (0..nt).filter(|t| !st.done[*t] && st.pending[*t].map(|p| enabled(st, p)).unwrap_or(false)).collect();
		if en.is_empty() {
			st.dead = Some("deadlock");
			deadlock = true;
			drop(g);
			CV.notify_all();
			break;
		}
		let pick = match &plan {
			Plan::Choices(pre) => {
				let i = pre.get(step).copied().unwrap_or(0).min(en.len() - 1);
				choices.push((i, en.len()));
				en[i]
			}
			Plan::Tids(ts) => match ts.get(step) {
				Some(t) if en.contains(t) => {
					choices.push((en.iter().position(|u| u == t).unwrap(), en.len()));
					*t
				}
				_ => {
					choices.push((0, en.len()));
					en[0]
				}
			},
		};
		step += 1;
		granted.push(pick);
		st.turn = Some(pick);
		drop(g);
		CV.notify_all();
	}
	for h in handles {
		let _ = h.join();
	}
	let (trace, table) = with(|st| (st.trace.join(" "), st.table.clone()));
	let np = case.base.colls.iter().map(|e| crate::interp::max_poison(e, &case.base.colls)).max().unwrap_or(0);
	let transcript = if deadlock {
		format!("{};{};deadlock;-", case.base.id, trace)
	} else {
		let mut pois = String::new();
		for p in 0..np {
			let po = built.poisonables.iter().find(|(q, _)| *q == p);
			pois.push(if po.map(|(_, o)| o.is_poisoned()).unwrap_or(false) { 'P' } else { '-' });
		}
		format!(
			"{};{};done;{};{};{}",
			case.base.id,
			trace,
			table.iter().map(|l| l.text()).collect::<Vec<_>>().join(" "),
			pois,
			keyflags.lock().unwrap().iter().collect::<String>()
		)
	};
	*ST.lock().unwrap_or_else(|e| e.into_inner()) = None;
	T2Result { transcript, granted, choices, deadlock }
}

/// DFS over the schedules of one case: after each run the last choice that still has an
/// unexplored alternative is advanced. At most `max_runs` schedules; returns the number run.
pub fn explore_t2(case: &T2Case, max_runs: usize, sink: &mut dyn FnMut(&T2Case, &T2Result)) -> usize {
	let mut prefix: Vec<usize> = Vec::new();
	let mut runs = 0;
	loop {
		let r = run_t2(case, Plan::Choices(&prefix));
		runs += 1;
		sink(case, &r);
		if runs >= max_runs {
			break;
		}
		// next prefix
		let mut ch = r.choices.clone();
		loop {
			match ch.pop() {
				None => return runs,
				Some((i, n)) => {
					if i + 1 < n {
						prefix = ch.iter().map(|c| c.0).collect();
						prefix.push(i + 1);
						break;
					}
				}
			}
		}
	}
	runs
}
