//! Dynamic lockable shapes: an enum whose every variant delegates to the *real* happylock
//! type, so that one Rust type (`Node`) can stand for any nesting of locks and collections.
//! The delegating impls contain no logic of their own.

use happylock::collection::{
	BoxedLockCollection, OwnedLockCollection, RefLockCollection, RetryingLockCollection,
};
use happylock::lockable::{Lockable, OwnedLockable, RawLock, Sharable};
use happylock::mutex::{Mutex, MutexRef};
use happylock::poisonable::{PoisonRef, PoisonResult, Poisonable};
use happylock::rwlock::{RwLock, RwLockReadRef, RwLockWriteRef};

use crate::vraw::{VMutex, VRw, Val};

pub type M = Mutex<Val, VMutex>;
pub type R = RwLock<Val, VRw>;

pub enum Node {
	M(&'static M),
	R(&'static R),
	V(Vec<Node>),
	P(&'static Poisonable<Node>),
	B(&'static BoxedLockCollection<Node>),
	F(&'static RefLockCollection<'static, Node>),
	T(&'static RetryingLockCollection<Node>),
	O(&'static OwnedLockCollection<Node>),
	/// collections built with `new_ref` (their child type is `&Node`)
	Bref(&'static BoxedLockCollection<&'static Node>),
	Tref(&'static RetryingLockCollection<&'static Node>),
}

pub enum NodeGuard<'g> {
	M(MutexRef<'g, Val, VMutex>),
	R(RwLockWriteRef<'g, Val, VRw>),
	V(Box<[NodeGuard<'g>]>),
	P(Box<PoisonResult<PoisonRef<'g, NodeGuard<'g>>>>),
	C(Box<NodeGuard<'g>>),
}

pub enum NodeRGuard<'g> {
	R(RwLockReadRef<'g, Val, VRw>),
	V(Box<[NodeRGuard<'g>]>),
	P(Box<PoisonResult<PoisonRef<'g, NodeRGuard<'g>>>>),
	C(Box<NodeRGuard<'g>>),
}

pub enum NodeData<'a> {
	L(&'a mut u64),
	V(Box<[NodeData<'a>]>),
	P(Box<PoisonResult<NodeData<'a>>>),
	C(Box<NodeData<'a>>),
}

pub enum NodeRData<'a> {
	L(&'a u64),
	V(Box<[NodeRData<'a>]>),
	P(Box<PoisonResult<NodeRData<'a>>>),
	C(Box<NodeRData<'a>>),
}

unsafe impl Lockable for Node {
	type Guard<'g>
		= NodeGuard<'g>
	where
		Self: 'g;
	type DataMut<'a>
		= NodeData<'a>
	where
		Self: 'a;

	fn get_ptrs<'a>(&'a self, ptrs: &mut Vec<&'a dyn RawLock>) {
		match self {
			Node::M(m) => m.get_ptrs(ptrs),
			Node::R(r) => r.get_ptrs(ptrs),
			Node::V(v) => v.get_ptrs(ptrs),
			Node::P(p) => p.get_ptrs(ptrs),
			Node::B(c) => c.get_ptrs(ptrs),
			Node::F(c) => c.get_ptrs(ptrs),
			Node::T(c) => c.get_ptrs(ptrs),
			Node::O(c) => c.get_ptrs(ptrs),
			Node::Bref(c) => c.get_ptrs(ptrs),
			Node::Tref(c) => c.get_ptrs(ptrs),
		}
	}

	unsafe fn guard(&self) -> NodeGuard<'_> {
		match self {
			Node::M(m) => NodeGuard::M(m.guard()),
			Node::R(r) => NodeGuard::R(r.guard()),
			Node::V(v) => NodeGuard::V(v.guard()),
			Node::P(p) => NodeGuard::P(Box::new(p.guard())),
			Node::B(c) => NodeGuard::C(Box::new(c.guard())),
			Node::F(c) => NodeGuard::C(Box::new(c.guard())),
			Node::T(c) => NodeGuard::C(Box::new(c.guard())),
			Node::O(c) => NodeGuard::C(Box::new(c.guard())),
			Node::Bref(c) => NodeGuard::C(Box::new(c.guard())),
			Node::Tref(c) => NodeGuard::C(Box::new(c.guard())),
		}
	}

	unsafe fn data_mut(&self) -> NodeData<'_> {
		match self {
			Node::M(m) => NodeData::L(&mut m.data_mut().0),
			Node::R(r) => NodeData::L(&mut r.data_mut().0),
			Node::V(v) => NodeData::V(v.data_mut()),
			Node::P(p) => NodeData::P(Box::new(p.data_mut())),
			Node::B(c) => NodeData::C(Box::new(c.data_mut())),
			Node::F(c) => NodeData::C(Box::new(c.data_mut())),
			Node::T(c) => NodeData::C(Box::new(c.data_mut())),
			Node::O(c) => NodeData::C(Box::new(c.data_mut())),
			Node::Bref(c) => NodeData::C(Box::new(c.data_mut())),
			Node::Tref(c) => NodeData::C(Box::new(c.data_mut())),
		}
	}
}

unsafe impl Sharable for Node {
	type ReadGuard<'g>
		= NodeRGuard<'g>
	where
		Self: 'g;
	type DataRef<'a>
		= NodeRData<'a>
	where
		Self: 'a;

	unsafe fn read_guard(&self) -> NodeRGuard<'_> {
		match self {
			Node::M(_) => unreachable!("Mutex is not Sharable; the generators never read-lock it"),
			Node::R(r) => NodeRGuard::R(r.read_guard()),
			Node::V(v) => NodeRGuard::V(v.read_guard()),
			Node::P(p) => NodeRGuard::P(Box::new(p.read_guard())),
			Node::B(c) => NodeRGuard::C(Box::new(c.read_guard())),
			Node::F(c) => NodeRGuard::C(Box::new(c.read_guard())),
			Node::T(c) => NodeRGuard::C(Box::new(c.read_guard())),
			Node::O(c) => NodeRGuard::C(Box::new(c.read_guard())),
			Node::Bref(c) => NodeRGuard::C(Box::new(c.read_guard())),
			Node::Tref(c) => NodeRGuard::C(Box::new(c.read_guard())),
		}
	}

	unsafe fn data_ref(&self) -> NodeRData<'_> {
		match self {
			Node::M(_) => unreachable!("Mutex is not Sharable; the generators never read-lock it"),
			Node::R(r) => NodeRData::L(&r.data_ref().0),
			Node::V(v) => NodeRData::V(v.data_ref()),
			Node::P(p) => NodeRData::P(Box::new(p.data_ref())),
			Node::B(c) => NodeRData::C(Box::new(c.data_ref())),
			Node::F(c) => NodeRData::C(Box::new(c.data_ref())),
			Node::T(c) => NodeRData::C(Box::new(c.data_ref())),
			Node::O(c) => NodeRData::C(Box::new(c.data_ref())),
			Node::Bref(c) => NodeRData::C(Box::new(c.data_ref())),
			Node::Tref(c) => NodeRData::C(Box::new(c.data_ref())),
		}
	}
}

// The case builder only puts a `Node` into an owned collection when nothing else refers to the
// locks below it (the generators guarantee it, as `OwnedLockable` demands).
unsafe impl OwnedLockable for Node {}

unsafe impl RawLock for Node {
	fn poison(&self) {
		match self {
			Node::M(m) => m.poison(),
			Node::R(r) => r.poison(),
			Node::V(_) => unreachable!("containers have no RawLock impl"),
			Node::P(p) => p.poison(),
			Node::B(c) => c.poison(),
			Node::F(c) => c.poison(),
			Node::T(c) => c.poison(),
			Node::O(c) => c.poison(),
			Node::Bref(c) => c.poison(),
			Node::Tref(c) => c.poison(),
		}
	}
	unsafe fn raw_write(&self) {
		match self {
			Node::M(m) => m.raw_write(),
			Node::R(r) => r.raw_write(),
			Node::V(_) => unreachable!("containers have no RawLock impl"),
			Node::P(p) => p.raw_write(),
			Node::B(c) => c.raw_write(),
			Node::F(c) => c.raw_write(),
			Node::T(c) => c.raw_write(),
			Node::O(c) => c.raw_write(),
			Node::Bref(c) => c.raw_write(),
			Node::Tref(c) => c.raw_write(),
		}
	}
	unsafe fn raw_try_write(&self) -> bool {
		match self {
			Node::M(m) => m.raw_try_write(),
			Node::R(r) => r.raw_try_write(),
			Node::V(_) => unreachable!("containers have no RawLock impl"),
			Node::P(p) => p.raw_try_write(),
			Node::B(c) => c.raw_try_write(),
			Node::F(c) => c.raw_try_write(),
			Node::T(c) => c.raw_try_write(),
			Node::O(c) => c.raw_try_write(),
			Node::Bref(c) => c.raw_try_write(),
			Node::Tref(c) => c.raw_try_write(),
		}
	}
	unsafe fn raw_unlock_write(&self) {
		match self {
			Node::M(m) => m.raw_unlock_write(),
			Node::R(r) => r.raw_unlock_write(),
			Node::V(_) => unreachable!("containers have no RawLock impl"),
			Node::P(p) => p.raw_unlock_write(),
			Node::B(c) => c.raw_unlock_write(),
			Node::F(c) => c.raw_unlock_write(),
			Node::T(c) => c.raw_unlock_write(),
			Node::O(c) => c.raw_unlock_write(),
			Node::Bref(c) => c.raw_unlock_write(),
			Node::Tref(c) => c.raw_unlock_write(),
		}
	}
	unsafe fn raw_read(&self) {
		match self {
			Node::M(m) => m.raw_read(),
			Node::R(r) => r.raw_read(),
			Node::V(_) => unreachable!("containers have no RawLock impl"),
			Node::P(p) => p.raw_read(),
			Node::B(c) => c.raw_read(),
			Node::F(c) => c.raw_read(),
			Node::T(c) => c.raw_read(),
			Node::O(c) => c.raw_read(),
			Node::Bref(c) => c.raw_read(),
			Node::Tref(c) => c.raw_read(),
		}
	}
	unsafe fn raw_try_read(&self) -> bool {
		match self {
			Node::M(m) => m.raw_try_read(),
			Node::R(r) => r.raw_try_read(),
			Node::V(_) => unreachable!("containers have no RawLock impl"),
			Node::P(p) => p.raw_try_read(),
			Node::B(c) => c.raw_try_read(),
			Node::F(c) => c.raw_try_read(),
			Node::T(c) => c.raw_try_read(),
			Node::O(c) => c.raw_try_read(),
			Node::Bref(c) => c.raw_try_read(),
			Node::Tref(c) => c.raw_try_read(),
		}
	}
	unsafe fn raw_unlock_read(&self) {
		match self {
			Node::M(m) => m.raw_unlock_read(),
			Node::R(r) => r.raw_unlock_read(),
			Node::V(_) => unreachable!("containers have no RawLock impl"),
			Node::P(p) => p.raw_unlock_read(),
			Node::B(c) => c.raw_unlock_read(),
			Node::F(c) => c.raw_unlock_read(),
			Node::T(c) => c.raw_unlock_read(),
			Node::O(c) => c.raw_unlock_read(),
			Node::Bref(c) => c.raw_unlock_read(),
			Node::Tref(c) => c.raw_unlock_read(),
		}
	}
}

impl std::fmt::Debug for Node {
	fn fmt(&self, f: &mut std::fmt::Formatter<'_>) -> std::fmt::Result {
		match self {
			Node::M(m) => std::fmt::Debug::fmt(*m, f),
			Node::R(r) => std::fmt::Debug::fmt(*r, f),
			Node::V(v) => std::fmt::Debug::fmt(v, f),
			Node::P(p) => std::fmt::Debug::fmt(*p, f),
			Node::B(c) => std::fmt::Debug::fmt(*c, f),
			Node::F(c) => std::fmt::Debug::fmt(*c, f),
			Node::T(c) => std::fmt::Debug::fmt(*c, f),
			Node::O(c) => std::fmt::Debug::fmt(*c, f),
			Node::Bref(c) => std::fmt::Debug::fmt(*c, f),
			Node::Tref(c) => std::fmt::Debug::fmt(*c, f),
		}
	}
}

// ---- position access (declared order) -------------------------------------------------

impl<'g> NodeGuard<'g> {
	pub fn leaves<'a>(&'a mut self, out: &mut Vec<&'a mut u64>) {
		match self {
			NodeGuard::M(g) => out.push(&mut (**g).0),
			NodeGuard::R(g) => out.push(&mut (**g).0),
			NodeGuard::V(v) => v.iter_mut().for_each(|g| g.leaves(out)),
			NodeGuard::P(p) => match &mut **p {
				Ok(r) => r.leaves(out),
				Err(e) => e.get_mut().leaves(out),
			},
			NodeGuard::C(c) => c.leaves(out),
		}
	}
}
impl<'g> NodeRGuard<'g> {
	pub fn leaves<'a>(&'a self, out: &mut Vec<&'a u64>) {
		match self {
			NodeRGuard::R(g) => out.push(&(**g).0),
			NodeRGuard::V(v) => v.iter().for_each(|g| g.leaves(out)),
			NodeRGuard::P(p) => match &**p {
				Ok(r) => r.leaves(out),
				Err(e) => e.get_ref().leaves(out),
			},
			NodeRGuard::C(c) => c.leaves(out),
		}
	}
}
impl<'a> NodeData<'a> {
	pub fn leaves<'b>(&'b mut self, out: &mut Vec<&'b mut u64>) {
		match self {
			NodeData::L(d) => out.push(&mut **d),
			NodeData::V(v) => v.iter_mut().for_each(|g| g.leaves(out)),
			NodeData::P(p) => match &mut **p {
				Ok(r) => r.leaves(out),
				Err(e) => e.get_mut().leaves(out),
			},
			NodeData::C(c) => c.leaves(out),
		}
	}
	pub fn poisoned(&self) -> bool {
		match self {
			NodeData::L(_) => false,
			NodeData::V(v) => v.iter().any(|g| g.poisoned()),
			NodeData::P(p) => match &**p { Ok(r) => r.poisoned(), Err(_) => true },
			NodeData::C(c) => c.poisoned(),
		}
	}
}
impl<'a> NodeRData<'a> {
	pub fn leaves<'b>(&'b self, out: &mut Vec<&'b u64>) {
		match self {
			NodeRData::L(d) => out.push(&**d),
			NodeRData::V(v) => v.iter().for_each(|g| g.leaves(out)),
			NodeRData::P(p) => match &**p {
				Ok(r) => r.leaves(out),
				Err(e) => e.get_ref().leaves(out),
			},
			NodeRData::C(c) => c.leaves(out),
		}
	}
	pub fn poisoned(&self) -> bool {
		match self {
			NodeRData::L(_) => false,
			NodeRData::V(v) => v.iter().any(|g| g.poisoned()),
			NodeRData::P(p) => match &**p { Ok(r) => r.poisoned(), Err(_) => true },
			NodeRData::C(c) => c.poisoned(),
		}
	}
}
impl<'g> NodeGuard<'g> {
	pub fn poisoned(&self) -> bool {
		match self {
			NodeGuard::M(_) | NodeGuard::R(_) => false,
			NodeGuard::V(v) => v.iter().any(|g| g.poisoned()),
			NodeGuard::P(p) => match &**p { Ok(r) => r.poisoned(), Err(_) => true },
			NodeGuard::C(c) => c.poisoned(),
		}
	}
}
impl<'g> NodeRGuard<'g> {
	pub fn poisoned(&self) -> bool {
		match self {
			NodeRGuard::R(_) => false,
			NodeRGuard::V(v) => v.iter().any(|g| g.poisoned()),
			NodeRGuard::P(p) => match &**p { Ok(r) => r.poisoned(), Err(_) => true },
			NodeRGuard::C(c) => c.poisoned(),
		}
	}
}
