//! Reads case lines on stdin, runs each against the real code, prints one transcript per line.
use std::io::{BufRead, Write};

fn main() {
	hlv_harness::silence_panics();
	let stdin = std::io::stdin();
	let out = std::io::stdout();
	let mut out = std::io::BufWriter::new(out.lock());
	for line in stdin.lock().lines() {
		let line = line.unwrap();
		if line.trim().is_empty() {
			continue;
		}
		match hlv_harness::case::Case::parse(&line) {
			Some(c) => {
				let r = hlv_harness::interp::run_case(&c);
				writeln!(out, "{}", r.transcript).unwrap();
				out.flush().unwrap();
			}
			None => writeln!(out, "?;parse-error;{line}").unwrap(),
		}
	}
}
