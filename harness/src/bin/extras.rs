//! extras — corner scenarios (exclusive and shared paths) against the real crate that the scripted raw lock of the T1/T2
//! harness cannot express (they need their own raw lock), found by audit agents:
//!
//!  * `payload_bomb`  (C03/C12): the unlock loops keep the first panic payload; a later payload is
//!    dropped inside the loop, and if ITS destructor panics the loop used to stop — the remaining
//!    members stayed locked although the call unwound and gave the key back.
//!  * `kill_while_waiting` (C12): the kill flag of a lock was only looked at before the blocking raw
//!    call; a thread already waiting when the lock got killed was handed a usable guard afterwards.
//!
//! Output: one line per scenario, `name;key=value;…`.
use std::panic::{catch_unwind, AssertUnwindSafe};
use std::sync::atomic::{AtomicBool, AtomicUsize, Ordering};
use std::sync::mpsc;
use std::time::{Duration, Instant};

use happylock::collection::RefLockCollection;
use happylock::mutex::Mutex;
use happylock::rwlock::RwLock;
use happylock::ThreadKey;
use lock_api::{GuardNoSend, RawMutex, RawRwLock};

/// scripting (global: a happylock `Mutex` does not hand out its raw lock)
static ARM_UNLOCKS: AtomicBool = AtomicBool::new(false);
static UNLOCK_CALLS: AtomicUsize = AtomicUsize::new(0);
static TRY_PANICS_ONCE: AtomicBool = AtomicBool::new(false);
static WAITING: AtomicUsize = AtomicUsize::new(0);
static PAUSE_NEXT_TRY: AtomicBool = AtomicBool::new(false);
static IN_TRY: AtomicBool = AtomicBool::new(false);
static RESUME_TRY: AtomicBool = AtomicBool::new(false);
static UNLOCK_PANICS_ONCE: AtomicBool = AtomicBool::new(false);

struct Bomb;
impl Drop for Bomb {
	fn drop(&mut self) {
		panic!("the destructor of a panic payload panics");
	}
}

/// a test-and-set raw mutex; obeys the lock_api contract, panics when the script says so
struct Raw {
	held: AtomicBool,
}
unsafe impl RawMutex for Raw {
	#[allow(clippy::declare_interior_mutable_const)]
	const INIT: Self = Raw { held: AtomicBool::new(false) };
	type GuardMarker = GuardNoSend;
	fn lock(&self) {
		WAITING.fetch_add(1, Ordering::SeqCst);
		while self.held.swap(true, Ordering::SeqCst) {
			std::thread::yield_now();
		}
		WAITING.fetch_sub(1, Ordering::SeqCst);
	}
	fn try_lock(&self) -> bool {
		if TRY_PANICS_ONCE.swap(false, Ordering::SeqCst) {
			panic!("raw try_lock panics");
		}
		if PAUSE_NEXT_TRY.swap(false, Ordering::SeqCst) {
			// models a pre-emption right at the start of the raw try
			IN_TRY.store(true, Ordering::SeqCst);
			let start = Instant::now();
			while !RESUME_TRY.load(Ordering::SeqCst) && start.elapsed() < Duration::from_secs(5) {
				std::thread::yield_now();
			}
		}
		!self.held.swap(true, Ordering::SeqCst)
	}
	unsafe fn unlock(&self) {
		self.held.store(false, Ordering::SeqCst);
		if UNLOCK_PANICS_ONCE.swap(false, Ordering::SeqCst) {
			panic!("raw unlock releases, then panics");
		}
		if ARM_UNLOCKS.load(Ordering::SeqCst) {
			// first armed unlock: an ordinary panic; second: a payload whose destructor panics; then quiet
			match UNLOCK_CALLS.fetch_add(1, Ordering::SeqCst) {
				0 => panic!("raw unlock panics"),
				1 => std::panic::panic_any(Bomb),
				_ => {}
			}
		}
	}
}
type M = Mutex<i32, Raw>;

/// scripting for the read-write raw lock
static RW_ARM_UNLOCKS: AtomicBool = AtomicBool::new(false);
static RW_UNLOCK_CALLS: AtomicUsize = AtomicUsize::new(0);
static RW_PAUSE_NEXT_TRY: AtomicBool = AtomicBool::new(false);
static RW_IN_TRY: AtomicBool = AtomicBool::new(false);
static RW_RESUME_TRY: AtomicBool = AtomicBool::new(false);
static RW_UNLOCK_PANICS_ONCE: AtomicBool = AtomicBool::new(false);

/// a spinning reader-writer raw lock (state: usize::MAX = writer, n = n readers); obeys the lock_api
/// contract, panics when the script says so
struct RawRw {
	state: AtomicUsize,
}
impl RawRw {
	fn pause_if_asked(&self) {
		if RW_PAUSE_NEXT_TRY.swap(false, Ordering::SeqCst) {
			RW_IN_TRY.store(true, Ordering::SeqCst);
			let start = Instant::now();
			while !RW_RESUME_TRY.load(Ordering::SeqCst) && start.elapsed() < Duration::from_secs(5) {
				std::thread::yield_now();
			}
		}
	}
	fn after_release(&self) {
		if RW_UNLOCK_PANICS_ONCE.swap(false, Ordering::SeqCst) {
			panic!("raw unlock releases, then panics");
		}
		if RW_ARM_UNLOCKS.load(Ordering::SeqCst) {
			match RW_UNLOCK_CALLS.fetch_add(1, Ordering::SeqCst) {
				0 => panic!("raw unlock panics"),
				1 => std::panic::panic_any(Bomb),
				_ => {}
			}
		}
	}
}
unsafe impl RawRwLock for RawRw {
	#[allow(clippy::declare_interior_mutable_const)]
	const INIT: Self = RawRw { state: AtomicUsize::new(0) };
	type GuardMarker = GuardNoSend;
	fn lock_shared(&self) {
		while !self.try_lock_shared_inner() {
			std::thread::yield_now();
		}
	}
	fn try_lock_shared(&self) -> bool {
		self.pause_if_asked();
		self.try_lock_shared_inner()
	}
	unsafe fn unlock_shared(&self) {
		self.state.fetch_sub(1, Ordering::SeqCst);
		self.after_release();
	}
	fn lock_exclusive(&self) {
		while self.state.compare_exchange(0, usize::MAX, Ordering::SeqCst, Ordering::SeqCst).is_err() {
			std::thread::yield_now();
		}
	}
	fn try_lock_exclusive(&self) -> bool {
		self.pause_if_asked();
		self.state.compare_exchange(0, usize::MAX, Ordering::SeqCst, Ordering::SeqCst).is_ok()
	}
	unsafe fn unlock_exclusive(&self) {
		self.state.store(0, Ordering::SeqCst);
		self.after_release();
	}
}
impl RawRw {
	fn try_lock_shared_inner(&self) -> bool {
		let mut cur = self.state.load(Ordering::SeqCst);
		loop {
			if cur == usize::MAX {
				return false;
			}
			match self.state.compare_exchange(cur, cur + 1, Ordering::SeqCst, Ordering::SeqCst) {
				Ok(_) => return true,
				Err(now) => cur = now,
			}
		}
	}
}
type Rw = RwLock<i32, RawRw>;

fn payload_bomb() {
	static LOCKS: [M; 3] = [M::new(0), M::new(0), M::new(0)];
	let mut key = ThreadKey::get().unwrap();
	let coll = RefLockCollection::new(&LOCKS);
	let r = catch_unwind(AssertUnwindSafe(|| {
		coll.scoped_lock(&mut key, |g| {
			*g[0] += 1;
			ARM_UNLOCKS.store(true, Ordering::SeqCst);
		})
	}));
	ARM_UNLOCKS.store(false, Ordering::SeqCst);
	// whatever unwound out of the call may itself carry the bomb: never drop it
	let unwound = r.is_err();
	std::mem::forget(r);
	// members 0 and 1 are killed by their panicking unlocks (they refuse from now on); member 2's
	// unlock is quiet: it must have been released, i.e. be acquirable again
	let third_free = LOCKS[2].scoped_try_lock(&mut key, |_| ()).is_ok();
	println!("payload_bomb;unwound={unwound};third_member_released={third_free}");
}

fn wait_until(f: impl Fn() -> bool) -> bool {
	let start = Instant::now();
	while !f() {
		if start.elapsed() > Duration::from_secs(5) {
			return false;
		}
		std::thread::yield_now();
	}
	true
}

fn kill_while_waiting() {
	static L: M = M::new(0);
	let (tx, rx) = mpsc::channel::<&'static str>();
	let (go_a, wait_a) = mpsc::channel::<()>();
	// A holds the lock
	let a = std::thread::spawn(move || {
		let key = ThreadKey::get().unwrap();
		let mut g = L.lock(key);
		*g = 41;
		let _ = wait_a.recv_timeout(Duration::from_secs(5));
		*g = 42;
		drop(g);
	});
	let mut key = ThreadKey::get().unwrap();
	let probe = std::cell::RefCell::new(&mut key);
	if !wait_until(|| L.scoped_try_lock(&mut **probe.borrow_mut(), |_| ()).is_err()) {
		println!("kill_while_waiting;setup=failed");
		return;
	}
	// B blocks inside the raw lock
	let txb = tx.clone();
	let b = std::thread::spawn(move || {
		let key = ThreadKey::get().unwrap();
		let r = catch_unwind(AssertUnwindSafe(|| {
			let g = L.lock(key);
			*g
		}));
		txb.send(if r.is_ok() { "guard" } else { "refused" }).unwrap();
	});
	let ok = wait_until(|| WAITING.load(Ordering::SeqCst) == 1);
	// C kills the lock: its raw try_lock panics
	TRY_PANICS_ONCE.store(true, Ordering::SeqCst);
	let c = std::thread::spawn(|| {
		let key = ThreadKey::get().unwrap();
		let _ = catch_unwind(AssertUnwindSafe(|| {
			let _ = L.try_lock(key);
		}));
	});
	let _ = c.join();
	// a fresh thread: the lock refuses
	let refused_fresh = std::thread::spawn(|| {
		let mut key = ThreadKey::get().unwrap();
		catch_unwind(AssertUnwindSafe(|| L.scoped_lock(&mut key, |_| ()))).is_err()
	})
	.join()
	.unwrap_or(false);
	// A releases; B, who has been waiting since before the kill, gets …
	let _ = go_a.send(());
	let _ = a.join();
	let got = rx.recv_timeout(Duration::from_secs(5)).unwrap_or("timeout");
	let _ = b.join();
	println!("kill_while_waiting;waiter_was_waiting={ok};fresh_thread_refused={refused_fresh};waiter_got={got}");
}

fn kill_during_try() {
	static L: M = M::new(0);
	let key = ThreadKey::get().unwrap();
	let guard = L.lock(key);
	// B: a try_lock that is pre-empted after the kill-flag test, inside the raw try
	PAUSE_NEXT_TRY.store(true, Ordering::SeqCst);
	let b = std::thread::spawn(|| {
		let key = ThreadKey::get().unwrap();
		catch_unwind(AssertUnwindSafe(|| L.try_lock(key).is_ok())).unwrap_or(false)
	});
	let in_try = wait_until(|| IN_TRY.load(Ordering::SeqCst));
	// the holder's release panics after releasing: the lock is killed
	UNLOCK_PANICS_ONCE.store(true, Ordering::SeqCst);
	let _ = catch_unwind(AssertUnwindSafe(move || drop(guard)));
	let fresh_refused = std::thread::spawn(|| {
		let key = ThreadKey::get().unwrap();
		catch_unwind(AssertUnwindSafe(|| L.try_lock(key).is_err())).unwrap_or(true)
	})
	.join()
	.unwrap_or(false);
	RESUME_TRY.store(true, Ordering::SeqCst);
	let got = b.join().unwrap_or(false);
	println!("kill_during_try;try_was_in_flight={in_try};fresh_try_refused={fresh_refused};in_flight_try_got_guard={got}");
}

/// the read path of the unlock loops: `scoped_read` on three `RwLock`s whose first two raw
/// `unlock_shared` calls panic, the second with a payload whose destructor panics
fn payload_bomb_read() {
	static LOCKS: [Rw; 3] = [Rw::new(0), Rw::new(0), Rw::new(0)];
	let mut key = ThreadKey::get().unwrap();
	let coll = RefLockCollection::new(&LOCKS);
	let r = catch_unwind(AssertUnwindSafe(|| {
		coll.scoped_read(&mut key, |g| {
			let _ = *g[0];
			RW_ARM_UNLOCKS.store(true, Ordering::SeqCst);
		})
	}));
	RW_ARM_UNLOCKS.store(false, Ordering::SeqCst);
	let unwound = r.is_err();
	std::mem::forget(r);
	let third_free = LOCKS[2].scoped_try_write(&mut key, |_| ()).is_ok();
	println!("payload_bomb_read;unwound={unwound};third_member_released={third_free}");
}

/// the in-flight try on the shared path: A holds exclusively; B's `try_read` is pre-empted inside the
/// raw try; A's raw unlock releases-then-panics (the lock is killed); B resumes
fn kill_during_try_read() {
	static L: Rw = Rw::new(0);
	let key = ThreadKey::get().unwrap();
	let guard = L.write(key);
	RW_PAUSE_NEXT_TRY.store(true, Ordering::SeqCst);
	let b = std::thread::spawn(|| {
		let key = ThreadKey::get().unwrap();
		catch_unwind(AssertUnwindSafe(|| L.try_read(key).is_ok())).unwrap_or(false)
	});
	let in_try = wait_until(|| RW_IN_TRY.load(Ordering::SeqCst));
	RW_UNLOCK_PANICS_ONCE.store(true, Ordering::SeqCst);
	let _ = catch_unwind(AssertUnwindSafe(move || drop(guard)));
	let fresh_refused = std::thread::spawn(|| {
		let key = ThreadKey::get().unwrap();
		catch_unwind(AssertUnwindSafe(|| L.try_read(key).is_err())).unwrap_or(true)
	})
	.join()
	.unwrap_or(false);
	RW_RESUME_TRY.store(true, Ordering::SeqCst);
	let got = b.join().unwrap_or(false);
	println!("kill_during_try_read;try_was_in_flight={in_try};fresh_try_refused={fresh_refused};in_flight_try_got_guard={got}");
}

/// the same with an exclusive try on the read-write lock
fn kill_during_try_write() {
	static L: Rw = Rw::new(0);
	RW_IN_TRY.store(false, Ordering::SeqCst);
	RW_RESUME_TRY.store(false, Ordering::SeqCst);
	let key = ThreadKey::get().unwrap();
	let guard = L.write(key);
	RW_PAUSE_NEXT_TRY.store(true, Ordering::SeqCst);
	let b = std::thread::spawn(|| {
		let key = ThreadKey::get().unwrap();
		catch_unwind(AssertUnwindSafe(|| L.try_write(key).is_ok())).unwrap_or(false)
	});
	let in_try = wait_until(|| RW_IN_TRY.load(Ordering::SeqCst));
	RW_UNLOCK_PANICS_ONCE.store(true, Ordering::SeqCst);
	let _ = catch_unwind(AssertUnwindSafe(move || drop(guard)));
	let fresh_refused = std::thread::spawn(|| {
		let key = ThreadKey::get().unwrap();
		catch_unwind(AssertUnwindSafe(|| L.try_write(key).is_err())).unwrap_or(true)
	})
	.join()
	.unwrap_or(false);
	RW_RESUME_TRY.store(true, Ordering::SeqCst);
	let got = b.join().unwrap_or(false);
	println!("kill_during_try_write;try_was_in_flight={in_try};fresh_try_refused={fresh_refused};in_flight_try_got_guard={got}");
}

fn main() {
	std::panic::set_hook(Box::new(|_| {}));
	let _ = std::thread::spawn(payload_bomb).join();
	let _ = std::thread::spawn(kill_while_waiting).join();
	let _ = std::thread::spawn(kill_during_try).join();
	let _ = std::thread::spawn(payload_bomb_read).join();
	let _ = std::thread::spawn(kill_during_try_read).join();
	let _ = std::thread::spawn(kill_during_try_write).join();
}
