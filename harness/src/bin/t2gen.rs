//! t2gen <tier> <seed> <outdir>  |  t2gen --replay <case line>
//! Multi-threaded cases: 2–3 real threads, each running guard / scoped sessions on collections of
//! different kinds and listing orders over the same leaf locks; every schedule (DFS, capped) of
//! each case is run on the real code. Writes conc.cases (case line incl. the schedule that was
//! run), conc.impl (transcripts), conc.stats.json.
use std::io::Write;

use hlv_harness::case::{Api, Case, Exit, Expr, Step, Stmt};
use hlv_harness::gen::{permutations, session, Rng};
use hlv_harness::t2::{explore_t2, run_t2, Plan, T2Case};

fn bx(e: Expr) -> Box<Expr> {
	Box::new(e)
}

fn main() {
	hlv_harness::silence_panics();
	let a: Vec<String> = std::env::args().collect();
	if a.get(1).map(|s| s.as_str()) == Some("--replay") {
		let (c, sched) = T2Case::parse(&a[2]).expect("bad T2 case line");
		let r = run_t2(&c, Plan::Tids(&sched));
		println!("{}", c.text(&r.granted));
		println!("{}", r.transcript);
		return;
	}
	if a.get(1).map(|s| s.as_str()) == Some("--replay-file") {
		// one T2 case line per input line: re-run each under its recorded schedule (used under Miri)
		for line in std::fs::read_to_string(&a[2]).expect("file").lines() {
			if let Some((c, sched)) = T2Case::parse(line) {
				let r = run_t2(&c, Plan::Tids(&sched));
				println!("{}", r.transcript);
			}
		}
		return;
	}
	let quick = a[1] == "quick";
	let seed: u64 = a[2].parse().unwrap_or(1);
	let outdir = &a[3];
	std::fs::create_dir_all(outdir).unwrap();
	let mut rng = Rng(seed.wrapping_mul(0x9E3779B97F4A7C15) | 1);
	let mut cases = std::io::BufWriter::new(std::fs::File::create(format!("{outdir}/conc.cases")).unwrap());
	let mut imp = std::io::BufWriter::new(std::fs::File::create(format!("{outdir}/conc.impl")).unwrap());
	let max_runs = if quick { 120 } else { 400 };
	let mut total = 0usize;
	let mut base_cases = 0usize;
	let mut deadlocks = 0usize;
	let mut max_sched = 0usize;
	let mut capped = 0usize;
	let mut distinct = std::collections::HashSet::new();
	let mut samples: Vec<String> = Vec::new();
	let mut bi = 0usize;

	let sizes: &[usize] = if quick { &[2] } else { &[2, 3] };
	for &n in sizes {
		for rw in [false, true] {
			let l = |i: usize| if rw { Expr::R(i) } else { Expr::M(i) };
			let all: Vec<Expr> = (0..n).map(l).collect();
			let rev: Vec<Expr> = all.iter().rev().cloned().collect();
			let hi = 2 * n + 1;
			// pairs of collections over the same leaves (thread 0 uses the first, thread 1 the second,
			// a third thread the first again)
			let mut menus: Vec<Vec<Expr>> = vec![
				vec![Expr::B(bx(Expr::V(all.clone()))), Expr::F(bx(Expr::V(rev.clone())))],
				vec![Expr::B(bx(Expr::V(all.clone()))), Expr::T(bx(Expr::V(rev.clone())))],
				vec![Expr::T(bx(Expr::V(all.clone()))), Expr::T(bx(Expr::V(rev.clone())))],
				vec![Expr::F(bx(Expr::V(all.clone()))), Expr::Bn(1, bx(Expr::V(rev.clone())))],
				// nested: a retrying member inside a sorting one, against the plain reverse listing
				vec![
					Expr::B(bx(Expr::V(vec![all[0].clone(), Expr::T(bx(Expr::V(all[1..].to_vec())))]))),
					Expr::F(bx(Expr::V(rev.clone()))),
				],
				// a single leaf locked directly against a collection containing it
				vec![all[n - 1].clone(), Expr::B(bx(Expr::V(all.clone())))],
				// an owned group is one unit of two different collections (referenced, not rebuilt)
				vec![
					Expr::O(hi, bx(Expr::V(vec![all[0].clone()]))),
					Expr::B(bx(Expr::V({
						let mut v = vec![Expr::C(0)];
						v.extend(all[1..].iter().cloned());
						v
					}))),
					Expr::T(bx(Expr::V({
						let mut v: Vec<Expr> = all[1..].iter().rev().cloned().collect();
						v.push(Expr::C(0));
						v
					}))),
				],
				// a poisonable wrapper around one of them
				vec![Expr::P(0, bx(Expr::B(bx(Expr::V(all.clone()))))), Expr::T(bx(Expr::V(rev.clone())))],
			];
			if quick {
				menus.truncate(7);
			}
			let perms = permutations(n);
			for colls in menus {
				let (ca, cb) = (colls.len() - 2, colls.len() - 1);
				let perm_list: Vec<Vec<usize>> = if quick || n >= 3 { vec![perms[0].clone(), perms[perms.len() - 1].clone()] } else { perms.clone() };
				for perm in perm_list {
					// per-thread programs
					let wr = |t: u64| vec![Step::Write(0, 10 + t), Step::Read(0)];
					let mut plans: Vec<Vec<Vec<Stmt>>> = vec![
						// two writers through different collections
						vec![
							vec![Stmt::Get, session(ca, Api::Lock, true, true, wr(0), Exit::Drop)],
							vec![Stmt::Get, session(cb, Api::Lock, true, true, wr(1), Exit::Unlock)],
						],
						// scoped against guard, two rounds on one side
						vec![
							vec![
								Stmt::Get,
								session(ca, Api::Scoped, true, false, wr(0), Exit::Ret),
								session(ca, Api::Lock, true, false, vec![Step::Read(0)], Exit::Drop),
							],
							vec![Stmt::Get, session(cb, Api::Lock, true, true, wr(1), Exit::Drop)],
						],
						// a try on one side
						vec![
							vec![Stmt::Get, session(ca, Api::Try, true, true, wr(0), Exit::Drop)],
							vec![Stmt::Get, session(cb, Api::Lock, true, true, wr(1), Exit::Drop)],
						],
						// a user panic on one side while the other waits
						vec![
							vec![Stmt::Get, session(ca, Api::Lock, true, true, wr(0), Exit::Panic), Stmt::Get],
							vec![Stmt::Get, session(cb, Api::Scoped, true, true, wr(1), Exit::Ret)],
						],
					];
					if rw {
						plans.push(vec![
							vec![Stmt::Get, session(ca, Api::Lock, false, true, vec![Step::Read(0)], Exit::Drop)],
							vec![Stmt::Get, session(cb, Api::Lock, true, true, wr(1), Exit::Drop)],
						]);
						plans.push(vec![
							vec![Stmt::Get, session(ca, Api::Scoped, false, true, vec![Step::Read(0)], Exit::Ret)],
							vec![Stmt::Get, session(cb, Api::Lock, false, true, vec![Step::Read(1 % n)], Exit::Unlock)],
						]);
					}
					if !quick {
						// three threads
						plans.push(vec![
							vec![Stmt::Get, session(ca, Api::Lock, true, true, wr(0), Exit::Drop)],
							vec![Stmt::Get, session(cb, Api::Lock, true, true, wr(1), Exit::Drop)],
							vec![Stmt::Get, session(ca, Api::Scoped, true, true, wr(2), Exit::Ret)],
						]);
					}
					for progs in plans {
						if quick && rng.chance(1, 3) {
							continue;
						}
						let base = Case {
							id: format!("conc{bi}"),
							n,
							addr: perm.iter().map(|p| 2 * p).collect(),
							colls: colls.clone(),
							held: vec![b'F'; n],
							prog: vec![],
							script: vec![],
						};
						bi += 1;
						base_cases += 1;
						let tc = T2Case { base, progs };
						let mut k = 0usize;
						let runs = explore_t2(&tc, max_runs, &mut |c: &T2Case, r: &hlv_harness::t2::T2Result| {
							let mut c2 = c.clone();
							c2.base.id = format!("{}.{}", c.base.id, k);
							k += 1;
							let tr = r.transcript.replacen(&c.base.id, &c2.base.id, 1);
							writeln!(cases, "{}", c2.text(&r.granted)).unwrap();
							writeln!(imp, "{tr}").unwrap();
							if r.deadlock {
								deadlocks += 1;
							}
							max_sched = max_sched.max(r.granted.len());
							distinct.insert(r.transcript.split_once(';').map(|x| x.1.to_string()).unwrap_or_default());
							if samples.len() < 3 {
								samples.push(format!("{} => {}", c2.text(&r.granted), tr));
							}
						});
						let mut runs = runs;
						if runs >= max_runs {
							capped += 1;
							// the DFS only varied the tail of the schedule: add seeded random schedules
							for _ in 0..max_runs / 2 {
								let pre: Vec<usize> = (0..400).map(|_| rng.below(3)).collect();
								let r = run_t2(&tc, Plan::Choices(&pre));
								let mut c2 = tc.clone();
								c2.base.id = format!("{}.{}", tc.base.id, k);
								k += 1;
								let tr = r.transcript.replacen(&tc.base.id, &c2.base.id, 1);
								writeln!(cases, "{}", c2.text(&r.granted)).unwrap();
								writeln!(imp, "{tr}").unwrap();
								if r.deadlock {
									deadlocks += 1;
								}
								distinct.insert(r.transcript.split_once(';').map(|x| x.1.to_string()).unwrap_or_default());
								runs += 1;
							}
						}
						total += runs;
					}
				}
			}
		}
	}
	// poisoning across threads (C10): a hold on a Poisonable (own guard / own scoped call / guard of a
	// collection containing it) ends in a user panic while another thread is waiting for it or arrives later
	{
		let pmenus: Vec<Vec<Expr>> = vec![
			vec![Expr::P(0, bx(Expr::M(0)))],
			vec![Expr::P(0, bx(Expr::R(0))), Expr::B(bx(Expr::V(vec![Expr::C(0), Expr::R(1)])))],
			vec![Expr::P(0, bx(Expr::M(0))), Expr::T(bx(Expr::V(vec![Expr::M(1), Expr::C(0)])))],
		];
		for colls in pmenus {
			let last = colls.len() - 1;
			let n = if colls.len() == 1 { 1 } else { 2 };
			let plans: Vec<Vec<Vec<Stmt>>> = vec![
				vec![
					vec![Stmt::Get, session(last, Api::Lock, true, true, vec![Step::Write(0, 5)], Exit::Panic), Stmt::Get],
					vec![Stmt::Get, session(0, Api::Lock, true, true, vec![Step::Read(0)], Exit::Drop)],
				],
				vec![
					vec![Stmt::Get, session(0, Api::Scoped, true, true, vec![Step::Write(0, 5)], Exit::Panic), Stmt::Get],
					vec![Stmt::Get, session(0, Api::Scoped, true, false, vec![Step::Read(0)], Exit::Ret), Stmt::IsPoisoned(0)],
				],
				vec![
					vec![Stmt::Get, session(0, Api::Lock, true, true, vec![], Exit::Panic), Stmt::ClearPoison(0)],
					vec![Stmt::Get, session(last, Api::Lock, true, true, vec![Step::Read(0)], Exit::Unlock)],
				],
			];
			for progs in plans {
				let base = Case {
					id: format!("conc{bi}"),
					n,
					addr: (0..n).map(|p| 2 * p).collect(),
					colls: colls.clone(),
					held: vec![b'F'; n],
					prog: vec![],
					script: vec![],
				};
				bi += 1;
				base_cases += 1;
				let tc = T2Case { base, progs };
				let mut k = 0usize;
				let runs = explore_t2(&tc, max_runs, &mut |c: &T2Case, r: &hlv_harness::t2::T2Result| {
					let mut c2 = c.clone();
					c2.base.id = format!("{}.{}", c.base.id, k);
					k += 1;
					let tr = r.transcript.replacen(&c.base.id, &c2.base.id, 1);
					writeln!(cases, "{}", c2.text(&r.granted)).unwrap();
					writeln!(imp, "{tr}").unwrap();
					if r.deadlock {
						deadlocks += 1;
					}
					distinct.insert(r.transcript.split_once(';').map(|x| x.1.to_string()).unwrap_or_default());
				});
				total += runs;
			}
		}
	}
	let stats = format!(
		"{{\"family\": \"conc\", \"base_cases\": {base_cases}, \"evaluations\": {total}, \"distinct\": {}, \"distinct_nontrivial\": {}, \"unknown_addr\": 0, \"runs\": {total}, \"distribution\": {{\"deadlocks\": {deadlocks}, \"longest_schedule\": {max_sched}, \"cases_with_schedule_cap_reached\": {capped}, \"max_schedules_per_case\": {max_runs}}}, \"samples\": {}}}",
		distinct.len(),
		distinct.len(),
		serde_free_json(&samples)
	);
	std::fs::write(format!("{outdir}/conc.stats.json"), stats).unwrap();
}

fn serde_free_json(v: &[String]) -> String {
	let items: Vec<String> = v.iter().map(|s| format!("\"{}\"", s.replace('\\', "\\\\").replace('"', "\\\""))).collect();
	format!("[{}]", items.join(", "))
}
