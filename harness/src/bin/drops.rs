//! drops — C16: values are dropped exactly once on every construction/destruction path and
//! round-trip unchanged. Uses the default (parking_lot) raw locks and drop-counting payloads.
//! Output: one line per (shape, path): `shape;path;values=..;drops=..;leaked=..`
//! where `values` are the payload values observed at the user's declared positions and `drops`
//! the per-payload drop counts (payload i has value 100+i before any write).
use std::cell::RefCell;

use happylock::collection::{BoxedLockCollection, OwnedLockCollection, RefLockCollection, RetryingLockCollection};
use happylock::lockable::{LockableGetMut, LockableIntoInner, OwnedLockable};
use happylock::poisonable::Poisonable;
use happylock::{Mutex, RwLock, ThreadKey};

thread_local! {
	static DROPS: RefCell<Vec<usize>> = RefCell::new(Vec::new());
	static NEXT: RefCell<usize> = RefCell::new(0);
}

#[derive(Debug)]
pub struct D(pub usize, pub u64);
impl Drop for D {
	fn drop(&mut self) {
		DROPS.with(|d| {
			let mut d = d.borrow_mut();
			if d.len() <= self.0 {
				d.resize(self.0 + 1, 0);
			}
			d[self.0] += 1;
		})
	}
}
fn fresh() -> D {
	NEXT.with(|n| {
		let mut n = n.borrow_mut();
		let i = *n;
		*n += 1;
		DROPS.with(|d| {
			let mut d = d.borrow_mut();
			if d.len() <= i {
				d.resize(i + 1, 0);
			}
		});
		D(i, 100 + i as u64)
	})
}
fn reset() {
	NEXT.with(|n| *n.borrow_mut() = 0);
	DROPS.with(|d| d.borrow_mut().clear());
}
fn drops() -> Vec<usize> {
	DROPS.with(|d| d.borrow().clone())
}

/// values at declared positions of an `Inner`/`get_mut` result
trait Vals {
	fn vals(&self, out: &mut Vec<u64>);
}
impl Vals for D {
	fn vals(&self, out: &mut Vec<u64>) {
		out.push(self.1)
	}
}
impl<T: Vals + ?Sized> Vals for &mut T {
	fn vals(&self, out: &mut Vec<u64>) {
		(**self).vals(out)
	}
}
impl<T: Vals + ?Sized> Vals for &T {
	fn vals(&self, out: &mut Vec<u64>) {
		(**self).vals(out)
	}
}
impl<T: Vals> Vals for [T] {
	fn vals(&self, out: &mut Vec<u64>) {
		self.iter().for_each(|x| x.vals(out))
	}
}
impl<T: Vals, const N: usize> Vals for [T; N] {
	fn vals(&self, out: &mut Vec<u64>) {
		self.iter().for_each(|x| x.vals(out))
	}
}
impl<T: Vals> Vals for Box<[T]> {
	fn vals(&self, out: &mut Vec<u64>) {
		self.iter().for_each(|x| x.vals(out))
	}
}
impl<T: Vals> Vals for Vec<T> {
	fn vals(&self, out: &mut Vec<u64>) {
		self.iter().for_each(|x| x.vals(out))
	}
}
impl<T: Vals, E: Vals> Vals for Result<T, E> {
	fn vals(&self, out: &mut Vec<u64>) {
		match self {
			Ok(x) => x.vals(out),
			Err(e) => e.vals(out),
		}
	}
}
impl<G: Vals> Vals for happylock::poisonable::PoisonError<G> {
	fn vals(&self, out: &mut Vec<u64>) {
		self.get_ref().vals(out)
	}
}
macro_rules! tuple_vals {
	($($g:ident $i:tt),*) => {
		impl<$($g: Vals),*> Vals for ($($g,)*) {
			fn vals(&self, out: &mut Vec<u64>) { $(self.$i.vals(out);)* }
		}
	};
}
tuple_vals!(A 0);
tuple_vals!(A 0, B 1);
tuple_vals!(A 0, B 1, C 2);
tuple_vals!(A 0, B 1, C 2, E 3);

/// "write v+1000 to every position" through a guard-like / get_mut-like value
trait Bump {
	fn bump(&mut self);
}
impl Bump for D {
	fn bump(&mut self) {
		self.1 += 1000
	}
}
impl<T: Bump + ?Sized> Bump for &mut T {
	fn bump(&mut self) {
		(**self).bump()
	}
}
impl<T: Bump> Bump for Box<[T]> {
	fn bump(&mut self) {
		self.iter_mut().for_each(|x| x.bump())
	}
}
impl<T: Bump, const N: usize> Bump for [T; N] {
	fn bump(&mut self) {
		self.iter_mut().for_each(|x| x.bump())
	}
}
impl<T: Bump, E: Bump> Bump for Result<T, E> {
	fn bump(&mut self) {
		match self {
			Ok(x) => x.bump(),
			Err(e) => e.bump(),
		}
	}
}
impl<G: Bump> Bump for happylock::poisonable::PoisonError<G> {
	fn bump(&mut self) {
		self.get_mut().bump()
	}
}
macro_rules! tuple_bump {
	($($g:ident $i:tt),*) => {
		impl<$($g: Bump),*> Bump for ($($g,)*) {
			fn bump(&mut self) { $(self.$i.bump();)* }
		}
	};
}
tuple_bump!(A 0);
tuple_bump!(A 0, B 1);
tuple_bump!(A 0, B 1, C 2);
tuple_bump!(A 0, B 1, C 2, E 3);

fn fmt(v: &[u64]) -> String {
	v.iter().map(|x| x.to_string()).collect::<Vec<_>>().join(",")
}
fn report(shape: &str, path: &str, vals: &[u64]) {
	let d = drops();
	println!(
		"{shape};{path};values={};drops={}",
		fmt(vals),
		d.iter().map(|x| x.to_string()).collect::<Vec<_>>().join(",")
	);
}

/// all paths for one owned shape `L` built by `mk`
fn paths<L>(shape: &str, mk: &dyn Fn() -> L)
where
	L: OwnedLockable + LockableIntoInner + LockableGetMut + 'static,
	<L as LockableIntoInner>::Inner: Vals,
	for<'a> <L as LockableGetMut>::Inner<'a>: Vals + Bump,
{
	// into_inner of the bare container
	reset();
	{
		let l = mk();
		let inner = l.into_inner();
		let mut v = Vec::new();
		inner.vals(&mut v);
		drop(inner);
		report(shape, "bare.into_inner", &v);
	}
	// get_mut writes are visible to into_inner
	reset();
	{
		let mut l = mk();
		l.get_mut().bump();
		let inner = l.into_inner();
		let mut v = Vec::new();
		inner.vals(&mut v);
		drop(inner);
		report(shape, "bare.get_mut+into_inner", &v);
	}
	// Boxed: new -> drop
	reset();
	{
		let c = BoxedLockCollection::new(mk());
		drop(c);
		report(shape, "boxed.new+drop", &[]);
	}
	// dropped while the owning thread is unwinding (plain, and with a guard still alive)
	reset();
	{
		let _ = std::panic::catch_unwind(std::panic::AssertUnwindSafe(|| {
			let _c = BoxedLockCollection::new(mk());
			panic!("unwinding with a collection alive");
		}));
		report(shape, "boxed.unwind+drop", &[]);
	}
	reset();
	{
		let _ = std::panic::catch_unwind(std::panic::AssertUnwindSafe(|| {
			let c = BoxedLockCollection::new(mk());
			let key = ThreadKey::get().expect("key");
			let _g = c.lock(key);
			panic!("unwinding with a guard alive");
		}));
		report(shape, "boxed.unwind-with-guard+drop", &[]);
	}
	reset();
	{
		let _ = std::panic::catch_unwind(std::panic::AssertUnwindSafe(|| {
			let _c = OwnedLockCollection::new(mk());
			panic!("unwinding with a collection alive");
		}));
		report(shape, "owned.unwind+drop", &[]);
	}
	reset();
	{
		let _ = std::panic::catch_unwind(std::panic::AssertUnwindSafe(|| {
			let _c = RetryingLockCollection::new(BoxedLockCollection::new(mk()));
			panic!("unwinding with a collection alive");
		}));
		report(shape, "retry(boxed).unwind+drop", &[]);
	}
	reset();
	{
		let c = BoxedLockCollection::try_new(mk()).expect("owned input has no duplicates");
		drop(c);
		report(shape, "boxed.try_new+drop", &[]);
	}
	reset();
	{
		let c = BoxedLockCollection::new(mk());
		let child = c.into_child();
		let mut v = Vec::new();
		let inner = child.into_inner();
		inner.vals(&mut v);
		drop(inner);
		report(shape, "boxed.into_child+into_inner", &v);
	}
	reset();
	{
		let c = BoxedLockCollection::new(mk());
		let inner = c.into_inner();
		let mut v = Vec::new();
		inner.vals(&mut v);
		drop(inner);
		report(shape, "boxed.into_inner", &v);
	}
	// Boxed: lock, write through the guard is exercised in T1; here: nested boxed in boxed
	reset();
	{
		let c = BoxedLockCollection::new(BoxedLockCollection::new(mk()));
		let inner = c.into_inner();
		let mut v = Vec::new();
		inner.vals(&mut v);
		drop(inner);
		report(shape, "boxed(boxed).into_inner", &v);
	}
	// Owned
	reset();
	{
		let mut c = OwnedLockCollection::new(mk());
		c.get_mut().bump();
		let inner = c.into_inner();
		let mut v = Vec::new();
		inner.vals(&mut v);
		drop(inner);
		report(shape, "owned.get_mut+into_inner", &v);
	}
	reset();
	{
		let c = OwnedLockCollection::new(mk());
		drop(c);
		report(shape, "owned.new+drop", &[]);
	}
	// Retrying
	reset();
	{
		let mut c = RetryingLockCollection::new(mk());
		c.get_mut().bump();
		let child = c.into_child();
		let inner = child.into_inner();
		let mut v = Vec::new();
		inner.vals(&mut v);
		drop(inner);
		report(shape, "retry.get_mut+into_child+into_inner", &v);
	}
	reset();
	{
		let c = RetryingLockCollection::try_new(mk()).expect("no duplicates");
		let inner = c.into_inner();
		let mut v = Vec::new();
		inner.vals(&mut v);
		drop(inner);
		report(shape, "retry.try_new+into_inner", &v);
	}
	// Ref: borrows, the owner drops
	reset();
	{
		let l = mk();
		let c = RefLockCollection::new(&l);
		let c2 = RefLockCollection::try_new(&l).expect("no duplicates");
		drop(c);
		drop(c2);
		let inner = l.into_inner();
		let mut v = Vec::new();
		inner.vals(&mut v);
		drop(inner);
		report(shape, "ref.new+try_new+drop/owner.into_inner", &v);
	}
	// Poisonable
	reset();
	{
		let p = Poisonable::new(BoxedLockCollection::new(mk()));
		let inner = p.into_inner();
		let mut v = Vec::new();
		inner.vals(&mut v);
		drop(inner);
		report(shape, "poisonable(boxed).into_inner", &v);
	}
	reset();
	{
		let p = Poisonable::new(OwnedLockCollection::new(mk()));
		let child = p.into_child();
		let c = match child {
			Ok(c) => c,
			Err(e) => e.into_inner(),
		};
		let inner = c.into_inner();
		let mut v = Vec::new();
		inner.vals(&mut v);
		drop(inner);
		report(shape, "poisonable(owned).into_child+into_inner", &v);
	}
}

fn main() {
	std::panic::set_hook(Box::new(|_| {}));
	let m = || Mutex::new(fresh());
	let r = || RwLock::new(fresh());
	// tuples
	paths("U(m)", &|| (m(),));
	paths("U(m,r)", &|| (m(), r()));
	paths("U(r,m,r)", &|| (r(), m(), r()));
	paths("U(m,m,r,r)", &|| (m(), m(), r(), r()));
	// arrays 0..4
	paths("A()", &|| -> [Mutex<D>; 0] { [] });
	paths("A(m)", &|| [m()]);
	paths("A(r,r)", &|| [r(), r()]);
	paths("A(m,m,m)", &|| [m(), m(), m()]);
	paths("A(r,r,r,r)", &|| [r(), r(), r(), r()]);
	// Vec 0..4
	paths("V()", &|| -> Vec<Mutex<D>> { vec![] });
	paths("V(m)", &|| vec![m()]);
	paths("V(r,r)", &|| vec![r(), r()]);
	paths("V(m,m,m)", &|| vec![m(), m(), m()]);
	paths("V(r,r,r,r)", &|| vec![r(), r(), r(), r()]);
	// boxed slices 0..4
	paths("X()", &|| -> Box<[RwLock<D>]> { Vec::new().into_boxed_slice() });
	paths("X(m)", &|| vec![m()].into_boxed_slice());
	paths("X(r,r)", &|| vec![r(), r()].into_boxed_slice());
	paths("X(m,m,m)", &|| vec![m(), m(), m()].into_boxed_slice());
	paths("X(r,r,r,r)", &|| vec![r(), r(), r(), r()].into_boxed_slice());
	// nested
	paths("U(V(m,m),A(r,r))", &|| (vec![m(), m()], [r(), r()]));
	paths("V(U(m,r),U(m,r))", &|| vec![(m(), r()), (m(), r())]);
	paths("U(O(V(m,m)),m)", &|| (OwnedLockCollection::new(vec![m(), m()]), m()));
	paths("U(T(A(r,r)),X(m,m,m))", &|| (RetryingLockCollection::new([r(), r()]), vec![m(), m(), m()].into_boxed_slice()));
	paths("A(P(m),P(m))", &|| [Poisonable::new(m()), Poisonable::new(m())]);

	// a checked constructor that REJECTS its input must still drop what the input owns
	reset();
	{
		let shared = Mutex::new(fresh()); // payload 0, owned by this frame
		let r = BoxedLockCollection::try_new((Mutex::new(fresh()), &shared, &shared));
		assert!(r.is_none());
		report("U(m,&s,&s)", "boxed.try_new.reject(before owner drop)", &[]);
		let r2 = RetryingLockCollection::try_new((Mutex::new(fresh()), &shared, &shared));
		assert!(r2.is_none());
		drop(r2);
		report("U(m,&s,&s)", "retry.try_new.reject(before owner drop)", &[]);
		let t = (Mutex::new(fresh()), &shared, &shared);
		let r3 = RefLockCollection::try_new(&t);
		assert!(r3.is_none());
		drop(t);
		report("U(m,&s,&s)", "ref.try_new.reject(before owner drop)", &[]);
	}
	report("U(m,&s,&s)", "after owner drop", &[]);

	// into_iter / extend / FromIterator
	reset();
	{
		let c = BoxedLockCollection::new(vec![m(), m(), m()]);
		let v: Vec<u64> = c.into_iter().map(|x| x.into_inner().1).collect();
		report("V(m,m,m)", "boxed.into_iter", &v);
	}
	reset();
	{
		let mut c = OwnedLockCollection::new(vec![m(), m()]);
		c.extend(vec![m(), m()]);
		let inner = c.into_inner();
		let mut v = Vec::new();
		inner.vals(&mut v);
		drop(inner);
		report("V(m,m)+V(m,m)", "owned.extend+into_inner", &v);
	}
	reset();
	{
		let mut c = RetryingLockCollection::new(vec![r(), r()]);
		c.extend(vec![r()]);
		let v: Vec<u64> = c.into_iter().map(|x| x.into_inner().1).collect();
		report("V(r,r)+V(r)", "retry.extend+into_iter", &v);
	}
	reset();
	{
		let c: BoxedLockCollection<Vec<Mutex<D>>> = (0..3).map(|_| m()).collect();
		let o: OwnedLockCollection<Vec<Mutex<D>>> = (0..2).map(|_| m()).collect();
		let inner = (c.into_inner(), o.into_inner());
		let mut v = Vec::new();
		inner.vals(&mut v);
		drop(inner);
		report("V(m,m,m)+V(m,m)", "from_iter+into_inner", &v);
	}
	// last write under a lock is what into_inner returns, at the declared position
	reset();
	{
		let key = ThreadKey::get().unwrap();
		let c = BoxedLockCollection::new((m(), vec![r(), r()], [m(), m()]));
		let mut g = c.lock(key);
		g.0 .1 = 7;
		g.1[1].1 = 8;
		g.2[0].1 = 9;
		let key = BoxedLockCollection::<(Mutex<D>, Vec<RwLock<D>>, [Mutex<D>; 2])>::unlock(g);
		let inner = c.into_inner();
		let mut v = Vec::new();
		inner.vals(&mut v);
		drop(inner);
		drop(key);
		report("U(m,V(r,r),A(m,m))", "boxed.lock+write(0:=7,2:=8,3:=9)+into_inner", &v);
	}
	reset();
	{
		let mut key = ThreadKey::get().unwrap();
		let c = RetryingLockCollection::new(vec![m(), m(), m()]);
		c.scoped_lock(&mut key, |d| {
			d[2].1 = 5;
			d[0].1 = 6;
		});
		let p = Poisonable::new(m());
		p.scoped_lock(&mut key, |d| d.unwrap().1 = 4);
		let inner = (c.into_inner(), p.into_inner());
		let mut v = Vec::new();
		inner.vals(&mut v);
		drop(inner);
		report("V(m,m,m)+P(m)", "retry.scoped+poisonable.scoped write(2:=5,0:=6,3:=4)", &v);
	}
}
