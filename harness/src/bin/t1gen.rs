//! t1gen <family> <tier> <seed> <outdir>
//! Enumerates the cases of a family, runs each against the real code (script DFS), and writes
//! <outdir>/<family>.cases, <family>.impl (one transcript per case, same order), <family>.stats.json
use std::io::Write;

use hlv_harness::case::{Api, Case, Exit, Expr, Step, Stmt};
use hlv_harness::gen::*;

struct Out {
	cases: std::io::BufWriter<std::fs::File>,
	imp: std::io::BufWriter<std::fs::File>,
	stats: Stats,
	unknown_addr: usize,
}
impl Out {
	fn emit(&mut self, c: &Case, r: &hlv_harness::interp::RunResult) {
		writeln!(self.cases, "{}", c.text()).unwrap();
		writeln!(self.imp, "{}", r.transcript).unwrap();
		self.stats.record(c, &r.transcript);
		self.unknown_addr += r.unknown_addr;
	}
}

fn free_all(h: &[u8]) -> bool {
	h.iter().all(|x| *x == b'F')
}

fn kinds_menu(n: usize, quick: bool) -> Vec<Vec<bool>> {
	// all mutexes, all rwlocks, and (n>=2) alternating
	let mut v = vec![vec![false; n], vec![true; n]];
	if n >= 2 && !quick {
		v.push((0..n).map(|i| i % 2 == 0).collect());
	}
	v
}

fn perms_menu(n: usize, quick: bool, rng: &mut Rng) -> Vec<Vec<usize>> {
	let all = permutations(n);
	if n <= 3 && !(quick && n == 3) {
		return all;
	}
	// identity, reverse and two seeded ones
	let mut out = vec![all[0].clone(), all[all.len() - 1].clone()];
	for _ in 0..2 {
		out.push(all[rng.below(all.len())].clone());
	}
	out.dedup();
	out
}

fn base(id: String, n: usize, perm: &[usize], colls: &[Expr], held: &[u8], prog: Vec<Stmt>) -> Case {
	Case {
		id,
		n,
		addr: perm.iter().map(|p| 2 * p).collect(),
		colls: colls.to_vec(),
		held: held.to_vec(),
		prog,
		script: vec![],
	}
}

fn main() {
	hlv_harness::silence_panics();
	let a: Vec<String> = std::env::args().collect();
	let family = a[1].as_str();
	let quick = a[2] == "quick";
	let seed: u64 = a[3].parse().unwrap_or(1);
	let outdir = &a[4];
	std::fs::create_dir_all(outdir).unwrap();
	let mut rng = Rng(seed.wrapping_mul(0x9E3779B97F4A7C15) | 1);
	let mk = |ext: &str| {
		std::io::BufWriter::new(std::fs::File::create(format!("{outdir}/{family}.{ext}")).unwrap())
	};
	let mut out = Out { cases: mk("cases"), imp: mk("impl"), stats: Stats::new(), unknown_addr: 0 };
	let maxn = if quick { 3 } else { 4 };
	let depth = if quick { 1 } else { 2 };
	let mut bi = 0usize;
	let mut sink_runs = 0usize;

	match family {
		// every acquiring API on every shape, fault-free, with refusals (retry rounds)
		"acq" | "fault" | "panic" => {
			for n in 1..=maxn {
				for kinds in kinds_menu(n, quick) {
					let rw_all = kinds.iter().all(|k| *k);
					for perm in perms_menu(n, quick, &mut rng) {
						for (_name, colls) in shape_menu(n, &kinds, depth) {
							let tgt = colls.len() - 1;
							let modes: &[bool] = if rw_all { &[true, false] } else { &[true] };
							for &write in modes {
								let helds = match family {
									"acq" => held_patterns(n, &kinds, n <= 2 || !quick && n <= 3),
									_ => held_patterns(n, &kinds, false),
								};
								for held in helds {
									let mut progs: Vec<(Vec<Stmt>, Budget)> = Vec::new();
									// every session also probes ThreadKey::get() while holding
									let body_rw = if write {
										vec![Step::Write(0, 7), Step::Read(0), Step::GetKey]
									} else {
										vec![Step::Read(0), Step::GetKey]
									};
									match family {
										"acq" => {
											let b = Budget { refusals: if quick { 2 } else { 3 }, faults: 0, max_runs: 400 };
											for (api, exits) in [
												(Api::Lock, vec![Exit::Drop, Exit::Unlock]),
												(Api::Try, vec![Exit::Drop]),
												(Api::Scoped, vec![Exit::Ret]),
												(Api::ScopedTry, vec![Exit::Ret]),
											] {
												for e in exits {
													let scoped = matches!(api, Api::Scoped | Api::ScopedTry);
													progs.push((
														vec![Stmt::Get, session(tgt, api, write, true, body_rw.clone(), e), Stmt::Get],
														b,
													));
													if scoped && held.iter().all(|h| *h == b'F') {
														progs.push((
															vec![Stmt::Get, session(tgt, api, write, false, vec![], e), Stmt::Get],
															Budget { refusals: 1, faults: 0, max_runs: 50 },
														));
													}
												}
											}
										}
										"fault" => {
											let b = Budget { refusals: if quick { 1 } else { 2 }, faults: 1, max_runs: 2000 };
											for (api, e) in [
												(Api::Lock, Exit::Drop),
												(Api::Lock, Exit::Unlock),
												(Api::Try, Exit::Drop),
												(Api::Scoped, Exit::Ret),
												(Api::ScopedTry, Exit::Ret),
											] {
												progs.push((
													vec![Stmt::Get, session(tgt, api, write, true, vec![], e), Stmt::Get],
													b,
												));
											}
										}
										_ => {
											let b = Budget { refusals: 1, faults: 0, max_runs: 200 };
											for (api, owned) in [
												(Api::Lock, true),
												(Api::Try, true),
												(Api::Scoped, true),
												(Api::Scoped, false),
												(Api::ScopedTry, true),
												(Api::ScopedTry, false),
											] {
												if held.iter().any(|h| *h != b'F') && !matches!(api, Api::Lock | Api::Scoped) {
													continue;
												}
												progs.push((
													vec![
														Stmt::Get,
														session(tgt, api, write, owned, body_rw.clone(), Exit::Panic),
														Stmt::Get,
													],
													b,
												));
											}
										}
									}
									for (prog, b) in progs {
										let c = base(format!("{family}{bi}"), n, &perm, &colls, &held, prog);
										bi += 1;
										sink_runs += explore(&c, b, &mut |c, r| out.emit(c, r));
									}
								}
							}
						}
					}
				}
			}
		}
		// quiescent try exactness (C13): every assignment of {free, read-held, write-held by another
		// thread} to the leaves x every shape x both modes; each attempt is made twice (a failed
		// attempt must leave the table as it was, a successful one must be undone by the guard drop),
		// through try_lock/try_read and scoped_try_lock/scoped_try_read
		"quiet" => {
			let maxn = if quick { 3 } else { 4 };
			for n in 0..=maxn {
				let kmenu = if n == 0 { vec![vec![]] } else { kinds_menu(n, false) };
				for kinds in kmenu {
					let rw_all = kinds.iter().all(|k| *k);
					for perm in perms_menu(n, quick || n == 4, &mut rng) {
						let shapes = if n == 0 {
							let e = || Box::new(Expr::V(vec![]));
							vec![
								("B".to_string(), vec![Expr::B(e())]),
								("F".to_string(), vec![Expr::F(e())]),
								("T".to_string(), vec![Expr::T(e())]),
								("O".to_string(), vec![Expr::O(1, e())]),
							]
						} else {
							shape_menu(n, &kinds, if n == 4 && quick { 1 } else { 2 })
						};
						for (_name, colls) in shapes {
							let tgt = colls.len() - 1;
							let modes: &[bool] = if rw_all { &[true, false] } else { &[true] };
							for &write in modes {
								for held in held_patterns(n, &kinds, true) {
									for api in [Api::Try, Api::ScopedTry] {
										let e = if matches!(api, Api::Try) { Exit::Drop } else { Exit::Ret };
										let prog = vec![
											Stmt::Get,
											session(tgt, api, write, true, vec![], e),
											session(tgt, api, write, true, vec![], e),
											Stmt::Get,
										];
										let c = base(format!("{family}{bi}"), n, &perm, &colls, &held, prog);
										bi += 1;
										sink_runs += explore(&c, Budget { refusals: 0, faults: 0, max_runs: 1 }, &mut |c, r| out.emit(c, r));
									}
								}
							}
						}
					}
				}
			}
		}
		// acquisition order: every constructor (try_new, new, new_ref) of every sorting collection,
		// every listing permutation x every address permutation, nested members, owned groups as
		// units, both modes; two collections over the same locks in one program
		"order" => {
			let maxn = if quick { 3 } else { 4 };
			for n in 2..=maxn {
				for kinds in [vec![false; n], vec![true; n]] {
					let rw_all = kinds[0];
					let l = |i: usize| if kinds[i] { Expr::R(i) } else { Expr::M(i) };
					for perm in permutations(n) {
						for listing in permutations(n) {
							if !quick || n <= 2 || rng.chance(1, 2) {
								let members: Vec<Expr> = listing.iter().map(|i| l(*i)).collect();
								let v = Expr::V(members.clone());
								let bx = |e: Expr| Box::new(e);
								let mut menus: Vec<Vec<Expr>> = vec![
									vec![Expr::B(bx(v.clone()))],
									vec![Expr::F(bx(v.clone()))],
									vec![Expr::Bn(0, bx(v.clone()))],
									vec![Expr::Bn(1, bx(v.clone()))],
									vec![Expr::Fn(bx(v.clone()))],
									vec![Expr::Tn(0, bx(v.clone()))],
									vec![Expr::Tn(1, bx(v.clone()))],
									// nested: a retrying / boxed member contributes its leaves to the outer sort
									vec![Expr::B(bx(Expr::V(vec![
										Expr::Tn(0, bx(Expr::V(members[..n - 1].to_vec()))),
										members[n - 1].clone(),
									])))],
									vec![Expr::Fn(bx(Expr::V(vec![
										members[0].clone(),
										Expr::Bn(0, bx(Expr::V(members[1..].to_vec()))),
									])))],
									// an owned group is one unit (address below all leaves / above all)
									vec![Expr::B(bx(Expr::V(vec![
										Expr::O(2 * n + 1, bx(Expr::V(members[..n - 1].to_vec()))),
										members[n - 1].clone(),
									])))],
									vec![Expr::Fn(bx(Expr::V(vec![
										members[0].clone(),
										Expr::O(1, bx(Expr::V(members[1..].to_vec()))),
									])))],
								];
								// two sorting collections over the same locks, listed differently
								let rev: Vec<Expr> = members.iter().rev().cloned().collect();
								menus.push(vec![Expr::B(bx(v.clone())), Expr::Fn(bx(Expr::V(rev)))]);
								for colls in menus {
									let modes: &[bool] = if rw_all { &[true, false] } else { &[true] };
									for &write in modes {
										let mut prog = vec![Stmt::Get];
										for c in 0..colls.len() {
											prog.push(session(c, Api::Lock, write, true, vec![], Exit::Unlock));
											prog.push(session(c, Api::Scoped, write, false, vec![], Exit::Ret));
										}
										let c = base(format!("{family}{bi}"), n, &perm, &colls, &vec![b'F'; n], prog);
										bi += 1;
										sink_runs += explore(&c, Budget { refusals: 0, faults: 0, max_runs: 1 }, &mut |c, r| out.emit(c, r));
									}
								}
							}
						}
					}
				}
			}
		}
		// checked constructors: every member list of length 0..L over n leaves (repetitions
		// allowed: the duplicate pair at every pair of positions), plus members that are wrappers
		// or references to collections that already contain some of the leaves
		"trynew" => {
			let (n, maxlen) = if quick { (3usize, 4usize) } else { (4, 5) };
			let pre = vec![
				Expr::B(Box::new(Expr::V(vec![Expr::M(0), Expr::M(1)]))),
				Expr::T(Box::new(Expr::V(vec![Expr::M(1), Expr::M(2)]))),
				Expr::O(9, Box::new(Expr::V(vec![Expr::M(n)]))),
			];
			let mut alpha: Vec<Expr> = (0..n).map(Expr::M).collect();
			alpha.push(Expr::C(0));
			alpha.push(Expr::C(1));
			alpha.push(Expr::C(2));
			alpha.push(Expr::P(7, Box::new(Expr::M(2))));
			alpha.push(Expr::V(vec![Expr::M(0), Expr::M(n - 1)]));
			let mut lists: Vec<Vec<usize>> = vec![vec![]];
			let mut frontier: Vec<Vec<usize>> = vec![vec![]];
			for len in 1..=maxlen {
				let mut nxt = Vec::new();
				for l in &frontier {
					// beyond length 3 only leaf members are enumerated exhaustively
					let width = if len <= 3 { alpha.len() } else { n };
					for a in 0..width {
						let mut l2 = l.clone();
						l2.push(a);
						nxt.push(l2);
					}
				}
				lists.extend(nxt.iter().cloned());
				frontier = nxt;
			}
			let perms = permutations(n + 1);
			for (li, l) in lists.iter().enumerate() {
				let members: Vec<Expr> = l.iter().map(|i| alpha[*i].clone()).collect();
				let prog: Vec<Stmt> =
					[b'B', b'F', b'T'].iter().map(|k| Stmt::TryNew(*k, Expr::V(members.clone()))).collect();
				let perm = &perms[(li * 7 + seed as usize) % perms.len()];
				let c = base(format!("{family}{bi}"), n + 1, perm, &pre, &vec![b'F'; n + 1], prog);
				bi += 1;
				sink_runs += explore(&c, Budget { refusals: 0, faults: 0, max_runs: 1 }, &mut |c, r| out.emit(c, r));
			}
			// histories on one thread: a constructor call must not depend on earlier calls (a rejected
			// input followed by a duplicate-free one sharing a lock with it, and the other way round)
			let rejected: Vec<Vec<usize>> = vec![vec![0, 0], vec![0, 1, 0], vec![1, 0, 0], vec![2, 1, 2]];
			let accepted: Vec<Vec<usize>> = vec![vec![0], vec![0, 1], vec![1, 2], vec![2, 0, 1]];
			for (ri, rj) in rejected.iter().enumerate() {
				for (ai, aj) in accepted.iter().enumerate() {
					let mk = |l: &Vec<usize>| Expr::V(l.iter().map(|i| Expr::M(*i)).collect());
					let mut prog: Vec<Stmt> = Vec::new();
					for k in [b'T', b'B', b'F'] {
						prog.push(Stmt::TryNew(k, mk(aj)));
						prog.push(Stmt::TryNew(k, mk(rj)));
						prog.push(Stmt::TryNew(k, mk(aj)));
						prog.push(Stmt::TryNew(k, mk(rj)));
					}
					let perm = &perms[(ri * 5 + ai * 3 + seed as usize) % perms.len()];
					let c = base(format!("{family}{bi}"), n + 1, perm, &pre, &vec![b'F'; n + 1], prog);
					bi += 1;
					sink_runs += explore(&c, Budget { refusals: 0, faults: 0, max_runs: 1 }, &mut |c, r| out.emit(c, r));
				}
			}
		}
		// data routing and continuity: write distinct values through every position of a collection
		// (every kind, listing and address permutation, nesting), then read every lock back singly
		// and through another collection; values must follow the declared positions
		"route" => {
			let maxn = if quick { 3 } else { 4 };
			for n in 2..=maxn {
				for rw in [false, true] {
					let kinds = vec![rw; n];
					let l = |i: usize| if rw { Expr::R(i) } else { Expr::M(i) };
					for perm in permutations(n) {
						for listing in permutations(n) {
							if quick && n == 3 && !rng.chance(1, 3) {
								continue;
							}
							let members: Vec<Expr> = listing.iter().map(|i| l(*i)).collect();
							let bx = |e: Expr| Box::new(e);
							let vm = Expr::V(members.clone());
							let nested = Expr::V(vec![
								Expr::V(vec![members[0].clone()]),
								Expr::P(0, bx(Expr::T(bx(Expr::V(members[1..].to_vec()))))),
							]);
							for top in [
								Expr::B(bx(vm.clone())),
								Expr::Fn(bx(vm.clone())),
								Expr::T(bx(vm.clone())),
								Expr::O(2 * n + 1, bx(vm.clone())),
								Expr::B(bx(nested.clone())),
								Expr::T(bx(nested.clone())),
							] {
								let mut colls: Vec<Expr> = (0..n).map(l).collect(); // c0..c(n-1): single locks
								colls.push(top.clone()); // c_n
								let is_owned = matches!(top, Expr::O(..));
								let writes: Vec<Step> = (0..n).map(|p| Step::Write(p, 10 + p as u64)).collect();
								let reads: Vec<Step> = (0..n).map(Step::Read).collect();
								let mut prog = vec![Stmt::Get];
								prog.push(session(n, Api::Lock, true, true, writes.clone(), Exit::Unlock));
								if !is_owned {
									for x in 0..n {
										prog.push(session(x, Api::Scoped, !rw, false, vec![Step::Read(0)], Exit::Ret));
									}
								}
								prog.push(session(n, Api::Scoped, true, false, {
									let mut b = reads.clone();
									b.extend((0..n).map(|p| Step::Write(p, 20 + p as u64)));
									b
								}, Exit::Ret));
								if rw {
									prog.push(session(n, Api::Lock, false, true, reads.clone(), Exit::Drop));
								} else if !is_owned {
									for x in 0..n {
										prog.push(session(x, Api::Try, true, true, vec![Step::Read(0)], Exit::Unlock));
									}
								}
								let c = base(format!("{family}{bi}"), n, &perm, &colls, &vec![b'F'; n], prog);
								bi += 1;
								let _ = &kinds;
								sink_runs += explore(&c, Budget { refusals: 0, faults: 0, max_runs: 1 }, &mut |c, r| out.emit(c, r));
							}
						}
					}
				}
			}
		}
		// non-acquiring operations (Debug, is_poisoned, clear_poison) in every hold state: locks held
		// by another thread, by the caller through a live guard or a running closure, or free;
		// with one-shot faults inside Debug's try/unlock
		"nonacq" => {
			for n in 1..=maxn.min(3) {
				for kinds in kinds_menu(n, quick) {
					let rw_all = kinds.iter().all(|k| *k);
					for perm in perms_menu(n, true, &mut rng) {
						for (_name, colls) in shape_menu(n, &kinds, depth) {
							let tgt = colls.len() - 1;
							for held in held_patterns(n, &kinds, n <= 2) {
								let free = held.iter().all(|h| *h == b'F');
								let mut progs: Vec<Vec<Stmt>> = vec![vec![Stmt::Dbg(tgt, None), Stmt::IsPoisoned(tgt)]];
								// the payload's own Debug impl panics at leaf x (user code inside a non-acquiring call)
								for x in 0..n {
									progs.push(vec![Stmt::Dbg(tgt, Some(x)), Stmt::Dbg(tgt, None), Stmt::Get, session(tgt, Api::Try, true, true, vec![], Exit::Drop)]);
									// the payload's Debug returns Err(fmt::Error) instead of panicking
									progs.push(vec![Stmt::Dbg(tgt, Some(x + 1000)), Stmt::Dbg(tgt, None), Stmt::Get, session(tgt, Api::Try, true, true, vec![], Exit::Drop)]);
									if free_all(&held) && rw_all {
										progs.push(vec![
											Stmt::Get,
											session(tgt, Api::Lock, false, true, vec![Step::Dbg(tgt, Some(x)), Step::Read(0)], Exit::Drop),
											Stmt::Dbg(tgt, None),
											Stmt::Get,
										]);
										progs.push(vec![
											Stmt::Get,
											session(tgt, Api::Scoped, false, false, vec![Step::Dbg(tgt, Some(x))], Exit::Ret),
											Stmt::Dbg(tgt, None),
										]);
									}
								}
								if free {
									for c in 0..colls.len() {
										progs.push(vec![
											Stmt::Get,
											session(tgt, Api::Lock, true, true, vec![Step::Dbg(c, None), Step::Read(0), Step::IsPoisoned(tgt)], Exit::Drop),
											Stmt::Dbg(c, None),
										]);
										progs.push(vec![
											Stmt::Get,
											session(tgt, Api::Scoped, true, false, vec![Step::Dbg(c, None), Step::Write(0, 9), Step::Dbg(c, None)], Exit::Ret),
											Stmt::ClearPoison(tgt),
											Stmt::Dbg(c, None),
										]);
										if rw_all {
											progs.push(vec![
												Stmt::Get,
												session(tgt, Api::Lock, false, true, vec![Step::Dbg(c, None), Step::Read(0)], Exit::Unlock),
												session(tgt, Api::ScopedTry, false, false, vec![Step::Dbg(c, None)], Exit::Ret),
											]);
										}
									}
								}
								for prog in progs {
									let c = base(format!("{family}{bi}"), n, &perm, &colls, &held, prog);
									bi += 1;
									// a transiently refused try inside Debug (another thread's reader/writer queue): still no waiting
									let b = Budget { refusals: 1, faults: 1, max_runs: 400 };
									sink_runs += explore(&c, b, &mut |c, r| out.emit(c, r));
								}
							}
						}
					}
				}
			}
		}
		// poisoning histories: holds on a Poisonable through its own guard / scoped call and through
		// the guard / scoped call of every collection kind containing it, in both modes, ending
		// normally or by a user panic; is_poisoned and clear_poison in between
		"poison" => {
			let colls = vec![
				Expr::P(0, Box::new(Expr::R(0))),
				Expr::B(Box::new(Expr::V(vec![Expr::C(0), Expr::R(1)]))),
				Expr::T(Box::new(Expr::V(vec![Expr::R(1), Expr::C(0)]))),
				Expr::O(5, Box::new(Expr::V(vec![Expr::P(1, Box::new(Expr::M(2)))]))),
				Expr::P(2, Box::new(Expr::F(Box::new(Expr::V(vec![Expr::R(3)]))))),
			];
			let mut alpha: Vec<Stmt> = Vec::new();
			for c in 0..colls.len() {
				let modes: &[bool] = if c == 3 { &[true] } else { &[true, false] };
				for &w in modes {
					for e in [Exit::Drop, Exit::Panic] {
						alpha.push(session(c, Api::Lock, w, true, vec![], e));
					}
					for e in [Exit::Ret, Exit::Panic] {
						alpha.push(session(c, Api::Scoped, w, false, vec![], e));
					}
					alpha.push(session(c, Api::ScopedTry, w, false, vec![], Exit::Panic));
					alpha.push(session(c, Api::Try, w, true, vec![], Exit::Panic));
				}
			}
			// clear_poison while the (possibly Err) guard / closure is alive, then a normal or panicking end
			for (c, pc) in [(0usize, 0usize), (1, 0), (4, 4)] {
				for e in [Exit::Drop, Exit::Panic] {
					alpha.push(session(c, Api::Lock, true, true, vec![Step::ClearPoison(pc), Step::IsPoisoned(pc)], e));
				}
				alpha.push(session(c, Api::Scoped, true, false, vec![Step::ClearPoison(pc)], Exit::Panic));
			}
			let probes = vec![Stmt::IsPoisoned(0), Stmt::ClearPoison(0), Stmt::IsPoisoned(4), Stmt::ClearPoison(4)];
			let maxlen = if quick { 2 } else { 3 };
			let mut seqs: Vec<Vec<usize>> = vec![vec![]];
			let mut all: Vec<Vec<usize>> = Vec::new();
			for _ in 0..maxlen {
				let mut nxt = Vec::new();
				for s in &seqs {
					for a in 0..alpha.len() + probes.len() {
						let mut s2 = s.clone();
						s2.push(a);
						nxt.push(s2);
					}
				}
				all.extend(nxt.iter().cloned());
				seqs = nxt;
			}
			for _ in 0..(if quick { 3000 } else { 30000 }) {
				let len = 3 + rng.below(if quick { 4 } else { 6 });
				all.push((0..len).map(|_| rng.below(alpha.len() + probes.len())).collect());
			}
			for sq in all {
				let mut prog: Vec<Stmt> = Vec::new();
				for i in &sq {
					// a session that consumed its key is followed by a fresh `get`
					prog.push(Stmt::Get);
					prog.push(if *i < alpha.len() { alpha[*i].clone() } else { probes[*i - alpha.len()].clone() });
				}
				prog.push(Stmt::IsPoisoned(0));
				prog.push(Stmt::IsPoisoned(4));
				let c = Case {
					id: format!("{family}{bi}"),
					n: 4,
					addr: vec![0, 2, 4, 6],
					colls: colls.clone(),
					held: b"FFFF".to_vec(),
					prog,
					script: vec![],
				};
				bi += 1;
				sink_runs += explore(&c, Budget { refusals: 0, faults: 0, max_runs: 1 }, &mut |c, r| out.emit(c, r));
			}
		}
		// everything again, called from a destructor while the thread is already unwinding from an
		// unrelated panic (`thread::panicking()` is true throughout; inner panics are caught inside
		// the destructor): every API x exit on small shapes, key probes before / inside / after,
		// poisoning, two sessions in a row; and, with non-panicking exits, one raw-lock fault
		"unwind" => {
			for n in 1..=2usize {
				for kinds in kinds_menu(n, true) {
					let rw_all = kinds.iter().all(|k| *k);
					let perm: Vec<usize> = (0..n).rev().collect();
					let mut held = vec![b'F'; n];
					held.push(b'!');
					for (_name, colls) in shape_menu(n, &kinds, 1) {
						let tgt = colls.len() - 1;
						let modes: &[bool] = if rw_all { &[true, false] } else { &[true] };
						for &write in modes {
							let body = if write { vec![Step::Write(0, 7), Step::GetKey] } else { vec![Step::Read(0), Step::GetKey] };
							let mut sess: Vec<Stmt> = Vec::new();
							for (api, exits) in [
								(Api::Lock, vec![Exit::Drop, Exit::Unlock, Exit::Panic]),
								(Api::Try, vec![Exit::Drop, Exit::Panic]),
								(Api::Scoped, vec![Exit::Ret, Exit::Panic]),
								(Api::ScopedTry, vec![Exit::Ret, Exit::Panic]),
							] {
								for e in exits {
									let scoped = matches!(api, Api::Scoped | Api::ScopedTry);
									sess.push(session(tgt, api, write, true, body.clone(), e));
									if scoped {
										sess.push(session(tgt, api, write, false, body.clone(), e));
									}
								}
							}
							for (i, s1) in sess.iter().enumerate() {
								// one session, with key probes around it and the flag read afterwards
								let prog = vec![Stmt::Get, Stmt::Get, s1.clone(), Stmt::Get, Stmt::IsPoisoned(tgt), Stmt::Dbg(tgt, None)];
								let c = base(format!("{family}{bi}"), n, &perm, &colls, &held, prog);
								bi += 1;
								sink_runs += explore(&c, Budget { refusals: 1, faults: 0, max_runs: 20 }, &mut |c, r| out.emit(c, r));
								// a second session on what the first one left behind
								let s2 = &sess[(i * 7 + 3) % sess.len()];
								let prog = vec![Stmt::Get, s1.clone(), Stmt::Get, s2.clone(), Stmt::Get, Stmt::IsPoisoned(tgt)];
								let c = base(format!("{family}{bi}"), n, &perm, &colls, &held, prog);
								bi += 1;
								sink_runs += explore(&c, Budget { refusals: 0, faults: 0, max_runs: 1 }, &mut |c, r| out.emit(c, r));
								// one raw-lock fault (only where nothing else panics: a second panic in cleanup
								// code would abort, which cannot be told apart here)
								let non_panicking = match s1 {
									Stmt::Ses(x) => !matches!(x.exit, Exit::Panic),
									_ => false,
								};
								if non_panicking {
									let prog = vec![Stmt::Get, s1.clone(), Stmt::Get];
									let c = base(format!("{family}{bi}"), n, &perm, &colls, &held, prog);
									bi += 1;
									sink_runs += explore(&c, Budget { refusals: 0, faults: 1, max_runs: 60 }, &mut |c, r| out.emit(c, r));
								}
							}
						}
					}
				}
			}
		}
		// single-thread histories over the key-affecting vocabulary (C06, C03) on a tiny world:
		// m0 free, m1 write-held by another thread (so that try fails), P0(m0)
		"hist" => {
			let colls = vec![Expr::M(0), Expr::M(1), Expr::B(Box::new(Expr::V(vec![Expr::C(0)]))), Expr::P(0, Box::new(Expr::R(2)))];
			let mut alpha: Vec<Stmt> = vec![Stmt::Get, Stmt::DropKey, Stmt::ForgetKey];
			for (c, apis) in [
				(0usize, vec![Api::Lock, Api::Try, Api::Scoped, Api::ScopedTry]),
				(1, vec![Api::Try, Api::ScopedTry]),
				(2, vec![Api::Lock, Api::Try, Api::Scoped, Api::ScopedTry]),
				(3, vec![Api::Lock, Api::ScopedTry]),
			] {
				for api in apis {
					let scoped = matches!(api, Api::Scoped | Api::ScopedTry);
					if scoped {
						for owned in [true, false] {
							for e in [Exit::Ret, Exit::Panic] {
								alpha.push(session(c, api, true, owned, vec![Step::GetKey], e));
							}
						}
					} else {
						for e in [Exit::Drop, Exit::Unlock, Exit::Forget, Exit::Panic] {
							if e == Exit::Forget && c != 0 {
								continue;
							}
							alpha.push(session(c, api, true, true, vec![Step::GetKey], e));
						}
					}
				}
			}
			let maxlen = if quick { 3 } else { 4 };
			let mut seqs: Vec<Vec<usize>> = vec![vec![]];
			let mut all: Vec<Vec<usize>> = Vec::new();
			for _ in 0..maxlen {
				let mut nxt = Vec::new();
				for s in &seqs {
					for a in 0..alpha.len() {
						let mut s2 = s.clone();
						s2.push(a);
						nxt.push(s2);
					}
				}
				all.extend(nxt.iter().cloned());
				seqs = nxt;
			}
			// plus seeded long histories
			for _ in 0..(if quick { 2000 } else { 20000 }) {
				let len = 5 + rng.below(if quick { 4 } else { 6 });
				all.push((0..len).map(|_| rng.below(alpha.len())).collect());
			}
			for sq in all {
				let prog: Vec<Stmt> = sq.iter().map(|i| alpha[*i].clone()).collect();
				let c = Case {
					id: format!("{family}{bi}"),
					n: 3,
					addr: vec![0, 2, 4],
					colls: colls.clone(),
					held: b"FWF".to_vec(),
					prog,
					script: vec![],
				};
				bi += 1;
				sink_runs += explore(&c, Budget { refusals: 0, faults: 0, max_runs: 1 }, &mut |c, r| out.emit(c, r));
			}
		}
		_ => {
			eprintln!("unknown family {family}");
			std::process::exit(2);
		}
	}
	out.cases.flush().unwrap();
	out.imp.flush().unwrap();
	let s = &out.stats;
	let dist: Vec<String> = s.dist.iter().map(|(k, v)| format!("\"{k}\": {v}")).collect();
	let samples: Vec<String> =
		s.samples.iter().map(|x| format!("\"{}\"", x.replace('\\', "\\\\").replace('"', "\\\""))).collect();
	let mut f = std::fs::File::create(format!("{outdir}/{family}.stats.json")).unwrap();
	writeln!(
		f,
		"{{\"family\": \"{family}\", \"base_cases\": {bi}, \"evaluations\": {}, \"distinct\": {}, \"distinct_nontrivial\": {}, \"unknown_addr\": {}, \"runs\": {sink_runs}, \"distribution\": {{{}}}, \"samples\": [{}]}}",
		s.evaluations,
		s.distinct.len(),
		s.nontrivial,
		out.unknown_addr,
		dist.join(", "),
		samples.join(", ")
	)
	.unwrap();
}
