//! t1gen <family> <tier> <seed> <outdir>
//! Enumerates the cases of a family, runs each against the real code (script DFS), and writes
//! <outdir>/<family>.cases, <family>.impl (one transcript per case, same order), <family>.stats.json
use std::io::Write;

use hlv_harness::case::{Api, Case, Exit, Expr, Step, Stmt};
use hlv_harness::gen::*;

struct Out {
	cases: std::io::BufWriter<std::fs::File>,
	imp: std::io::BufWriter<std::fs::File>,
	stats: Stats,
	unknown_addr: usize,
}
impl Out {
	fn emit(&mut self, c: &Case, r: &hlv_harness::interp::RunResult) {
		writeln!(self.cases, "{}", c.text()).unwrap();
		writeln!(self.imp, "{}", r.transcript).unwrap();
		self.stats.record(c, &r.transcript);
		self.unknown_addr += r.unknown_addr;
	}
}

fn kinds_menu(n: usize, quick: bool) -> Vec<Vec<bool>> {
	// all mutexes, all rwlocks, and (n>=2) alternating
	let mut v = vec![vec![false; n], vec![true; n]];
	if n >= 2 && !quick {
		v.push((0..n).map(|i| i % 2 == 0).collect());
	}
	v
}

fn perms_menu(n: usize, quick: bool, rng: &mut Rng) -> Vec<Vec<usize>> {
	let all = permutations(n);
	if n <= 3 && !(quick && n == 3) {
		return all;
	}
	// identity, reverse and two seeded ones
	let mut out = vec![all[0].clone(), all[all.len() - 1].clone()];
	for _ in 0..2 {
		out.push(all[rng.below(all.len())].clone());
	}
	out.dedup();
	out
}

fn base(id: String, n: usize, perm: &[usize], colls: &[Expr], held: &[u8], prog: Vec<Stmt>) -> Case {
	Case {
		id,
		n,
		addr: perm.iter().map(|p| 2 * p).collect(),
		colls: colls.to_vec(),
		held: held.to_vec(),
		prog,
		script: vec![],
	}
}

fn main() {
	hlv_harness::silence_panics();
	let a: Vec<String> = std::env::args().collect();
	let family = a[1].as_str();
	let quick = a[2] == "quick";
	let seed: u64 = a[3].parse().unwrap_or(1);
	let outdir = &a[4];
	std::fs::create_dir_all(outdir).unwrap();
	let mut rng = Rng(seed.wrapping_mul(0x9E3779B97F4A7C15) | 1);
	let mk = |ext: &str| {
		std::io::BufWriter::new(std::fs::File::create(format!("{outdir}/{family}.{ext}")).unwrap())
	};
	let mut out = Out { cases: mk("cases"), imp: mk("impl"), stats: Stats::new(), unknown_addr: 0 };
	let maxn = if quick { 3 } else { 4 };
	let depth = if quick { 1 } else { 2 };
	let mut bi = 0usize;
	let mut sink_runs = 0usize;

	match family {
		// every acquiring API on every shape, fault-free, with refusals (retry rounds)
		"acq" | "fault" | "panic" => {
			for n in 1..=maxn {
				for kinds in kinds_menu(n, quick) {
					let rw_all = kinds.iter().all(|k| *k);
					for perm in perms_menu(n, quick, &mut rng) {
						for (_name, colls) in shape_menu(n, &kinds, depth) {
							let tgt = colls.len() - 1;
							let modes: &[bool] = if rw_all { &[true, false] } else { &[true] };
							for &write in modes {
								let helds = match family {
									"acq" => held_patterns(n, &kinds, n <= 2 || !quick && n <= 3),
									_ => held_patterns(n, &kinds, false),
								};
								for held in helds {
									let mut progs: Vec<(Vec<Stmt>, Budget)> = Vec::new();
									let body_rw =
										if write { vec![Step::Write(0, 7), Step::Read(0)] } else { vec![Step::Read(0)] };
									match family {
										"acq" => {
											let b = Budget { refusals: if quick { 2 } else { 3 }, faults: 0, max_runs: 400 };
											for (api, exits) in [
												(Api::Lock, vec![Exit::Drop, Exit::Unlock]),
												(Api::Try, vec![Exit::Drop]),
												(Api::Scoped, vec![Exit::Ret]),
												(Api::ScopedTry, vec![Exit::Ret]),
											] {
												for e in exits {
													let scoped = matches!(api, Api::Scoped | Api::ScopedTry);
													progs.push((
														vec![Stmt::Get, session(tgt, api, write, true, body_rw.clone(), e), Stmt::Get],
														b,
													));
													if scoped && held.iter().all(|h| *h == b'F') {
														progs.push((
															vec![Stmt::Get, session(tgt, api, write, false, vec![], e), Stmt::Get],
															Budget { refusals: 1, faults: 0, max_runs: 50 },
														));
													}
												}
											}
										}
										"fault" => {
											let b = Budget { refusals: if quick { 1 } else { 2 }, faults: 1, max_runs: 2000 };
											for (api, e) in [
												(Api::Lock, Exit::Drop),
												(Api::Lock, Exit::Unlock),
												(Api::Try, Exit::Drop),
												(Api::Scoped, Exit::Ret),
												(Api::ScopedTry, Exit::Ret),
											] {
												progs.push((
													vec![Stmt::Get, session(tgt, api, write, true, vec![], e), Stmt::Get],
													b,
												));
											}
										}
										_ => {
											let b = Budget { refusals: 1, faults: 0, max_runs: 200 };
											for (api, owned) in [
												(Api::Lock, true),
												(Api::Try, true),
												(Api::Scoped, true),
												(Api::Scoped, false),
												(Api::ScopedTry, true),
												(Api::ScopedTry, false),
											] {
												if held.iter().any(|h| *h != b'F') && !matches!(api, Api::Lock | Api::Scoped) {
													continue;
												}
												progs.push((
													vec![
														Stmt::Get,
														session(tgt, api, write, owned, body_rw.clone(), Exit::Panic),
														Stmt::Get,
													],
													b,
												));
											}
										}
									}
									for (prog, b) in progs {
										let c = base(format!("{family}{bi}"), n, &perm, &colls, &held, prog);
										bi += 1;
										sink_runs += explore(&c, b, &mut |c, r| out.emit(c, r));
									}
								}
							}
						}
					}
				}
			}
		}
		_ => {
			eprintln!("unknown family {family}");
			std::process::exit(2);
		}
	}
	out.cases.flush().unwrap();
	out.imp.flush().unwrap();
	let s = &out.stats;
	let dist: Vec<String> = s.dist.iter().map(|(k, v)| format!("\"{k}\": {v}")).collect();
	let samples: Vec<String> =
		s.samples.iter().map(|x| format!("\"{}\"", x.replace('\\', "\\\\").replace('"', "\\\""))).collect();
	let mut f = std::fs::File::create(format!("{outdir}/{family}.stats.json")).unwrap();
	writeln!(
		f,
		"{{\"family\": \"{family}\", \"base_cases\": {bi}, \"evaluations\": {}, \"distinct\": {}, \"distinct_nontrivial\": {}, \"unknown_addr\": {}, \"runs\": {sink_runs}, \"distribution\": {{{}}}, \"samples\": [{}]}}",
		s.evaluations,
		s.distinct.len(),
		s.nontrivial,
		out.unknown_addr,
		dist.join(", "),
		samples.join(", ")
	)
	.unwrap();
}
