//! zst — reproduces recorded finding D9 (C07) against the real crate: collections identify their
//! units by address, and zero-sized owned collections may share one address, so a duplicate-free
//! input made of two empty owned collections is rejected by the checked constructors.
//! Prints one line per constructor: `<ctor>;<Some|None>`.
use happylock::collection::{BoxedLockCollection, OwnedLockCollection, RefLockCollection, RetryingLockCollection};
use happylock::Mutex;

fn main() {
	type E = OwnedLockCollection<[Mutex<u8>; 0]>;
	let pair: (E, E) = (OwnedLockCollection::new([]), OwnedLockCollection::new([]));
	println!("ref.try_new;{}", if RefLockCollection::try_new(&pair).is_some() { "Some" } else { "None" });
	println!("retry.try_new;{}", if RetryingLockCollection::try_new(&pair).is_some() { "Some" } else { "None" });
	println!("boxed.try_new;{}", if BoxedLockCollection::try_new(&pair).is_some() { "Some" } else { "None" });
	// one empty owned collection next to an ordinary lock aliases that lock's address
	let mixed: (Mutex<u8>, E) = (Mutex::new(0), OwnedLockCollection::new([]));
	let mixed2: [(Mutex<u8>, E); 2] = [(Mutex::new(0), OwnedLockCollection::new([])), (Mutex::new(0), OwnedLockCollection::new([]))];
	println!("ref.try_new.mixed;{}", if RefLockCollection::try_new(&mixed).is_some() && RefLockCollection::try_new(&mixed2).is_some() { "Some" } else { "None" });
	// control: two non-empty owned collections never alias
	type N = OwnedLockCollection<[Mutex<u8>; 1]>;
	let pair2: (N, N) = (OwnedLockCollection::new([Mutex::new(0)]), OwnedLockCollection::new([Mutex::new(0)]));
	println!("control.ref.try_new;{}", if RefLockCollection::try_new(&pair2).is_some() { "Some" } else { "None" });
}
