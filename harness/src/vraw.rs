//! VRaw: a scriptable, auditing `lock_api` raw lock, and the per-case controller (T1 mode).
//!
//! The raw lock objects carry no state: a lock is identified by the address range of the
//! happylock object that contains it (registered when the case is built), and all state is in
//! the controller. Semantics mirror `HLV.Model.Seq.seqAnswer` exactly.

use std::cell::RefCell;
use std::collections::HashMap;

pub const ME: usize = 0;
pub const OTHER: usize = 1;

#[derive(Clone, Copy, PartialEq, Eq, Hash, Debug)]
pub enum Kind {
	LX,
	LS,
	TX,
	TS,
	UX,
	US,
}
impl Kind {
	pub fn code(self) -> &'static str {
		match self {
			Kind::LX => "LX",
			Kind::LS => "LS",
			Kind::TX => "TX",
			Kind::TS => "TS",
			Kind::UX => "UX",
			Kind::US => "US",
		}
	}
	pub fn parse(s: &str) -> Option<Kind> {
		Some(match s {
			"LX" => Kind::LX,
			"LS" => Kind::LS,
			"TX" => Kind::TX,
			"TS" => Kind::TS,
			"UX" => Kind::UX,
			"US" => Kind::US,
			_ => return None,
		})
	}
	pub fn is_try(self) -> bool {
		matches!(self, Kind::TX | Kind::TS)
	}
	pub fn is_excl(self) -> bool {
		matches!(self, Kind::LX | Kind::TX | Kind::UX)
	}
}

#[derive(Clone, Copy, PartialEq, Eq, Debug)]
pub enum Ans {
	No,
	Panic,
}

#[derive(Clone, Debug, PartialEq, Eq)]
pub struct Decision {
	pub x: usize,
	pub kind: Kind,
	pub occ: usize,
	pub ans: Ans,
}
impl Decision {
	pub fn text(&self) -> String {
		format!(
			"{}.{}.{}={}",
			self.x,
			self.kind.code(),
			self.occ,
			if self.ans == Ans::No { "n" } else { "p" }
		)
	}
}

#[derive(Clone, Default, Debug)]
pub struct LockSt {
	pub writer: Option<usize>,
	pub readers: Vec<usize>,
}
impl LockSt {
	fn free(&self) -> bool {
		self.writer.is_none() && self.readers.is_empty()
	}
	fn grantable(&self, excl: bool) -> bool {
		if excl {
			self.free()
		} else {
			self.writer.is_none()
		}
	}
	fn holds(&self, t: usize, excl: bool) -> bool {
		if excl {
			self.writer == Some(t)
		} else {
			self.readers.contains(&t)
		}
	}
	pub fn text(&self) -> String {
		match self.writer {
			Some(t) => format!("W{t}"),
			None => {
				if self.readers.is_empty() {
					"F".into()
				} else {
					let mut r = self.readers.clone();
					r.sort();
					format!("R{}", r.iter().map(|x| x.to_string()).collect::<Vec<_>>().join(","))
				}
			}
		}
	}
}

/// One raw operation as executed: used by the script enumerator.
#[derive(Clone, Debug)]
pub struct RawRec {
	pub x: usize,
	pub kind: Kind,
	pub occ: usize,
	/// natural answer was "granted"
	pub granted: bool,
	/// answer came from the script
	pub scripted: bool,
}

#[derive(Default)]
pub struct Ctrl {
	pub ranges: Vec<(usize, usize, usize)>,
	pub table: Vec<LockSt>,
	pub counts: HashMap<(usize, Kind), usize>,
	pub script: Vec<Decision>,
	pub trace: Vec<String>,
	pub raws: Vec<RawRec>,
	/// after an abort / harness stop nothing is recorded and nothing has an effect
	pub dead: Option<&'static str>,
	pub probe: bool,
	pub probe_seen: Vec<bool>,
	pub unknown_addr: usize,
	/// poison flags as last sampled (at a raw operation)
	pub seen_poison: Vec<bool>,
	/// the case runs inside a destructor during an unrelated unwind: `thread::panicking()` is always
	/// true, so it cannot be used to tell that a fault hits cleanup code (such cases script no
	/// second panic)
	pub outer: bool,
}

thread_local! {
	/// `Some(tid)`: this thread is a worker of a T2 (multi-threaded, scheduled) run
	pub static T2_TID: std::cell::Cell<Option<usize>> = const { std::cell::Cell::new(None) };
	pub static CTRL: RefCell<Ctrl> = RefCell::new(Ctrl::default());
	/// reads the current poison flags of the case's `Poisonable`s (set by the interpreter)
	pub static POISON_PROBE: RefCell<Option<Box<dyn Fn() -> Vec<bool>>>> = RefCell::new(None);
}

pub struct FaultPanic;
pub struct UserPanic;
pub struct HarnessStop;

fn t2() -> Option<usize> {
	T2_TID.with(|c| c.get())
}

pub fn log(s: String) {
	if let Some(t) = t2() {
		return crate::t2::log(t, s);
	}
	CTRL.with(|c| {
		let mut c = c.borrow_mut();
		if c.dead.is_none() {
			c.trace.push(s);
		}
	})
}
pub fn mark(n: u32) {
	log(format!("m{n}"))
}

enum Outcome {
	Ret(bool),
	Fault,
	Stop,
}

/// sample the poison flags and report changes (at every raw operation and at `clear_poison`)
pub fn sample_poison() {
	if t2().is_some() {
		return;
	}
	// (the probe must not run while CTRL is borrowed)
	let skip = CTRL.with(|c| {
		let c = c.borrow();
		c.dead.is_some() || c.probe
	});
	if !skip {
		let now = POISON_PROBE.with(|p| p.borrow().as_ref().map(|f| f()));
		if let Some(now) = now {
			CTRL.with(|c| {
				let mut c = c.borrow_mut();
				for (i, b) in now.iter().enumerate() {
					if c.seen_poison.get(i).copied().unwrap_or(false) != *b {
						c.trace.push(format!("p{i}{}", if *b { "+" } else { "-" }));
					}
				}
				c.seen_poison = now;
			});
		}
	}
}

fn raw_op(addr: usize, kind: Kind) -> bool {
	if let Some(t) = t2() {
		return crate::t2::raw_op(t, addr, kind);
	}
	sample_poison();
	// is the thread's key obtainable while one of its holds is being released? (mark 24)
	if matches!(kind, Kind::UX | Kind::US) {
		let skip = CTRL.with(|c| {
			let c = c.borrow();
			c.dead.is_some() || c.probe
		});
		if !skip {
			if let Some(k) = happylock::ThreadKey::get() {
				drop(k);
				log("m24".to_string());
			}
		}
	}
	let out = CTRL.with(|c| {
		let mut c = c.borrow_mut();
		if c.dead.is_some() {
			return Outcome::Ret(true);
		}
		let Some(x) = c.ranges.iter().find(|r| r.0 <= addr && addr < r.1).map(|r| r.2) else {
			c.unknown_addr += 1;
			return Outcome::Ret(true);
		};
		if c.probe {
			c.probe_seen[x] = true;
			return Outcome::Ret(false);
		}
		let occ = {
			let e = c.counts.entry((x, kind)).or_insert(0);
			let o = *e;
			*e += 1;
			o
		};
		let dec = c.script.iter().find(|d| d.x == x && d.kind == kind && d.occ == occ).map(|d| d.ans);
		let excl = kind.is_excl();
		let natural_grant = match kind {
			Kind::UX | Kind::US => true,
			_ => c.table[x].grantable(excl),
		};
		match dec {
			Some(Ans::Panic) => {
				c.raws.push(RawRec { x, kind, occ, granted: natural_grant, scripted: true });
				c.trace.push(format!("{}{}!", kind.code(), x));
				if std::thread::panicking() && !c.outer {
					// a panic inside a destructor while unwinding: the process would abort
					c.dead = Some("abort");
					return Outcome::Ret(true);
				}
				return Outcome::Fault;
			}
			Some(Ans::No) if kind.is_try() => {
				c.raws.push(RawRec { x, kind, occ, granted: natural_grant, scripted: true });
				c.trace.push(format!("{}{}-", kind.code(), x));
				return Outcome::Ret(false);
			}
			_ => {}
		}
		c.raws.push(RawRec { x, kind, occ, granted: natural_grant, scripted: false });
		match kind {
			Kind::TX | Kind::TS => {
				if natural_grant {
					if excl {
						c.table[x].writer = Some(ME)
					} else {
						c.table[x].readers.push(ME)
					}
					c.trace.push(format!("{}{}+", kind.code(), x));
					Outcome::Ret(true)
				} else {
					c.trace.push(format!("{}{}-", kind.code(), x));
					Outcome::Ret(false)
				}
			}
			Kind::LX | Kind::LS => {
				if !natural_grant {
					// the other thread releases; if the client itself is in the way: self-deadlock
					let st = &mut c.table[x];
					if st.writer == Some(OTHER) {
						st.writer = None;
					}
					st.readers.retain(|t| *t != OTHER);
					if !st.grantable(excl) {
						c.dead = Some("selfdeadlock");
						return Outcome::Stop;
					}
					c.trace.push(format!("E{x}"));
				}
				if excl {
					c.table[x].writer = Some(ME)
				} else {
					c.table[x].readers.push(ME)
				}
				c.trace.push(format!("{}{}+", kind.code(), x));
				Outcome::Ret(true)
			}
			Kind::UX | Kind::US => {
				let bad = !c.table[x].holds(ME, excl);
				if excl {
					c.table[x].writer = None;
				} else if let Some(p) = c.table[x].readers.iter().position(|t| *t == ME) {
					c.table[x].readers.remove(p);
				}
				c.trace.push(format!("{}{}+{}", kind.code(), x, if bad { "?" } else { "" }));
				Outcome::Ret(true)
			}
		}
	});
	match out {
		Outcome::Ret(b) => b,
		Outcome::Fault => std::panic::panic_any(FaultPanic),
		Outcome::Stop => std::panic::panic_any(HarnessStop),
	}
}

/// Is lock `x` held by the client in a mode that allows the access? (audit for data accesses)
pub fn holds_for_access(x: usize, write: bool) -> bool {
	if let Some(t) = t2() {
		return crate::t2::holds_for_access(t, x, write);
	}
	CTRL.with(|c| {
		let c = c.borrow();
		let st = &c.table[x];
		if write {
			st.holds(ME, true)
		} else {
			st.holds(ME, true) || st.holds(ME, false)
		}
	})
}

thread_local! { static BOMB: std::cell::Cell<Option<usize>> = const { std::cell::Cell::new(None) }; }
thread_local! { static ERR_FIRED: std::cell::Cell<bool> = const { std::cell::Cell::new(false) }; }
/// did the payload return `Err(fmt::Error)` since the last call? (resets)
pub fn take_err_fired() -> bool {
	ERR_FIRED.with(|b| b.replace(false))
}
pub fn set_bomb(b: Option<usize>) {
	BOMB.with(|c| c.set(b));
}
/// The protected datum: a `u64` whose `Debug` impl reports the read (lock found by address).
pub struct Val(pub u64);
impl std::fmt::Debug for Val {
	fn fmt(&self, f: &mut std::fmt::Formatter<'_>) -> std::fmt::Result {
		let addr = self as *const _ as usize;
		let x = if t2().is_some() {
			crate::t2::lookup(addr)
		} else {
			CTRL.with(|c| c.borrow().ranges.iter().find(|r| r.0 <= addr && addr < r.1).map(|r| r.2))
		};
		if let Some(x) = x {
			let bad = !holds_for_access(x, false);
			log(format!("r{x}={}{}", self.0, if bad { "?" } else { "" }));
			// the payload's own Debug impl panics (user code), once
			if BOMB.with(|b| b.get()) == Some(x) {
				BOMB.with(|b| b.set(None));
				log("m7".to_string());
				panic!("payload Debug panics");
			}
			// … or returns Err(fmt::Error) (bomb = x + 1000): `format!` will panic at the end
			if BOMB.with(|b| b.get()) == Some(x + 1000) {
				BOMB.with(|b| b.set(None));
				ERR_FIRED.with(|b| b.set(true));
				return Err(std::fmt::Error);
			}
		}
		write!(f, "{}", self.0)
	}
}

pub struct VMutex {
	_pad: u8,
}
pub struct VRw {
	_pad: u8,
}

unsafe impl lock_api::RawMutex for VMutex {
	#[allow(clippy::declare_interior_mutable_const)]
	const INIT: Self = VMutex { _pad: 0 };
	type GuardMarker = lock_api::GuardSend;
	fn lock(&self) {
		raw_op(self as *const _ as usize, Kind::LX);
	}
	fn try_lock(&self) -> bool {
		raw_op(self as *const _ as usize, Kind::TX)
	}
	unsafe fn unlock(&self) {
		raw_op(self as *const _ as usize, Kind::UX);
	}
}

unsafe impl lock_api::RawRwLock for VRw {
	#[allow(clippy::declare_interior_mutable_const)]
	const INIT: Self = VRw { _pad: 0 };
	type GuardMarker = lock_api::GuardSend;
	fn lock_shared(&self) {
		raw_op(self as *const _ as usize, Kind::LS);
	}
	fn try_lock_shared(&self) -> bool {
		raw_op(self as *const _ as usize, Kind::TS)
	}
	unsafe fn unlock_shared(&self) {
		raw_op(self as *const _ as usize, Kind::US);
	}
	fn lock_exclusive(&self) {
		raw_op(self as *const _ as usize, Kind::LX);
	}
	fn try_lock_exclusive(&self) -> bool {
		raw_op(self as *const _ as usize, Kind::TX)
	}
	unsafe fn unlock_exclusive(&self) {
		raw_op(self as *const _ as usize, Kind::UX);
	}
}
