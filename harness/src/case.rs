//! The case-line language (see HLV/Model/Parse.lean) and the builder that turns a case into
//! live happylock objects at controlled addresses.

use std::cell::UnsafeCell;
use std::mem::MaybeUninit;

use happylock::collection::{
	BoxedLockCollection, OwnedLockCollection, RefLockCollection, RetryingLockCollection,
};
use happylock::poisonable::Poisonable;

use crate::shapes::{Node, M, R};
use crate::vraw::{Ans, Decision, Kind};

#[derive(Clone, Debug, PartialEq, Eq)]
pub enum Expr {
	M(usize),
	R(usize),
	V(Vec<Expr>),
	P(usize, Box<Expr>),
	B(Box<Expr>),
	F(Box<Expr>),
	T(Box<Expr>),
	/// built with the unchecked-at-runtime constructors: `new` (ctor 0) / `new_ref` (ctor 1)
	Bn(u8, Box<Expr>),
	Fn(Box<Expr>),
	Tn(u8, Box<Expr>),
	O(usize, Box<Expr>),
	C(usize),
}

impl Expr {
	pub fn text(&self) -> String {
		match self {
			Expr::M(i) => format!("m{i}"),
			Expr::R(i) => format!("r{i}"),
			Expr::V(v) => format!("V({})", v.iter().map(|e| e.text()).collect::<Vec<_>>().join(",")),
			Expr::P(p, e) => format!("P{p}({})", e.text()),
			Expr::B(e) => format!("B({})", e.text()),
			Expr::F(e) => format!("F({})", e.text()),
			Expr::T(e) => format!("T({})", e.text()),
			Expr::Bn(c, e) => format!("B{}({})", if *c == 0 { "!" } else { "&" }, e.text()),
			Expr::Fn(e) => format!("F!({})", e.text()),
			Expr::Tn(c, e) => format!("T{}({})", if *c == 0 { "!" } else { "&" }, e.text()),
			Expr::O(a, e) => format!("O{a}({})", e.text()),
			Expr::C(j) => format!("c{j}"),
		}
	}
}

fn parse_nat(s: &[u8], i: &mut usize) -> Option<usize> {
	let st = *i;
	while *i < s.len() && s[*i].is_ascii_digit() {
		*i += 1;
	}
	std::str::from_utf8(&s[st..*i]).ok()?.parse().ok()
}

fn parse_expr(s: &[u8], i: &mut usize) -> Option<Expr> {
	let c = *s.get(*i)?;
	*i += 1;
	let paren = |s: &[u8], i: &mut usize| -> Option<Expr> {
		if s.get(*i) != Some(&b'(') {
			return None;
		}
		*i += 1;
		let e = parse_expr(s, i)?;
		if s.get(*i) != Some(&b')') {
			return None;
		}
		*i += 1;
		Some(e)
	};
	Some(match c {
		b'm' => Expr::M(parse_nat(s, i)?),
		b'r' => Expr::R(parse_nat(s, i)?),
		b'c' => Expr::C(parse_nat(s, i)?),
		b'V' => {
			if s.get(*i) != Some(&b'(') {
				return None;
			}
			*i += 1;
			let mut v = Vec::new();
			loop {
				match s.get(*i)? {
					b')' => {
						*i += 1;
						break;
					}
					b',' => *i += 1,
					_ => v.push(parse_expr(s, i)?),
				}
			}
			Expr::V(v)
		}
		b'B' | b'F' | b'T' => {
			let ctor = match s.get(*i) {
				Some(b'!') => {
					*i += 1;
					Some(0u8)
				}
				Some(b'&') => {
					*i += 1;
					Some(1u8)
				}
				_ => None,
			};
			let e = Box::new(paren(s, i)?);
			match (c, ctor) {
				(b'B', None) => Expr::B(e),
				(b'F', None) => Expr::F(e),
				(b'T', None) => Expr::T(e),
				(b'B', Some(k)) => Expr::Bn(k, e),
				(b'F', Some(0)) => Expr::Fn(e),
				(b'T', Some(k)) => Expr::Tn(k, e),
				_ => return None,
			}
		}
		b'P' => {
			let p = parse_nat(s, i)?;
			Expr::P(p, Box::new(paren(s, i)?))
		}
		b'O' => {
			let a = parse_nat(s, i)?;
			Expr::O(a, Box::new(paren(s, i)?))
		}
		_ => return None,
	})
}

pub fn parse_expr_str(s: &str) -> Option<Expr> {
	let mut i = 0;
	let e = parse_expr(s.as_bytes(), &mut i)?;
	(i == s.len()).then_some(e)
}

#[derive(Clone, Copy, Debug, PartialEq, Eq)]
pub enum Api {
	Lock,
	Try,
	Scoped,
	ScopedTry,
}
#[derive(Clone, Copy, Debug, PartialEq, Eq)]
pub enum Exit {
	Drop,
	Unlock,
	Forget,
	Panic,
	Ret,
}
#[derive(Clone, Debug, PartialEq, Eq)]
pub enum Step {
	Write(usize, u64),
	Read(usize),
	/// format collection c; `Some(x)`: the payload of lock x panics in its own Debug impl
	Dbg(usize, Option<usize>),
	GetKey,
	IsPoisoned(usize),
	/// `clear_poison()` on collection c while holding
	ClearPoison(usize),
}
#[derive(Clone, Debug, PartialEq, Eq)]
pub struct Session {
	pub coll: usize,
	pub api: Api,
	pub write: bool,
	pub owned_key: bool,
	pub body: Vec<Step>,
	pub exit: Exit,
}
#[derive(Clone, Debug, PartialEq, Eq)]
pub enum Stmt {
	Ses(Session),
	Get,
	DropKey,
	ForgetKey,
	Dbg(usize, Option<usize>),
	IsPoisoned(usize),
	ClearPoison(usize),
	/// `try_new` of a boxed (B) / ref (F) / retrying (T) collection over the expression
	TryNew(u8, Expr),
}

impl Step {
	pub fn text(&self) -> String {
		match self {
			Step::Write(p, v) => format!("w{p}={v}"),
			Step::Read(p) => format!("r{p}"),
			Step::Dbg(c, None) => format!("d{c}"),
			Step::Dbg(c, Some(x)) => format!("d{c}!{x}"),
			Step::GetKey => "g".into(),
			Step::IsPoisoned(c) => format!("i{c}"),
			Step::ClearPoison(c) => format!("c{c}"),
		}
	}
	fn parse(s: &str) -> Option<Step> {
		let b = s.as_bytes();
		let mut i = 1;
		Some(match *b.first()? {
			b'w' => {
				let p = parse_nat(b, &mut i)?;
				if b.get(i) != Some(&b'=') {
					return None;
				}
				i += 1;
				Step::Write(p, parse_nat(b, &mut i)? as u64)
			}
			b'r' => Step::Read(parse_nat(b, &mut i)?),
			b'd' => {
				let c = parse_nat(b, &mut i)?;
				if b.get(i) == Some(&b'!') {
					i += 1;
					Step::Dbg(c, Some(parse_nat(b, &mut i)?))
				} else {
					Step::Dbg(c, None)
				}
			}
			b'i' => Step::IsPoisoned(parse_nat(b, &mut i)?),
			b'c' => Step::ClearPoison(parse_nat(b, &mut i)?),
			b'g' if b.len() == 1 => Step::GetKey,
			_ => return None,
		})
	}
}

impl Stmt {
	pub fn text(&self) -> String {
		match self {
			Stmt::Get => "get".into(),
			Stmt::DropKey => "dropkey".into(),
			Stmt::ForgetKey => "forgetkey".into(),
			Stmt::Dbg(c, None) => format!("dbg:{c}"),
			Stmt::Dbg(c, Some(x)) => format!("dbg:{c}:{x}"),
			Stmt::IsPoisoned(c) => format!("isp:{c}"),
			Stmt::ClearPoison(c) => format!("clr:{c}"),
			Stmt::TryNew(k, e) => format!("trynew:{}:{}", *k as char, e.text()),
			Stmt::Ses(s) => format!(
				"ses:{}:{}:{}:{}:{}:{}",
				s.coll,
				match s.api {
					Api::Lock => "l",
					Api::Try => "t",
					Api::Scoped => "s",
					Api::ScopedTry => "q",
				},
				if s.write { "w" } else { "r" },
				if s.owned_key { "o" } else { "b" },
				if s.body.is_empty() {
					"-".to_string()
				} else {
					s.body.iter().map(|x| x.text()).collect::<Vec<_>>().join(",")
				},
				match s.exit {
					Exit::Drop => "d",
					Exit::Unlock => "u",
					Exit::Forget => "f",
					Exit::Panic => "p",
					Exit::Ret => "e",
				}
			),
		}
	}
	pub fn parse(s: &str) -> Option<Stmt> {
		let f: Vec<&str> = s.split(':').collect();
		Some(match f.as_slice() {
			["get"] => Stmt::Get,
			["dropkey"] => Stmt::DropKey,
			["forgetkey"] => Stmt::ForgetKey,
			["dbg", c] => Stmt::Dbg(c.parse().ok()?, None),
			["dbg", c, x] => Stmt::Dbg(c.parse().ok()?, Some(x.parse().ok()?)),
			["isp", c] => Stmt::IsPoisoned(c.parse().ok()?),
			["clr", c] => Stmt::ClearPoison(c.parse().ok()?),
			["trynew", k, e] => Stmt::TryNew(*k.as_bytes().first()?, parse_expr_str(e)?),
			["ses", c, a, m, k, b, e] => Stmt::Ses(Session {
				coll: c.parse().ok()?,
				api: match *a {
					"l" => Api::Lock,
					"t" => Api::Try,
					"s" => Api::Scoped,
					"q" => Api::ScopedTry,
					_ => return None,
				},
				write: match *m {
					"w" => true,
					"r" => false,
					_ => return None,
				},
				owned_key: match *k {
					"o" => true,
					"b" => false,
					_ => return None,
				},
				body: if *b == "-" {
					vec![]
				} else {
					b.split(',').map(Step::parse).collect::<Option<Vec<_>>>()?
				},
				exit: match *e {
					"d" => Exit::Drop,
					"u" => Exit::Unlock,
					"f" => Exit::Forget,
					"p" => Exit::Panic,
					"e" => Exit::Ret,
					_ => return None,
				},
			}),
			_ => return None,
		})
	}
}

#[derive(Clone, Debug)]
pub struct Case {
	pub id: String,
	pub n: usize,
	pub addr: Vec<usize>,
	pub colls: Vec<Expr>,
	pub held: Vec<u8>,
	pub prog: Vec<Stmt>,
	pub script: Vec<Decision>,
}

impl Case {
	pub fn text(&self) -> String {
		format!(
			"{};N={};A={};C={};H={};P={};S={}",
			self.id,
			self.n,
			self.addr.iter().map(|a| a.to_string()).collect::<Vec<_>>().join(","),
			self.colls.iter().map(|e| e.text()).collect::<Vec<_>>().join("|"),
			String::from_utf8_lossy(&self.held),
			self.prog.iter().map(|s| s.text()).collect::<Vec<_>>().join(" "),
			self.script.iter().map(|d| d.text()).collect::<Vec<_>>().join(" "),
		)
	}
	pub fn parse(line: &str) -> Option<Case> {
		let f: Vec<&str> = line.trim().split(';').collect();
		if f.len() != 7 {
			return None;
		}
		let n = f[1].strip_prefix("N=")?.parse().ok()?;
		let a = f[2].strip_prefix("A=")?;
		let addr = if a.is_empty() {
			vec![]
		} else {
			a.split(',').map(|x| x.parse().ok()).collect::<Option<Vec<usize>>>()?
		};
		let c = f[3].strip_prefix("C=")?;
		let colls = if c.is_empty() {
			vec![]
		} else {
			c.split('|').map(parse_expr_str).collect::<Option<Vec<_>>>()?
		};
		let held = f[4].strip_prefix("H=")?.as_bytes().to_vec();
		let prog = f[5]
			.strip_prefix("P=")?
			.split_whitespace()
			.map(Stmt::parse)
			.collect::<Option<Vec<_>>>()?;
		let script = f[6]
			.strip_prefix("S=")?
			.split_whitespace()
			.map(|d| {
				let (l, a) = d.split_once('=')?;
				let p: Vec<&str> = l.split('.').collect();
				if p.len() != 3 {
					return None;
				}
				Some(Decision {
					x: p[0].parse().ok()?,
					kind: Kind::parse(p[1])?,
					occ: p[2].parse().ok()?,
					ans: match a {
						"n" => Ans::No,
						"p" => Ans::Panic,
						_ => return None,
					},
				})
			})
			.collect::<Option<Vec<_>>>()?;
		Some(Case { id: f[0].to_string(), n, addr, colls, held, prog, script })
	}
}

/// One address slot: room for a mutex, an rwlock and an owned collection. Slots are laid out
/// in one array, so slot index order is address order.
pub struct Slot {
	pub m: M,
	pub r: R,
	pub o: UnsafeCell<MaybeUninit<OwnedLockCollection<Node>>>,
}
// safety: `o` is written once while the case is built (single-threaded), read-only afterwards
unsafe impl Sync for Slot {}

pub struct Built {
	pub slots: &'static [Slot],
	pub colls: Vec<Node>,
	pub poisonables: Vec<(usize, &'static Poisonable<Node>)>,
	/// leaf id -> (slot, is_mutex) for every leaf that occurs
	pub leaf_slot: Vec<usize>,
}

impl Built {
	/// a second set of handles to the same (leaked, `'static`) objects, for another thread
	pub fn handle(&self) -> Built {
		Built {
			slots: self.slots,
			colls: self.colls.iter().map(Case::node_ref).collect(),
			poisonables: self.poisonables.clone(),
			leaf_slot: self.leaf_slot.clone(),
		}
	}
}

fn max_owned_addr(e: &Expr) -> usize {
	match e {
		Expr::M(_) | Expr::R(_) | Expr::C(_) => 0,
		Expr::V(v) => v.iter().map(max_owned_addr).max().unwrap_or(0),
		Expr::P(_, e) | Expr::B(e) | Expr::F(e) | Expr::T(e) | Expr::Bn(_, e) | Expr::Fn(e) | Expr::Tn(_, e) => {
			max_owned_addr(e)
		}
		Expr::O(a, e) => (*a).max(max_owned_addr(e)),
	}
}

pub fn leak<T>(x: T) -> &'static T {
	Box::leak(Box::new(x))
}
pub fn leak_mut<T>(x: T) -> &'static mut T {
	Box::leak(Box::new(x))
}

impl Case {
	pub fn build(&self) -> Built {
		let nslots = self
			.addr
			.iter()
			.copied()
			.chain(self.colls.iter().map(max_owned_addr))
			.max()
			.map(|m| m + 1)
			.unwrap_or(0);
		let mut v: Vec<Slot> = Vec::with_capacity(nslots);
		for _ in 0..nslots {
			v.push(Slot { m: M::new(crate::vraw::Val(0)), r: R::new(crate::vraw::Val(0)), o: UnsafeCell::new(MaybeUninit::uninit()) });
		}
		let slots: &'static [Slot] = Box::leak(v.into_boxed_slice());
		let mut b = Built { slots, colls: Vec::new(), poisonables: Vec::new(), leaf_slot: self.addr.clone() };
		for e in &self.colls {
			let node = self.build_expr(e, &mut b);
			b.colls.push(node);
		}
		b
	}

	fn node_ref(n: &Node) -> Node {
		// a second handle to the same object(s), as `&collection` would be
		match n {
			Node::M(m) => Node::M(m),
			Node::R(r) => Node::R(r),
			Node::V(v) => Node::V(v.iter().map(Self::node_ref).collect()),
			Node::P(p) => Node::P(p),
			Node::B(c) => Node::B(c),
			Node::F(c) => Node::F(c),
			Node::T(c) => Node::T(c),
			Node::O(c) => Node::O(c),
			Node::Bref(c) => Node::Bref(c),
			Node::Tref(c) => Node::Tref(c),
		}
	}

	pub fn build_expr(&self, e: &Expr, b: &mut Built) -> Node {
		match e {
			Expr::M(i) => Node::M(&b.slots[self.addr[*i]].m),
			Expr::R(i) => Node::R(&b.slots[self.addr[*i]].r),
			Expr::C(j) => Self::node_ref(&b.colls[*j]),
			Expr::V(v) => Node::V(v.iter().map(|e| self.build_expr(e, b)).collect()),
			Expr::P(p, e) => {
				let inner = self.build_expr(e, b);
				let po = leak(Poisonable::new(inner));
				b.poisonables.push((*p, po));
				Node::P(po)
			}
			Expr::B(e) => {
				let inner = self.build_expr(e, b);
				Node::B(leak(BoxedLockCollection::try_new(inner).expect("generator gave duplicates to B")))
			}
			Expr::F(e) => {
				let inner = leak(self.build_expr(e, b));
				Node::F(leak(RefLockCollection::try_new(inner).expect("generator gave duplicates to F")))
			}
			Expr::T(e) => {
				let inner = self.build_expr(e, b);
				Node::T(leak(RetryingLockCollection::try_new(inner).expect("generator gave duplicates to T")))
			}
			Expr::Bn(c, e) => {
				let inner = self.build_expr(e, b);
				if *c == 0 {
					Node::B(leak(BoxedLockCollection::new(inner)))
				} else {
					// `new_ref` yields a BoxedLockCollection<&Node>
					let r: &'static Node = leak(inner);
					let coll: &'static BoxedLockCollection<&'static Node> = leak(BoxedLockCollection::new_ref(r));
					Node::Bref(coll)
				}
			}
			Expr::Fn(e) => {
				let inner = leak(self.build_expr(e, b));
				Node::F(leak(RefLockCollection::new(inner)))
			}
			Expr::Tn(c, e) => {
				let inner = self.build_expr(e, b);
				if *c == 0 {
					Node::T(leak(RetryingLockCollection::new(inner)))
				} else {
					let r: &'static Node = leak(inner);
					let coll: &'static RetryingLockCollection<&'static Node> = leak(RetryingLockCollection::new_ref(r));
					Node::Tref(coll)
				}
			}
			Expr::O(a, e) => {
				let inner = self.build_expr(e, b);
				// safety: slot `a` is used for exactly one owned collection; it is written once,
				// before anything reads it, and never moved afterwards
				let r: &'static OwnedLockCollection<Node> = unsafe {
					let cell = b.slots[*a].o.get();
					(*cell).write(OwnedLockCollection::new(inner));
					(*cell).assume_init_ref()
				};
				Node::O(r)
			}
		}
	}
}
