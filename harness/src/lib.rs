pub mod case;
pub mod interp;
pub mod shapes;
pub mod t2;
pub mod vraw;

pub fn silence_panics() {
	std::panic::set_hook(Box::new(|_| {}));
}
pub mod gen;
