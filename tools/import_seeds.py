#!/usr/bin/env python3
"""import_seeds.py <out-dir of a sub-agent, e.g. /tmp/mut3-C12-out> <Cxx> <first index>
Confirms each m<i>/ (suite passes with the change, demo fails with it, demo passes without) and stores the
confirmed ones as seeded/<Cxx>-m<k>/ with meta.json."""
import sys, os, json, subprocess, shutil, glob
ROOT = os.path.dirname(os.path.dirname(os.path.abspath(__file__)))
src, pid, first = sys.argv[1], sys.argv[2], int(sys.argv[3])
k = first
for d in sorted(glob.glob(os.path.join(src, "m*"))):
    if not os.path.exists(os.path.join(d, "patch.diff")) or not os.path.exists(os.path.join(d, "demo.rs")):
        print(d, "incomplete, skipped"); continue
    name = f"{pid}-m{k}"
    p = subprocess.run([os.path.join(ROOT, "tools", "confirm_seed.sh"), d, name], capture_output=True, text=True)
    line = p.stdout.strip().splitlines()[-1] if p.stdout.strip() else p.stderr[-300:]
    ok = "suite_with_change=pass" in line and "demo_with_change=fail" in line and "demo_without_change=pass" in line
    print(line, "=> stored" if ok else "=> REJECTED")
    if not ok: continue
    dst = os.path.join(ROOT, "seeded", name)
    shutil.rmtree(dst, ignore_errors=True); os.makedirs(dst)
    for f in ("patch.diff", "demo.rs", "notes.md"):
        if os.path.exists(os.path.join(d, f)): shutil.copy(os.path.join(d, f), dst)
    notes = open(os.path.join(dst, "notes.md")).read() if os.path.exists(os.path.join(dst, "notes.md")) else ""
    first_line = next((l.strip("# ").strip() for l in notes.splitlines() if l.strip()), "")
    json.dump(dict(id=name, property=pid, needs_to_manifest=first_line,
                   origin="independent sub-agent given only the property text and a scratch worktree of /repo (batch 3)",
                   confirmed_by="tools/confirm_seed.sh in a scratch worktree: cargo test --offline with the patch = pass; demo as tests/demo_seed.rs with the patch = fail; demo without the patch = pass",
                   apply=f"git -C /repo apply seeded/{name}/patch.diff ; undo: git -C /repo checkout -- ."),
              open(os.path.join(dst, "meta.json"), "w"), indent=1)
    k += 1
