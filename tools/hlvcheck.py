import sys, os, json, subprocess, time, hashlib, re, shutil, glob

ALLOWED_AXIOMS = {"propext", "Classical.choice", "Quot.sound"}
BUILD = None
ROOT = None
ENV = None

# property -> configuration
#  families: T1 case families run on the real code (name -> in quick/thorough)
#  pred: name of the executable trace predicate in the Lean driver
#  module: Lean module with the property theorems (HLV/Props/<module>.lean)
PROPS = {
    "C01": dict(families=["conc", "order", "acq", "hist"], pred="C01"),
    "C02": dict(families=["conc", "route", "acq", "panic"], pred="C02"),
    "C03": dict(families=["acq", "panic", "fault", "hist", "poison", "unwind"], pred="C03"),
    "C04": dict(families=["acq"], pred="C04"),
    "C05": dict(families=["acq", "panic", "fault", "conc", "nonacq", "poison", "unwind"], pred="C05"),
    "C06": dict(families=["hist", "panic", "acq", "unwind"], pred="C06"),
    "C07": dict(families=["trynew"], pred="C07"),
    "C08": dict(families=["order", "acq"], pred="C08"),
    "C09": dict(families=["acq", "fault", "conc"], pred="C09"),
    "C10": dict(families=["poison", "panic", "conc", "unwind"], pred="C10"),
    "C11": dict(families=["panic", "poison", "unwind"], pred="C11"),
    "C12": dict(families=["fault", "unwind"], pred="C12"),
    "C13": dict(families=["quiet", "acq"], pred="C13"),
    "C17": dict(families=["nonacq"], pred="C17"),
}

def sh(cmd, cwd=None, timeout=None, inp=None):
    p = subprocess.run(cmd, shell=isinstance(cmd, str), cwd=cwd, env=ENV, input=inp,
                       stdout=subprocess.PIPE, stderr=subprocess.STDOUT, text=True, timeout=timeout)
    return p.returncode, p.stdout

def tree_hash(paths):
    h = hashlib.sha256()
    for base in paths:
        for dp, dn, fn in sorted(os.walk(base)):
            dn.sort()
            if "/target" in dp or "/.git" in dp or "/.lake" in dp:
                continue
            for f in sorted(fn):
                p = os.path.join(dp, f)
                try:
                    h.update(p.encode()); h.update(open(p, "rb").read())
                except OSError:
                    pass
    return h.hexdigest()[:16]

def read_known():
    p = os.path.join(ROOT, "known_findings.json")
    if os.path.exists(p):
        return json.load(open(p))
    return {"findings": [], "fixed": []}

# ---------------------------------------------------------------- Lean side

def lean_build(targets):
    t0 = time.time()
    rc, out = sh(["lake", "build"] + targets, cwd=os.path.join(ROOT, "lean"), timeout=3000)
    return rc == 0, out, time.time() - t0

def registered_theorems(module):
    """theorems registered in a Props file by lines `-- @theorem <name> : <one-line gloss>`"""
    p = os.path.join(ROOT, "lean", "HLV", "Props", module + ".lean")
    out = []
    if not os.path.exists(p):
        return out
    for l in open(p):
        m = re.match(r"\s*-- @theorem\s+(\S+)\s*:?\s*(.*)", l)
        if m:
            out.append((m.group(1), m.group(2).strip()))
    return out

def audit_sources():
    """no sorry/admit/axiom/native_decide/… in any Lean source (comments stripped crudely)"""
    bad = []
    pat = re.compile(r"\b(sorry|admit|native_decide|bv_decide|implemented_by)\b|\bunsafe\s+(def|opaque|instance|theorem|inductive|structure|abbrev)\b|^\s*axiom\s|maxHeartbeats\s+0")
    for p in glob.glob(os.path.join(ROOT, "lean", "**", "*.lean"), recursive=True):
        if "/.lake/" in p:
            continue
        txt = open(p).read()
        txt = re.sub(r"/-.*?-/", "", txt, flags=re.S)
        for i, l in enumerate(txt.splitlines()):
            l2 = re.sub(r'"(\\.|[^"\\])*"', '""', l.split("--")[0])   # drop string literals
            if pat.search(l2):
                bad.append(f"{os.path.relpath(p, ROOT)}:{i+1}: {l.strip()}")
    return bad

def print_axioms(module, thms):
    if not thms:
        return True, {}, ""
    src = f"import HLV.Props.{module}\nimport HLV.Model.Own\nopen HLV HLV.Own\n" + "".join(f"#print axioms {n}\n" for n, _ in thms)
    f = os.path.join(BUILD, f"axioms_{module}.lean")
    open(f, "w").write(src)
    rc, out = sh(["lake", "env", "lean", f], cwd=os.path.join(ROOT, "lean"), timeout=1200)
    res = {}
    for m in re.finditer(r"'([^']+)' depends on axioms: \[([^\]]*)\]", out.replace("\n", " ")):
        res[m.group(1).split(".")[-1]] = [a.strip() for a in m.group(2).split(",") if a.strip()]
    for m in re.finditer(r"'([^']+)' does not depend on any axioms", out):
        res[m.group(1).split(".")[-1]] = []
    return rc == 0, res, out

# ---------------------------------------------------------------- harness side

def build_harness():
    t0 = time.time()
    rc, out = sh(["cargo", "build", "--release", "--offline"], cwd=os.path.join(ROOT, "harness"), timeout=3000)
    return rc == 0, out, time.time() - t0

def prune_family_cache(keep_keys=4):
    """the cache is keyed by a hash of the sources: keep only the most recently used few keys"""
    root = os.path.join(BUILD, "fam")
    if not os.path.isdir(root): return
    by_key = {}
    for d in os.listdir(root):
        k = d.split("-")[0]
        try: m = os.path.getmtime(os.path.join(root, d))
        except OSError: continue
        by_key[k] = max(by_key.get(k, 0), m)
    old = sorted(by_key, key=lambda k: by_key[k], reverse=True)[keep_keys:]
    for d in os.listdir(root):
        if d.split("-")[0] in old:
            shutil.rmtree(os.path.join(root, d), ignore_errors=True)

def run_family(fam, tier, seed, key):
    """returns dict(cases, impl, model, stats) paths; cached per source-tree hash"""
    d = os.path.join(BUILD, "fam", f"{key}-{fam}-{tier}-{seed}")
    done = os.path.join(d, "DONE")
    if not os.path.exists(done):
        shutil.rmtree(d, ignore_errors=True)
        os.makedirs(d)
        if fam == "conc":
            # T2: real threads under the baton scheduler, every schedule (DFS, capped) of each case
            exe = os.path.join(BUILD, "cargo", "release", "t2gen")
            rc, out = sh([exe, tier, str(seed), d], timeout=3000)
        else:
            exe = os.path.join(BUILD, "cargo", "release", "t1gen")
            rc, out = sh([exe, fam, tier, str(seed), d], timeout=3000)
        if rc != 0:
            return dict(error=f"{os.path.basename(exe)} {fam} crashed (rc={rc}): {out[-2000:]}", dir=d)
        drv = os.path.join(ROOT, "lean", ".lake", "build", "bin", "hlv-driver")
        with open(os.path.join(d, fam + ".cases")) as fi, open(os.path.join(d, fam + ".model"), "w") as fo:
            p = subprocess.run([drv] + (["t2"] if fam == "conc" else []), stdin=fi, stdout=fo, env=ENV)
        if p.returncode != 0:
            return dict(error=f"model driver failed on {fam}", dir=d)
        open(done, "w").write("ok")
    return dict(dir=d, cases=os.path.join(d, fam + ".cases"), impl=os.path.join(d, fam + ".impl"),
                model=os.path.join(d, fam + ".model"), stats=os.path.join(d, fam + ".stats.json"))

def run_pred(pred, cases_path, impl_path):
    """evaluates the Lean trace predicate on (case, transcript) pairs; returns list of (idx, msg)"""
    drv = os.path.join(ROOT, "lean", ".lake", "build", "bin", "hlv-driver")
    c = open(cases_path).read().splitlines()
    t = open(impl_path).read().splitlines()
    if os.path.basename(cases_path) == "conc.cases":
        p = subprocess.run([drv, "t2check", pred], input="\n".join(x + "\n" + y for x, y in zip(c, t)) + "\n", stdout=subprocess.PIPE, text=True, env=ENV)
        return [(i, l) for i, l in enumerate(p.stdout.splitlines()) if l != "ok"], len(c)
    inp = "\n".join(x + "\n" + y for x, y in zip(c, t)) + "\n"
    p = subprocess.run([drv, "check", pred], input=inp, stdout=subprocess.PIPE, text=True, env=ENV)
    fails = []
    for i, l in enumerate(p.stdout.splitlines()):
        if l != "ok":
            fails.append((i, l))
    return fails, len(c)

def run_cases_once(lines):
    """runs explicit case lines on the real code and on the model"""
    exe = os.path.join(BUILD, "cargo", "release", "t1run")
    drv = os.path.join(ROOT, "lean", ".lake", "build", "bin", "hlv-driver")
    inp = "\n".join(lines) + "\n"
    a = subprocess.run([exe], input=inp, stdout=subprocess.PIPE, text=True, env=ENV)
    b = subprocess.run([drv], input=inp, stdout=subprocess.PIPE, text=True, env=ENV)
    return a.stdout.splitlines(), b.stdout.splitlines(), a.returncode

# ---------------------------------------------------------------- main

def write_replay(pid, kind, payload):
    d = os.path.join(ROOT, "replays")
    os.makedirs(d, exist_ok=True)
    h = hashlib.sha256(json.dumps(payload, sort_keys=True).encode()).hexdigest()[:10]
    p = os.path.join(d, f"{pid}-{kind}-{h}.json")
    json.dump(payload, open(p, "w"), indent=1)
    return p

def finding_matches(f, pid, case_line, msg):
    if f.get("property") != pid:
        return False
    pat = f.get("match", {})
    if "case_regex" in pat and not re.search(pat["case_regex"], case_line):
        return False
    if "message_regex" in pat and not re.search(pat["message_regex"], msg):
        return False
    return True

def main(root, argv):
    global ROOT, BUILD, ENV
    ROOT = root
    BUILD = os.path.join(ROOT, ".build")
    os.makedirs(BUILD, exist_ok=True)
    ENV = dict(os.environ)
    ENV.setdefault("CARGO_NET_OFFLINE", "true")
    ENV["CARGO_TARGET_DIR"] = os.path.join(BUILD, "cargo")
    if not argv:
        print(__doc__); return 2
    pid = argv[0]
    global CUR_TIER
    tier = os.environ.get("VERIF_TIER", "quick")
    replay = None
    i = 1
    while i < len(argv):
        if argv[i] == "--tier": tier = argv[i+1]; i += 2
        elif argv[i] == "--replay": replay = argv[i+1]; i += 2
        else: i += 1
    seed = int(os.environ.get("VERIF_SEED", "1") or 1)
    CUR_TIER = tier
    if pid in EXTRA:
        return EXTRA[pid](pid, tier, seed, replay)
    if pid not in PROPS:
        print(f"unknown property {pid}"); return 2
    return t1_property(pid, tier, seed, replay)

EXTRA = {}

# ---------------------------------------------------------------- static properties (C14, C15)

def run_translator():
    t0 = time.time()
    env = dict(ENV); env["CARGO_TARGET_DIR"] = os.path.join(BUILD, "cargo-translator")
    p = subprocess.run(["cargo", "build", "--release", "--offline"], cwd=os.path.join(ROOT, "translator"),
                       env=env, stdout=subprocess.PIPE, stderr=subprocess.STDOUT, text=True)
    if p.returncode != 0:
        return False, p.stdout[-2000:], 0
    exe = os.path.join(BUILD, "cargo-translator", "release", "hlv-translator")
    out = os.path.join(ROOT, "lean", "HLV", "Generated", "Facts.lean")
    tmp = out + ".new"
    p = subprocess.run([exe, "/repo/src", tmp], stdout=subprocess.PIPE, stderr=subprocess.STDOUT, text=True)
    if p.returncode != 0:
        return False, p.stdout[-2000:], 0
    # only touch the file when its content changed (keeps lake's cache warm)
    if not os.path.exists(out) or open(out).read() != open(tmp).read():
        os.replace(tmp, out)
    else:
        os.remove(tmp)
    return True, p.stdout.strip(), time.time() - t0

def static_report():
    f = os.path.join(BUILD, "static_report.lean")
    open(f, "w").write("import HLV.Static.Report\n#eval IO.println HLV.Static.reportText\n")
    ok, out, dt = lean_build(["HLV.Static.Report"])
    if not ok:
        return None, out
    rc, out = sh(["lake", "env", "lean", f], cwd=os.path.join(ROOT, "lean"), timeout=1200)
    rows = []
    for l in out.splitlines():
        parts = l.split("|")
        if len(parts) == 4:
            rows.append(dict(property=parts[0], rule=parts[1], offending=[x for x in parts[2].split(";") if x],
                             recorded=[x for x in parts[3].split(";") if x]))
    return rows, out

def build_repo_lib():
    """builds happylock (lib) from /repo's working tree into a private target dir; returns extern args"""
    tgt = os.path.join(BUILD, "repo-target")
    env = dict(ENV); env["CARGO_TARGET_DIR"] = tgt
    p = subprocess.run(["cargo", "build", "--offline", "--lib"], cwd="/repo", env=env,
                       stdout=subprocess.PIPE, stderr=subprocess.STDOUT, text=True)
    if p.returncode != 0:
        return None, p.stdout[-3000:]
    deps = os.path.join(tgt, "debug", "deps")
    def newest(pat):
        c = sorted(glob.glob(os.path.join(deps, pat)), key=os.path.getmtime)
        return c[-1] if c else None
    ext = ["--edition", "2021", "--crate-type", "lib", "--emit=metadata", "-L", "dependency=" + deps,
           "--extern", "happylock=" + os.path.join(tgt, "debug", "libhappylock.rlib")]
    for name in ["lock_api", "parking_lot"]:
        r = newest(f"lib{name}-*.rlib")
        if r: ext += ["--extern", f"{name}={r}"]
    return ext, ""

def run_probes(pid):
    from concurrent.futures import ThreadPoolExecutor
    ext, err = build_repo_lib()
    if ext is None:
        return None, err
    files = []
    for f in sorted(glob.glob(os.path.join(ROOT, "probes", "*.rs"))):
        head = open(f).read().splitlines()[:4]
        meta = {}
        for l in head:
            m = re.match(r"//@ (\w+): (.*)", l)
            if m: meta[m.group(1)] = m.group(2).strip()
        if meta.get("property") == pid:
            files.append((f, meta))
    outdir = os.path.join(BUILD, "probe-out"); os.makedirs(outdir, exist_ok=True)
    def one(item):
        f, meta = item
        o = os.path.join(outdir, os.path.basename(f)[:-3])
        p = subprocess.run(["rustc"] + ext + [f, "--out-dir", outdir, "--crate-name", os.path.basename(f)[:-3]],
                           stdout=subprocess.PIPE, stderr=subprocess.STDOUT, text=True, env=ENV)
        exp = meta.get("expect", "accept")
        if exp == "accept":
            ok = p.returncode == 0
        else:
            code = exp.split()[1] if len(exp.split()) > 1 else ""
            if code == "lifetime":
                ok = p.returncode != 0 and ("lifetime may not live long enough" in p.stdout or "E0521" in p.stdout or "E0597" in p.stdout or "E0515" in p.stdout or "E0499" in p.stdout or "E0716" in p.stdout)
            else:
                ok = p.returncode != 0 and any(cd in p.stdout for cd in code.split("|"))
        # what a disagreement means for the property:
        #   compiles although it must not        -> the escape route is open: a direct violation
        #   rejected, but for another reason     -> still closed; the probe lost its point (API renamed?): a note
        #   a must-compile twin does not compile -> the corpus no longer matches the API: correspondence broken
        kind = "ok" if ok else ("opens" if exp != "accept" and p.returncode == 0 else
                               "other-reason" if exp != "accept" else "twin-broken")
        return dict(file=f, expect=exp, finding=meta.get("finding"), ok=ok, kind=kind, rc=p.returncode, output=p.stdout[-1500:])
    with ThreadPoolExecutor(max_workers=16) as ex:
        res = list(ex.map(one, files))
    return res, ""

def static_property(pid, tier, seed, replay):
    t0 = time.time()
    known = read_known()
    evidence = {}; violations = []
    if replay:
        j = json.load(open(replay))
        print(json.dumps(j, indent=1)[:4000])
        if j.get("probe"):
            ext, err = build_repo_lib()
            p = subprocess.run(["rustc"] + ext + [j["probe"], "--out-dir", os.path.join(BUILD, "probe-out")],
                               stdout=subprocess.PIPE, stderr=subprocess.STDOUT, text=True, env=ENV)
            print("rustc rc =", p.returncode); print(p.stdout[-2000:])
        return 0
    ok_t, tout, tdt = run_translator()
    evidence["translator_s"] = round(tdt, 1)
    if not ok_t:
        violations.append(dict(kind="translator", what="translator failed", detail=tout))
    lean_ok, n_obl, n_dis = lean_obligations(pid, pid, evidence, violations)
    rows, rout = static_report()
    out_lines = []; rc = 0
    new_items = []; known_rows = []
    if rows is None:
        violations.append(dict(kind="obligation", what="static report does not build", detail=rout[-2000:]))
    else:
        for r in rows:
            if pid not in r["property"].split(","): continue
            if r["offending"]:
                new_items.append(r)
            if r["recorded"]:
                known_rows.append(r)
    probes, perr = run_probes(pid)
    probe_fail = []
    if probes is None:
        violations.append(dict(kind="probes", what="happylock does not build for the probes", detail=perr))
        probes = []
    probe_notes = []
    for pr in probes:
        if not pr["ok"]:
            if pr["finding"]:
                out_lines.append(f"note: finding {pr['finding']} no longer reproduces with {os.path.basename(pr['file'])} (informational)")
            elif pr["kind"] == "opens":
                probe_fail.append(pr)
            elif pr["kind"] == "other-reason":
                probe_notes.append(os.path.basename(pr["file"]))
                out_lines.append(f"note: {os.path.basename(pr['file'])} is still rejected by rustc, but not with the expected error ({pr['expect']}): the route stays closed, the probe has lost its point (informational)")
            else:
                violations.append(dict(kind="probes", what=f"the must-compile twin {os.path.basename(pr['file'])} no longer compiles against the current API: the probe corpus no longer matches the code", detail=pr["output"][-800:]))
    # C14's run-time face: the key must stay surrendered for the whole duration of a hold. The harness's raw
    # unlock asks ThreadKey::get() (mark 24); the Lean predicate C14 evaluates every transcript of family acq.
    dyn_fail = []; dyn_n = 0
    if pid == "C14":
        h_ok, h_out, h_dt = build_harness()
        if not h_ok:
            violations.append(dict(kind="correspondence", what="harness does not build against the current tree", detail=h_out[-2000:]))
        else:
            key = tree_hash(["/repo/src", os.path.join(ROOT, "harness", "src"), os.path.join(ROOT, "lean", "HLV", "Model"), os.path.join(ROOT, "lean", "Main.lean")])
            for fam in ("acq", "unwind"):
                r = run_family(fam, tier, seed, key)
                if "error" in r:
                    violations.append(dict(kind="crash", what=r["error"])); continue
                fails, n = run_pred("C14", r["cases"], r["impl"])
                dyn_n += n
                cs = open(r["cases"]).read().splitlines(); im = open(r["impl"]).read().splitlines(); mo = open(r["model"]).read().splitlines()
                nd = sum(1 for a, b in zip(im, mo) if a != b)
                if nd:
                    violations.append(dict(kind="correspondence", what=f"{nd} transcript disagreements in family {fam}",
                                           detail=next((dict(case=c, impl=a, model=b) for c, a, b in zip(cs, im, mo) if a != b), None)))
                for idx, msg in fails[:50]:
                    dyn_fail.append(dict(case=cs[idx], impl=im[idx], message=msg))
        evidence["dynamic_cases"] = dyn_n
    # known findings
    for f in known.get("findings", []):
        if f.get("property") != pid: continue
        hit = any(f["id"] in r["rule"] for r in known_rows) or any(pr.get("finding") == f["id"] and pr["ok"] for pr in probes)
        if hit:
            out_lines.append(f"KNOWN-FINDING: property={pid} {f['what']}")
    if dyn_fail and not (new_items or probe_fail):
        d = min(dyn_fail, key=lambda d: len(d["case"]))
        p = write_replay(pid, "direct", dict(property=pid, kind="direct violation on the real code: a key is obtainable while the thread still owns a live hold",
                 predicate="C14", message=d["message"], case=d["case"], impl_transcript=d["impl"], others=len(dyn_fail) - 1,
                 replay_cmd=f"./check C05 --replay <this file>  (re-runs the case; the m24 marks in the transcript are the successful ThreadKey::get() calls inside raw unlocks)"))
        out_lines.append(f"VIOLATION property={pid} replay={p}")
        rc = 1
    if new_items or probe_fail:
        payload = dict(property=pid, kind="direct violation: the API surface of the current source breaks a rule / a must-not-compile program compiles",
                       offending_items=new_items,
                       probe=(probe_fail[0]["file"] if probe_fail else None),
                       probe_expectation=(probe_fail[0]["expect"] if probe_fail else None),
                       probe_rustc_output=(probe_fail[0]["output"] if probe_fail else None),
                       other_failing_probes=[os.path.basename(x["file"]) for x in probe_fail[1:]],
                       replay_cmd=f"./check {pid} --replay <this file>  (re-runs rustc on the probe against /repo)")
        p = write_replay(pid, "direct", payload)
        out_lines.append(f"VIOLATION property={pid} replay={p}")
        rc = 1
    elif violations:
        p = write_replay(pid, "unproved", dict(property=pid, kind="a table theorem or the translator no longer checks and no offending item / probe was found",
                                               broken_obligations=violations, theorems=[t["name"] for t in evidence.get("theorems", [])]))
        out_lines.append(f"VIOLATION property={pid} replay={p} no-failing-input-found")
        rc = 1
    wall = time.time() - t0
    samples = [dict(probe=os.path.basename(pr["file"]), expect=pr["expect"], agrees=pr["ok"]) for pr in probes[:6]]
    ev = dict(property_id=pid, tier=tier, seed=seed, level="proof",
              coverage=dict(obligations=max(n_obl, 1), discharged=n_dis if n_obl else 0,
                            checker_cmd=f"translator /repo/src -> lean/HLV/Generated/Facts.lean; cd lean && lake build HLV.Props.{pid}; #print axioms of every registered theorem; rustc on probes/*.rs against the freshly built happylock",
                            trusted_base=["Lean 4.33 kernel (decide +kernel evaluates the rules on the generated table)",
                                          "axioms: propext, Classical.choice, Quot.sound only",
                                          "the translator (syn-based) as a reading of the Rust sources; validated by the rustc probe corpus",
                                          "the rules in HLV/Static/Rules.lean as a sufficient reading of Rust's type/borrow/auto-trait rules for these escape routes (not a model of rustc)",
                                          "rustc itself for the probes"],
                            programs=len(probes), disagreements_checked=len(probes),
                            evaluations=len(probes), distinct_nontrivial=len({pr['file'] for pr in probes if pr['expect'] != 'accept'}),
                            rule="every probe is a minimal client program for one escape route (expected to be rejected with a specific error code) or its compiling twin differing in the offending line; non-trivial = must-not-compile probes",
                            samples=samples or ["(no probes)"],
                            probe_disagreements=len(probe_fail), probes_rejected_for_another_reason=probe_notes,
                            static_rules=[dict(rule=r["rule"], offending=r["offending"], recorded_findings=r["recorded"]) for r in (rows or []) if pid in r["property"].split(",")],
                            theorems=evidence.get("theorems", []), leanchecker=evidence.get("leanchecker"),
                            exhaustive=True,
                            timings={k: v for k, v in evidence.items() if k.endswith("_s")}),
              assumptions=["Facts.lean is regenerated from /repo/src at the start of this run",
                           "the call graph used by the never-blocks rules is name-based and only follows the crate's own unambiguous names"],
              wall_s=round(wall, 1), violations=(1 if rc else 0))
    os.makedirs(os.path.join(ROOT, "evidence"), exist_ok=True)
    json.dump(ev, open(os.path.join(ROOT, "evidence", pid + ".json"), "w"), indent=1)
    for l in out_lines: print(l)
    print(f"{pid}: {'FAIL' if rc else 'ok'} — {n_dis}/{n_obl} theorems over the regenerated fact table, {len(probes)} rustc probes ({len(probe_fail)} disagree), {wall:.0f}s")
    return rc

EXTRA["C14"] = static_property
EXTRA["C15"] = static_property

def own_property(pid, tier, seed, replay):
    """C16: drop-counting harness over the real crate, expectations computed by the Lean ownership
    model (HLV.Model.Own: build/setPos/flatten), theorems in HLV.Props.C16."""
    t0 = time.time()
    evidence = {}; violations = []
    drv = os.path.join(ROOT, "lean", ".lake", "build", "bin", "hlv-driver")
    if replay:
        j = json.load(open(replay))
        print(json.dumps(j, indent=1)[:3000])
        okb, bout, _ = build_harness()
        if okb and j.get("lines"):
            want = {l.split(";values=")[0] for l in j["lines"]}
            p = subprocess.run([os.path.join(BUILD, "cargo", "release", "drops")], stdout=subprocess.PIPE,
                               stderr=subprocess.STDOUT, text=True, env=ENV)
            for l in p.stdout.splitlines():
                if l.split(";values=")[0] in want:
                    print("now:", l)
        return 0
    # static half: the ownership records regenerated from the source (translator), the theorems of
    # Props/C16 are stated over them
    ok_t, tout, tdt = run_translator()
    evidence["translator_s"] = round(tdt, 1)
    if not ok_t:
        violations.append(dict(kind="translator", what="translator failed", detail=tout))
    lean_ok, n_obl, n_dis = lean_obligations(pid, pid, evidence, violations)
    static_bad = []
    rows, rout = static_report() if ok_t else (None, tout)
    if rows is None:
        violations.append(dict(kind="obligation", what="static report does not build", detail=rout[-2000:]))
    else:
        static_bad = [r for r in rows if pid in r["property"].split(",") and r["offending"] and not r["rule"].startswith("[reading]")]
        # "[reading]" rows: the call record of a function is no longer what the ownership reading
        # recognises — the theorems are then about nothing; a broken obligation, not a failing input
        for r in rows:
            if pid in r["property"].split(",") and r["offending"] and r["rule"].startswith("[reading]"):
                violations.append(dict(kind="obligation", what="static reading of the source no longer applies: " + r["rule"], offending=r["offending"]))
        evidence["static_rules"] = [dict(rule=r["rule"], offending=r["offending"]) for r in rows if pid in r["property"].split(",")]
    t1 = time.time()
    okb, bout, _ = build_harness()
    evidence["harness_build_s"] = round(time.time() - t1, 1)
    lines = []; verdicts = []; crashed = None
    if not okb:
        violations.append(dict(kind="correspondence", what="harness does not build against the current tree", detail=bout[-3000:]))
    else:
        p = subprocess.run([os.path.join(BUILD, "cargo", "release", "drops")], stdout=subprocess.PIPE,
                           stderr=subprocess.PIPE, text=True, env=ENV)
        lines = [l for l in p.stdout.splitlines() if l.strip()]
        if p.returncode != 0:
            crashed = dict(rc=p.returncode, stderr=p.stderr[-2000:], last_line=(lines[-1] if lines else None))
        # the model driver does not depend on the theorem modules: a broken proof obligation must not
        # hide what the drop-counting run finds
        drv_ok = lean_ok or lean_build(["hlv-driver"])[0]
        if drv_ok and lines:
            q = subprocess.run([drv, "drops"], input="\n".join(lines) + "\n", stdout=subprocess.PIPE,
                               stderr=subprocess.STDOUT, text=True)
            verdicts = q.stdout.splitlines()
    fails = [(l, v) for l, v in zip(lines, verdicts) if v != "ok"]
    if verdicts and len(verdicts) != len(lines):
        violations.append(dict(kind="correspondence", what=f"driver answered {len(verdicts)} of {len(lines)} lines"))
    out_lines = []; rc = 0
    # the harness enumerates a fixed list of shapes x paths; a run that printed fewer lines than the
    # registered minimum means a path crashed or was skipped
    MIN_LINES = 440
    if fails or crashed or static_bad:
        payload = dict(property=pid, kind="direct violation: the real crate dropped a payload zero or several times, or returned values at other than their declared positions"
                       + (" / the ownership records extracted from the source break a rule of the ownership model (static_rules: the offending functions)" if static_bad else ""),
                       static_rules=[dict(rule=r["rule"], offending=r["offending"]) for r in static_bad],
                       lines=[l for l, _ in fails[:40]], why=[v for _, v in fails[:40]], crash=crashed,
                       replay_cmd=f"./check {pid} --replay <this file>  (rebuilds the harness against /repo and re-prints these lines)")
        pth = write_replay(pid, "direct", payload)
        out_lines.append(f"VIOLATION property={pid} replay={pth}")
        rc = 1
    elif violations or (okb and len(lines) < MIN_LINES):
        if okb and len(lines) < MIN_LINES:
            violations.append(dict(kind="correspondence", what=f"harness printed {len(lines)} lines, expected at least {MIN_LINES}"))
        pth = write_replay(pid, "unproved", dict(property=pid, kind="a theorem or the correspondence run no longer checks; no failing input found",
                                                 broken_obligations=violations, theorems=[t["name"] for t in evidence.get("theorems", [])]))
        out_lines.append(f"VIOLATION property={pid} replay={pth} no-failing-input-found")
        rc = 1
    shapes = sorted({l.split(";")[0] for l in lines}); paths = sorted({l.split(";")[1].split("(")[0] for l in lines if ";" in l})
    wall = time.time() - t0
    ev = dict(property_id=pid, tier=tier, seed=seed, level="proof",
              coverage=dict(obligations=max(n_obl, 1), discharged=n_dis if n_obl else 0,
                            checker_cmd=f"translator /repo/src -> lean/HLV/Generated/Facts.lean; cd lean && lake build HLV.Props.{pid} hlv-driver; #print axioms of every registered theorem; harness/bin/drops (real crate, drop-counting payloads) | hlv-driver drops",
                            trusted_base=["Lean 4.33 kernel", "axioms: propext, Classical.choice, Quot.sound only",
                                          "the ownership model HLV/Model/Own.lean (heap-cell operations for BoxedLockCollection, fill loops for the MaybeUninit arrays, VTree build/setPos/flatten for value positions); the operation sequences are regenerated from the source by the translator (FnDef.own: the calls of every function that touches an ownership-sensitive primitive, in evaluation order) and read by HLV/Static/OwnRules.lean; positions and drop counts are tied to the code by the drops correspondence run",
                                          "safe Rust's guarantee that code free of ownership-sensitive primitives drops every value exactly once (the table theorem shows which functions contain such primitives)",
                                          "the drop-counting harness harness/src/bin/drops.rs; Rust's own drop glue for tuples/arrays/Vec is not modelled (taken as exactly-once)"],
                            programs=len(lines), disagreements_checked=len(verdicts), evaluations=len(lines),
                            distinct_nontrivial=len(shapes),
                            rule="one program per (owned shape, API path): construct, optionally get_mut/write under lock, consume by into_inner/into_child/into_iter/drop; non-trivial = distinct shapes",
                            samples=lines[:3] + lines[-3:] if lines else ["(none)"],
                            shape_count=len(shapes), path_kinds=paths, exhaustive=True,
                            static_rules=evidence.get("static_rules", []),
                            theorems=evidence.get("theorems", []), leanchecker=evidence.get("leanchecker"),
                            timings={k: v for k, v in evidence.items() if k.endswith("_s")}),
              assumptions=["memory safety proper (no UB) is outside what the model exhibits: the harness observes drop counts and values only; run under Miri in the thorough tier when available",
                           "shapes are those enumerated by the harness (24 owned shapes up to depth 3)"],
              wall_s=round(wall, 1), violations=(1 if rc else 0))
    if tier == "thorough" and okb:
        m = run_miri_drops()
        ev["coverage"]["miri"] = m
        if m.get("ran") and m.get("rc") != 0 and rc == 0:
            pth = write_replay(pid, "direct", dict(property=pid, kind="Miri reports undefined behaviour or a leak in the drops harness over the real crate",
                                                   output=m.get("tail"), replay_cmd="cd harness && cargo +nightly miri run --bin drops"))
            out_lines.append(f"VIOLATION property={pid} replay={pth}")
            rc = 1; ev["violations"] = 1
    os.makedirs(os.path.join(ROOT, "evidence"), exist_ok=True)
    json.dump(ev, open(os.path.join(ROOT, "evidence", pid + ".json"), "w"), indent=1)
    for l in out_lines: print(l)
    print(f"{pid}: {'FAIL' if rc else 'ok'} — {n_dis}/{n_obl} theorems, {len(lines)} drop/value programs over {len(shapes)} shapes ({len(fails)} disagree), {wall:.0f}s")
    return rc

def run_miri_drops():
    """thorough tier: the same drops binary under Miri (UB + leak detection). Informative if Miri is missing."""
    t = time.time()
    env = dict(ENV); env["MIRIFLAGS"] = "-Zmiri-disable-isolation"
    env["CARGO_TARGET_DIR"] = os.path.join(BUILD, "cargo-miri")
    try:
        p = subprocess.run(["cargo", "+nightly", "miri", "run", "--offline", "--bin", "drops"], cwd=os.path.join(ROOT, "harness"),
                           stdout=subprocess.PIPE, stderr=subprocess.PIPE, text=True, env=env, timeout=3000)
    except Exception as e:
        return dict(ran=False, why=str(e))
    if "error: no such command" in p.stderr or "toolchain 'nightly" in p.stderr and "not installed" in p.stderr:
        return dict(ran=False, why=p.stderr[-300:])
    return dict(ran=True, rc=p.returncode, lines=len(p.stdout.splitlines()), tail=p.stderr[-1500:], wall_s=round(time.time() - t, 1))

EXTRA["C16"] = own_property

CUR_TIER = "quick"
def lean_obligations(pid, module, evidence, violations):
    """builds the theorem module + driver, audits axioms. Returns (ok, n_obligations, n_discharged)."""
    thms = registered_theorems(module)
    ok, out, dt = lean_build([f"HLV.Props.{module}", "hlv-driver"])
    evidence["lean_build_s"] = round(dt, 1)
    bad_src = audit_sources()
    discharged = 0
    axmap = {}
    if ok and CUR_TIER == "thorough":
        # independent re-check of the compiled theorem module by leanchecker (replays every declaration
        # of the .olean in a fresh kernel)
        t0 = time.time()
        rc, lout = sh(["lake", "env", "leanchecker", f"HLV.Props.{module}"], cwd=os.path.join(ROOT, "lean"), timeout=1800)
        evidence["leanchecker"] = dict(rc=rc, wall_s=round(time.time() - t0, 1))
        if rc != 0:
            violations.append(dict(kind="obligation", what=f"leanchecker rejects HLV.Props.{module}", detail=lout[-2000:]))
    if ok:
        ok2, axmap, axout = print_axioms(module, thms)
        for n, _ in thms:
            ax = axmap.get(n)
            if ax is not None and set(ax) <= ALLOWED_AXIOMS:
                discharged += 1
    evidence["theorems"] = [dict(name=n, gloss=g, axioms=axmap.get(n)) for n, g in thms]
    if bad_src:
        evidence["source_audit_hits"] = bad_src
    if not ok:
        violations.append(dict(kind="obligation", what=f"lake build HLV.Props.{module} failed",
                               detail=out[-3000:]))
    elif discharged != len(thms) or bad_src:
        violations.append(dict(kind="obligation",
                               what="axiom/source audit failed: " + "; ".join(
                                   [n for n, _ in thms if not (axmap.get(n) is not None and set(axmap[n]) <= ALLOWED_AXIOMS)] + bad_src)))
    return ok, len(thms), discharged

STATIC_HALF = {"C01", "C04", "C07", "C12", "C13", "C17"}
MIRI_PROPS = {"C02", "C05", "C11"}

def run_miri_sample(families, tier, seed, key, n_t2=30, n_t1=60):
    """runs evenly sampled cases of the already generated families under Miri; returns a summary"""
    env = dict(ENV); env["MIRIFLAGS"] = "-Zmiri-disable-isolation -Zmiri-ignore-leaks"
    env["CARGO_TARGET_DIR"] = os.path.join(BUILD, "cargo-miri")
    out = dict(ran=False, t2_cases=0, t1_cases=0, ub=[], mismatches=0)
    t0 = time.time()
    def sample(path, n):
        ls = [l for l in open(path).read().splitlines() if l.strip()]
        if len(ls) <= n: return ls
        step = len(ls) / n
        return [ls[int(i * step)] for i in range(n)]
    def run(binname, args, inp, cases, expect):
        try:
            p = subprocess.run(["cargo", "+nightly", "miri", "run", "--offline", "--bin", binname, "--"] + args,
                               cwd=os.path.join(ROOT, "harness"), input=inp, stdout=subprocess.PIPE, stderr=subprocess.PIPE,
                               text=True, env=env, timeout=3000)
        except Exception as e:
            out["error"] = str(e); return
        if "no such command" in p.stderr or ("toolchain" in p.stderr and "not installed" in p.stderr):
            out["error"] = p.stderr[-200:]; return
        out["ran"] = True
        got = [l for l in p.stdout.splitlines() if l.strip()]
        if p.returncode != 0:
            idx = len(got)          # the case after the last completed one
            case = cases[idx] if idx < len(cases) else "(unknown case)"
            out["ub"].append(dict(case=case, detail=p.stderr[-1500:]))
        else:
            out["mismatches"] += sum(1 for a, b in zip(got, expect) if a != b)
    for fam in families:
        r = run_family(fam, tier, seed, key)
        if "error" in r: continue
        cs = open(r["cases"]).read().splitlines(); im = open(r["impl"]).read().splitlines()
        pairs = list(zip(cs, im))
        if fam == "conc":
            step = max(1, len(pairs) // n_t2)
            sel = pairs[::step][:n_t2]
            f = os.path.join(BUILD, "miri_t2.cases"); open(f, "w").write("\n".join(c for c, _ in sel) + "\n")
            run("t2gen", ["--replay-file", f], None, [c for c, _ in sel], [t for _, t in sel])
            out["t2_cases"] += len(sel)
        elif fam in ("acq", "panic"):
            step = max(1, len(pairs) // (n_t1 // 2))
            sel = pairs[::step][:n_t1 // 2]
            run("t1run", [], "\n".join(c for c, _ in sel) + "\n", [c for c, _ in sel], [t for _, t in sel])
            out["t1_cases"] += len(sel)
    out["wall_s"] = round(time.time() - t0, 1)
    return out

def t1_property(pid, tier, seed, replay):
    t0 = time.time()
    cfg = PROPS[pid]
    module = cfg.get("module", pid)
    evidence = dict()
    violations = []          # obligation / correspondence / direct
    known = read_known()

    if replay:
        return do_replay(pid, cfg, replay)

    if pid in STATIC_HALF:
        # the table theorems of this property are about the fact table: regenerate it first
        ok_t, tout, tdt = run_translator()
        evidence["translator_s"] = round(tdt, 1)
        if not ok_t:
            violations.append(dict(kind="translator", what="translator failed", detail=tout))
    lean_ok, n_obl, n_dis = lean_obligations(pid, module, evidence, violations)
    h_ok, h_out, h_dt = build_harness()
    evidence["harness_build_s"] = round(h_dt, 1)
    if not h_ok:
        print(h_out[-3000:])
        print(f"harness does not build against /repo (this is a harness error, not a verdict)")
        return 2
    drv = os.path.join(ROOT, "lean", ".lake", "build", "bin", "hlv-driver")
    if not os.path.exists(drv):
        print("model driver missing (lake build failed)"); print(violations[:1]); 
        return 2

    key = tree_hash([ "/repo/src", os.path.join(ROOT, "harness", "src"), os.path.join(ROOT, "lean", "HLV", "Model"), os.path.join(ROOT, "lean", "Main.lean")])
    prune_family_cache()
    total = 0; nontriv = 0; disagreements = []; direct = []; samples = []; dist = {}
    n_direct_seen = 0; known_hits = {}; known_first = {}
    traces_validated = 0

    # regression corpus first
    corpus = os.path.join(ROOT, "corpus", "regress", pid + ".cases")
    corpus_lines = []
    if os.path.exists(corpus):
        corpus_lines = [l.strip() for l in open(corpus) if l.strip() and not l.startswith("#")]
    if corpus_lines:
        a, b, rc = run_cases_once(corpus_lines)
        tmpc = os.path.join(BUILD, f"corpus_{pid}.cases"); tmpi = os.path.join(BUILD, f"corpus_{pid}.impl")
        open(tmpc, "w").write("\n".join(corpus_lines) + "\n"); open(tmpi, "w").write("\n".join(a) + "\n")
        fails, n = run_pred(cfg["pred"], tmpc, tmpi)
        total += n; traces_validated += n
        for idx, msg in fails:
            n_direct_seen += 1
            hit = next((f for f in known.get("findings", []) if finding_matches(f, pid, corpus_lines[idx], msg)), None)
            if hit:
                known_hits[hit["id"]] = known_hits.get(hit["id"], 0) + 1
                known_first.setdefault(hit["id"], dict(case=corpus_lines[idx], impl=a[idx], message=msg))
            else:
                direct.append(dict(case=corpus_lines[idx], impl=a[idx], model=b[idx] if idx < len(b) else None, message=msg, source="corpus"))
        for idx, (x, y) in enumerate(zip(a, b)):
            if x != y:
                disagreements.append(dict(case=corpus_lines[idx], impl=x, model=y, source="corpus"))
        evidence["corpus_cases"] = n

    for fam in cfg["families"]:
        r = run_family(fam, tier, seed, key)
        if "error" in r:
            violations.append(dict(kind="crash", what=r["error"]))
            continue
        st = json.load(open(r["stats"]))
        total += st["evaluations"]; nontriv += st["distinct_nontrivial"]
        for k, v in st["distribution"].items():
            dist[fam + "." + k] = v
        samples += st["samples"][:2]
        if st.get("unknown_addr", 0):
            violations.append(dict(kind="harness", what=f"{st['unknown_addr']} raw operations on unregistered addresses"))
        c = open(r["cases"]).read().splitlines()
        a = open(r["impl"]).read().splitlines()
        m = open(r["model"]).read().splitlines()
        for idx, (x, y) in enumerate(zip(a, m)):
            if x != y:
                if len(disagreements) < 50:
                    disagreements.append(dict(case=c[idx], impl=x, model=y, source=fam))
                else:
                    disagreements.append(None)
        fails, n = run_pred(cfg["pred"], r["cases"], r["impl"])
        traces_validated += n
        for idx, msg in fails:
            n_direct_seen += 1
            hit = next((f for f in known.get("findings", []) if finding_matches(f, pid, c[idx], msg)), None)
            if hit:
                known_hits[hit["id"]] = known_hits.get(hit["id"], 0) + 1
                if hit["id"] not in known_first:
                    known_first[hit["id"]] = dict(case=c[idx], impl=a[idx], message=msg)
            elif len(direct) < 200:
                direct.append(dict(case=c[idx], impl=a[idx], model=m[idx], message=msg, source=fam))

    # C03 / C12: two corner scenarios with their own raw lock (harness bin/extras)
    if pid in ("C03", "C12"):
        try:
            px = subprocess.run([os.path.join(BUILD, "cargo", "release", "extras")], stdout=subprocess.PIPE, stderr=subprocess.STDOUT, text=True, env=ENV, timeout=120)
            xl = {l.split(";")[0]: dict(kv.split("=", 1) for kv in l.split(";")[1:] if "=" in kv) for l in px.stdout.splitlines() if ";" in l}
        except Exception as e:
            xl = {}; violations.append(dict(kind="crash", what=f"extras scenarios did not run: {e}"))
        evidence["extras"] = xl
        total += len(xl)
        pb = xl.get("payload_bomb")
        if pb is None or pb.get("third_member_released") != "true":
            n_direct_seen += 1
            direct.append(dict(case="extras: payload_bomb  (three members; the first two raw unlocks panic, the second with a payload whose destructor panics)",
                               impl=str(pb), model="third_member_released=true", source="extras",
                               message="a scoped call on a collection unwound and gave the key back while a member whose unlock does not panic is still locked (the unlock loop stopped at a panicking payload destructor)"))
        pr = xl.get("payload_bomb_read")
        if pr is None or pr.get("third_member_released") != "true":
            n_direct_seen += 1
            direct.append(dict(case="extras: payload_bomb_read  (scoped_read on three RwLocks; the first two raw unlock_shared calls panic, the second with a payload whose destructor panics)",
                               impl=str(pr), model="third_member_released=true", source="extras",
                               message="a scoped read on a collection unwound and gave the key back while a member whose unlock does not panic is still read-locked (the unlock loop stopped at a panicking payload destructor)"))
        if pid == "C12":
            # what the statement-level protocol model (Model/Kill.lean) says these schedules end in
            try:
                pk = subprocess.run([drv, "kill"], stdout=subprocess.PIPE, stderr=subprocess.STDOUT, text=True, timeout=60)
                ml = {l.split(";")[0]: dict(kv.split("=", 1) for kv in l.split(";")[1:] if "=" in kv) for l in pk.stdout.splitlines() if ";" in l}
            except Exception as e:
                ml = {}
            evidence["kill_model"] = ml
            if set(ml) != {"kill_while_waiting", "kill_during_try", "kill_during_try_read"}:
                violations.append(dict(kind="correspondence", what=f"protocol model did not answer the kill scenarios: {ml}"))
            kw = xl.get("kill_while_waiting"); want = ml.get("kill_while_waiting", {}).get("waiter_got", "refused")
            if kw is None or kw.get("waiter_got") != want or kw.get("waiter_was_waiting") != "true":
                n_direct_seen += 1
                direct.append(dict(case="extras: kill_while_waiting  (A holds; B blocks in lock(); C's raw try_lock panics and kills the lock; A releases)",
                                   impl=str(kw), model=f"waiter_got={want}", source="extras",
                                   message="a thread that was already waiting when the lock was killed by a panicking raw operation is handed a usable guard afterwards (the kill flag is only tested before the blocking call)"))
            kt = xl.get("kill_during_try"); want = ml.get("kill_during_try", {}).get("in_flight_try_got_guard", "false")
            if kt is None or kt.get("in_flight_try_got_guard") != want or kt.get("try_was_in_flight") != "true" or kt.get("fresh_try_refused") != "true":
                n_direct_seen += 1
                direct.append(dict(case="extras: kill_during_try  (A holds; B's try_lock is pre-empted inside the raw try; A's raw unlock releases and then panics, killing the lock; B resumes)",
                                   impl=str(kt), model=f"in_flight_try_got_guard={want};fresh_try_refused=true", source="extras",
                                   message="a try_lock in flight when the lock was killed by a panicking raw operation returns a usable guard on the killed lock (the kill flag is only tested before the raw try)"))
            kx = xl.get("kill_during_try_write"); want = ml.get("kill_during_try", {}).get("in_flight_try_got_guard", "false")
            if kx is None or kx.get("in_flight_try_got_guard") != want or kx.get("try_was_in_flight") != "true" or kx.get("fresh_try_refused") != "true":
                n_direct_seen += 1
                direct.append(dict(case="extras: kill_during_try_write  (RwLock: A holds exclusively; B's try_write is pre-empted inside the raw try; A's raw unlock releases and then panics; B resumes)",
                                   impl=str(kx), model=f"in_flight_try_got_guard={want};fresh_try_refused=true", source="extras",
                                   message="a try_write in flight when the lock was killed by a panicking raw operation reports success on the killed lock"))
            kr = xl.get("kill_during_try_read"); want = ml.get("kill_during_try_read", {}).get("in_flight_try_got_guard", "false")
            if kr is None or kr.get("in_flight_try_got_guard") != want or kr.get("try_was_in_flight") != "true" or kr.get("fresh_try_refused") != "true":
                n_direct_seen += 1
                direct.append(dict(case="extras: kill_during_try_read  (A holds exclusively; B's try_read is pre-empted inside the raw try; A's raw unlock releases and then panics, killing the lock; B resumes)",
                                   impl=str(kr), model=f"in_flight_try_got_guard={want};fresh_try_refused=true", source="extras",
                                   message="a try_read in flight when the lock was killed by a panicking raw operation reports success on the killed lock"))

    # C07: the zero-sized corner (recorded finding D9), reproduced against the real crate
    if pid == "C07":
        pz = subprocess.run([os.path.join(BUILD, "cargo", "release", "zst")], stdout=subprocess.PIPE, stderr=subprocess.STDOUT, text=True, env=ENV)
        zl = dict(l.split(";") for l in pz.stdout.splitlines() if ";" in l)
        evidence["zst"] = zl
        total += len(zl)
        if zl.get("control.ref.try_new") != "Some":
            n_direct_seen += 1
            direct.append(dict(case="zst: control", impl=pz.stdout[-500:], model=None, source="zst",
                               message="try_new rejects two non-empty owned collections that share no lock"))
        for ctor in ("ref.try_new", "retry.try_new", "boxed.try_new", "ref.try_new.mixed"):
            if zl.get(ctor) == "None":
                case = f"zst: {ctor}(&(OwnedLockCollection::new([]), OwnedLockCollection::new([])))"
                msg = "None for a duplicate-free input (two empty owned collections alias by address)"
                n_direct_seen += 1
                hit = next((f for f in known.get("findings", []) if finding_matches(f, pid, case, msg)), None)
                if hit:
                    known_hits[hit["id"]] = known_hits.get(hit["id"], 0) + 1
                    known_first.setdefault(hit["id"], dict(case=case, impl="None", message=msg))
                else:
                    direct.append(dict(case=case, impl="None", model="Some", message=msg, source="zst"))

    # static half (C04, C07, C13, C17): the rules over the fact table regenerated from the source
    static_rows = []
    if pid in STATIC_HALF:
        if True:
            rows, rout = static_report()
            if rows is None:
                violations.append(dict(kind="obligation", what="static report does not build", detail=rout[-2000:]))
            else:
                static_rows = [r for r in rows if pid in r["property"].split(",")]
                for r in static_rows:
                    if r["recorded"]:
                        for f in known.get("findings", []):
                            if f["id"] in r["rule"] and (f.get("property") == pid or pid in f.get("also", [])):
                                known_hits[f["id"]] = known_hits.get(f["id"], 0) + len(r["recorded"])
                                known_first.setdefault(f["id"], dict(case="(static) " + r["rule"], impl="; ".join(r["recorded"]), message=r["rule"]))
                for r in static_rows:
                    if r["offending"] and r["rule"].startswith("[reading]"):
                        violations.append(dict(kind="obligation", what="static reading of the source no longer applies: " + r["rule"], offending=r["offending"]))
                    elif r["offending"]:
                        n_direct_seen += 1
                        direct.append(dict(case="(static) " + r["rule"], impl="; ".join(r["offending"]), model=None,
                                           message=f"static rule over the regenerated fact table: {r['rule']}: " + "; ".join(r["offending"]), source="static"))
        evidence["static_rules"] = [dict(rule=r["rule"], offending=r["offending"]) for r in static_rows]

    # thorough: a sample of the same cases under Miri (undefined behaviour in happylock's unsafe code:
    # aliasing violations when exclusion is broken, use after free, invalid lifetimes; the T2 baton
    # orders all accesses, so plain data races are not what this detects)
    if tier == "thorough" and pid in MIRI_PROPS:
        mres = run_miri_sample(cfg["families"], tier, seed, key)
        evidence["miri"] = mres
        for bad in mres.get("ub", []):
            n_direct_seen += 1
            direct.append(dict(case=bad["case"], impl=bad["detail"], model=None,
                               message="Miri reports undefined behaviour while the real code runs this case: " + bad["detail"][:300], source="miri"))

    n_dis_total = len(disagreements)
    disagreements = [d for d in disagreements if d]
    n_direct_total = n_direct_seen

    # verdict
    rc = 0
    out_lines = []
    for f in known.get("findings", []):
        if f["id"] in known_hits:
            out_lines.append(f"KNOWN-FINDING: property={pid} {f['what']} [{known_hits[f['id']]} cases, e.g. {known_first[f['id']]['case']}]")
    new_direct = direct
    if new_direct:
        # a run of the real code that fails the predicate is the replay of choice; a static rule (a
        # table theorem over the regenerated facts) that no longer holds names the offending
        # function but is not a failing input: it is reported as such
        dynamic = [d for d in new_direct if d.get("source") != "static"]
        only_static = not dynamic
        d = min(dynamic or new_direct, key=lambda d: len(d["case"]))
        p = write_replay(pid, "direct", dict(property=pid,
                 kind=("table theorem over the regenerated fact table no longer holds (static rule); no run of the real code failing the predicate was found in the enumerated families" if only_static else "direct violation on the real code"),
                 predicate=cfg["pred"], message=d["message"], case=d["case"], impl_transcript=d["impl"],
                 model_transcript=d["model"], others=len(new_direct) - 1,
                 replay_cmd=f"./check {pid} --replay <this file>"))
        out_lines.append(f"VIOLATION property={pid} replay={p}" + (" no-failing-input-found" if only_static else ""))
        rc = 1
    elif disagreements or violations:
        # a proof obligation or the correspondence broke, but no implementation transcript violates
        # the property's predicate: widen the search once (thorough families) before giving up
        found = None
        # HLV_NO_WIDEN=1: used by the mutation sweep only (tools/mutsweep.py), to keep it fast
        if tier == "quick" and not os.environ.get("HLV_NO_WIDEN"):
            for fam in cfg["families"]:
                r = run_family(fam, "thorough", seed, key)
                if "error" in r: continue
                fails, n = run_pred(cfg["pred"], r["cases"], r["impl"])
                traces_validated += n
                if fails:
                    c = open(r["cases"]).read().splitlines(); a = open(r["impl"]).read().splitlines()
                    idx, msg = fails[0]
                    cand = dict(case=c[idx], impl=a[idx], message=msg)
                    if not any(finding_matches(f, pid, cand["case"], msg) for f in known.get("findings", [])):
                        found = cand; break
        if found:
            p = write_replay(pid, "direct", dict(property=pid, kind="direct violation on the real code (found by the widened search)",
                     predicate=cfg["pred"], message=found["message"], case=found["case"], impl_transcript=found["impl"]))
            out_lines.append(f"VIOLATION property={pid} replay={p}")
        else:
            first = disagreements[0] if disagreements else None
            p = write_replay(pid, "unproved", dict(property=pid,
                     kind="the proof no longer covers the code: obligation or correspondence broken, no failing input found",
                     broken_obligations=violations, correspondence_disagreements=n_dis_total,
                     first_disagreement=first, theorems=[t["name"] for t in evidence.get("theorems", [])],
                     searched=f"families {cfg['families']} at tiers quick+thorough, predicate {cfg['pred']} on every implementation transcript"))
            out_lines.append(f"VIOLATION property={pid} replay={p} no-failing-input-found")
        rc = 1

    wall = time.time() - t0
    ev = dict(property_id=pid, tier=tier, seed=seed, level="proof",
              coverage=dict(
                  obligations=max(n_obl, 1), discharged=n_dis if n_obl else 0,
                  checker_cmd=f"cd lean && lake build HLV.Props.{module} && lake env lean .build/axioms_{module}.lean (#print axioms of every registered theorem)",
                  trusted_base=["Lean 4.33 kernel", "axioms: propext, Classical.choice, Quot.sound only",
                                "hand-written Lean model of the Rust source (checked by transcript correspondence on the cases below)",
                                "harness VRaw as an implementation of the lock_api contract",
                                "rustc/std semantics (unwinding, drop order)"],
                  evaluations=total, distinct_nontrivial=nontriv,
                  rule="T1: every case family is enumerated exhaustively within the tier's size bounds; the script DFS follows the real code's decision tree (refused try / one-shot panic at every raw operation). Non-trivial = transcript has a refused try, a fault, a panic outcome, an environment release, or >=2 locks; distinct = distinct case text.",
                  samples=samples[:6] or ["(no T1 cases)"],
                  traces_validated_against_impl=traces_validated,
                  disagreements_checked=total,
                  correspondence_disagreements=n_dis_total,
                  predicate_failures=n_direct_total,
                  known_finding_hits=known_hits,
                  distribution=dist,
                  theorems=evidence.get("theorems", []), leanchecker=evidence.get("leanchecker"),
                  static_rules=evidence.get("static_rules", []),
                  miri=evidence.get("miri"),
                  exhaustive=True,
                  timings={k: v for k, v in evidence.items() if k.endswith("_s")},
              ),
              assumptions=["the model's atomic leaf step (killed test + lock_api call + handle_unwind) abstracts three Rust statements",
                           "T1 runs are single-threaded: other threads appear only through answers (pre-held locks, scripted refusals/faults); family conc (T2, where listed in distribution) runs 2-3 real threads serialised at raw-lock operations by a baton scheduler, reader-preferring table, no faults"],
              wall_s=round(wall, 1), violations=(1 if rc else 0))
    os.makedirs(os.path.join(ROOT, "evidence"), exist_ok=True)
    json.dump(ev, open(os.path.join(ROOT, "evidence", pid + ".json"), "w"), indent=1)
    for l in out_lines:
        print(l)
    print(f"{pid}: {'FAIL' if rc else 'ok'} — {n_dis}/{n_obl} theorems, {total} cases on the real code "
          f"({n_dis_total} transcript disagreements, {n_direct_total} predicate failures), {wall:.0f}s")
    return rc

def do_replay(pid, cfg, path):
    j = json.load(open(path))
    case = j.get("case") or (j.get("first_disagreement") or {}).get("case")
    if not case:
        print(json.dumps(j, indent=1)); return 0
    if case.startswith("extras:"):
        print(json.dumps(j, indent=1)[:2000])
        ok, out, dt = build_harness()
        px = subprocess.run([os.path.join(BUILD, "cargo", "release", "extras")], stdout=subprocess.PIPE, stderr=subprocess.STDOUT, text=True, env=ENV)
        print("now:"); print(px.stdout)
        return 0
    if case.startswith("zst:"):
        print(json.dumps(j, indent=1)[:2000])
        ok, out, dt = build_harness()
        pz = subprocess.run([os.path.join(BUILD, "cargo", "release", "zst")], stdout=subprocess.PIPE, stderr=subprocess.STDOUT, text=True, env=ENV)
        print("now:"); print(pz.stdout)
        return 0
    if case.startswith("(static)"):
        # a static-rule violation: regenerate the fact table from /repo and re-evaluate the rules
        print(json.dumps(j, indent=1)[:3000])
        ok_t, tout, _ = run_translator()
        rows, rout = static_report() if ok_t else (None, tout)
        bad = [r for r in (rows or []) if pid in r["property"].split(",") and r["offending"]]
        for r in bad: print("now:", r["rule"], "->", "; ".join(r["offending"]))
        if not bad: print("now: no offending item")
        return 1 if bad or rows is None else 0
    ok, out, dt = build_harness()
    lean_build(["hlv-driver"])
    if ";T=" in case:
        # a T2 case: re-run the real threads under the recorded schedule, and the model
        exe = os.path.join(BUILD, "cargo", "release", "t2gen")
        drv = os.path.join(ROOT, "lean", ".lake", "build", "bin", "hlv-driver")
        pa = subprocess.run([exe, "--replay", case], stdout=subprocess.PIPE, text=True, env=ENV)
        lines = pa.stdout.splitlines()
        impl = lines[1] if len(lines) > 1 else ""
        pb = subprocess.run([drv, "t2"], input=(lines[0] if lines else case) + "\n", stdout=subprocess.PIPE, text=True, env=ENV)
        model = pb.stdout.strip()
        pc = subprocess.run([drv, "t2check", cfg["pred"]], input=(lines[0] if lines else case) + "\n" + impl + "\n", stdout=subprocess.PIPE, text=True, env=ENV)
        print("case :", lines[0] if lines else case); print("impl :", impl); print("model:", model)
        print("predicate", cfg["pred"], ":", pc.stdout.strip())
        return 1 if pc.stdout.strip() != "ok" or impl != model else 0
    a, b, rc = run_cases_once([case])
    print("case :", case)
    print("impl :", a[0] if a else None)
    print("model:", b[0] if b else None)
    tmpc = os.path.join(BUILD, "replay.cases"); tmpi = os.path.join(BUILD, "replay.impl")
    open(tmpc, "w").write(case + "\n"); open(tmpi, "w").write((a[0] if a else "") + "\n")
    fails, n = run_pred(cfg["pred"], tmpc, tmpi)
    print("predicate", cfg["pred"], ":", fails[0][1] if fails else "ok")
    return 1 if fails or (a and b and a[0] != b[0]) else 0
