#!/usr/bin/env python3
"""run_harmless.py [--props C04,C07,...] [id ...] — applies each behaviour-preserving change under
/verif/harmless/<id>/patch.diff to /repo, runs the quick checks, undoes the change, and records every
alarm (a VIOLATION on a harmless change is a false alarm of the machinery unless it ends in
no-failing-input-found, which is the documented price of a regenerated / pinned reading)."""
import sys, os, json, subprocess, glob, time
ROOT = os.path.dirname(os.path.dirname(os.path.abspath(__file__)))
args = sys.argv[1:]
props = ["C04", "C07", "C12", "C14", "C15", "C16", "C17"]
if args and args[0] == "--props":
    props = args[1].split(","); args = args[2:]
ids = args or sorted(os.path.basename(p) for p in glob.glob(os.path.join(ROOT, "harmless", "g*-h*")))
resfile = os.path.join(ROOT, "harmless", "RESULTS.json")
results = json.load(open(resfile)) if os.path.exists(resfile) else {}
assert subprocess.run(["git", "-C", "/repo", "status", "--porcelain", "--untracked-files=no"], capture_output=True, text=True).stdout.strip() == "", "/repo not clean"
for hid in ids:
    d = os.path.join(ROOT, "harmless", hid)
    patch = os.path.join(d, "patch.diff")
    if subprocess.run(["git", "-C", "/repo", "apply", "--check", patch], capture_output=True).returncode != 0:
        print(f"{hid}: patch does not apply to the current /repo HEAD"); continue
    saved = {}
    for pid in props:
        evf = os.path.join(ROOT, "evidence", pid + ".json")
        saved[pid] = open(evf).read() if os.path.exists(evf) else None
    subprocess.run(["git", "-C", "/repo", "apply", patch], check=True)
    res = results.setdefault(hid, {})
    try:
        for pid in props:
            t0 = time.time()
            p = subprocess.run([os.path.join(ROOT, "check"), pid, "--tier", "quick"], capture_output=True, text=True, cwd=ROOT, timeout=3600)
            out = p.stdout.strip().splitlines()
            viol = [l for l in out if l.startswith("VIOLATION")]
            if p.returncode == 0 and not viol: kind = "quiet"
            elif viol and viol[0].endswith("no-failing-input-found"): kind = "alarm (no-failing-input-found)"
            elif viol: kind = "ALARM with replay"
            else: kind = f"check error rc={p.returncode}"
            res[pid] = dict(verdict=kind, line=(viol[0] if viol else (out[-1] if out else ""))[:300], wall_s=round(time.time() - t0, 1))
            print(hid, pid, kind, flush=True)
    finally:
        subprocess.run(["git", "-C", "/repo", "checkout", "--", "."], check=True)
        subprocess.run(["git", "-C", "/repo", "clean", "-fdq", "src"], check=True)
        for pid, txt in saved.items():
            if txt is not None:
                open(os.path.join(ROOT, "evidence", pid + ".json"), "w").write(txt)
    json.dump(results, open(resfile, "w"), indent=1, sort_keys=True)
