#!/usr/bin/env python3
"""Regenerates /verif/MANIFEST.json (single source of truth for the claims)."""
import json, os
ROOT = os.path.dirname(os.path.dirname(os.path.abspath(__file__)))
NOTE = ("Trusted: Lean 4.33 kernel; axioms propext/Classical.choice/Quot.sound only (audited with #print axioms on every registered theorem; source audit for sorry/admit/axiom/native_decide); "
        "the hand-written Lean model of the Rust source, tied to /repo on every run by byte-for-byte transcript correspondence between the real code (generic in the raw lock, run with the auditing, scriptable VRaw) "
        "and the model's executable semantics over exhaustively enumerated case families plus a DFS over the real code's own decision tree (refused tries, a one-shot panic at every raw operation); "
        "the model's leaf step is atomic (killed test + lock_api call + handle_unwind); rustc/std unwinding and drop order; T1 runs are single-threaded (other threads enter as answers).")
TECH = "Lean 4 theorems (wp-calculus over a resumption model; induction over lists, shapes, fuel) + model/implementation transcript correspondence + Lean-defined trace predicate on every implementation transcript"
def chk(pid, text, ref, note=NOTE, tech=TECH, engine="lean-hold"):
    return dict(property_id=pid, quick_cmd=f"./check {pid} --tier quick", thorough_cmd=f"./check {pid} --tier thorough",
                evidence_file=f"evidence/{pid}.json", replay_cmd_template=f"./check {pid} --replay {{path}}",
                engine=engine, level_claimed=dict(category="proof", text=text, design_ref=ref),
                level_note=note, technique=tech)
CHECKS = [
 chk("C03", "Theorems (all programs, all lengths, all API flavours, all shapes, any answers, <= n faults): every acquiring call starts and every key hand-back happens with no lock held; every statement restores 'nothing held'; the program ends holding nothing. Tie: families acq, panic, fault, hist on the real code; predicate C03 on every implementation transcript. The 're-acquire without waiting on itself' clause is the rank discipline proved under C08/C01.", "DESIGN §8 C03"),
 chk("C04", "Theorems: the footprint of every lockable shape is a permutation of its declared leaves; a blocking acquisition returns holding exactly them (or unwinds holding what it held before), try is all-or-nothing, nothing blocks inside try or non-acquiring calls — all shapes, modes, answer sequences. 'Scoped closure runs exactly once iff acquired' is decided on T1 transcripts (predicate), not by a theorem. Tie: family acq.", "DESIGN §8 C04"),
 chk("C05", "Theorems: each release names a lock the thread holds in that mode (all executions, <= n faults); all holds are gone at program end; guard drop and collection release give back each leaf exactly once in its mode. Tie: families acq, panic, fault with the VRaw audit flag inside the transcript. 'When all threads have dropped their guards every lock is free' for several threads follows from the same counting invariant under C01.", "DESIGN §8 C05"),
 chk("C08", "Theorems: the sorted lock list of a duplicate-free collection is strictly increasing in address for any length/listing; permuting the listing does not change the acquisition sequence; in every execution of every program over valid collections without owned groups each blocking acquisition has only smaller-address locks held (so common locks are taken in one relative order); nested boxed/ref/retry contribute leaves, owned is one unit (get_ptrs equations). Owned groups inside sorting collections are covered by T1 (family order), not by the rank theorem. Tie: family order (every constructor incl. new/new_ref x every listing x every address permutation) + acq.", "DESIGN §8 C08"),
 chk("C09", "Theorems: while acquiring a retrying collection of leaf locks every blocking raw acquisition is issued with no lock held at all (all sizes, arrangements, rounds, answers, <= n faults; proved through the rank discipline for every rank function); the retry contract (all held on return, nothing more held on unwind, try all-or-nothing) for any members and any fuel. 'Completes once contenders release' is checked on T1 runs (no spin outcome) and under C01 schedules, not proved as liveness.", "DESIGN §8 C09"),
 chk("C11", "Theorems: a session whose body panics ends with nothing held for every flavour/kind/shape/mode/key style; an unwinding guard drop releases all leaves. 'The panic reaches the caller' and key re-obtainability are decided on T1 transcripts (predicate C11 + final key probe in the correspondence); waiter progress belongs to C01. Tie: family panic.", "DESIGN §8 C11"),
 chk("C12", "Theorems: for every n (one-shot and persistent faults) the hold discipline holds on every execution; happylock never kills a lock itself; an unwinding acquisition leaves the holds as before; in the raw-lock table a fault kills exactly that lock, a killed lock refuses everything, killed is forever. Tie: family fault = one-shot panic at every raw operation index of every API on every shape, with refusals, final owner table and killed probes compared with the model.", "DESIGN §8 C12"),
 chk("C17", "Theorems: Debug of any shape never blocks and restores the caller's holds from any hold state (also when the caller holds the formatted locks); all non-acquiring statements keep the thread empty-handed; Debug inside a hold is harmless. Tie: family nonacq (Debug / is_poisoned / clear_poison with locks free, held by another thread, or by the caller through a live guard or running closure, plus faults inside Debug). Accessors and constructors (child, iter, as_ref, get_mut, into_inner, try_new) are exercised by the harness builder on every case; that they issue no raw operation is observed, not proved.", "DESIGN §8 C17"),
]
ALL = [f"C{i:02d}" for i in range(1, 18)]
claimed = {c["property_id"] for c in CHECKS}
NA_REASON = {
 "default": "not claimed in this revision: the machinery for it is still under construction (DESIGN.md §8 describes the plan); it will be claimed when its theorem module and tie exist",
}
na = [dict(property_id=p, reason=NA_REASON.get(p, NA_REASON["default"])) for p in ALL if p not in claimed]
m = dict(version=1, setup_cmd="./setup.sh",
         hooks=dict(guard="happylock_verif",
                    enable="no source hooks are needed: the harness plugs its raw lock in through happylock's public type parameter R (Mutex<T,R>, RwLock<T,R>)",
                    baseline_off_cmd="cd /repo && cargo nextest run --workspace --no-fail-fast --tool-config-file pb:/w/lib/nextest.toml --profile pb --test-threads 8 --offline",
                    source_commits=[], add_only=True),
         engines=[dict(name="lean-hold", path="lean/", serves_properties=sorted(claimed),
                       kind_free_text="Lean 4 model + wp contracts + property theorems; hlv-driver executable for model transcripts and trace predicates"),
                  dict(name="harness", path="harness/", serves_properties=sorted(claimed),
                       kind_free_text="Rust correspondence harness running the real happylock code with a scriptable auditing raw lock")],
         checks=CHECKS, not_applicable=na,
         notes="See DESIGN.md. fix: commits in /repo repair defects D1-D4, D7a, D7b, D8 (Mutex/RwLock), D10, D11; known_findings.json lists recorded findings and fixed entries.")
json.dump(m, open(os.path.join(ROOT, "MANIFEST.json"), "w"), indent=1)
print("claimed:", sorted(claimed))
