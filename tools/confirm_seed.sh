#!/bin/bash
# confirm_seed.sh <src-dir with patch.diff demo.rs> <name>
# Confirms in a scratch worktree: suite passes with the change, demo fails with it, demo passes without.
src=$1; name=$2
wt=/tmp/seedchk-$name
git -C /repo worktree remove --force $wt >/dev/null 2>&1
git -C /repo worktree add --detach $wt HEAD >/dev/null 2>&1 || { echo "worktree failed"; exit 2; }
cd $wt
export CARGO_TARGET_DIR=/tmp/seedchk-target
res=""
git apply $src/patch.diff || { echo "$name: patch does not apply"; git -C /repo worktree remove --force $wt; exit 2; }
if cargo test --offline >/tmp/seedchk-$name.suite.log 2>&1; then res="suite_with_change=pass"; else res="suite_with_change=FAIL"; fi
cp $src/demo.rs tests/demo_seed.rs
if timeout 300 cargo test --offline --test demo_seed >/tmp/seedchk-$name.demo1.log 2>&1; then res="$res demo_with_change=PASS(unexpected)"; else res="$res demo_with_change=fail"; fi
git checkout -- src
if timeout 300 cargo test --offline --test demo_seed >/tmp/seedchk-$name.demo0.log 2>&1; then res="$res demo_without_change=pass"; else res="$res demo_without_change=FAIL"; fi
cd /
git -C /repo worktree remove --force $wt
echo "$name: $res"
