#!/bin/bash
# usage: quickdiff.sh <family> [tier]   — rebuild harness vs /repo, run family, compare with model
set -e
fam=$1; tier=${2:-quick}
cd /verif/harness && cargo build --release 2>&1 | grep -E '^(error|warning: unused)' -A5 | head -20 || true
out=/verif/.build/run; mkdir -p $out
/verif/.build/cargo/release/t1gen $fam $tier ${VERIF_SEED:-1} $out
/verif/lean/.lake/build/bin/hlv-driver < $out/$fam.cases > $out/$fam.model
python3 - "$out/$fam" <<'PY'
import sys
b=sys.argv[1]
c=open(b+'.cases').read().splitlines(); a=open(b+'.impl').read().splitlines(); m=open(b+'.model').read().splitlines()
n=0
for cs,x,y in zip(c,a,m):
    if x!=y:
        n+=1
        if n<=3: print(cs); print(' impl :',x); print(' model:',y)
print(len(c),'cases',n,'differ')
PY
