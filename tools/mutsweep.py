#!/usr/bin/env python3
"""mutsweep.py gen | run [ids…] | report — a small mutation sweep over /repo/src, used to look for
gaps in the checks (not part of any registered check).

  gen     makes single-line mutants of the non-test source in a scratch copy (/tmp/mutwork), keeps
          the ones that still compile and pass the crate's unit tests, stores them as
          /verif/mutants/<id>/patch.diff (+ meta.json: file, line, operator, before, after)
  run     applies each stored mutant to /repo, runs the quick checks (most likely first, stopping at
          the first VIOLATION), restores /repo and the evidence files, records the verdict in
          /verif/mutants/RESULTS.json
  report  prints survivors (mutants no check objected to) for triage: equivalent mutant, property
          irrelevant, or a gap
"""
import sys, os, re, json, subprocess, glob, time, shutil, hashlib
ROOT = os.path.dirname(os.path.dirname(os.path.abspath(__file__)))
WORK = "/tmp/mutwork"
OUT = os.path.join(ROOT, "mutants")
SWAPS = [("raw_write", "raw_read"), ("raw_try_write", "raw_try_read"), ("raw_unlock_write", "raw_unlock_read"),
         ("ordered_write", "ordered_read"), ("ordered_try_write", "ordered_try_read"),
         ("unlock_all_writes", "unlock_all_reads"), ("attempt_to_recover_writes_from_panic", "attempt_to_recover_reads_from_panic"),
         ("lock_exclusive", "lock_shared"), ("try_lock_exclusive", "try_lock_shared"), ("unlock_exclusive", "unlock_shared"),
         ("scoped_write", "scoped_read"), ("scoped_try_write", "scoped_try_read")]

def sh(cmd, cwd=None, timeout=None, env=None):
    try:
        p = subprocess.run(cmd, cwd=cwd, stdout=subprocess.PIPE, stderr=subprocess.STDOUT, text=True, timeout=timeout, env=env)
        return p.returncode, p.stdout
    except subprocess.TimeoutExpired:
        return 124, "timeout"

def code_region(lines):
    """indices of lines outside `#[cfg(test)] mod …` (to end of file) and outside comments"""
    end = len(lines)
    for i, l in enumerate(lines):
        if l.strip() == "#[cfg(test)]" and i + 1 < len(lines) and lines[i + 1].strip().startswith("mod "):
            end = i; break
    return [i for i in range(end) if not lines[i].strip().startswith("//") and lines[i].strip()]

def candidates(path, lines):
    out = []
    idx = code_region(lines)
    for i in idx:
        l = lines[i]; st = l.strip()
        # 1. delete a call statement
        if re.match(r"^[A-Za-z_][\w\.:\[\]&\*<>]*(\(.*\))+;$", st) and not st.startswith(("let ", "return", "use ", "pub ", "type ")):
            out.append((i, "delete-stmt", l, re.sub(r"\S.*$", "();", l.rstrip("\n")) + "\n"))
        # 2. negate an if condition (single line header)
        m = re.match(r"^(\s*)(\}?\s*else\s+)?if (?!let )(.+) \{$", l.rstrip("\n"))
        if m:
            out.append((i, "negate-if", l, f"{m.group(1)}{m.group(2) or ''}if !({m.group(3)}) {{\n"))
        # 3. swap a write/read twin name (first occurrence on the line; not in fn headers)
        if not re.search(r"\bfn\b", st):
            for a, b in SWAPS:
                for x, y in ((a, b), (b, a)):
                    if re.search(r"\b%s\b" % x, l):
                        out.append((i, f"swap {x}->{y}", l, re.sub(r"\b%s\b" % x, y, l, count=1)))
        # 4. boolean literals in returns / sets / bare tail expressions
        m = re.match(r"^(\s*)(return )?(true|false)(;?)$", l.rstrip("\n"))
        if m:
            out.append((i, "flip-bool", l, f"{m.group(1)}{m.group(2) or ''}{'false' if m.group(3) == 'true' else 'true'}{m.group(4)}\n"))
        if re.search(r"\.set\((true|false)\)", l):
            out.append((i, "flip-set", l, re.sub(r"\.set\((true|false)\)", lambda k: ".set(%s)" % ("false" if k.group(1) == "true" else "true"), l, count=1)))
        # 5. index arithmetic
        if re.search(r"\[0\.\.(\w+)\]", l):
            out.append((i, "range-shorter", l, re.sub(r"\[0\.\.(\w+)\]", r"[0..\1.saturating_sub(1)]", l, count=1)))
        if re.search(r"\+ 1\b", l) and "for " not in l:
            out.append((i, "drop-plus-one", l, re.sub(r" \+ 1\b", "", l, count=1)))
        # 6. then <-> then_some
        if ".then(|| " in l:
            pass
    # dedupe identical results
    seen = set(); res = []
    for c in out:
        if c[3] != c[2] and (c[0], c[3]) not in seen:
            seen.add((c[0], c[3])); res.append(c)
    return res

def gen():
    shutil.rmtree(WORK, ignore_errors=True); os.makedirs(WORK)
    subprocess.run(f"git -C /repo archive HEAD | tar -x -C {WORK}", shell=True, check=True)
    env = dict(os.environ, CARGO_NET_OFFLINE="true", CARGO_TARGET_DIR=os.path.join(WORK, "target"))
    rc, out = sh(["cargo", "test", "--lib", "--offline", "-q"], cwd=WORK, timeout=900, env=env)
    assert rc == 0, out[-2000:]
    os.makedirs(OUT, exist_ok=True)
    files = sorted(glob.glob(os.path.join(WORK, "src", "**", "*.rs"), recursive=True))
    n_try = n_keep = 0
    log = open(os.path.join(WORK, "gen.log"), "w")
    clock = [time.time() + 10]
    def put(path, text):
        # cargo decides by mtime: every write gets a strictly later one
        open(path, "w").write(text)
        clock[0] += 2
        os.utime(path, (clock[0], clock[0]))
    for f in files:
        rel = os.path.relpath(f, WORK)
        lines = open(f).read().splitlines(keepends=True)
        for (i, op, before, after) in candidates(rel, lines):
            n_try += 1
            mut = list(lines); mut[i] = after
            put(f, "".join(mut))
            t0 = time.time()
            rc, out = sh(["cargo", "test", "--lib", "--offline", "-q"], cwd=WORK, timeout=60, env=env)
            verdict = "kept" if rc == 0 else ("timeout" if rc == 124 else ("no-compile" if "error[" in out or "error:" in out and "test result" not in out else "tests-fail"))
            print(f"{rel}:{i+1} {op}: {verdict} ({time.time()-t0:.0f}s)", file=log, flush=True)
            if rc == 0:
                mid = "x" + hashlib.sha1(f"{rel}:{i}:{after}".encode()).hexdigest()[:8]
                d = os.path.join(OUT, mid); os.makedirs(d, exist_ok=True)
                # a unified diff relative to the repo root
                import difflib
                ud = "".join(difflib.unified_diff(lines, mut, fromfile="a/" + rel, tofile="b/" + rel, n=3))
                open(os.path.join(d, "patch.diff"), "w").write(ud)
                json.dump(dict(file=rel, line=i + 1, operator=op, before=before.strip(), after=after.strip()), open(os.path.join(d, "meta.json"), "w"), indent=1)
                n_keep += 1
            put(f, "".join(lines))
    print(f"{n_try} candidates, {n_keep} kept (compile + unit tests pass)")

ORDER = ["C03", "C05", "C12", "C04", "C13", "C02", "C10", "C11", "C06", "C09", "C08", "C01", "C07", "C17", "C16", "C14", "C15"]
# the checks whose families exercise a file, most discriminating first (a survivor of these is
# triaged by hand; `run --all` uses ORDER)
BY_FILE = [("collection/utils.rs", ["C03", "C05", "C12", "C04", "C13", "C08", "C10", "C02"]),
           ("collection/retry.rs", ["C03", "C05", "C12", "C04", "C13", "C09", "C02"]),
           ("collection/", ["C03", "C05", "C04", "C08", "C07", "C16", "C02"]),
           ("poisonable/", ["C10", "C11", "C03", "C05", "C12", "C04"]),
           ("key.rs", ["C06", "C03", "C14"]),
           ("", ["C03", "C05", "C12", "C04", "C13", "C02", "C06", "C17"])]
def order_for(path):
    for k, v in BY_FILE:
        if k in path: return v

ALL = False
def run(ids):
    global ALL
    if ids and ids[0] == "--all":
        ALL = True; ids = ids[1:]
    resfile = os.path.join(OUT, "RESULTS.json")
    results = json.load(open(resfile)) if os.path.exists(resfile) else {}
    ids = ids or sorted(os.path.basename(p) for p in glob.glob(os.path.join(OUT, "x*")))
    assert subprocess.run(["git", "-C", "/repo", "status", "--porcelain", "--untracked-files=no"], capture_output=True, text=True).stdout.strip() == "", "/repo not clean"
    for mid in ids:
        if mid in results and results[mid].get("verdict", "").startswith("caught"):
            continue
        patch = os.path.join(OUT, mid, "patch.diff")
        if subprocess.run(["git", "-C", "/repo", "apply", "--check", patch], capture_output=True).returncode != 0:
            print(mid, "does not apply"); continue
        saved = {}
        for pid in ORDER:
            evf = os.path.join(ROOT, "evidence", pid + ".json")
            saved[pid] = open(evf).read() if os.path.exists(evf) else None
        subprocess.run(["git", "-C", "/repo", "apply", patch], check=True)
        t0 = time.time(); verdict = "SURVIVED"; line = ""; ran = []
        meta = json.load(open(os.path.join(OUT, mid, "meta.json")))
        env = dict(os.environ, HLV_NO_WIDEN="1")
        try:
            for pid in (ORDER if ALL else order_for(meta["file"])):
                p = subprocess.run([os.path.join(ROOT, "check"), pid, "--tier", "quick"], capture_output=True, text=True, cwd=ROOT, timeout=3600, env=env)
                ran.append(pid)
                viol = [l for l in p.stdout.splitlines() if l.startswith("VIOLATION")]
                if viol:
                    verdict = "caught by " + pid + (" (no-failing-input-found)" if viol[0].endswith("no-failing-input-found") else "")
                    line = viol[0]; break
                if p.returncode not in (0, 1):
                    verdict = f"check error {pid} rc={p.returncode}"; line = (p.stdout.strip().splitlines() or [""])[-1][:200]; break
        finally:
            subprocess.run(["git", "-C", "/repo", "checkout", "--", "."], check=True)
            for pid, txt in saved.items():
                if txt is not None:
                    open(os.path.join(ROOT, "evidence", pid + ".json"), "w").write(txt)
        results[mid] = dict(verdict=verdict, violation=line[:200], checks_run=ran, wall_s=round(time.time() - t0), **meta)
        print(mid, meta["file"], meta["line"], meta["operator"], "->", verdict, flush=True)
        json.dump(results, open(resfile, "w"), indent=1, sort_keys=True)

def report():
    results = json.load(open(os.path.join(OUT, "RESULTS.json")))
    n = len(results); s = [k for k, v in results.items() if v["verdict"] == "SURVIVED"]
    print(f"{n} mutants run, {n - len(s)} caught, {len(s)} survived")
    for k in s:
        v = results[k]; print(f"  {k} {v['file']}:{v['line']} {v['operator']}\n      - {v['before']}\n      + {v['after']}")

if __name__ == "__main__":
    cmd = sys.argv[1] if len(sys.argv) > 1 else "report"
    {"gen": gen, "run": lambda: run(sys.argv[2:]), "report": report}[cmd]()
