#!/usr/bin/env python3
"""run_seeds.py [seed-id ...] — applies each seeded change to /repo, runs the quick check of the
property it breaks, undoes the change, and records whether the check raised a VIOLATION."""
import sys, os, json, subprocess, glob, time
ROOT = os.path.dirname(os.path.dirname(os.path.abspath(__file__)))
manifest = json.load(open(os.path.join(ROOT, "MANIFEST.json")))
claimed = {c["property_id"] for c in manifest["checks"]}
ids = sys.argv[1:] or sorted(os.path.basename(p) for p in glob.glob(os.path.join(ROOT, "seeded", "*-m*")))
resfile = os.path.join(ROOT, "seeded", "RESULTS.json")
results = json.load(open(resfile)) if os.path.exists(resfile) else {}
assert subprocess.run(["git", "-C", "/repo", "status", "--porcelain", "--untracked-files=no"], capture_output=True, text=True).stdout.strip() == "", "/repo not clean"
for sid in ids:
    d = os.path.join(ROOT, "seeded", sid)
    meta = json.load(open(os.path.join(d, "meta.json")))
    pid = meta["property"]
    if pid not in claimed:
        print(f"{sid}: property {pid} not claimed yet, skipped"); continue
    if subprocess.run(["git", "-C", "/repo", "apply", "--check", os.path.join(d, "patch.diff")], capture_output=True).returncode != 0:
        print(f"{sid}: patch does not apply to the current /repo HEAD ({meta.get('applies_to', 'unknown reason')}); kept result: {results.get(sid, {}).get('verdict')}")
        continue
    # the evidence file must keep describing the unchanged tree: save it, restore it afterwards
    evf = os.path.join(ROOT, "evidence", pid + ".json")
    saved_ev = open(evf).read() if os.path.exists(evf) else None
    subprocess.run(["git", "-C", "/repo", "apply", os.path.join(d, "patch.diff")], check=True)
    t0 = time.time()
    try:
        p = subprocess.run([os.path.join(ROOT, "check"), pid, "--tier", "quick"], capture_output=True, text=True, cwd=ROOT, timeout=3600)
        out = p.stdout.strip().splitlines()
        viol = [l for l in out if l.startswith("VIOLATION")]
        kind = "missed"
        if p.returncode == 1 and viol:
            kind = "caught (no-failing-input-found)" if viol[0].endswith("no-failing-input-found") else "caught with replay"
        elif p.returncode not in (0, 1):
            kind = f"check error rc={p.returncode}"
        results[sid] = dict(property=pid, verdict=kind, line=(viol[0] if viol else (out[-1] if out else "")), wall_s=round(time.time() - t0, 1))
    finally:
        subprocess.run(["git", "-C", "/repo", "checkout", "--", "."], check=True)
        if saved_ev is not None:
            open(evf, "w").write(saved_ev)
    print(sid, results[sid]["verdict"], "|", results[sid]["line"][:150])
json.dump(results, open(resfile, "w"), indent=1, sort_keys=True)
