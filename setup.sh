#!/bin/bash
# Offline build of the whole framework from files on disk.
set -e
cd "$(dirname "$0")"
export CARGO_NET_OFFLINE=true
export CARGO_TARGET_DIR="$PWD/.build/cargo"
mkdir -p .build
(cd lean && lake build HLV hlv-driver)
(cd harness && cargo build --release --offline)
[ -d translator ] && (cd translator && cargo build --release --offline) || true
echo "setup ok"
