#!/bin/bash
# Offline build of the whole framework from files on disk.
set -e
cd "$(dirname "$0")"
export CARGO_NET_OFFLINE=true
export CARGO_TARGET_DIR="$PWD/.build/cargo"
mkdir -p .build
(cd translator && CARGO_TARGET_DIR="$PWD/../.build/cargo-translator" cargo build --release --offline)
.build/cargo-translator/release/hlv-translator /repo/src lean/HLV/Generated/Facts.lean
(cd lean && lake build HLV hlv-driver HLV.Static.Report)
(cd harness && cargo build --release --offline)
echo "setup ok"
